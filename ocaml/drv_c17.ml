open Model
open Drv_common

(* ---------- C17: kinds addr, endpoint, tls ---------- *)
let str_of_bytes (l : n list) : string =
  let b = Buffer.create 32 in
  List.iter (fun x -> Buffer.add_char b (Char.chr ((int_of_n x) land 255))) l;
  Buffer.contents b
let txt (l : n list) : string = if l = [] then "-" else str_of_bytes l
let hexf f k = match fld_opt f k with Some v -> bytes_of_hex v | None -> []

let run_addr (parts : string list) : string =
  let f = fields parts in
  let a = hexf f "a" and b = hexf f "b" and c = hexf f "c" in
  match fld f "fn" with
  | "trim" -> "r=" ^ hex_of_bytes (try_trim_brackets a)
  | "dial" -> "r=" ^ hex_of_bytes (get_dial_addr a b c)
  | "rmport" -> "r=" ^ hex_of_bytes (try_remove_port a)
  | "split" -> let (h, p) = try_split_host_port a in "h=" ^ hex_of_bytes h ^ " p=" ^ hex_of_bytes p
  | "net" -> (match network_of a with NUnix -> "r=unix" | NTcp -> "r=tcp" | NUdp -> "r=udp")
  | _ -> failwith "addr: unknown fn"

let run_endpoint (parts : string list) : string =
  let f = fields parts in
  let url = hexf f "url" and da = hexf f "da" in
  let listen = fld f "listen" and san = fld f "san" in
  let snivis = fld f "snivis" = "1" in
  match endpoint_of url da with
  | Ok ep ->
    let served = listen <> "none" in
    let tls = (match ep.ep_sni with Some _ -> true | None -> false) in
    let quic_like = (match ep.ep_net, ep.ep_scheme with NUdp, SUdp -> false | NUdp, _ -> true | _ -> false) in
    let net = (match ep.ep_net with NUdp -> "udp" | NTcp -> "tcp" | NUnix -> "unix") in
    let dial = if quic_like && not served then "-" else txt ep.ep_dial in
    let sni_txt = (match ep.ep_sni with Some s -> str_of_bytes s | None -> "") in
    let hs = if served && tls then (if sni_txt = san then "ok" else "fail") else "-" in
    let sni = if served && tls && snivis then (if sni_txt = "" then "-" else sni_txt) else "-" in
    let host = (match ep.ep_host with Some h when served && hs <> "fail" -> txt h | _ -> "-") in
    let x = if served && hs <> "fail" then "ok" else "fail" in
    (* protocol major of the request that carries the Host / :authority: plain http and an h1-only https server
       speak HTTP/1.1, https negotiates h2, h3 is HTTP/3 *)
    let hv = if host = "-" then "-" else
        (match ep.ep_scheme, ep.ep_h3 with
         | SHttp, _ -> "1"
         | SHttps, true -> "3"
         | SHttps, false -> if fld_opt f "h1" = Some "1" then "1" else "2"
         | _ -> "-") in
    Printf.sprintf "new=ok net=%s dial=%s sni=%s hs=%s host=%s hv=%s x=%s" net dial sni hs host hv x
  | Err _ -> "new=err"
  | Panic -> "PANIC!"
  | OutOfFuel -> "HANG"

let cert_kind_of (s : string) : cert_kind option =
  match s with
  | "valid" -> Some CValid | "wrongname" -> Some CWrongName | "unknownca" -> Some CUnknownCA
  | "expired" -> Some CExpired | "selfsigned" -> Some CSelfSigned | "absent" -> None
  | "sysroot" -> Some CSysRoot | "sysrootwrongname" -> Some CSysRootWrongName
  | _ -> failwith "tls: unknown certificate kind"

let run_tls (parts : string list) : string =
  let f = fields parts in
  let b k = fld f k = "1" in
  let o = { o_ca = b "ca"; o_cert_key = b "ck"; o_insecure = b "ins"; o_verify_client = b "vc" } in
  let peer = cert_kind_of (fld f "peer") in
  match fld f "role" with
  | "up" ->
    if not (tls_upstream_starts o) then "start=err x=fail"
    else if tls_upstream_case_req o peer (b "srvreq") then "start=ok x=ok" else "start=ok x=fail"
  | _ ->
    if not (tls_listener_starts o) then "start=err served=0"
    else if tls_listener_case o peer then "start=ok served=1" else "start=ok served=0"

(* kind sockets: the SET of (network, address) pairs of every socket the upstream may open (ep_sockets) *)
let run_sockets (parts : string list) : string =
  let f = fields parts in
  let url = hexf f "url" and da = hexf f "da" in
  match endpoint_of url da with
  | Ok ep ->
    let one (nw, a) = (match nw with NUdp -> "udp" | NTcp -> "tcp" | NUnix -> "unix") ^ "/" ^ txt a in
    let l = List.sort_uniq compare (List.map one (ep_sockets ep)) in
    Printf.sprintf "new=ok socks=%s stray=0" (String.concat "," l)
  | Err _ -> "new=err"
  | Panic -> "PANIC!"
  | OutOfFuel -> "HANG"

(* kind tlscfg: makeTlsConfig field by field *)
let run_tlscfg (parts : string list) : string =
  let f = fields parts in
  let b k = fld f k = "1" in
  let o = { o_ca = b "ca"; o_cert_key = b "ck"; o_insecure = b "ins"; o_verify_client = b "vc" } in
  let pool p = (match p with SystemRoots -> "system" | ConfiguredCA -> "configured") in
  match tls_config_view o (b "rc") with
  | None -> "cfg=err"
  | Some ((((ins, roots), has_cert), auth), cas) ->
    Printf.sprintf "cfg=ok ins=%d roots=%s cert=%d auth=%s cas=%s" (if ins then 1 else 0) (pool roots)
      (if has_cert then 1 else 0)
      (match auth with
       | NoClientCert -> "none" | RequestClientCert -> "request" | RequireAnyClientCert -> "requireany"
       | VerifyClientCertIfGiven -> "verifyifgiven" | RequireAndVerifyClientCert -> "requireandverify")
      (match cas with None -> "none" | Some p -> pool p)

(* kind upcfg: the router's mapping config entry -> upstream (upc_init_upstream), one exchange *)
let run_upcfg (parts : string list) : string =
  let f = fields parts in
  let b k = fld f k = "1" in
  let url = hexf f "url" and da = hexf f "da" in
  let o = { o_ca = b "ca"; o_cert_key = b "ck"; o_insecure = b "ins"; o_verify_client = false } in
  let peer = (match fld f "peer" with "-" -> None | s -> cert_kind_of s) in
  match upc_case url da o peer (b "srvreq") with
  | None -> "start=err"
  | Some ((ok, tls), dial) ->
    (* the Host / :authority of the DoH request the server receives: ep_host of the upstream the router builds *)
    let host = (match upc_init_upstream { upc_tag = upc_tag_u; upc_addr = url; upc_dial_addr = da; upc_tls = o } with
                | Ok u -> (match u.uu_ep.ep_host with Some h when ok -> txt h | _ -> "-")
                | _ -> "-") in
    Printf.sprintf "start=ok dial=%s host=%s x=%s || spec=ok tls=%d" (txt dial) host (if ok then "ok" else "fail") (if tls then 1 else 0)

let () = register "upcfg" run_upcfg
(* kind uprouter: several entries in one router (upr_init_router); split=j > 0: two routers *)
let bytes_of_str (s : string) : n list = List.init (String.length s) (fun i -> n_of_int (Char.code s.[i]))

let run_uprouter (parts : string list) : string =
  let f = fields parts in
  let n = int_of_string (fld f "n") in
  let split = (match fld_opt f "split" with Some v -> int_of_string v | None -> 0) in
  let entry i =
    let g k = fld f (k ^ string_of_int i) in
    let b k = g k = "1" in
    let o = { o_ca = b "ca"; o_cert_key = b "ck"; o_insecure = b "ins"; o_verify_client = false } in
    let peer = (match g "peer" with "-" -> None | s -> cert_kind_of s) in
    let c = { upc_tag = bytes_of_str (g "tag"); upc_addr = hexf f ("url" ^ string_of_int i);
              upc_dial_addr = hexf f ("da" ^ string_of_int i); upc_tls = o } in
    (c, (peer, b "srvreq")) in
  let rec range a b = if a >= b then [] else a :: range (a + 1) b in
  let groups = if split > 0 && split < n then [range 0 split; range split n] else [range 0 n] in
  let results = List.map (fun idx -> (idx, upr_case (List.map entry idx))) groups in
  if List.exists (fun (_, r) -> r = None) results then "start=err"
  else
    let one (idx, r) =
      (match r with
       | Some vs ->
         String.concat "" (List.map2 (fun i (ok, dial) ->
           Printf.sprintf " d%d=%s x%d=%s" i (txt dial) i (if ok then "ok" else "fail")) idx vs)
       | None -> "") in
    "start=ok" ^ String.concat "" (List.map one results)

let () = register "uprouter" run_uprouter
(* kind lsrouter: several TLS listeners in one router (lsr_case) *)
let run_lsrouter (parts : string list) : string =
  let f = fields parts in
  let n = int_of_string (fld f "n") in
  let rec range a b = if a >= b then [] else a :: range (a + 1) b in
  let entry i =
    let g k = fld f (k ^ string_of_int i) in
    ({ o_ca = g "ca" = "1"; o_cert_key = true; o_insecure = false; o_verify_client = g "vc" = "1" },
     cert_kind_of (g "peer")) in
  match lsr_case (List.map entry (range 0 n)) with
  | None -> "start=err"
  | Some vs -> "start=ok" ^ String.concat "" (List.mapi (fun i v -> Printf.sprintf " s%d=%d" i (if v then 1 else 0)) vs)

let () = register "lsrouter" run_lsrouter
(* kind uphistory: several entries, ONE server, a sequence of exchanges (upr_history_case, no resumption state) *)
let run_uphistory (parts : string list) : string =
  let f = fields parts in
  let n = int_of_string (fld f "n") in
  let split = (match fld_opt f "split" with Some v -> int_of_string v | None -> 0) in
  let srv = fld f "srv" in
  let path = if srv = "https" || srv = "h3" then "/dns-query" else "" in
  let entry i =
    let g k = fld f (k ^ string_of_int i) in
    let o = { o_ca = g "ca" = "1"; o_cert_key = false; o_insecure = g "ins" = "1"; o_verify_client = false } in
    { upc_tag = bytes_of_str ("u" ^ string_of_int i);
      upc_addr = bytes_of_str (g "st" ^ "://" ^ fld f "name" ^ ":61234" ^ path);
      upc_dial_addr = bytes_of_str "127.0.0.1:61234"; upc_tls = o } in
  let rec range a b = if a >= b then [] else a :: range (a + 1) b in
  let groups = if split > 0 && split < n then [range 0 split; range split n] else [range 0 n] in
  let steps = List.map (fun s -> nat_of_int (int_of_string s)) (String.split_on_char ',' (fld f "steps")) in
  match upr_history_case SessNone (List.map (List.map entry) groups) steps (cert_kind_of (fld f "peer")) with
  | None -> "start=err"
  | Some vs -> "start=ok" ^ String.concat "" (List.mapi (fun i v -> Printf.sprintf " t%d=%s" i (if v then "ok" else "fail")) vs)

(* kind resolve: the dial target is a NAME, resolved per connection (rs_case) *)
let run_resolve (parts : string list) : string =
  let f = fields parts in
  let url = hexf f "url" and da = hexf f "da" in
  let name = bytes_of_str (fld f "name") in
  let a1 = bytes_of_str "127.0.0.1" and a2 = bytes_of_str "127.0.0.2" in
  let scen = fld f "scen" in
  let table (k : nat) : n list list =
    let k = int_of_nat k in
    (match scen with
     | "move" -> if k <= 1 then [a1] else [a2]
     | "late" -> if k = 0 then [] else [a1]
     | _ -> [a2; a1]) in
  let letter t =
    let s = str_of_bytes t in
    if String.length s > 10 && String.sub s 0 10 = "127.0.0.1:" then "a"
    else if String.length s > 10 && String.sub s 0 10 = "127.0.0.2:" then "b" else "?" in
  let at k =
    (match rs_case url da name table (nat_of_int k) with
     | Some [t] -> letter t
     | Some (_ :: _ :: _) -> "in"
     | _ -> "-") in
  match rs_case url da name table (nat_of_int 0) with
  | None -> "new=err"
  | Some _ ->
    let one k = let a = at k in Printf.sprintf " x%d=%s at%d=%s" k (if a = "-" then "fail" else "ok") k a in
    "new=ok" ^ one 1 ^ (if scen = "move" then one 2 else "")

let () = register "uphistory" run_uphistory
let () = register "resolve" run_resolve
(* kind sockopts: controlSocket per network (sko_control) *)
let run_sockopts (parts : string list) : string =
  let f = fields parts in
  let ni k = n_of_int (int_of_string (fld f k)) in
  let nw = fld f "net" in
  let net = (match nw with "tcp4" -> SkoTcp4 | "tcp6" -> SkoTcp6 | "udp4" -> SkoUdp4 | "udp6" -> SkoUdp6
                         | _ -> failwith "sockopts: net") in
  let o = { sko_reuseport = fld f "rp" = "1"; sko_rcvbuf = ni "rcv"; sko_sndbuf = ni "snd"; sko_mark = ni "mark";
            sko_dev = (match fld f "dev" with "-" -> [] | d -> bytes_of_str d); sko_utimeout = ni "ut" } in
  let role = fld f "role" in
  let a = if role = "rlisten" || role = "rupstream" then sko_router_control o net else sko_control o net in
  let on = (function Some v -> string_of_int (int_of_n v) | None -> "-") in
  Printf.sprintf "ctl=ok nw=%s mark=%s dev=%s rp=%d rcv=%s snd=%s ut=%s" nw
    (match a.ska_mark with Some v -> string_of_int (int_of_n v) | None -> "0")
    (match a.ska_dev with Some d -> str_of_bytes d | None -> "-")
    (if a.ska_reuseport then 1 else 0) (on a.ska_rcvbuf) (on a.ska_sndbuf) (on a.ska_utimeout)

let () = register "sockopts" run_sockopts
(* kind dohredir: one request per exchange, status 200 or failure (doh_case) *)
let run_dohredir (parts : string list) : string =
  let f = fields parts in
  let srv = fld f "srv" in
  let loc = (match fld f "loc" with "none" -> None | l -> Some (bytes_of_str l)) in
  let (ok, reqs) = doh_case (n_of_int (int_of_string (fld f "code"))) loc in
  Printf.sprintf "new=ok x=%s reqs=%d conns=1 extra=0 hosts=doh.c17p.test:61234 snis=%s" (if ok then "ok" else "fail")
    (int_of_nat reqs) (if srv = "http" then "-" else "doh.c17p.test")

let () = register "dohredir" run_dohredir
let () = register "addr" run_addr
let () = register "sockets" run_sockets
let () = register "tlscfg" run_tlscfg
let () = register "endpoint" run_endpoint
let () = register "tls" run_tls
