(* drv_common — shared glue of modelrun.
   modelrun: runs the extracted Coq model on the same case lines as implrun and prints
     R <id> <result>
   Hand-written glue (trusted): parsing of case lines, conversion int <-> N/nat, printing. *)
open Model

(* ---------- conversions ---------- *)
let rec pos_of_int (i : int) : positive =
  if i = 1 then XH else if i land 1 = 1 then XI (pos_of_int (i lsr 1)) else XO (pos_of_int (i lsr 1))
let n_of_int (i : int) : n = if i = 0 then N0 else Npos (pos_of_int i)
let rec int_of_pos (p : positive) : int =
  match p with XH -> 1 | XO q -> 2 * int_of_pos q | XI q -> 2 * int_of_pos q + 1
let int_of_n (x : n) : int = match x with N0 -> 0 | Npos p -> int_of_pos p
let rec nat_of_int (i : int) : nat = if i <= 0 then O else S (nat_of_int (i - 1))
let int_of_nat (x : nat) : int = let rec go acc = function O -> acc | S m -> go (acc + 1) m in go 0 x

let bytes_of_hex (s : string) : n list =
  if s = "-" || s = "" then [] else begin
    let l = String.length s / 2 in
    let rec go i acc = if i < 0 then acc else go (i - 1) (n_of_int (int_of_string ("0x" ^ String.sub s (2 * i) 2)) :: acc) in
    go (l - 1) []
  end
let hex_of_bytes (l : n list) : string =
  if l = [] then "-" else begin
    let b = Buffer.create 64 in
    List.iter (fun x -> Buffer.add_string b (Printf.sprintf "%02x" (int_of_n x))) l;
    Buffer.contents b
  end

let fields (parts : string list) : (string * string) list =
  List.filter_map (fun p -> match String.index_opt p '=' with
    | Some i -> Some (String.sub p 0 i, String.sub p (i + 1) (String.length p - i - 1))
    | None -> None) parts
let fld f k = try List.assoc k f with Not_found -> failwith ("missing field " ^ k)
let fld_opt f k = try Some (List.assoc k f) with Not_found -> None
let ifld f k = int_of_string (fld f k)


let res_class (r : 'a res) (okf : 'a -> string) : string =
  match r with Ok a -> okf a | Err _ -> "ERR" | Panic -> "PANIC!" | OutOfFuel -> "HANG"

let b2i b = if b then 1 else 0
let istr x = string_of_int (int_of_n x)
let rec pos_of_z_int (i : int) : positive = pos_of_int i
let z_of_int (i : int) : z = if i = 0 then Z0 else if i > 0 then Zpos (pos_of_int i) else Zneg (pos_of_int (- i))
let int_of_z (x : z) : int = match x with Z0 -> 0 | Zpos p -> int_of_pos p | Zneg p -> - (int_of_pos p)
let nat_list_str (l : nat list) : string = String.concat "," (List.map (fun x -> string_of_int (int_of_nat x)) l)

(* kind registry *)
let kinds : (string * (string list -> string)) list ref = ref []
let register (name : string) (fn : string list -> string) : unit = kinds := (name, fn) :: !kinds
