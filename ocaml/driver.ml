(* modelrun: runs the extracted Coq model on the same case lines as implrun and prints
     R <id> <result>
   Hand-written glue (trusted): parsing of case lines, conversion int <-> N/nat, printing. *)
open Model

(* ---------- conversions ---------- *)
let rec pos_of_int (i : int) : positive =
  if i = 1 then XH else if i land 1 = 1 then XI (pos_of_int (i lsr 1)) else XO (pos_of_int (i lsr 1))
let n_of_int (i : int) : n = if i = 0 then N0 else Npos (pos_of_int i)
let rec int_of_pos (p : positive) : int =
  match p with XH -> 1 | XO q -> 2 * int_of_pos q | XI q -> 2 * int_of_pos q + 1
let int_of_n (x : n) : int = match x with N0 -> 0 | Npos p -> int_of_pos p
let rec nat_of_int (i : int) : nat = if i <= 0 then O else S (nat_of_int (i - 1))
let int_of_nat (x : nat) : int = let rec go acc = function O -> acc | S m -> go (acc + 1) m in go 0 x

let bytes_of_hex (s : string) : n list =
  if s = "-" || s = "" then [] else begin
    let l = String.length s / 2 in
    let rec go i acc = if i < 0 then acc else go (i - 1) (n_of_int (int_of_string ("0x" ^ String.sub s (2 * i) 2)) :: acc) in
    go (l - 1) []
  end
let hex_of_bytes (l : n list) : string =
  if l = [] then "-" else begin
    let b = Buffer.create 64 in
    List.iter (fun x -> Buffer.add_string b (Printf.sprintf "%02x" (int_of_n x))) l;
    Buffer.contents b
  end

let fields (parts : string list) : (string * string) list =
  List.filter_map (fun p -> match String.index_opt p '=' with
    | Some i -> Some (String.sub p 0 i, String.sub p (i + 1) (String.length p - i - 1))
    | None -> None) parts
let fld f k = try List.assoc k f with Not_found -> failwith ("missing field " ^ k)
let fld_opt f k = try Some (List.assoc k f) with Not_found -> None
let ifld f k = int_of_string (fld f k)

(* ---------- kind: fallback (C16) ---------- *)
let run_fallback (parts : string list) : string =
  let f = fields parts in
  let udp = match fld f "udp" with
    | "plain" -> Some (false, n_of_int 1) | "tc" -> Some (true, n_of_int 12) | _ -> None in
  let tcp = match fld f "tcp" with "reply" -> Some (false, n_of_int 2) | _ -> None in
  let (r, attempts) = fb_run udp tcp in
  let res = match r with
    | None -> "ERR"
    | Some (true, _) -> "TRUNCATED"
    | Some (false, m) -> (match int_of_n m with 1 -> "U" | 2 -> "T" | _ -> "?") in
  let a = int_of_nat attempts in
  Printf.sprintf "res=%s tcpq=%d udpq=1 sameq=%s" res a (if a > 0 then "1" else "-")

(* ---------- canonical message dump (same format as harness/cmd/implrun/codec.go) ---------- *)
let b2i b = if b then 1 else 0
let istr x = string_of_int (int_of_n x)
let dump_rr (r : rr) : string =
  let hd = Printf.sprintf "%s,%s,%s,%s,%s," (hex_of_bytes r.r_name) (istr r.r_type) (istr r.r_class) (istr r.r_ttl) (istr r.r_len) in
  hd ^ (match r.r_data with
    | RA a -> "A:" ^ hex_of_bytes a
    | RAAAA a -> "AAAA:" ^ hex_of_bytes a
    | RName nm -> "N:" ^ hex_of_bytes nm
    | RSOA (ns, mb, a, b, c, d, e) -> Printf.sprintf "SOA:%s,%s,%s,%s,%s,%s,%s" (hex_of_bytes ns) (hex_of_bytes mb) (istr a) (istr b) (istr c) (istr d) (istr e)
    | RMX (p, mx) -> Printf.sprintf "MX:%s,%s" (istr p) (hex_of_bytes mx)
    | RSRV (a, b, c, t) -> Printf.sprintf "SRV:%s,%s,%s,%s" (istr a) (istr b) (istr c) (hex_of_bytes t)
    | RRaw d -> "RAW:" ^ hex_of_bytes d)
let dump_msg (m : msg) : string =
  let h = m.m_hdr in
  let hs = Printf.sprintf "H%s,%d,%s,%d,%d,%d,%d,%d,%d,%s" (istr h.h_id) (b2i h.h_resp) (istr h.h_opcode) (b2i h.h_aa)
      (b2i h.h_tc) (b2i h.h_rd) (b2i h.h_ra) (b2i h.h_ad) (b2i h.h_cd) (istr h.h_rcode) in
  let qs = String.concat ";" (List.map (fun q -> Printf.sprintf "%s,%s,%s" (hex_of_bytes q.q_name) (istr q.q_type) (istr q.q_class)) m.m_qs) in
  let sec l = String.concat ";" (List.map dump_rr l) in
  hs ^ "|Q" ^ qs ^ "|AN" ^ sec m.m_an ^ "|NS" ^ sec m.m_ns ^ "|AR" ^ sec m.m_ar

let res_class (r : 'a res) (okf : 'a -> string) : string =
  match r with Ok a -> okf a | Err _ -> "ERR" | Panic -> "PANIC!" | OutOfFuel -> "HANG"

(* ---------- kind: decode (C01) ---------- *)
let run_decode parts =
  let f = fields parts in
  let bs = bytes_of_hex (fld f "msg") in
  res_class (unpack_msg bs) (fun m -> "OK " ^ dump_msg m)

let spec_reason (ok : bool) (out : n list) : string =
  if ok then "ok" else
  match unpack_msg out with
  | Err ETooManyPtr -> "FAIL:redecode-toomanyptr"
  | Err _ -> "FAIL:redecode-err"
  | Ok _ -> "FAIL:content"
  | _ -> "FAIL:redecode-unsafe"

(* ---------- kind: pack (C02 / C09) ---------- *)
let run_pack parts =
  let f = fields parts in
  let bs = bytes_of_hex (fld f "msg") in
  let c = fld f "c" = "1" in
  let size = ifld f "size" in
  match unpack_msg bs with
  | Ok m ->
    let r = pack_msg (msg_len m) c (nat_of_int size) m in
    let out = res_class r (fun o -> "OK " ^ hex_of_bytes o) in
    let spec = (match r with
      | Ok o -> spec_reason (if size = 0 then spec_pack c m o else spec_packsize c (nat_of_int size) m o) o
      | _ -> "ok") in
    out ^ " || spec=" ^ spec
  | Err _ -> "UNDECODABLE"
  | Panic -> "PANIC!" | OutOfFuel -> "HANG"

(* oracle on bytes produced by the implementation *)
let run_packspec parts =
  let f = fields parts in
  let bs = bytes_of_hex (fld f "msg") in
  let out = bytes_of_hex (fld f "out") in
  let c = fld f "c" = "1" in
  let size = ifld f "size" in
  match unpack_msg bs with
  | Ok m -> let ok = if size = 0 then spec_pack c m out else spec_packsize c (nat_of_int size) m out in
    "spec=" ^ spec_reason ok out
  | _ -> "spec=ok"

(* ---------- dispatch ---------- *)
let kinds : (string * (string list -> string)) list ref = ref [
  ("fallback", run_fallback);
  ("decode", run_decode);
  ("pack", run_pack);
  ("packspec", run_packspec);
]

let () =
  let kind = Sys.argv.(1) in
  let fn = try List.assoc kind !kinds with Not_found -> (prerr_endline ("unknown kind " ^ kind); exit 2) in
  (try
    while true do
      let line = String.trim (input_line stdin) in
      if line <> "" && line.[0] <> '#' then begin
        match String.split_on_char ' ' line |> List.filter (fun s -> s <> "") with
        | id :: rest ->
          let r = (try fn rest with e -> "MODEL-EXN " ^ Printexc.to_string e) in
          print_string ("R " ^ id ^ " " ^ r ^ "\n")
        | [] -> ()
      end
    done
  with End_of_file -> ());
  flush stdout
