(* modelrun main: dispatch on the kind given as argv[1]; kinds are registered by the drv_*.ml modules *)
open Drv_common

(* ---------- dispatch ---------- *)
let () =
  let kind = Sys.argv.(1) in
  let fn = try List.assoc kind !kinds with Not_found -> (prerr_endline ("unknown kind " ^ kind); exit 2) in
  (try
    while true do
      let line = String.trim (input_line stdin) in
      if line <> "" && line.[0] <> '#' then begin
        match String.split_on_char ' ' line |> List.filter (fun s -> s <> "") with
        | id :: rest ->
          let r = (try fn rest with e -> "MODEL-EXN " ^ Printexc.to_string e) in
          print_string ("R " ^ id ^ " " ^ r ^ "\n")
        | [] -> ()
      end
    done
  with End_of_file -> ());
  flush stdout
