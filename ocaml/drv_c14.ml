open Model
open Drv_common

(* ---------- kind: faults (C14) ----------
   case:   tr=<udp|tcp|tcpp|tls|tlsp|doh|doq> pool=<tok,..|-> dial=<tok,..|-> dl=<ms>
   result: res=<REPLY|ERR> dials=<n|-> att=<n> when=<early|dl> late=0 || spec=<ok|FAIL:..>
   The tokens are mapped to the model's [sfault]; everything else (abstraction per transport, the scripted run) is
   the extracted Coq [run_case]. *)
let c14_tok = function
  | "ok" -> SOk | "refuse" -> SRefuse | "blackhole" -> SBlackhole
  | "efin" -> SEarlyFin | "erst" -> SEarlyRst
  | "silent" -> SSilent | "half" -> SHalf | "garbage" -> SGarbage | "fin" -> SFin | "rst" -> SRst
  | "ifin" -> SIdleFin | "irst" -> SIdleRst | "igarb" -> SIdleGarbage | "idown" -> SIdleDown | "werr" -> SWriteErr
  | s -> failwith ("unknown fault token " ^ s)

let c14_toks s =
  if s = "-" || s = "" then [] else List.map c14_tok (String.split_on_char ',' s)

let c14_tr = function
  | "udp" -> (TPipe, true) | "tcpp" | "tlsp" | "pfake" -> (TPipe, false)
  | "tcp" | "tls" -> (TReuse, false)
  | "doh" -> (TDoH, false) | "doq" -> (TQuic, false)
  | s -> failwith ("unknown transport " ^ s)

let run_faults (parts : string list) : string =
  let f = fields parts in
  let tr = fld f "tr" in
  let (tk, udp) = c14_tr tr in
  let pool = c14_toks (fld f "pool") and dial = c14_toks (fld f "dial") in
  (* idle=<ms>: the transport's idle time-out is known; the pipelined read loop's idle deadline kills a silent
     connection before an exchange deadline that lies beyond it *)
  let r = (match fld_opt f "idle" with
    | Some i -> run_case_idle tk udp (2 * int_of_string i <= ifld f "dl") pool dial
    | None -> run_case tk udp pool dial) in
  match r with
  | None -> "MODEL-STUCK"
  | Some o ->
    let cls = (match o.o_class with RReply -> "REPLY" | RErr -> "ERR") in
    let dials = if tr = "doh" || tr = "doq" then "-" else string_of_int (int_of_nat o.o_dials) in
    let spec =
      if must_succeed tk udp pool dial && o.o_class <> RReply then "FAIL:c14-healthy-server-not-reached"
      else if int_of_nat o.o_attempts > int_of_nat (retry_limit tk) + 1 then "FAIL:c14-retry-bound"
      else "ok" in
    Printf.sprintf "res=%s dials=%s att=%d when=%s late=0 || spec=%s" cls dials (int_of_nat o.o_attempts)
      (if o.o_ctx then "dl" else "early") spec

let () = register "faults" run_faults
