open Model
open Drv_common

(* ---------- kind: faults (C14) ----------
   case:   tr=<udp|tcp|tcpp|tls|tlsp|doh|doq> pool=<tok,..|-> dial=<tok,..|-> dl=<ms>
   result: res=<REPLY|ERR> dials=<n|-> att=<n> when=<early|dl> late=0 || spec=<ok|FAIL:..>
   The tokens are mapped to the model's [sfault]; everything else (abstraction per transport, the scripted run) is
   the extracted Coq [run_case]. *)
let c14_tok = function
  | "ok" -> SOk | "refuse" -> SRefuse | "blackhole" -> SBlackhole
  | "efin" -> SEarlyFin | "erst" -> SEarlyRst
  | "silent" -> SSilent | "half" -> SHalf | "garbage" -> SGarbage | "fin" -> SFin | "rst" -> SRst
  | "ifin" -> SIdleFin | "irst" -> SIdleRst | "igarb" -> SIdleGarbage | "idown" -> SIdleDown | "werr" -> SWriteErr
  | s -> failwith ("unknown fault token " ^ s)

let c14_toks s =
  if s = "-" || s = "" then [] else List.map c14_tok (String.split_on_char ',' s)

let c14_tr = function
  | "udp" -> (TPipe, true) | "tcpp" | "tlsp" | "pfake" -> (TPipe, false)
  | "tcp" | "tls" -> (TReuse, false)
  | "doh" -> (TDoH, false) | "doq" -> (TQuic, false)
  | s -> failwith ("unknown transport " ^ s)

let run_faults (parts : string list) : string =
  let f = fields parts in
  let tr = fld f "tr" in
  let (tk, udp) = c14_tr tr in
  let pool = c14_toks (fld f "pool") and dial = c14_toks (fld f "dial") in
  (* idle=<ms>: the transport's idle time-out is known; the pipelined read loop's idle deadline kills a silent
     connection before an exchange deadline that lies beyond it *)
  let r = (match fld_opt f "idle" with
    | Some i -> run_case_idle tk udp (2 * int_of_string i <= ifld f "dl") pool dial
    | None -> run_case tk udp pool dial) in
  match r with
  | None -> "MODEL-STUCK"
  | Some o ->
    let cls = (match o.o_class with RReply -> "REPLY" | RErr -> "ERR") in
    let dials = if tr = "doh" || tr = "doq" then "-" else string_of_int (int_of_nat o.o_dials) in
    let spec =
      if must_succeed tk udp pool dial && o.o_class <> RReply then "FAIL:c14-healthy-server-not-reached"
      else if int_of_nat o.o_attempts > int_of_nat (retry_limit tk) + 1 then "FAIL:c14-retry-bound"
      else "ok" in
    Printf.sprintf "res=%s dials=%s att=%d when=%s late=0 || spec=%s" cls dials (int_of_nat o.o_attempts)
      (if o.o_ctx then "dl" else "early") spec

let () = register "faults" run_faults

(* ---------- kind: outage (C14, round 2) ----------
   case:   tr=<udp|tcp|tcpp|tls|tlsp|doh|doq|sudp|stcpp|stcp|sdoq> warm=<k> down=<refuse|hsfail|rwfail|rwboth>
           conc=<n> reps=<r> dl=<ms> after=<m> adl=<ms>
   result: burst=<ERR|REPLY|MIXED|HANG> after=<R|E|H ...> nd=<n|-> || spec=<ok|FAIL:..>
   Pooled transports: every exchange is a run of the exchange LTS ([run_case]) from what its predecessors left in the
   pool; QUIC: the whole sequence is one execution of the shared-dial LTS ([sdq_big]); all inside the extracted
   [og_session].  [og_spec] is the property's expectation (C14_outage_sessions_recover). *)
let og_tr = function
  | "udp" | "sudp" -> (TPipe, true, false)
  | "tcpp" | "stcpp" -> (TPipe, false, false)
  | "tlsp" -> (TPipe, false, true)
  | "tcp" | "stcp" -> (TReuse, false, false)
  | "tls" -> (TReuse, false, true)
  | "doh" -> (TDoH, false, true)
  | "doq" | "sdoq" -> (TQuic, false, true)
  | s -> failwith ("outage: unknown transport " ^ s)

let run_outage (parts : string list) : string =
  let f = fields parts in
  let tr = fld f "tr" in
  let (tk, udp, hs) = og_tr tr in
  let down = (match fld f "down" with
    | "refuse" -> OgRefuse | "hsfail" -> OgHsFail | "rwfail" | "rwboth" -> OgRwFail
    | s -> failwith ("outage: unknown outage mode " ^ s)) in
  (* a real quic:// upstream dials from an unconnected socket: a closed port is silence, the dial stays in flight *)
  let hang = (tr = "doq" && down = OgRefuse) in
  let conc = ifld f "conc" * (match fld_opt f "reps" with Some r -> int_of_string r | None -> 1) in
  let after = ifld f "after" in
  match og_session tk udp hs hang (nat_of_int (ifld f "warm")) down (nat_of_int conc) (nat_of_int after) with
  | None -> "MODEL-STUCK"
  | Some e ->
    let cls l =
      if l = [] then "-"
      else if List.for_all (fun x -> x = Some false) l then "ERR"
      else if List.for_all (fun x -> x = Some true) l then "REPLY"
      else if List.exists (fun x -> x = None) l then "HANG" else "MIXED" in
    let each l = if l = [] then "-" else String.concat "" (List.map (function Some true -> "R" | Some false -> "E" | None -> "H") l) in
    let known = og_nd_known tk hang in
    Printf.sprintf "burst=%s late=0 after=%s nd=%s || spec=%s" (cls e.oe_burst) (each e.oe_after)
      (if known && after > 0 then string_of_int (int_of_nat e.oe_newdials) else "-")
      (if og_spec known (nat_of_int after) e then "ok" else "FAIL:c14-outage-not-recovered")

let () = register "outage" run_outage

(* ---------- kind: connlock (C14, round 2) ----------
   case:   eol=<0|1> g=<op,op,..>;<op,..>;...      op = close | status | getq | reserve | add | del
   result: done=<k>/<n> closed=<0|1> ctx=<0|1> final=<ok|BLOCKED> || spec=<ok|FAIL:..>
   The goroutines run their operations on ONE real pipelineConn; the model is the extracted [cl_case] (Net/ConnLock.v)
   with the read loop as an extra goroutine that closes too once somebody closed the socket. *)
let cl_op_of = function
  | "close" -> ClClose | "status" -> ClStatus | "getq" -> ClGetQ | "reserve" -> ClReserve | "add" -> ClAdd | "del" -> ClDel
  | s -> failwith ("connlock: unknown op " ^ s)

let run_connlock (parts : string list) : string =
  let f = fields parts in
  let eol = (fld f "eol" = "1") in
  let progs = List.map (fun g -> if g = "" || g = "-" then [] else List.map cl_op_of (String.split_on_char ',' g))
      (String.split_on_char ';' (fld f "g")) in
  let reader = cl_closes eol progs in
  let o = cl_case true eol progs reader in
  let n = List.length progs in
  let total = int_of_nat o.co_total and dn = int_of_nat o.co_done in
  (* the read loop is not one of the case's goroutines *)
  let extra = if reader then 1 else 0 in
  let spec = if dn = total && o.co_free then "ok" else "FAIL:c14-conn-lock-stuck" in
  Printf.sprintf "done=%d/%d closed=%d ctx=%d final=%s || spec=%s" (dn - extra) n (b2i o.co_closed) (b2i o.co_cancel)
    (if o.co_free && dn = total then "ok" else "BLOCKED") spec

let () = register "connlock" run_connlock

(* ---------- kind: aged (C14, round 3) ----------
   case:   tr=<udp|tcp|tcpp|tls|tlsp|doh|doq> age=<ms> tick=<ms|0> n=<k>
   result: res=<ALLR|FAIL> acc=<n> || spec=..
   Stream upstreams: the extracted [dk_case] (Net/Deadline.v: the connection's deadlines as state, constants of the
   code, time in tenths of a second) on the sequence of ages of the case.  udp is the pipelined user with the one
   minute idle time-out NewUpstream pins; doh / doq connections belong to net/http / quic-go: only the property's
   expectation (healthy server, age below the idle time-out => reply on the pooled connection). *)
let run_aged (parts : string list) : string =
  let f = fields parts in
  let tr = fld f "tr" in
  let age = ifld f "age" / 100 and tick = ifld f "tick" / 100 and n = ifld f "n" in
  let ages =
    (if tick > 0 then List.init (age / tick) (fun _ -> tick) else []) @
    (if n > 0 then (if tick > 0 then age mod tick else age) :: List.init (n - 1) (fun _ -> 0) else []) in
  let nat_ages = List.map nat_of_int ages in
  let res = (match tr with
    | "tcp" -> Some (dk_case DkTcp nat_ages) | "tcpp" -> Some (dk_case DkTcpP nat_ages)
    | "tls" -> Some (dk_case DkTls nat_ages) | "tlsp" -> Some (dk_case DkTlsP nat_ages)
    | "udp" -> Some (dk_session false (nat_of_int 30) (nat_of_int 600) (nat_of_int 60) DkTcpP nat_ages)
    | _ -> None) in
  match res with
  | None -> "res=ALLR acc=0 || spec=ok"
  | Some l ->
    let later = List.tl l in
    let allr = List.for_all (fun (ok, _) -> ok) later in
    let dials = List.length (List.filter (fun (_, d) -> d) later) in
    Printf.sprintf "res=%s acc=%d || spec=%s" (if allr then "ALLR" else "FAIL") dials
      (if allr then "ok" else "FAIL:c14-aged-connection")

let () = register "aged" run_aged

(* ---------- kind: dup (C14, round 3) ----------
   case:   tr=<udp|tcpp|tlsp> k=<copies> mode=<b2b|inter> conc=<n> after=<m> dl=<ms>
   result: first=<REPLY|..> after=<R..> || spec=..
   The extracted LTS of the pipelined connection (Net/Pipeline.v, [pl_history_outcomes]): a warm-up exchange, conc
   exchanges whose replies arrive k times each in the order of the case, then the follow-ups (k copies each). *)
let run_dup (parts : string list) : string =
  let f = fields parts in
  let tcp = (fld f "tr" <> "udp") in
  let k = ifld f "k" and conc = ifld f "conc" and after = ifld f "after" in
  let inter = (fld f "mode" = "inter") in
  let tag = ref 0 in
  let reply t = incr tag; PlEvReplyTo (n_of_int t, n_of_int !tag) in
  let start t = PlEvStart (n_of_int (4096 + t)) in
  let warm = [start 0; reply 0] in
  let threads = List.init conc (fun i -> 1 + i) in
  let starts = List.map start threads in
  let replies =
    if inter then List.concat (List.init k (fun _ -> List.map reply threads))
    else List.concat (List.map (fun t -> List.init k (fun _ -> reply t)) threads) in
  let follow = List.concat (List.init after (fun j -> let t = 1 + conc + j in start t :: List.init k (fun _ -> reply t))) in
  let (outs, closed) = pl_history_outcomes tcp (n_of_int 0) (warm @ starts @ replies @ follow) in
  let ok (o, _) = (match o with PlOMsg (_, true) -> true | _ -> false) in
  let outs = Array.of_list outs in
  let first_ok = List.for_all (fun t -> ok outs.(t)) threads in
  let aft = String.concat "" (List.init after (fun j -> if ok outs.(1 + conc + j) then "R" else "E")) in
  let good = first_ok && not closed && not (String.contains aft 'E') in
  Printf.sprintf "first=%s after=%s when=early late=0 || spec=%s" (if first_ok then "REPLY" else "ERR")
    (if after = 0 then "-" else aft) (if good then "ok" else "FAIL:c14-duplicate-replies")

let () = register "dup" run_dup

(* ---------- kind: streams (C14, round 4) ----------
   case:   tr=<doq|doh|h3> m=<limit> k=<abandoned> fault=<lie|silent|nofin> conc=<0|1> dl=<ms> after=<n>
           [fin=<now|never|late|reset>] [aconc=<0|1>]
   result: bad=<E..> after=<R..> late=0 left=<n> || spec=..   (extracted [sc_case2] with the policy of the code,
           Net/Streams.v: the release step on every exit of exchangeStream) *)
let run_streams (parts : string list) : string =
  let f = fields parts in
  let answered = (match fld_opt f "fin" with
    | None | Some "now" -> SvFin | Some "never" -> SvNoFin | Some "late" -> SvLateFin | Some "reset" -> SvResetAfter
    | Some s -> failwith ("streams: unknown fin " ^ s)) in
  (* nofin (doh, h3): an HTTP message whose stream never ends is not a reply: the exchange ends at its deadline *)
  let abandoned = (match fld f "fault" with "lie" | "nofin" -> SvLie | _ -> SvSilent) in
  let ((bad, aft), left) = sc_case2 sc_code (nat_of_int (ifld f "m")) answered abandoned
      (nat_of_int (ifld f "k")) (nat_of_int (ifld f "after")) in
  let str l = String.concat "" (List.map (fun b -> if b then "R" else "E") l) in
  Printf.sprintf "bad=%s after=%s late=0 left=%d || spec=%s" (str bad) (str aft) (int_of_nat left)
    (if List.for_all (fun b -> b) aft && not (List.exists (fun b -> b) bad) && int_of_nat left = 0 then "ok"
     else "FAIL:c14-stream-capacity")

let () = register "streams" run_streams

(* ---------- kind: stall (C14, round 4) ----------
   case:   tr=<tcpp|tlsp|tcp|tls> n=.. pad=.. sndbuf=.. dl=<ms> srv=<one|all>
   result: res=ERR late=<0|1> || spec=..
   Pipelined: the extracted [wb_case] (Net/WriteBlock.v, constants of the code, TCP_USER_TIMEOUT wired in); srv=all is
   the known finding K8 (late).  One-at-a-time transports arm SetDeadline(now + 6 s) before the write and each
   exchange has its own connection: they return at their deadline at the latest. *)
let run_stall (parts : string list) : string =
  let f = fields parts in
  let tr = fld f "tr" in
  let all = (fld f "srv" = "all") in
  let in_time = if tr = "tcpp" || tr = "tlsp" then wb_case true all else true in
  (* K8 needs the retried exchanges to fill the buffers of the second connection too, which depends on how the pool
     spreads them: when the model says "late" the implementation may be late or in time (res=ANY is not compared) *)
  if in_time then "res=ERR late=0 || spec=ok" else "res=ANY late=- || spec=ok"

let () = register "stall" run_stall

(* ---------- kind: idlimit (C14, round 6) ----------
   case:   tr=<udp|tcpp> q0=<first wire id> n=<exchanges>
   result: res=<R..> late=0 acc=<connections> || spec=..
   How many exchanges ONE connection carries comes from the extracted connection LTS of C05 ([pl_history_outcomes]: n
   exchanges, each answered, on a connection born at q0 - the first one refused with end-of-life ends the count); the
   exchange that meets the exhausted (reused) connection is retried on a new one (exchange LTS: failure on a reused
   connection, healthy server => dial => reply), so every exchange is a reply and the connections are ceil(n / count). *)
let run_idlimit (parts : string list) : string =
  let f = fields parts in
  let tcp = (fld f "tr" <> "udp") in
  let q0 = ifld f "q0" and n = ifld f "n" in
  let evs = List.concat (List.init n (fun i -> [PlEvStart (n_of_int (256 + i)); PlEvReplyTo (n_of_int i, n_of_int (i + 1))])) in
  let (outs, _) = pl_history_outcomes tcp (n_of_int q0) evs in
  let rec lead = function (PlOMsg (_, true), _) :: r -> 1 + lead r | _ -> 0 in
  let per_conn = lead outs in
  if per_conn = 0 then "res=" ^ String.make n 'E' ^ " late=0 acc=1 || spec=FAIL:c14-connection-born-exhausted"
  else
    let retried_ok = (match run_case TPipe (not tcp) [SWriteErr] [] with Some o -> o.o_class = RReply | None -> false) in
    Printf.sprintf "res=%s late=0 acc=%d || spec=%s" (String.make n (if retried_ok then 'R' else 'E'))
      ((n + per_conn - 1) / per_conn) (if retried_ok then "ok" else "FAIL:c14-exhausted-connection-not-replaced")

let () = register "idlimit" run_idlimit

(* ---------- kind: streamwait (C14, round 9) ----------
   case:   m=<limit> long=<ms> short=<ms>      result: short=E late=<0|1> || spec=..
   extracted [so_within] with the mode of the code (no wait); the peer frees a stream when the long exchanges end. *)
let run_streamwait (parts : string list) : string =
  let f = fields parts in
  let ok = so_within SoNoWait (nat_of_int (ifld f "short" / 100)) (nat_of_int 4) (Some (nat_of_int (ifld f "long" / 100))) in
  Printf.sprintf "short=E late=%d || spec=%s" (if ok then 0 else 1) (if ok then "ok" else "FAIL:c14-stream-open-wait")

let () = register "streamwait" run_streamwait

(* ---------- kind: uptimeouts (C14, round 9) ----------
   case: scheme=<..> opt=<ms>     result: idle=<ms> || spec=..     (extracted table [ut_idle], tenths of a second) *)
let run_uptimeouts (parts : string list) : string =
  let f = fields parts in
  let s = (match fld f "scheme" with
    | "udp" -> UtUdp | "tcp" -> UtTcp | "tcp+pipeline" -> UtTcpP | "tls" -> UtTls | "tls+pipeline" -> UtTlsP
    | "https" -> UtHttps | x -> failwith ("uptimeouts: unknown scheme " ^ x)) in
  let d = int_of_nat (ut_idle s (nat_of_int (ifld f "opt" / 100))) in
  Printf.sprintf "idle=%d || spec=%s" (d * 100) (if d > 0 then "ok" else "FAIL:c14-no-idle-limit")

let () = register "uptimeouts" run_uptimeouts
