open Model
open Drv_common

(* ---------- kinds: pipeline, pipeline_eol (C05) ---------- *)
(* pl_event syntax (shared with harness/cmd/implrun/c05.go):
     S<cid>  R<k>.<mark>  I<id>.<mark>  G  C<k>  X  Y *)
let c05_split_dot (s : string) : int * int =
  match String.index_opt s '.' with
  | Some i -> (int_of_string (String.sub s 0 i), int_of_string (String.sub s (i + 1) (String.length s - i - 1)))
  | None -> failwith ("bad pl_event arg " ^ s)

(* write outcome of a start with the given flags on the given transport (see harness/cmd/implrun/c05.go):
   (fails, closes) *)
let c05_write_plan (tcp : bool) (flags : string) : bool * bool =
  let has c = String.contains flags c in
  if has 'x' then (true, not tcp)
  else if has 's' then (true, false)
  else if has 'o' && not tcp then (true, false)
  else (false, false)

(* events of one history; U<k> needs the flags of the k-th start *)
let c05_events_net (tcp : bool) (s : string) : pl_event list =
  if s = "-" || s = "" then [] else begin
    let evs = String.split_on_char ',' s in
    let starts = Array.of_list (List.filter_map (fun e ->
      if e <> "" && e.[0] = 'S' then
        Some (match String.index_opt e ':' with
              | Some i -> String.sub e (i + 1) (String.length e - i - 1)
              | None -> "")
      else None) evs) in
    List.map (fun e ->
      let arg = String.sub e 1 (String.length e - 1) in
      match e.[0] with
      | 'S' ->
          let (cs, flags) = match String.index_opt arg ':' with
            | Some i -> (String.sub arg 0 i, String.sub arg (i + 1) (String.length arg - i - 1))
            | None -> (arg, "") in
          let c = n_of_int (int_of_string cs) in
          let (fails, closes) = c05_write_plan tcp flags in
          if String.contains flags 'h' then PlEvHold c
          else if fails then PlEvStartFail (c, closes)
          else PlEvStart c
      | 'U' ->
          let k = int_of_string arg in
          let flags = if k >= 0 && k < Array.length starts then starts.(k) else "" in
          if not (String.contains flags 'h') then PlEvRelease (n_of_int 65536000, true, false)   (* no such held exchange: no-op *)
          else
            let (fails, closes) = c05_write_plan tcp flags in
            PlEvRelease (n_of_int k, not fails, closes)
      | 'R' -> let (k, m) = c05_split_dot arg in PlEvReplyTo (n_of_int k, n_of_int m)
      | 'I' -> let (i, m) = c05_split_dot arg in PlEvEmitId (n_of_int i, n_of_int m)
      | 'G' -> PlEvGarbage
      | 'C' -> PlEvCancel (n_of_int (int_of_string arg))
      | 'X' | 'Y' -> PlEvClose
      | _ -> failwith ("bad pl_event " ^ e)) evs
  end

let c05_out (o : pl_outcome) : string =
  match o with
  | PlOMsg (tag, true) -> "M" ^ istr tag
  | PlOMsg (tag, false) -> "B" ^ istr tag
  | PlOErr -> "E"
  | PlOWait -> "W"

let c05_wid (w : n option) : string = match w with Some x -> istr x | None -> "-"

let run_pipeline (parts : string list) : string =
  let f = fields parts in
  let tcp = (fld f "net" = "tcp") in
  let q0 = n_of_int (ifld f "q0") in
  let evs = c05_events_net tcp (fld f "ev") in
  let (outs, closed) = pl_history_outcomes tcp q0 evs in
  (* the property's executable oracle on the model's own run *)
  let wids = Array.of_list (List.map snd outs) in
  let sent = List.filter_map (fun e -> match e with
    | PlEvReplyTo (k, tag) ->
        let k = int_of_n k in
        if k < Array.length wids then (match wids.(k) with Some w -> Some (w, tag) | None -> None) else None
    | PlEvEmitId (i, tag) -> Some (i, tag)
    | _ -> None) evs in
  let obs = List.map (fun (o, w) -> (w, (match o with PlOMsg (tag, _) -> Some tag | _ -> None))) outs in
  let idok = List.for_all (fun (o, _) -> match o with PlOMsg (_, false) -> false | _ -> true) outs in
  let spec = if not (pl_oracle obs sent) then "FAIL:foreign-or-double-delivery"
             else if not idok then "FAIL:caller-id-not-restored" else "ok" in
  let os = if outs = [] then "-" else String.concat "," (List.map (fun (o, _) -> c05_out o) outs) in
  let ws = if outs = [] then "-" else String.concat "," (List.map (fun (_, w) -> c05_wid w) outs) in
  (* reuse: wire ids found in the Write calls of two exchanges; the model's exchanges hold pairwise distinct ids
     (C05_ids_exchange, C05_ids_never_reused), computed here from the final state all the same *)
  let st = pl_run_history tcp q0 evs in
  let held = List.filter_map (fun (_, th) -> th.pl_twid) st.pl_threads in
  let reuse = List.length held - List.length (List.sort_uniq compare (List.map int_of_n held)) in
  Printf.sprintf "o=%s w=%s closed=%d reuse=%d || spec=%s" os ws (b2i closed) reuse spec

(* n sequential exchanges, each answered at once, on a connection whose first id is q0.  The model covers
   connection 0; exchanges it refuses (EoL) are the ones the real transport moves to a fresh connection
   (counted as rest, expected to succeed there; with the preset hook every connection starts at q0, so the
   first id seen on connection 1 is q0 again). *)
let run_pipeline_eol (parts : string list) : string =
  let f = fields parts in
  let tcp = (fld f "net" = "tcp") in
  let q0 = n_of_int (ifld f "q0") in
  let n = ifld f "n" in
  let rec mk i acc =
    if i < 0 then acc
    else mk (i - 1) (PlEvStart (n_of_int ((i * 7 + 3) mod 65536)) :: PlEvReplyTo (n_of_int i, n_of_int (i + 1)) :: acc) in
  let (outs, closed) = pl_history_outcomes tcp q0 (mk (n - 1) []) in
  let n0 = ref 0 and first = ref (-1) and last = ref (-1) and mono = ref true
  and rest = ref 0 and ok = ref 0 and bad = ref 0 and err = ref 0 and i = ref 0 in
  List.iter (fun (o, w) ->
    (match w with
     | Some w ->
         let w = int_of_n w in
         incr n0;
         if !first < 0 then first := w else if w <> !last + 1 then mono := false;
         last := w
     | None -> ());
    (match o, w with
     | PlOMsg (tag, true), _ when int_of_n tag = !i + 1 -> incr ok
     | PlOMsg _, _ -> incr bad
     | PlOErr, None -> incr rest
     | _, _ -> incr err);
    incr i) outs;
  let s x = if x < 0 then "-" else string_of_int x in
  Printf.sprintf "n0=%d first=%s last=%s mono=%d retired=%d rest=%d rfirst=%s ok=%d bad=%d err=%d"
    !n0 (s !first) (s !last) (b2i !mono) (b2i closed) !rest (if !rest > 0 then string_of_int (ifld f "q0") else "-")
    (!ok + !rest) !bad !err

let () = register "pipeline" run_pipeline
let () = register "pipeline_eol" run_pipeline_eol

(* ---------- kind: pipeline_shared (C05, exchanges sharing one payload slice; Net/PipelineBuf.v) ---------- *)
(* sorted multiset of ids, maximal runs of consecutive distinct values as a-b (same as c05Runs in c05c.go) *)
let c05_runs (ids : int list) : string =
  match List.sort compare ids with
  | [] -> "-"
  | x :: rest ->
      let out = ref [] in
      let flush a b = out := (if a = b then string_of_int a else Printf.sprintf "%d-%d" a b) :: !out in
      let (a, b) = List.fold_left (fun (a, b) y -> if y = b + 1 then (a, y) else (flush a b; (y, y))) (x, x) rest in
      flush a b;
      String.concat "," (List.rev !out)

let rec c05_drop k l = if k <= 0 then l else match l with [] -> [] | _ :: r -> c05_drop (k - 1) r

let run_pipeline_shared (parts : string list) : string =
  let f = fields parts in
  let tcp = (fld f "net" = "tcp") in
  let q0 = ifld f "q0" in
  let warm = ifld f "warm" in
  let bufs = List.map bytes_of_hex (String.split_on_char ',' (fld f "bufs")) in
  let ex = List.map int_of_string (String.split_on_char ',' (fld f "ex")) in
  let heap = List.mapi (fun i b -> (n_of_int i, b)) bufs in
  let s = plb_shared_run tcp (n_of_int q0) heap (nat_of_int warm) (List.map n_of_int ex) in
  let (((outs, _closed), wire), heap') = plb_observe s in
  let total = List.length outs in
  let ok = List.length (List.filter (fun (o, _) -> match o with PlOMsg (_, true) -> true | _ -> false) outs) in
  let bad = List.length (List.filter (fun (o, _) -> match o with PlOMsg (_, false) -> true | _ -> false) outs) in
  let err = total - ok - bad in
  (* what a server reads: de-frame on tcp (2-octet length), transaction id = first two octets, the rest = tail *)
  let tails = List.map (fun b -> c05_drop 2 (List.map int_of_n b)) bufs in
  let per = Array.make (List.length bufs) 0 in
  let other = ref 0 in
  let ids = ref [] in
  List.iter (fun (_, w) ->
    let w = List.map int_of_n w in
    let msg =
      if not tcp then Some w
      else match w with
        | h :: l :: r when h * 256 + l = List.length r -> Some r
        | _ -> None in
    match msg with
    | Some (a :: b :: tl) ->
        ids := (a * 256 + b) :: !ids;
        let rec find i = function
          | [] -> incr other
          | t :: r -> if t = tl then per.(i) <- per.(i) + 1 else find (i + 1) r in
        find 0 tails
    | _ -> incr other) wire;
  let pay = List.map (fun (i, b) ->
    match List.assoc_opt i heap' with Some b' when b' = b -> "1" | _ -> "0") heap in
  let want = List.init total (fun i -> q0 + i) in
  let spec =
    if ok <> total then "FAIL:an-exchange-got-no-reply-or-a-foreign-id"
    else if List.sort compare !ids <> want then "FAIL:wire-ids-are-not-the-assigned-ones"
    else if !other <> 0 then "FAIL:wire-octets-are-not-id++tail"
    else if List.mem "0" pay then "FAIL:payload-modified"
    else "ok" in
  Printf.sprintf "n=%d ok=%d bad=%d err=%d ids=%s per=%s other=%d pay=%s conns=1 viol=none || spec=%s"
    total ok bad err (c05_runs !ids)
    (String.concat "," (List.map string_of_int (Array.to_list per))) !other (String.concat "," pay) spec

let () = register "pipeline_shared" run_pipeline_shared

(* ---------- kind: pipeline_arms (C05): the exchange enters its select with BOTH arms ready ---------- *)
(* ev = <pre events>,S<cid>:l,R<k>.<mark>,<X|Y>,U<k>.  The model gives the outcome for either choice of the select
   (pl_arms_outcomes … false = reply arm, true = connection arm); Go picks at random. *)
let run_pipeline_arms (parts : string list) : string =
  let f = fields parts in
  let tcp = (fld f "net" = "tcp") in
  let q0 = n_of_int (ifld f "q0") in
  let evs = String.split_on_char ',' (fld f "ev") in
  let n = List.length evs in
  if n < 4 then failwith "pipeline_arms: short history";
  let pre = List.filteri (fun i _ -> i < n - 4) evs in
  let tail = Array.of_list (List.filteri (fun i _ -> i >= n - 4) evs) in
  let s_ev = tail.(0) and r_ev = tail.(1) in
  let cid = match String.index_opt s_ev ':' with
    | Some i -> int_of_string (String.sub s_ev 1 (i - 1))
    | None -> failwith "pipeline_arms: bad start" in
  let (_, mark) = c05_split_dot (String.sub r_ev 1 (String.length r_ev - 1)) in
  let pre_evs = c05_events_net tcp (String.concat "," pre) in
  let show conn_first =
    let (outs, closed) = pl_arms_outcomes tcp q0 pre_evs (n_of_int cid) (n_of_int mark) conn_first in
    (String.concat "," (List.map (fun (o, _) -> c05_out o) outs),
     String.concat "," (List.map (fun (_, w) -> c05_wid w) outs), closed) in
  let (oa, wa, ca) = show false in
  let (ob, _, _) = show true in
  Printf.sprintf "o=%s w=%s closed=%d reuse=0 alt=%s || spec=ok" oa wa (b2i ca) ob

let () = register "pipeline_arms" run_pipeline_arms
