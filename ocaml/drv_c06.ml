open Model
open Drv_common

(* ---------- kind: reuse (C06) ----------
   case: <id> idle=<ms> resp=<ms> h=<ev,ev,...>   (see harness/cmd/implrun/c06.go)
   The history is run through Reuse.run_history (deterministic big-ru_step, a schedule of the LTS). *)
let parse_event (s : string) : event_ru =
  let num () = nat_of_int (int_of_string (String.sub s 1 (String.length s - 1))) in
  match s with
  | "S" -> EStart false
  | "SC" -> EStart true
  | "AI" -> EAbortIdle
  | "IT" -> EIdleTimeout
  | "DL" -> EDeadline
  | "CL" -> EClose
  | _ ->
    (match s.[0] with
     | 'C' -> ECancel (num ())
     | 'R' -> EReply (num ())
     | 'H' -> EReplyHalf (num ())
     | 'T' -> EReplyRest (num ())
     | 'A' -> EAbort (num ())
     | 'G' -> EAbort (num ())     (* a reply that is no DNS message: for the transport a failed read, as an abort *)
     | _ -> failwith ("bad event_ru " ^ s))

let run_reuse (parts : string list) : string =
  let f = fields parts in
  let evs = List.filter (fun s -> s <> "") (String.split_on_char ',' (fld f "h")) in
  match run_history (List.map parse_event evs) with
  | None -> "MODEL-STUCK"
  | Some s ->
    if panicked s then "PANIC!" else begin
      let oc = function
        | CDone (OMsg q) -> "M" ^ string_of_int (int_of_nat q)
        | CDone OErr -> "E"
        | CDone OCancel -> "C"
        | _ -> "P" in
      (* exchanges started with a dead ctx: error and cancel are one class (see c06.go) *)
      let starts = List.filter (fun e -> e = "S" || e = "SC") evs in
      let oc2 i o = let r = oc o in
        if (try List.nth starts i = "SC" with _ -> false) && (r = "C" || r = "E") then "X" else r in
      let xs = String.concat "," (List.mapi oc2 (outcomes s)) in
      Printf.sprintf "x=%s dials=%d idle=%d conns=%d maxout=%d dirty=%d || spec=%s" xs
        (int_of_nat (nconn s)) (int_of_nat (obs_idle s)) (int_of_nat (obs_conns s))
        (int_of_nat (obs_maxout s)) (b2i (obs_dirty s))
        (if spec_ok s then "ok" else "FAIL:model-state_ru-violates-C06-oracle")
    end

let () = register "reuse" run_reuse
