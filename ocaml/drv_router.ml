open Model
open Drv_common

(* ---------- cfgspec parsing (same grammar as harness/hx/routerenv.go) ---------- *)
let split c s = if s = "" then [] else String.split_on_char c s

(* raw wire name -> label list *)
let labels_of_raw (raw : n list) : n list list =
  let rec go l acc = match l with
    | [] -> List.rev acc
    | c :: tl ->
      let k = int_of_n c in
      let rec take i l a = if i = 0 then (List.rev a, l) else (match l with x :: r -> take (i - 1) r (x :: a) | [] -> (List.rev a, [])) in
      let (lab, rest) = take k tl [] in go rest (lab :: acc) in
  go raw []

type cfg = { ups : string; ecs : bool; sets : dset_entry list list; rules : rule list }

let parse_cfg (spec : string) : cfg =
  let parts = List.filter_map (fun p -> match String.index_opt p '=' with
    | Some i -> Some (String.sub p 0 i, String.sub p (i + 1) (String.length p - i - 1)) | None -> None) (split ';' spec) in
  let get k = try List.assoc k parts with Not_found -> "" in
  let sets = List.map (fun s ->
      if s = "-" then [] else
      List.map (fun e ->
        let kind = String.sub e 0 1 in
        let raw = bytes_of_hex (String.sub e 2 (String.length e - 2)) in
        let ls = labels_of_raw raw in
        if kind = "f" then DsFull ls else DsDomain ls) (split '+' s)) (split ',' (get "S")) in
  let rules = List.map (fun r ->
      match split ':' r with
      | [s; rev; rej; fwd] ->
        { ru_cond = (if s = "-" then None else Some (nat_of_int (int_of_string s), rev = "1"));
          ru_reject = n_of_int (int_of_string rej);
          ru_forward = (if fwd = "-" then None else Some (nat_of_int (int_of_string fwd))) }
      | _ -> failwith "bad rule") (split ',' (get "R")) in
  { ups = get "U"; ecs = (get "E" = "1"); sets; rules }

let matches_of (c : cfg) : nat -> n list -> bool =
  fun i name -> (match List.nth_opt c.sets (int_of_nat i) with Some es -> set_match es name | None -> false)

(* textual address -> addr *)
let parse_addr (s : string) : addr =
  if s = "-" || s = "" then ANone else
  if String.contains s ':' then begin
    (* IPv6: expand :: ; optional embedded IPv4 tail *)
    let parse_groups str =
      List.concat_map (fun g ->
        if String.contains g '.' then
          (match List.map int_of_string (String.split_on_char '.' g) with
           | [a; b; c; d] -> [a * 256 + b; c * 256 + d] | _ -> failwith "bad v4 tail")
        else [int_of_string ("0x" ^ g)]) (List.filter (fun x -> x <> "") (String.split_on_char ':' str)) in
    let groups =
      match Str.bounded_split_delim (Str.regexp_string "::") s 2 with
      | [a; b] -> let ga = parse_groups a and gb = parse_groups b in
        ga @ List.init (8 - List.length ga - List.length gb) (fun _ -> 0) @ gb
      | _ -> parse_groups s in
    A6 (List.concat_map (fun g -> [n_of_int (g lsr 8); n_of_int (g land 255)]) groups)
  end else
    A4 (List.map (fun x -> n_of_int (int_of_string x)) (String.split_on_char '.' s))

let listener_of (l : string) : listener =
  match l with "udp" | "udpmr" | "udpds" -> LUdp | "tcp" | "gnet" | "tls" | "quic" | "tcpunix" | "gnetunix" -> LTcp | _ -> LHttp

let client_of (l : string) (client : string) : addr =
  match l with
  | "tcpunix" | "gnetunix" -> ANone     (* a UNIX-socket peer has no IP address *)
  | "udp" | "udpmr" | "udpds" | "tcp" | "gnet" | "tls" | "quic" ->
    (* the socket's peer address: the loopback source the harness client bound ("127.x.y.z"), 127.0.0.1 by default *)
    if String.length client > 4 && String.sub client 0 4 = "127." then parse_addr client
    else A4 [n_of_int 127; n_of_int 0; n_of_int 0; n_of_int 1]
  | _ ->
    (* the DoH listeners are configured with a client-address header: absent => unknown; a list => its first element *)
    let c = (match String.index_opt client ',' with Some i when i > 0 -> String.sub client 0 i | _ -> client) in
    parse_addr c

let verdict_str (v : verdict) : string = match v with
  | VOk -> "ok" | VUndecodable -> "FAIL:c03-undecodable" | VHeader -> "FAIL:c03-header"
  | VQuestionLocal -> "FAIL:c03-question-local" | VQuestionRelayed -> "FAIL:c03-question-relayed"
  | VRcode -> "FAIL:c03-rcode" | VOptCount -> "FAIL:c12-opt-count" | VOptForm -> "FAIL:c12-opt-form"
  | VUpstreamSet -> "FAIL:c10-upstream-set" | VUpstreamWire -> "FAIL:c10-upstream-wire"
  | VUpstreamOpt -> "FAIL:c12-upstream-opt" | VSize -> "FAIL:c09-size"

(* [failed] (the oracle's notion of upstream failure) includes a reply that does not answer the question asked *)
let up_outcome (query : msg) (s : string) : uout * bool =
  if String.length s > 6 && String.sub s 0 6 = "reply:" then
    (match unpack_msg (bytes_of_hex (String.sub s 6 (String.length s - 6))) with
     | Ok m ->
       let mismatch = (match query.m_qs with q :: _ -> not (reply_question_ok (lower_q q) m) | [] -> false) in
       (UReply m, mismatch)
     | _ -> (UFail, true))
  else (UFail, true)

let strip_frame (l : listener) (b : n list) : n list =
  match l with LTcp -> (match b with _ :: _ :: r -> r | _ -> b) | _ -> b

let first_fail (vs : verdict list) : string =
  match List.filter (fun v -> v <> VOk) vs with [] -> "ok" | v :: _ -> verdict_str v

let parse_obs (s : string) : (nat * n list) list =
  if s = "-" || s = "" then [] else
  List.map (fun o -> match String.index_opt o ':' with
    | Some i -> (nat_of_int (int_of_string (String.sub o 0 i)), bytes_of_hex (String.sub o (i + 1) (String.length o - i - 1)))
    | None -> failwith "bad obs") (split ',' s)

(* handle: model's prediction of what the client receives and what the upstreams observe *)
let run_handle parts =
  let f = fields parts in
  if (try List.assoc "hv" f = "bad" with Not_found -> false) then
    (* a client-address header that is no address: 400 Bad Request, nothing handled, nothing forwarded *)
    "st=http-400 n=0 resp=- upq=- || spec=ok"
  else
  (* "<listener>@<path>": http.path is accepted by the configuration but never handed to the handlers (h.path stays
     empty), so every URL path is served alike — modelled as it is; no property speaks about the path *)
  let f = List.map (fun (k, v) -> if k = "l" && String.contains v '@' then (k, String.sub v 0 (String.index v '@')) else (k, v)) f in
  let c = parse_cfg (fld f "cfg") in
  let l = fld f "l" in
  let lk = listener_of (List.hd (String.split_on_char '-' l)) in
  let client = client_of (List.hd (String.split_on_char '-' l)) (fld f "client") in
  match unpack_msg (bytes_of_hex (fld f "q")) with
  | Ok m ->
    let (out, failed) = up_outcome m (fld f "up") in
    let (resp, eff) = handle (matches_of c) c.rules c.ecs (fun _ _ -> out) m client in
    let bytes = (match respond lk m resp with b :: _ -> strip_frame lk b | [] -> []) in
    let obs = List.filter_map (fun e -> match e with
        | EQuery (u, Ok w) -> Some (u, (match w with _ :: _ :: r -> r | _ -> w)) | _ -> None) eff in
    let upq = if obs = [] then "-" else String.concat "," (List.sort compare
        (List.map (fun (u, w) -> Printf.sprintf "%d:%s" (int_of_nat u) (hex_of_bytes w)) obs)) in
    let spec = first_fail [spec_response (matches_of c) c.rules lk m failed bytes;
                           spec_upstream (matches_of c) c.rules c.ecs m client failed obs] in
    Printf.sprintf "st=ok n=1 resp=%s upq=%s || spec=%s" (hex_of_bytes bytes) upq spec
  | _ -> "st=no-response n=0 resp=- upq=- || spec=ok"   (* undecodable query: dropped (C01) *)

(* dohget: <id> cfg= l=<http-get|fasthttp-get|https-get|..> client= raw=<hex of the RAW value of the dns parameter> up=..
   the value goes through the model of the GET parameter (Net/DohGet.v: percent decoding on fasthttp, base64url with
   skipped line breaks, the 65535 limit); a rejected parameter is a 400, an accepted one is handled as its octets *)
let run_dohget parts =
  let f = fields parts in
  let l = fld f "l" in
  let base = List.hd (String.split_on_char '-' l) in
  let k = if String.length base >= 8 && String.sub base 0 8 = "fasthttp" then DohFastHttp else DohNetHttp in
  (* raw= is the WHOLE query string of the request (everything behind '?') *)
  match doh_get_query k (bytes_of_hex (fld f "raw")) with
  | DohReject -> "st=http-400 n=0 resp=- upq=- || spec=ok"
  | DohMsg m ->
    (match unpack_msg m with
     | Ok _ ->
       let keep p = not (String.length p > 2 && String.sub p 0 2 = "q=") in
       run_handle (List.map (fun p -> if String.length p > 4 && String.sub p 0 4 = "raw=" then "q=" ^ hex_of_bytes m else p)
                     (List.filter keep parts))
     | _ -> "st=http-400 n=0 resp=- upq=- || spec=ok")

let () = register "dohget" run_dohget

(* handlespec: the same oracles evaluated on what the IMPLEMENTATION produced (fields resp=, upq= appended) *)
let run_handlespec parts =
  let f = fields parts in
  let c = parse_cfg (fld f "cfg") in
  let l = fld f "l" in
  let lk = listener_of (List.hd (String.split_on_char '-' l)) in
  let client = client_of (List.hd (String.split_on_char '-' l)) (fld f "client") in
  match unpack_msg (bytes_of_hex (fld f "q")) with
  | Ok m ->
    let (_, failed) = up_outcome m (fld f "up") in
    let bytes = bytes_of_hex (fld f "resp") in
    let obs = parse_obs (fld f "upq") in
    (* retries of a failing exchange and the TCP repeat after a truncated UDP reply re-send the same wire *)
    let obs' = List.sort_uniq compare obs in
    "spec=" ^ first_fail [spec_response (matches_of c) c.rules lk m failed bytes;
                          spec_upstream (matches_of c) c.rules c.ecs m client failed obs']
  | _ -> "spec=ok"

let run_packreq parts =
  let f = fields parts in
  let q = { q_name = bytes_of_hex (fld f "name"); q_type = n_of_int (ifld f "type"); q_class = n_of_int (ifld f "class") } in
  res_class (pack_req (fld f "ecs" = "1") q (parse_addr (fld f "client"))) (fun b -> "OK " ^ hex_of_bytes b)

let () =
  register "handle" run_handle;
  register "handlespec" run_handlespec;
  register "packreq" run_packreq

(* cfgload (C10, strict loading): the structured description of the generated configuration through [load] *)
let bytes_of_string (s : string) : n list = List.init (String.length s) (fun i -> n_of_int (Char.code s.[i]))
let run_cfgload parts =
  let f = fields parts in
  let dash s = if s = "-" then "" else s in
  let el s = if s = "~" then "" else s in
  let ups = List.map (fun u -> match String.split_on_char ':' u with
      | [t; a] -> (bytes_of_string (el t), bytes_of_string (el a)) | _ -> failwith "bad up") (split ',' (dash (fld f "ups"))) in
  let sets = List.map (fun s -> bytes_of_string (el s)) (split ',' (dash (fld f "sets"))) in
  let rules = List.map (fun r -> match String.split_on_char ':' r with
      | [rev; dom; rej; fwd] -> { rr_reverse = (rev = "1"); rr_domain = bytes_of_string (el dom);
                                  rr_reject = n_of_int (int_of_string rej); rr_forward = bytes_of_string (el fwd) }
      | _ -> failwith "bad rule") (split ',' (dash (fld f "rules"))) in
  if fld f "unk" = "1" then "rejected" else
  match load { rc_upstreams = ups; rc_sets = sets; rc_rules = rules } with
  | Inl _ -> "rejected"
  | Inr _ -> "started"

let () = register "cfgload" run_cfgload

(* cachedseqspec: the C12 / C03 oracles on a cached, prefetching proxy.  Fields: cfg, steps=<l>/<client>/<qhex>/<gap>;..,
   up, r<i>=<hex | !status>, upq=<idx>:<hex>|..  Every response is judged by [spec_response] for ITS query; every
   upstream query (the miss's and the prefetch's) must be the one [spec_upstream] allows for SOME step's query and
   client (the prefetch acts for the client whose hit started it). *)
let run_cachedseqspec parts =
  let f = fields parts in
  let c = parse_cfg (fld f "cfg") in
  let steps = List.map (fun s -> match String.split_on_char '/' s with
      | [l; client; q; _] -> (l, client, q) | _ -> failwith "bad step") (split ';' (fld f "steps")) in
  let decoded = List.map (fun (l, client, q) ->
      let l0 = List.hd (String.split_on_char '-' l) in
      (listener_of l0, client_of l0 client, unpack_msg (bytes_of_hex q))) steps in
  let rverdicts = List.mapi (fun i (lk, _, mq) ->
      let r = fld f (Printf.sprintf "r%d" (i + 1)) in
      match mq with
      | Ok m ->
        if String.length r > 0 && r.[0] = '!' then "FAIL:c03-no-response"
        else if r = "-" then "FAIL:c03-no-response"
        else
          let (_, failed) = up_outcome m (fld f "up") in
          verdict_str (spec_response (matches_of c) c.rules lk m failed (bytes_of_hex r))
      | _ -> "ok") decoded in
  let obs = List.map (fun o -> match String.index_opt o ':' with
      | Some i -> (nat_of_int (int_of_string (String.sub o 0 i)), bytes_of_hex (String.sub o (i + 1) (String.length o - i - 1)))
      | None -> failwith "bad obs") (if fld f "upq" = "-" then [] else split '|' (fld f "upq")) in
  let overdicts = List.map (fun o ->
      let vs = List.filter_map (fun (_, client, mq) -> match mq with
          | Ok m -> Some (spec_upstream (matches_of c) c.rules c.ecs m client false [o])
          | _ -> None) decoded in
      if List.exists (fun v -> v = VOk) vs then "ok"
      else (match vs with v :: _ -> verdict_str v | [] -> "ok")) obs in
  match List.filter (fun v -> v <> "ok") (rverdicts @ overdicts) with
  | [] -> "spec=ok"
  | v :: _ -> "spec=" ^ v

let () = register "cachedseqspec" run_cachedseqspec

(* cachedseq: the model of the CACHING proxy (Router/Cached.v: handle_c over the cache state of Cache/CachePolicy.v) run
   on the same step list.  Deterministic part only: for plain sequences (gaps well below 1 s, TTL 60) every step's
   response is predicted octet for octet (first step relayed, later steps served from cache with unchanged TTLs, own
   OPT iff the query had one); for prefetching sequences (second step 3.3 s after a 4 s-TTL store) the otter clock phase
   decides between a hit (TTLs aged by 3 s) and an expiry (fresh relay): both predictions are printed for step 2 and
   later steps are not predicted. *)
let key_table : (string, int) Hashtbl.t = Hashtbl.create 16
let ckey_of (q : question) (_ : addr) : n =
  let s = hex_of_bytes q.q_name ^ ":" ^ hex_of_bytes [q.q_type] ^ ":" ^ hex_of_bytes [q.q_class] in
  match Hashtbl.find_opt key_table s with
  | Some i -> n_of_int i
  | None -> let i = Hashtbl.length key_table + 1 in Hashtbl.add key_table s i; n_of_int i

let run_cachedseq parts =
  let f = fields parts in
  let c = parse_cfg (fld f "cfg") in
  let steps = List.map (fun s -> match String.split_on_char '/' s with
      | [l; client; q; gap] -> (l, client, q, int_of_string gap) | _ -> failwith "bad step") (split ';' (fld f "steps")) in
  let maxttl = init_max_ttl (z_of_int 0) in
  let clk0 = n_of_int 1000 in
  let ns ms = z_of_int (ms * 1000000) in
  let resp_of lk m (o : creq_out) = match respond lk m o.co_resp with b :: _ -> hex_of_bytes (strip_frame lk b) | [] -> "-" in
  let decode (l, client, q, gap) =
    let l0 = List.hd (String.split_on_char '-' l) in
    (listener_of l0, client_of l0 client, unpack_msg (bytes_of_hex q), gap) in
  let dsteps = List.map decode steps in
  let prefetching = List.exists (fun (_, _, _, g) -> g >= 1000) dsteps in
  let up_for m = fst (up_outcome m (fld f "up")) in
  let run_events evs = snd (crun (matches_of c) c.rules c.ecs (fun _ _ -> (match dsteps with (_, _, Ok m, _) :: _ -> up_for m | _ -> UFail))
                             ckey_of maxttl (init_state clk0) evs) in
  let all_ok = List.for_all (fun (_, _, mq, _) -> match mq with Ok _ -> true | _ -> false) dsteps in
  if not all_ok then "skip" else
  let ms_of = List.map (fun (lk, cl, mq, g) -> match mq with Ok m -> (lk, cl, m, g) | _ -> failwith "unreachable") dsteps in
  let upq_of outs = String.concat "|" (List.concat_map (fun o -> match o with
      | Some (o : creq_out) -> List.filter_map (fun e -> match e with
          | EQuery (u, Ok w) -> Some (Printf.sprintf "%d:%s" (int_of_nat u) (hex_of_bytes (match w with _ :: _ :: r -> r | _ -> w)))
          | _ -> None) o.co_eff
      | None -> []) outs) in
  if not prefetching then begin
    let t = ref 0 in
    let evs = List.map (fun (_, cl, m, g) -> t := !t + g; CReq (ns !t, ns !t, z_of_int 1000, m, cl)) ms_of in
    let outs = run_events evs in
    let rs = List.mapi (fun i (o, (lk, _, m, _)) -> match o with
        | Some o -> Printf.sprintf "r%d=%s" (i + 1) (resp_of lk m o) | None -> "") (List.combine outs ms_of) in
    Printf.sprintf "n=%d %s upq=%s" (List.length ms_of) (String.concat " " rs) (let u = upq_of outs in if u = "" then "-" else u)
  end else begin
    match ms_of with
    | (lk1, cl1, m1, _) :: (lk2, cl2, m2, g2) :: _ ->
      let alt tick =
        let evs = [CReq (ns 0, ns 0, z_of_int 1000, m1, cl1); CTick (n_of_int (1000 + tick));
                   CReq (ns g2, ns g2, z_of_int 1000, m2, cl2)] in
        (match run_events evs with
         | [Some o1; _; Some o2] -> (resp_of lk1 m1 o1, resp_of lk2 m2 o2)
         | _ -> ("-", "-")) in
      let (r1, r2hit) = alt 3 in
      let (_, r2miss) = alt 4 in
      Printf.sprintf "pf r1=%s r2=%s|%s" r1 r2hit r2miss
    | _ -> "skip"
  end

let () = register "cachedseq" run_cachedseq

(* refusalspec (C15 / C09 / C03): the responses of a client that runs into the limiter.  Fields: cfg, l, qs=<hex>;.., and the
   implementation's r<i>=<st>:<hex>.  A REFUSED response must be, octet for octet, what the model's [refuse] writes for that
   query (header fix-up, AT MOST ONE question echoed, no records, the stream frame prefix stripped by the harness); any
   other response must satisfy [spec_response] as an ordinary answer; on the DoH listeners a refusal is status 503. *)
let run_refusalspec parts =
  let f = fields parts in
  let c = parse_cfg (fld f "cfg") in
  let l0 = List.hd (String.split_on_char '-' (fld f "l")) in
  let lk = listener_of l0 in
  let qs = split ';' (fld f "qs") in
  let verdicts = List.mapi (fun i qh ->
      let r = fld f (Printf.sprintf "r%d" (i + 1)) in
      let (st, hex) = (match String.index_opt r ':' with
          | Some j -> (String.sub r 0 j, String.sub r (j + 1) (String.length r - j - 1)) | None -> (r, "-")) in
      match unpack_msg (bytes_of_hex qh) with
      | Ok m ->
        if st = "http-503" then "ok"
        else if st <> "ok" || hex = "-" then "FAIL:c03-no-response"
        else
          let b = bytes_of_hex hex in
          let is_refused = (match unpack_msg b with Ok rm -> int_of_n rm.m_hdr.h_rcode = 5 | _ -> false) in
          if is_refused then
            let want = (match refuse lk m with x :: _ -> strip_frame lk x | [] -> []) in
            if want = b then "ok" else "FAIL:c15-refusal-form"
          else verdict_str (spec_response (matches_of c) c.rules lk m false b)
      | _ -> "ok") qs in
  match List.filter (fun v -> v <> "ok") verdicts with
  | [] -> "spec=ok"
  | v :: _ -> "spec=" ^ v

let () = register "refusalspec" run_refusalspec
