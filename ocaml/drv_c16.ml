open Model
open Drv_common

(* ---------- kind: fallback (C16) ---------- *)
let run_fallback (parts : string list) : string =
  let f = fields parts in
  let udp = match fld f "udp" with
    | "plain" | "bigplain" -> Some (false, n_of_int 1) | "tc" | "bigtc" -> Some (true, n_of_int 12) | _ -> None in
  let tcp = match fld f "tcp" with "reply" -> Some (false, n_of_int 2) | "tc" -> Some (true, n_of_int 22) | _ -> None in
  let (r, attempts) = fb_run udp tcp in
  let res = match r with
    | None -> "ERR"
    | Some (true, m) -> if int_of_n m = 22 then "TT" else "TRUNCATED"    (* TT: the TCP leg's own (truncated) message, as it is *)
    | Some (false, m) -> (match int_of_n m with 1 -> "U" | 2 -> "T" | _ -> "?") in
  let a = int_of_nat attempts in
  Printf.sprintf "res=%s tcpq=%d udpq=1 sameq=%s" res a (if a > 0 then "1" else "-")


let () = register "fallback" run_fallback
