open Model
open Drv_common

(* ---------- C15: kinds limiter, limdefaults, admit ---------- *)

let hexval c = match c with
  | '0'..'9' -> Char.code c - 48 | 'a'..'f' -> Char.code c - 87 | 'A'..'F' -> Char.code c - 55
  | _ -> failwith "bad hex digit"
let n_of_hexstr (s : string) : n =
  let acc = ref N0 in
  String.iter (fun c -> acc := N.add (N.mul !acc (n_of_int 16)) (n_of_int (hexval c))) s; !acc
let bits_of_n (x : n) : bool list =
  match x with N0 -> [] | Npos p ->
    let rec go p = match p with XH -> [true] | XO q -> false :: go q | XI q -> true :: go q in go p
let hex_of_n (width : int) (x : n) : string =
  let bits = Array.make (width * 4) false in
  List.iteri (fun i b -> if i < width * 4 then bits.(i) <- b else if b then failwith "address too wide") (bits_of_n x);
  String.init width (fun d ->
    let lo = (width - 1 - d) * 4 in
    let v = b2i bits.(lo) + 2 * b2i bits.(lo + 1) + 4 * b2i bits.(lo + 2) + 8 * b2i bits.(lo + 3) in
    "0123456789abcdef".[v])

let c15_addr (s : string) =
  match String.index_opt s '-' with
  | Some 1 ->
    let h = String.sub s 2 (String.length s - 2) in
    if s.[0] = '4' && String.length h = 8 then LA4 (n_of_hexstr h)
    else if s.[0] = '6' && String.length h = 32 then LA6 (n_of_hexstr h)
    else failwith ("bad addr " ^ s)
  | _ -> if String.length s >= 4 && String.sub s 0 4 = "none" then LANone   (* none, none2, ...: peers without an address *)
         else failwith ("bad addr " ^ s)
let c15_fmt_addr a : string =
  match a with LA4 x -> "4-" ^ hex_of_n 8 x | LA6 x -> "6-" ^ hex_of_n 32 x | LANone -> "none"

let c15_opts f =
  { o_limit = z_of_int (ifld f "rate"); o_burst = z_of_int (ifld f "burst");
    o_v4 = z_of_int (ifld f "v4"); o_v6 = z_of_int (ifld f "v6") }

let split_on c s = List.filter (fun x -> x <> "") (String.split_on_char c s)

(* epsilon band of the comparison (float64 vs exact arithmetic), in scaled units (1e-9 token) around the
   decision threshold margin = 0: at most 1e-6 token; narrower for small bursts, where the float64 error of a
   history (<= 150 operations, each with relative error 2^-52 on magnitudes <= burst) stays below
   burst * 1e-13 token = burst/10^4 units (a 10x safety factor is applied) *)
let band_of burst = min 1000 (max 1 (burst / 1000))

let limiter_core o f : string =
  let ops = split_on ',' (fld f "ops") in
  let band = band_of (int_of_z o.o_burst) in
  let t = ref 0 in
  let tbl = ref [] in
  let tainted = ref [] in
  let nband = ref 0 in
  let len_amb = ref false in
  let real_clock = (fld_opt f "clock" = Some "real") in
  let dec = Buffer.create 64 in
  let hist = ref [] in
  List.iter (fun op ->
    match String.split_on_char ':' op with
    | ["a"; dt; a; n] ->
      t := !t + int_of_string dt;
      let e = EvAllow (z_of_int !t, c15_addr a, z_of_int (int_of_string n)) in
      hist := e :: !hist;
      let k = mask_addr o (c15_addr a) in
      let inband = (match step_margin o !tbl e with Some m -> abs (int_of_z m) < band | None -> false) in
      let (tbl', d) = lim_step o !tbl e in
      tbl := tbl';
      let is_tainted = List.exists (fun k' -> addr_eqb k k') !tainted in
      if inband then incr nband;
      if inband && not is_tainted then tainted := k :: !tainted;
      Buffer.add_char dec (if is_tainted || inband then '?' else match d with Some true -> '1' | _ -> '0')
    | ["g"; dt] ->
      t := !t + int_of_string dt;
      let e = EvGc (z_of_int !t) in
      hist := e :: !hist;
      (* the collector's "has refilled completely" test (TokensAt(now) >= burst) within the band of an idle entry:
         float64 may decide either way; the two outcomes differ by < band tokens (covered by the decision band),
         only the number of entries may differ *)
      List.iter (fun (k, b) ->
        if lim_expired (z_of_int !t) b then begin
          let last = min (int_of_z b.b_last) !t in
          let x = int_of_z b.b_tok + int_of_z o.o_limit * (!t - last) in
          let full = int_of_z o.o_burst * 1000000000 in
          if abs (x - full) < band then len_amb := true;
          (* clock=real: the real gc() reads the clock a little after the virtual time of the g op (the generator keeps
             lastSeen 2 s clear of its threshold for the same reason): an idle entry that becomes full within 2 s may
             be collected by the implementation and kept by the model: only the number of entries can differ (the
             collector is unobservable in the decisions, C15_gc_unobservable) *)
          if real_clock && x < full && x + int_of_z o.o_limit * 2000000000 >= full then len_amb := true
        end) !tbl;
      (* a key whose bucket state is ambiguous (an earlier decision inside the band): the collector's "has refilled
         completely" test may come out differently on the two sides, unless the entry has been idle for so long that
         every possible bucket state is full (tokens > -rate always): rate * idle >= (burst + 1) tokens *)
      let sure = List.filter (fun k -> match lim_lookup k !tbl with
        | Some b -> int_of_z o.o_limit * (!t - int_of_z b.b_seen) >= (int_of_z o.o_burst + 1) * 1000000000
        | None -> false) !tainted in
      if List.exists (fun k -> lim_lookup k !tbl <> None && not (List.exists (addr_eqb k) sure)) !tainted then len_amb := true;
      tbl := fst (lim_step o !tbl e);
      (* a surely collected entry is fresh again on both sides *)
      tainted := List.filter (fun k -> not (lim_lookup k !tbl = None && List.exists (addr_eqb k) sure)) !tainted
    | _ -> failwith ("bad op " ^ op)) ops;
  let h = List.rev !hist in
  (* spec: the window bound of C15_bound / C15_bound_gc on the model's own decisions, a few windows per key *)
  let spec =
    if not (lim_sorted h) then "spec=skip-unsorted" else begin
      let ds = lim_decisions o [] h in
      let keys = ref [] in
      List.iter (fun e -> match e with
        | EvAllow (_, a, _) -> let k = mask_addr o a in
          if not (List.exists (fun k' -> addr_eqb k k') !keys) then keys := !keys @ [k]
        | _ -> ()) h;
      let bad = ref None in
      List.iteri (fun ki k ->
        if ki < 4 && !bad = None then begin
          let times = List.filter_map (fun (e, d) -> match e, d with
            | EvAllow (tz, a, _), Some true when addr_eqb (mask_addr o a) k -> Some tz | _ -> None) (List.combine h ds) in
          let arr = Array.of_list times in
          let m = Array.length arr in
          if m > 0 then begin
            let last = arr.(m - 1) and first = arr.(0) in
            let pick = List.sort_uniq compare [0; m / 8; m / 4; 3 * m / 8; m / 2; 5 * m / 8; 3 * m / 4; 7 * m / 8; m - 1] in
            List.iter (fun i ->
              if not (bound_ok_ds o k arr.(i) last h ds) then bad := Some (c15_fmt_addr k);
              if not (bound_ok_ds o k first arr.(i) h ds) then bad := Some (c15_fmt_addr k)) pick
          end
        end) !keys;
      match !bad with
      | None -> "spec=ok"
      | Some k -> if has_gc h then "spec=FAIL:window-bound-exceeded-after-gc:" ^ k else "spec=FAIL:window-bound-exceeded:" ^ k
    end in
  let d = Buffer.contents dec in
  Printf.sprintf "dec=%s len=%s band=%d || %s" (if d = "" then "-" else d)
    (if !len_amb then "?" else string_of_int (List.length !tbl)) !nband spec

let run_limiter (parts : string list) : string =
  let f = fields parts in
  limiter_core (set_default (c15_opts f)) f

(* ---- round 2: the router's configuration mapping (kind limconfig) ---- *)
let c15_cfg f =
  { lc_global = z_of_int (match fld_opt f "global" with Some g -> int_of_string g | None -> 0);
    lc_limit = z_of_int (ifld f "rate"); lc_burst = z_of_int (ifld f "burst");
    lc_v4 = z_of_int (ifld f "v4"); lc_v6 = z_of_int (ifld f "v6") }

let run_limconfig (parts : string list) : string =
  let f = fields parts in
  let c = c15_cfg f in
  let glob = match cfg_global c with
    | Some g -> Printf.sprintf "%d/%d" (int_of_z g) (int_of_z g) | None -> "-" in
  match cfg_client c with
  | None -> "cl=0 glob=" ^ glob
  | Some o ->
    let addrs = List.map c15_addr (split_on ',' (fld f "addrs")) in
    let keys = List.map (fun a -> match cfg_key c a with Some k -> k | None -> LANone) addrs in
    (* spec: C15_config_key / C15_config_mapping, executable: the key is the address truncated to the configured
       mask of its family, the effective masks are the configured masks of their families *)
    let spec_keys = List.for_all2 (fun a k -> addr_eqb k (cfg_subnet c a)) addrs keys in
    let spec_masks = o.o_v4 = cfg_mask4 c && o.o_v6 = cfg_mask6 c in
    let core = limiter_core o f in
    let core_res, core_spec =
      (match Str.bounded_split (Str.regexp_string " || ") core 2 with
       | [a; b] -> a, b | _ -> core, "spec=ok") in
    let spec = if not spec_masks then "spec=FAIL:effective-masks-differ-from-configured"
      else if not spec_keys then "spec=FAIL:key-is-not-the-configured-subnet" else core_spec in
    Printf.sprintf "cl=1 glob=%s eff=%d/%d/%d/%d keys=%s %s || %s" glob (int_of_z o.o_limit) (int_of_z o.o_burst)
      (int_of_z o.o_v4) (int_of_z o.o_v6) (String.concat "," (List.map c15_fmt_addr keys)) core_res spec

(* ---- round 2: concurrent first arrivals (kind limrace) ---- *)
(* the harness's addresses: host `host` of subnet number `sub` under prefix length m *)
let c15_race_addr fam m sub host =
  if fam = "4" then begin
    let sh = 32 - m in
    let x = 0x0A000000 + (sub lsl sh) in
    let x = if sh > 0 then x lor (host land ((1 lsl sh) - 1) land 0xFF) else x in
    LA4 (n_of_int x)
  end else begin
    let hi = N.add (N.mul (n_of_int 0x20010db8) (n_of_int 4294967296)) (n_of_int (sub lsl (64 - m))) in
    LA6 (N.add (N.mul hi (N.mul (n_of_int 4294967296) (n_of_int 4294967296))) (n_of_int (host land 0xFFFF)))
  end

let run_limrace (parts : string list) : string =
  let f = fields parts in
  let c = c15_cfg f in
  match cfg_client c with
  | None -> "HARNESS-ERROR no client limiter"
  | Some o ->
    let g = ifld f "g" and calls = ifld f "calls" and cost = ifld f "cost" and rounds = ifld f "rounds" in
    let fam = fld f "fam" and mode = fld f "mode" and clock = fld f "clock" in
    let m = int_of_z (if fam = "4" then o.o_v4 else o.o_v6) in
    let burst = int_of_z o.o_burst in
    (* the calls of one round: goroutine-major *)
    let mk_calls now sub = List.concat (List.init g (fun i ->
      List.init calls (fun _ -> ((z_of_int now, c15_race_addr fam m sub (i + 1)), z_of_int cost)))) in
    let key sub = mask_addr o (c15_race_addr fam m sub 1) in
    (* (a) the interleaving machine with the atomic get-or-create, under a pseudo-random schedule that respects
       each goroutine's program order; (b) the sequential model on the same arrivals; they must agree *)
    let seed = ref (Hashtbl.hash (String.concat " " parts) land 0x3FFFFFFF) in
    let rnd n = seed := (!seed * 1103515245 + 12345) land 0x3FFFFFFF; (!seed lsr 8) mod n in
    let conc_round now sub =
      let cs = mk_calls now sub in
      let cursor = Array.make g 0 and micro = Array.make g 0 in
      let sched = ref [] in
      let live = ref (List.init g (fun i -> i)) in
      while !live <> [] do
        let i = List.nth !live (rnd (List.length !live)) in
        sched := (i * calls + cursor.(i)) :: !sched;
        micro.(i) <- micro.(i) + 1;
        if micro.(i) = 2 then begin micro.(i) <- 0; cursor.(i) <- cursor.(i) + 1 end;
        if cursor.(i) >= calls then live := List.filter (fun j -> j <> i) !live
      done;
      let st = cc_run true o cs (List.rev_map nat_of_int !sched) in
      if not (cc_all_done st.cc_pcs) then failwith "schedule incomplete";
      int_of_z (cc_granted o (key sub) cs st.cc_pcs) in
    let seq_round tbl now sub =
      List.fold_left (fun (tbl, adm) ((t, a), n) ->
        let (tbl', d) = lim_step o tbl (EvAllow (t, a, n)) in
        (tbl', if d = Some true then adm + int_of_z n else adm)) (tbl, 0) (mk_calls now sub) in
    let both tbl now sub =
      let a = conc_round now sub in
      let (tbl', b) = seq_round tbl now sub in
      if a <> b then failwith (Printf.sprintf "MODEL-INCONSISTENT conc=%d seq=%d" a b);
      (tbl', a) in
    if clock = "real" then Printf.sprintf "r=%d adm=? worst=? ctl=- || spec=ok" rounds
    else begin
      let spec a = if a * 1000000000 <= burst * 1000000000 + int_of_z o.o_limit - 1 then "spec=ok"
        else "spec=FAIL:concurrent-first-arrivals-exceed-burst" in
      if mode = "fresh" then begin
        (* every round is the same machine run on a fresh subnet: one round decides all *)
        let (_, a) = both [] 0 1 in
        let ctl = min (min burst 3) rounds in
        Printf.sprintf "r=%d adm=%d..%d ctl=%d || %s" rounds a a ctl (spec a)
      end else begin
        let t1 = 61 * 1000000000 in
        let (tbl, a) = both [] 0 1 in
        let (tbl, _) = lim_step o tbl (EvGc (z_of_int t1)) in
        let collected = lim_lookup (key 1) tbl = None in
        let a2 = if collected then snd (both tbl t1 1) else snd (seq_round tbl t1 1) in
        Printf.sprintf "r=%d adm=%d..%d adm2=%d..%d coll=%d ctl=%d || %s" rounds a a a2 a2
          (if collected then rounds else 0) (2 * rounds * burst) (spec (max a a2))
      end
    end

let run_limdefaults (parts : string list) : string =
  let f = fields parts in
  match fld_opt f "consts" with
  | Some _ ->
    Printf.sprintf "ttl=%d costs=%s" (int_of_z entry_ttl)
      (String.concat "," (List.map (fun c -> string_of_int (int_of_z c))
        [costUDPQuery; costTCPQuery; costHTTPQuery; costQUICQuery; costTCPConn; costTLSConn; costQuicConn;
         costFromCache; costFromUpstream]))
  | None ->
    let o = set_default (c15_opts f) in
    let keys = List.map (fun a -> c15_fmt_addr (mask_addr o (c15_addr a))) (split_on ',' (fld f "addrs")) in
    Printf.sprintf "eff=%d/%d/%d/%d keys=%s" (int_of_z o.o_limit) (int_of_z o.o_burst) (int_of_z o.o_v4)
      (int_of_z o.o_v6) (String.concat "," keys)

(* kind admit: steps <lst>:<addr>; lst = uq (UDP query) | tq (TCP query on the client's connection, opened on
   first use) | hq (HTTP query, client address from the header; the carrying connection comes from hc) |
   qq (QUIC query on the client's connection, opened on first use) *)
let run_admit (parts : string list) : string =
  let f = fields parts in
  let r = ref (rl_of_config (c15_cfg f) Z0) in
  let conns = ref [] in
  let out = ref [] in
  let name o = match o with
    | OAccepted -> "ACCEPT" | OConnClosed -> "CLOSED" | OAnswered -> "ANS" | ORefused -> "REFUSED"
    | O503 -> "503" | OStreamClosed -> "SCLOSED" | OBadRequest -> "400" in
  let do_step e = let (r', o) = listener_step !r Z0 e in r := r'; o in
  let query l araw =
    (* connection-oriented listeners: the connection cost is charged when the client's connection is opened *)
    let a = c15_addr araw in
    let key = (l, araw) in
    let need_conn = (match l with LmTcp | LQuic -> not (List.mem key !conns) | _ -> false) in
    let ok = if need_conn then (match do_step (AConn (l, a)) with
      | OAccepted -> conns := key :: !conns; true | _ -> false) else true in
    if not ok then out := "CLOSED" :: !out
    else out := name (do_step (AQuery (l, a, false))) :: !out in
  List.iter (fun st ->
    match String.split_on_char ':' st with
    | ["uq"; a] -> query LmUdp a
    | ["tq"; a] -> query LmTcp a
    | ["qq"; a] -> query LQuic a
    | ["hc"; a] -> out := name (do_step (AConn (LmHttp, c15_addr a))) :: !out
    | ["hq"; a] -> out := name (do_step (AQuery (LmHttp, c15_addr a, false))) :: !out
    | ["hx"; _] -> out := name (do_step (ABadAddr LmHttp)) :: !out
    | _ -> failwith ("bad step " ^ st)) (split_on ',' (fld f "steps"));
  "out=" ^ String.concat "," (List.rev !out)

let () = register "limiter" run_limiter
let () = register "limdefaults" run_limdefaults
let () = register "limconfig" run_limconfig
let () = register "limrace" run_limrace
let () = register "admit" run_admit

(* ---- round 4: the composed limiter (kind limglobalspec = respec of limglobal) ----
   case: the limglobal case line + t=<a0>:<b0>,... ires=<impl results>.  The model replays every call of phase p at the
   measured instant a_p; the real call happened somewhere in [a_p, b_p].  Model tokens and real tokens of a bucket differ
   by at most rate * 2 * (sum of the phase durations so far) (+ float64): a decision closer to its threshold is '?', and
   so is every later decision that involves that bucket. *)
let run_limglobalspec (parts : string list) : string =
  let f = fields parts in
  let c = c15_cfg f in
  let phases = List.map (fun ps ->
    match String.index_opt ps '/' with
    | Some i ->
      let cs = String.sub ps (i + 1) (String.length ps - i - 1) in
      List.map (fun cl -> match String.split_on_char ':' cl with
        | [a; n] -> (c15_addr a, int_of_string n) | _ -> failwith ("bad call " ^ cl)) (split_on '+' cs)
    | None -> failwith ("bad phase " ^ ps)) (split_on ',' (fld f "ph")) in
  let times = List.map (fun s -> match String.split_on_char ':' s with
    | [a; b] -> (int_of_string a, int_of_string b) | _ -> failwith "bad t") (split_on ',' (fld f "t")) in
  let ires = List.map (fun s -> if s = "-" then "" else s) (String.split_on_char ',' (fld f "ires")) in
  if List.length times <> List.length phases || List.length ires <> List.length phases then "spec=FAIL:shape" else begin
  let r = ref (rl_of_config c Z0) in
  let o_opt = cfg_client c in
  let glim = (match cfg_global c with Some g -> int_of_z g | None -> 0) in
  let crate = (match o_opt with Some o -> int_of_z o.o_limit | None -> 0) in
  let cburst = (match o_opt with Some o -> int_of_z o.o_burst | None -> 0) in
  let dur = ref 0 in
  let g_taint = ref false and k_taint = ref [] in
  let out = Buffer.create 64 in
  let bad = ref None in
  (* property oracle on the implementation's own results (C15_client_refusal_means_own_budget, executable): *)
  let granted = ref [] in   (* key -> cost admitted so far, by the implementation *)
  let own = ref None in
  let pi = ref 0 in
  List.iter2 (fun (calls, (a, b)) rs ->
    if String.length rs <> List.length calls then bad := Some "shape" else begin
    dur := !dur + (b - a);
    let gband = glim * 2 * !dur + 1000 and cband = crate * 2 * !dur + 1000 in
    List.iteri (fun i (addr, n) ->
      let now = z_of_int a in
      let ir = rs.[i] in
      (* margins before the step *)
      let gmargin = (match !r.rl_global with
        | Some (lim, bk) -> if n <= int_of_z lim then
              Some (int_of_z (step_margin { o_limit = lim; o_burst = lim; o_v4 = z_of_int 32; o_v6 = z_of_int 128 }
                                 [ (LA4 N0, bk) ] (EvAllow (now, LA4 N0, z_of_int n)) |> (function Some m -> m | None -> Z0)))
            else None
        | None -> None) in
      let key = (match o_opt with Some o -> mask_addr o addr | None -> LANone) in
      let cmargin = (match !r.rl_client with
        | Some (o, tbl) -> (match step_margin o tbl (EvAllow (now, addr, z_of_int n)) with Some m -> Some (int_of_z m) | None -> None)
        | None -> None) in
      let (r', res) = rl_allow !r now addr (z_of_int n) in
      r := r';
      let mr = (match res with RlOk -> 'o' | RlGlobal -> 'g' | RlClient -> 'c') in
      let g_amb = (match gmargin with Some m -> abs m < gband | None -> false) in
      if g_amb then g_taint := true;
      let reaches_client = (mr <> 'g') && addr <> LANone && o_opt <> None in
      let c_amb = reaches_client && (match cmargin with Some m -> abs m < cband | None -> false) in
      if c_amb && not (List.exists (addr_eqb key) !k_taint) then k_taint := key :: !k_taint;
      let unsure = (addr <> LANone) && (!g_taint || (o_opt <> None && List.exists (addr_eqb key) !k_taint)) in
      (* once the global bucket is ambiguous, which calls reach the client limiter is ambiguous too *)
      if !g_taint && o_opt <> None && addr <> LANone && not (List.exists (addr_eqb key) !k_taint) then k_taint := key :: !k_taint;
      Buffer.add_char out (if unsure then '?' else mr);
      if not unsure && mr <> ir && !bad = None then
        bad := Some (Printf.sprintf "phase-%d-call-%d:model-%c-impl-%c" !pi i mr ir);
      (* own-budget oracle, timing-free *)
      if addr <> LANone && o_opt <> None then begin
        let kk = c15_fmt_addr key in
        let g0 = (try List.assoc kk !granted with Not_found -> 0) in
        if ir = 'c' && n >= 0 && g0 + n <= cburst && !own = None then
          own := Some (Printf.sprintf "client-refusal-within-own-budget:%s:admitted-%d-cost-%d-burst-%d" kk g0 n cburst);
        if ir = 'o' then granted := (kk, g0 + n) :: List.remove_assoc kk !granted
      end) calls;
    Buffer.add_char out ',';
    incr pi end) (List.combine phases times) ires;
  let res = Buffer.contents out in
  let res = if res = "" then "-" else String.sub res 0 (String.length res - 1) in
  match !own, !bad with
  | Some w, _ -> Printf.sprintf "res=%s || spec=FAIL:%s" res w
  | None, Some w -> Printf.sprintf "res=%s || spec=FAIL:%s" res w
  | None, None -> Printf.sprintf "res=%s || spec=ok" res
  end

let () = register "limglobalspec" run_limglobalspec

(* ---- round 6: one long-lived stream connection (kind limstreamspec = respec of limstream) ----
   case: the limstream case line + t=<a>:<b>,... iout=<impl letters per step>.  Token bucket composed with the
   per-connection in-flight counter (lsc_step).  Every query of a step arrives at the measured instant a_i; the real arrival
   is later by at most u_i = (b_i - a_i) minus the known waiting (upstream delay for answered queries, 60 ms stream-close
   detection for refused quic streams).  Model and real tokens differ by at most rate * 2 * (sum of u) (+1e-6): a limiter
   decision closer to its threshold is '?', and so is every later decision. *)
let run_limstreamspec (parts : string list) : string =
  let f = fields parts in
  let l = (match fld f "l" with "tcp" -> LmTcp | "tls" -> LTls | "gnet" -> LGnet | "quic" -> LQuic | x -> failwith ("bad l " ^ x)) in
  let maxc = (let m = ifld f "maxc" in if m <= 0 then 100 else m) in
  let updelay = ifld f "updelay" * 1000000 in
  let c = { lc_global = Z0; lc_limit = z_of_int (ifld f "rate"); lc_burst = z_of_int (ifld f "burst");
            lc_v4 = Z0; lc_v6 = Z0 } in
  let rate = ifld f "rate" in
  let steps = split_on ',' (fld f "steps") in
  let times = List.map (fun s -> match String.split_on_char ':' s with
    | [a; b] -> (int_of_string a, int_of_string b) | _ -> failwith "bad t") (split_on ',' (fld f "t")) in
  let iouts = split_on ',' (fld f "iout") in
  if List.length times <> List.length steps || List.length iouts <> List.length steps then "spec=FAIL:shape" else begin
  let client = LA4 (n_of_int 0x7F000101) and neigh = LA4 (n_of_int 0x7F000102) in
  let rl = ref (rl_of_config c Z0) in
  let infl = [| 0; 0 |] in          (* in-flight counter of the client's / the neighbour's connection *)
  let usum = ref 0 in
  let tainted = ref false in
  let bad = ref None in
  let out = Buffer.create 64 in
  let refusal_letter = (match l with LQuic -> 'C' | _ -> 'R') in
  let si = ref 0 in
  let arrive who addr now k =
    (* k queries read one after the other at [now]; the handled ones stay in flight until the step is over *)
    let letters = Buffer.create 8 in
    let handled = ref 0 in
    (* a pipelined burst: the read loop's per-query checks (cost 2) race with the handlers' charges for the forwarded
       queries (cost 3, result ignored).  The outcome is order-independent only when the bucket holds the whole burst
       (5 per query); otherwise nothing is compared from here on *)
    if k > 1 then begin
      let ample = (match !rl.rl_client with
        | Some (o, tbl) ->
          (match step_margin o tbl (EvAllow (z_of_int now, addr, z_of_int (5 * k))) with
           | Some m -> int_of_z m > rate * 2 * !usum + 1000 | None -> false)
        | None -> true) in
      (* ... or when it clearly cannot pay for a single query: every query of the burst is refused *)
      let empty = (match query_cost l, !rl.rl_client with
        | Some qc, Some (o, tbl) ->
          (match step_margin o tbl (EvAllow (z_of_int now, addr, qc)) with
           | Some m -> int_of_z m < - (rate * 2 * !usum + 1000) | None -> true)
        | _ -> false) in
      if not ample && not empty then tainted := true
    end;
    for _ = 1 to k do
      let s = { lsc_rl = !rl; lsc_inflight = z_of_int infl.(who) } in
      let cap = lsc_cap_hit l (z_of_int maxc) s in
      (* the limiter's margin, if the limiter is consulted *)
      let amb = (not cap) && (match query_cost l, !rl.rl_client with
        | Some qc, Some (o, tbl) ->
          (match step_margin o tbl (EvAllow (z_of_int now, addr, qc)) with
           | Some m -> abs (int_of_z m) < rate * 2 * !usum + 1000 | None -> false)
        | _ -> false) in
      if amb then tainted := true;
      let (s', o) = lsc_step l (z_of_int maxc) s (LscArrive (z_of_int now, addr, false)) in
      rl := s'.lsc_rl; infl.(who) <- int_of_z s'.lsc_inflight;
      let ch = (match o with Some OAnswered -> incr handled; 'A' | Some _ -> refusal_letter | None -> 'X') in
      Buffer.add_char letters (if !tainted then '?' else ch)
    done;
    for _ = 1 to !handled do
      let (s', _) = lsc_step l (z_of_int maxc) { lsc_rl = !rl; lsc_inflight = z_of_int infl.(who) } LscDone in
      infl.(who) <- int_of_z s'.lsc_inflight
    done;
    Buffer.contents letters in
  List.iter2 (fun (st, (a, b)) io ->
    (* this step's own uncertainty counts for its own decisions *)
    (match st.[0] with
     | 'q' | 'n' | 'p' ->
       let wait = if String.contains io 'A' then updelay
         else if l = LQuic && String.contains io 'C' then 60000000 else 0 in
       usum := !usum + max 0 (b - a - wait)
     | 'c' | 'd' ->
       (* a plain tcp connect waits 80 ms to see whether the server closes the connection at once *)
       let wait = if (l = LmTcp || l = LGnet) && io = "A" then 80000000 else 0 in
       usum := !usum + max 0 (b - a - wait)
     | _ -> ());
    let m = (match st.[0] with
      | 'c' | 'd' ->
        let addr = if st.[0] = 'c' then client else neigh in
        (* connection cost: its margin *)
        let amb = (match conn_cost l, !rl.rl_client with
          | Some cc, Some (o, tbl) ->
            (match step_margin o tbl (EvAllow (z_of_int a, addr, cc)) with
             | Some m -> abs (int_of_z m) < rate * 2 * !usum + 1000 | None -> false)
          | _ -> false) in
        if amb then tainted := true;
        let (r', o) = accept_conn !rl (z_of_int a) l addr in
        rl := r';
        let ch = (match o with OAccepted -> "A" | _ -> "C") in
        if !tainted then "?" else ch
      | 'q' -> arrive 0 client a 1
      | 'n' -> arrive 1 neigh a 1
      | 'p' -> arrive 0 client a (int_of_string (String.sub st 1 (String.length st - 1)))
      | 's' -> "-"
      | _ -> failwith ("bad step " ^ st)) in
    Buffer.add_string out m; Buffer.add_char out ',';
    if String.length m = String.length io then
      String.iteri (fun j ch -> if ch <> '?' && ch <> io.[j] && !bad = None then
        bad := Some (Printf.sprintf "step-%d-%s-query-%d:model-%c-impl-%c" !si st j ch io.[j])) m
    else if not (String.contains m '?') && !bad = None then bad := Some (Printf.sprintf "step-%d-shape" !si);
    incr si) (List.combine steps times) iouts;
  let res = Buffer.contents out in
  let res = if res = "" then "-" else String.sub res 0 (String.length res - 1) in
  (* C15_stream_slots_returned, executable: every step is quiescent at its end *)
  let leak = infl.(0) <> 0 || infl.(1) <> 0 in
  match !bad with
  | _ when leak -> Printf.sprintf "out=%s || spec=FAIL:model-counter-not-zero-at-quiescence" res
  | Some w -> Printf.sprintf "out=%s || spec=FAIL:%s" res w
  | None -> Printf.sprintf "out=%s || spec=ok" res
  end

let () = register "limstreamspec" run_limstreamspec
