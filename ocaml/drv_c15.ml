open Model
open Drv_common

(* ---------- C15: kinds limiter, limdefaults, admit ---------- *)

let hexval c = match c with
  | '0'..'9' -> Char.code c - 48 | 'a'..'f' -> Char.code c - 87 | 'A'..'F' -> Char.code c - 55
  | _ -> failwith "bad hex digit"
let n_of_hexstr (s : string) : n =
  let acc = ref N0 in
  String.iter (fun c -> acc := N.add (N.mul !acc (n_of_int 16)) (n_of_int (hexval c))) s; !acc
let bits_of_n (x : n) : bool list =
  match x with N0 -> [] | Npos p ->
    let rec go p = match p with XH -> [true] | XO q -> false :: go q | XI q -> true :: go q in go p
let hex_of_n (width : int) (x : n) : string =
  let bits = Array.make (width * 4) false in
  List.iteri (fun i b -> if i < width * 4 then bits.(i) <- b else if b then failwith "address too wide") (bits_of_n x);
  String.init width (fun d ->
    let lo = (width - 1 - d) * 4 in
    let v = b2i bits.(lo) + 2 * b2i bits.(lo + 1) + 4 * b2i bits.(lo + 2) + 8 * b2i bits.(lo + 3) in
    "0123456789abcdef".[v])

let c15_addr (s : string) =
  match String.index_opt s '-' with
  | Some 1 ->
    let h = String.sub s 2 (String.length s - 2) in
    if s.[0] = '4' && String.length h = 8 then LA4 (n_of_hexstr h)
    else if s.[0] = '6' && String.length h = 32 then LA6 (n_of_hexstr h)
    else failwith ("bad addr " ^ s)
  | _ -> if s = "none" then LANone else failwith ("bad addr " ^ s)
let c15_fmt_addr a : string =
  match a with LA4 x -> "4-" ^ hex_of_n 8 x | LA6 x -> "6-" ^ hex_of_n 32 x | LANone -> "none"

let c15_opts f =
  { o_limit = z_of_int (ifld f "rate"); o_burst = z_of_int (ifld f "burst");
    o_v4 = z_of_int (ifld f "v4"); o_v6 = z_of_int (ifld f "v6") }

let split_on c s = List.filter (fun x -> x <> "") (String.split_on_char c s)

(* epsilon band of the comparison (float64 vs exact arithmetic), in scaled units (1e-9 token) around the
   decision threshold margin = 0: at most 1e-6 token; narrower for small bursts, where the float64 error of a
   history (<= 150 operations, each with relative error 2^-52 on magnitudes <= burst) stays below
   burst * 1e-13 token = burst/10^4 units (a 10x safety factor is applied) *)
let band_of burst = min 1000 (max 1 (burst / 1000))

let run_limiter (parts : string list) : string =
  let f = fields parts in
  let o = set_default (c15_opts f) in
  let ops = split_on ',' (fld f "ops") in
  let band = band_of (int_of_z o.o_burst) in
  let t = ref 0 in
  let tbl = ref [] in
  let tainted = ref [] in
  let nband = ref 0 in
  let dec = Buffer.create 64 in
  let hist = ref [] in
  List.iter (fun op ->
    match String.split_on_char ':' op with
    | ["a"; dt; a; n] ->
      t := !t + int_of_string dt;
      let e = EvAllow (z_of_int !t, c15_addr a, z_of_int (int_of_string n)) in
      hist := e :: !hist;
      let k = mask_addr o (c15_addr a) in
      let inband = (match step_margin o !tbl e with Some m -> abs (int_of_z m) < band | None -> false) in
      let (tbl', d) = lim_step o !tbl e in
      tbl := tbl';
      let is_tainted = List.exists (fun k' -> addr_eqb k k') !tainted in
      if inband then incr nband;
      if inband && not is_tainted then tainted := k :: !tainted;
      Buffer.add_char dec (if is_tainted || inband then '?' else match d with Some true -> '1' | _ -> '0')
    | ["g"; dt] ->
      t := !t + int_of_string dt;
      let e = EvGc (z_of_int !t) in
      hist := e :: !hist;
      tbl := fst (lim_step o !tbl e);
      (* a collected entry is fresh again on both sides *)
      tainted := List.filter (fun k -> lim_lookup k !tbl <> None) !tainted
    | _ -> failwith ("bad op " ^ op)) ops;
  let h = List.rev !hist in
  (* spec: the window bound of C15_bound / C15_bound_gc on the model's own decisions, a few windows per key *)
  let spec =
    if not (lim_sorted h) then "spec=skip-unsorted" else begin
      let ds = lim_decisions o [] h in
      let keys = ref [] in
      List.iter (fun e -> match e with
        | EvAllow (_, a, _) -> let k = mask_addr o a in
          if not (List.exists (fun k' -> addr_eqb k k') !keys) then keys := !keys @ [k]
        | _ -> ()) h;
      let bad = ref None in
      List.iteri (fun ki k ->
        if ki < 4 && !bad = None then begin
          let times = List.filter_map (fun (e, d) -> match e, d with
            | EvAllow (tz, a, _), Some true when addr_eqb (mask_addr o a) k -> Some tz | _ -> None) (List.combine h ds) in
          let arr = Array.of_list times in
          let m = Array.length arr in
          if m > 0 then begin
            let last = arr.(m - 1) and first = arr.(0) in
            let pick = List.sort_uniq compare [0; m / 8; m / 4; 3 * m / 8; m / 2; 5 * m / 8; 3 * m / 4; 7 * m / 8; m - 1] in
            List.iter (fun i ->
              if not (bound_ok_ds o k arr.(i) last h ds) then bad := Some (c15_fmt_addr k);
              if not (bound_ok_ds o k first arr.(i) h ds) then bad := Some (c15_fmt_addr k)) pick
          end
        end) !keys;
      match !bad with
      | None -> "spec=ok"
      | Some k -> if has_gc h then "spec=FAIL:window-bound-exceeded-after-gc:" ^ k else "spec=FAIL:window-bound-exceeded:" ^ k
    end in
  let d = Buffer.contents dec in
  Printf.sprintf "dec=%s len=%d band=%d || %s" (if d = "" then "-" else d) (List.length !tbl) !nband spec

let run_limdefaults (parts : string list) : string =
  let f = fields parts in
  match fld_opt f "consts" with
  | Some _ ->
    Printf.sprintf "ttl=%d costs=%s" (int_of_z entry_ttl)
      (String.concat "," (List.map (fun c -> string_of_int (int_of_z c))
        [costUDPQuery; costTCPQuery; costHTTPQuery; costQUICQuery; costTCPConn; costTLSConn; costQuicConn;
         costFromCache; costFromUpstream]))
  | None ->
    let o = set_default (c15_opts f) in
    let keys = List.map (fun a -> c15_fmt_addr (mask_addr o (c15_addr a))) (split_on ',' (fld f "addrs")) in
    Printf.sprintf "eff=%d/%d/%d/%d keys=%s" (int_of_z o.o_limit) (int_of_z o.o_burst) (int_of_z o.o_v4)
      (int_of_z o.o_v6) (String.concat "," keys)

(* kind admit: steps <lst>:<addr>; lst = uq (UDP query) | tq (TCP query on the client's connection, opened on
   first use) | hq (HTTP query, client address from the header; the carrying connection comes from hc) |
   qq (QUIC query on the client's connection, opened on first use) *)
let run_admit (parts : string list) : string =
  let f = fields parts in
  let r = ref (rl_init (z_of_int (ifld f "global")) Z0 (c15_opts f)) in
  let conns = ref [] in
  let out = ref [] in
  let name o = match o with
    | OAccepted -> "ACCEPT" | OConnClosed -> "CLOSED" | OAnswered -> "ANS" | ORefused -> "REFUSED"
    | O503 -> "503" | OStreamClosed -> "SCLOSED" in
  let do_step e = let (r', o) = listener_step !r Z0 e in r := r'; o in
  let query l a =
    (* connection-oriented listeners: the connection cost is charged when the client's connection is opened *)
    let key = (l, c15_fmt_addr a) in
    let need_conn = (match l with LmTcp | LQuic -> not (List.mem key !conns) | _ -> false) in
    let ok = if need_conn then (match do_step (AConn (l, a)) with
      | OAccepted -> conns := key :: !conns; true | _ -> false) else true in
    if not ok then out := "CLOSED" :: !out
    else out := name (do_step (AQuery (l, a, false))) :: !out in
  List.iter (fun st ->
    match String.split_on_char ':' st with
    | ["uq"; a] -> query LmUdp (c15_addr a)
    | ["tq"; a] -> query LmTcp (c15_addr a)
    | ["qq"; a] -> query LQuic (c15_addr a)
    | ["hc"; a] -> out := name (do_step (AConn (LmHttp, c15_addr a))) :: !out
    | ["hq"; a] -> out := name (do_step (AQuery (LmHttp, c15_addr a, false))) :: !out
    | _ -> failwith ("bad step " ^ st)) (split_on ',' (fld f "steps"));
  "out=" ^ String.concat "," (List.rev !out)

let () = register "limiter" run_limiter
let () = register "limdefaults" run_limdefaults
let () = register "admit" run_admit
