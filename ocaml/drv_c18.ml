open Model
open Drv_common

(* ---------- C18: kinds closerace, upclose, startup ---------- *)

(* ---- closerace: replay a script of external events on the reuse / pipeline close-race model ----
   case:   <id> tr=<reuse|pipeline> dm=<honour|ignore> max=<n> it=<ms> ev=<e>,<e>,...
   events: x | dok<j> | dfail<j> | reply<i> | perr<i> | cancel<i> | idle | close
           (j = number of the dialer invocation, i = number of the exchange, both from 0)
   result: ev=<o|s per event> res=<ok|err|pend per exchange> open=<n> dials=<n> closed=<0|1> || spec=... *)

type ev = EvX | EvDok of int | EvDfail of int | EvReply of int | EvPerr of int | EvCancel of int | EvIdle | EvClose

let parse_ev (s : string) : ev =
  let num pre = int_of_string (String.sub s (String.length pre) (String.length s - String.length pre)) in
  let has pre = String.length s >= String.length pre && String.sub s 0 (String.length pre) = pre in
  if s = "x" then EvX else if s = "idle" then EvIdle else if s = "close" then EvClose
  else if has "dok" then EvDok (num "dok") else if has "dfail" then EvDfail (num "dfail")
  else if has "reply" then EvReply (num "reply") else if has "perr" then EvPerr (num "perr")
  else if has "cancel" then EvCancel (num "cancel") else failwith ("closerace: bad event " ^ s)

let res_str (r : bool option) : string = match r with None -> "pend" | Some true -> "ok" | Some false -> "err"

let run_closerace (parts : string list) : string =
  let f = fields parts in
  let honour = fld f "dm" = "honour" in
  let maxs = nat_of_int (ifld f "max") in
  let evs = List.map parse_ev (List.filter (fun s -> s <> "") (String.split_on_char ',' (fld f "ev"))) in
  let marks = Buffer.create 16 in
  let spec_fail = ref [] in
  let note_spec b why = if not b && not (List.mem why !spec_fail) then spec_fail := why :: !spec_fail in
  if fld f "tr" = "reuse" then begin
    let s = ref r_init in
    let xtask : int list ref = ref [] in        (* exchange number -> task index (reversed) *)
    let dtask : int list ref = ref [] in        (* dial number -> task index (reversed) *)
    let task_of l i = let a = List.rev !l in if i < List.length a then Some (List.nth a i) else None in
    let scan_dials () =
      let n = List.length (rs_tasks !s) in
      for t = 0 to n - 1 do
        if r_is_dialing !s (nat_of_int t) && not (List.mem t !dtask) then dtask := t :: !dtask
      done in
    let closed_seen = ref false in
    List.iter (fun e ->
      let x = match e with
        | EvX -> Some XSpawn
        | EvDok j -> (match task_of dtask j with Some t -> Some (XDialOk (nat_of_int t)) | None -> None)
        | EvDfail j -> (match task_of dtask j with Some t -> Some (XDialFail (nat_of_int t)) | None -> None)
        | EvReply i -> (match task_of xtask i with Some t -> Some (XReply (nat_of_int t)) | None -> None)
        | EvPerr i -> (match task_of xtask i with Some t -> Some (XPeerErr (nat_of_int t)) | None -> None)
        | EvCancel i -> (match task_of xtask i with Some t -> Some (XCancel (nat_of_int t)) | None -> None)
        | EvIdle -> Some XIdle
        | EvClose -> Some XClose in
      let applied = match x with
        | None -> false
        | Some x ->
          let ntasks = List.length (rs_tasks !s) in
          (match r_big honour !s x with
           | Some s' ->
             if e = EvX then xtask := ntasks :: !xtask;
             (* a dial invoked after Close would be a new exchange not failing immediately *)
             let before = List.length !dtask in
             s := s'; scan_dials ();
             if !closed_seen then note_spec (List.length !dtask = before) "dial-after-close";
             true
           | None -> false) in
      if e = EvClose then closed_seen := true;
      Buffer.add_char marks (if applied then 'o' else 's');
      note_spec (r_quiet honour !s) "not-quiescent(fuel)";
      (* C18_no_leak on the model's own state: after Close, open = dials that returned but have not yet completed *)
      if rs_closed !s then begin
        let pending_returned = 0 in   (* quiescent states have no task in RsReturned *)
        note_spec (int_of_nat (r_open_count !s) = pending_returned) "open-after-close"
      end) evs;
    let results = List.map (fun t -> res_str (r_result !s (nat_of_int t))) (List.rev !xtask) in
    if rs_closed !s then
      List.iter2 (fun t r ->
        (* C18_fail_not_hang: nobody waits after Close, unless its (ignore-mode) dial is still pending *)
        if r = "pend" then note_spec (not honour && r_is_dialing !s (nat_of_int t)) "pend-after-close") (List.rev !xtask) results;
    Printf.sprintf "ev=%s res=%s open=%d dials=%d closed=%d || spec=%s"
      (Buffer.contents marks) (if results = [] then "-" else String.concat "," results)
      (int_of_nat (r_open_count !s)) (List.length !dtask) (b2i (rs_closed !s))
      (if !spec_fail = [] then "ok" else "FAIL:" ^ String.concat "+" (List.rev !spec_fail))
  end else if fld f "tr" = "quic" then begin
    let s = ref sdq_init in
    let xtask : int list ref = ref [] in
    let task_of i = let a = List.rev !xtask in if i < List.length a then Some (List.nth a i) else None in
    let closed_seen = ref false in
    let holding st = List.length (List.filter qd_holds_raw (sq_calls st)) in
    let dialing st = List.length (List.filter (fun d -> match d.qd_stage with QdDialing -> true | _ -> false) (sq_calls st)) in
    List.iter (fun e ->
      let x = match e with
        | EvX -> Some XSpawn
        | EvDok j -> Some (XDialOk (nat_of_int j))
        | EvDfail j -> Some (XDialFail (nat_of_int j))
        | EvReply i -> (match task_of i with Some t -> Some (XReply (nat_of_int t)) | None -> None)
        | EvPerr i -> (match task_of i with Some t -> Some (XPeerErr (nat_of_int t)) | None -> None)
        | EvCancel i -> (match task_of i with Some t -> Some (XCancel (nat_of_int t)) | None -> None)
        | EvIdle -> Some XIdle
        | EvClose -> Some XClose in
      let applied = match x with
        | None -> false
        | Some x ->
          let ntasks = List.length (sq_tasks !s) in
          let ncalls = List.length (sq_calls !s) in
          (match sdq_big honour !s x with
           | Some s' ->
             if e = EvX then xtask := ntasks :: !xtask;
             s := s';
             if !closed_seen then note_spec (List.length (sq_calls !s) = ncalls) "dial-after-close";
             true
           | None -> false) in
      if e = EvClose then closed_seen := true;
      Buffer.add_char marks (if applied then 'o' else 's');
      note_spec (sdq_quiet honour !s) "not-quiescent(fuel)";
      (* C18_no_leak_quic on the model's own state *)
      if sq_closed !s then note_spec (int_of_nat (sdq_open_count !s) = holding !s) "open-after-close") evs;
    let results = List.map (fun t -> res_str (sdq_result !s (nat_of_int t))) (List.rev !xtask) in
    if sq_closed !s then begin
      (* C18_quic_waiters_woken / fail_not_hang: nobody waits after Close unless its (ignore-mode) dial is still running *)
      let npend = List.length (List.filter (fun r -> r = "pend") results) in
      if npend > 0 then note_spec (not honour && dialing !s > 0) "pend-after-close"
    end;
    Printf.sprintf "ev=%s res=%s open=%d dials=%d closed=%d || spec=%s"
      (Buffer.contents marks) (if results = [] then "-" else String.concat "," results)
      (int_of_nat (sdq_open_count !s)) (List.length (sq_calls !s)) (b2i (sq_closed !s))
      (if !spec_fail = [] then "ok" else "FAIL:" ^ String.concat "+" (List.rev !spec_fail))
  end else begin
    let s = ref sdp_init in
    let xtask : int list ref = ref [] in
    let task_of i = let a = List.rev !xtask in if i < List.length a then Some (List.nth a i) else None in
    let closed_seen = ref false in
    List.iter (fun e ->
      let x = match e with
        | EvX -> Some XSpawn
        | EvDok j -> Some (XDialOk (nat_of_int j))
        | EvDfail j -> Some (XDialFail (nat_of_int j))
        | EvReply i -> (match task_of i with Some t -> Some (XReply (nat_of_int t)) | None -> None)
        | EvPerr i -> (match task_of i with Some t -> Some (XPeerErr (nat_of_int t)) | None -> None)
        | EvCancel i -> (match task_of i with Some t -> Some (XCancel (nat_of_int t)) | None -> None)
        | EvIdle -> Some XIdle
        | EvClose -> Some XClose in
      let applied = match x with
        | None -> false
        | Some x ->
          let ntasks = List.length (ps_tasks !s) in
          let ndials = List.length (ps_dials !s) in
          (match sdp_big honour maxs !s x with
           | Some s' ->
             if e = EvX then xtask := ntasks :: !xtask;
             s := s';
             if !closed_seen then note_spec (List.length (ps_dials !s) = ndials) "dial-after-close";
             true
           | None -> false) in
      if e = EvClose then closed_seen := true;
      Buffer.add_char marks (if applied then 'o' else 's');
      note_spec (sdp_quiet honour maxs !s) "not-quiescent(fuel)";
      if ps_closed !s then begin
        let pending = List.length (List.filter (fun d -> match d.pd_stage with PdGot true -> true | _ -> false) (ps_dials !s)) in
        note_spec (int_of_nat (sdp_open_count !s) = pending) "open-after-close"
      end) evs;
    let results = List.map (fun t -> res_str (sdp_result !s (nat_of_int t))) (List.rev !xtask) in
    if ps_closed !s then
      List.iter (fun r -> if r = "pend" then note_spec false "pend-after-close") results;
    Printf.sprintf "ev=%s res=%s open=%d dials=%d closed=%d || spec=%s"
      (Buffer.contents marks) (if results = [] then "-" else String.concat "," results)
      (int_of_nat (sdp_open_count !s)) (List.length (ps_dials !s)) (b2i (ps_closed !s))
      (if !spec_fail = [] then "ok" else "FAIL:" ^ String.concat "+" (List.rev !spec_fail))
  end

(* ---- upclose: Close of a real upstream of each kind; the model gives the Close call graph ----
   case:   <id> up=<udp|tcp|tcp+pipeline|tls|tls+pipeline|https|h3|quic> x=<0|1> [pinned=1]
   result: close=<ok> close2=<ok> after=<err> *)
let ukind_of (s : string) : ukind =
  match s with
  | "udp" -> KUdp | "tcp" -> KTcp | "tcp+pipeline" -> KTcpPipeline | "tls" -> KTls | "tls+pipeline" -> KTlsPipeline
  | "https" -> KHttps | "h3" -> KH3 | "quic" -> KQuic | _ -> failwith ("upclose: unknown upstream kind " ^ s)

let run_upclose (parts : string list) : string =
  let f = fields parts in
  let k = ukind_of (fld f "up") in
  let pinned = (fld_opt f "pinned" = Some "1") in
  let x = ifld f "x" in
  (* qfix=1: the tree under test has the K6b fix (QUIC waiters woken when the transport closes during their dial) *)
  let qfix = (fld_opt f "qfix" <> Some "0") in
  (* k6=0: the tree before the K6a / K6c / K6d fixes (https without connTracker, quic / h3 keep their UDP socket) *)
  let k6 = (fld_opt f "k6" <> Some "0") in
  match close_calls pinned (nat_of_int 16) (upstream_closee k) with
  | Ok _ ->
    let leak = int_of_nat (up_leak k6 k) in
    let spec_bits =
      (if leak = 0 then [] else ["leak"])
      @ (if x = 2 then (if up_inflight_prompt k6 qfix k then [] else ["inflight-waits-for-own-deadline"])
         else (if up_after_fails k6 k (x = 1) then [] else ["exchange-after-close-succeeds"])) in
    let spec = if spec_bits = [] then "ok" else "FAIL:" ^ String.concat "+" spec_bits in
    if x = 2 then
      Printf.sprintf "close=ok close2=ok inflight=%s leak=%d || spec=%s"
        (if up_inflight_prompt k6 qfix k then "prompt" else "deadline") leak spec
    else
      Printf.sprintf "close=ok close2=ok after=%s leak=%d || spec=%s"
        (if up_after_fails k6 k (x = 1) then "err" else "ok") leak spec
  | OutOfFuel -> "CRASH || spec=FAIL:close-does-not-terminate"
  | _ -> "PANIC! || spec=FAIL"

(* ---- startup: run(cfg) with a failing step at a given position ----
   case:   <id> mode=<inproc|bin> metrics=<0|1> nu=<n> nd=<n> nr=<n> srv=<proto,proto,..> fail=<none|kind:idx> ...
   result: res=<OK|ERR> srv=<number of listeners released (ERR) / started (OK)> *)
let run_startup (parts : string list) : string =
  let f = fields parts in
  let metrics = fld f "metrics" = "1" in
  let nu = ifld f "nu" and nd = ifld f "nd" and nr = ifld f "nr" in
  let srv = List.filter (fun s -> s <> "" && s <> "-") (String.split_on_char ',' (fld f "srv")) in
  let ns = List.length srv in
  let base_m = 1 in
  let base_u = base_m + (if metrics then 1 else 0) in
  let base_d = base_u + nu in
  let base_r = base_d + nd in
  let base_c = base_r + nr in
  let base_s = base_c + 1 in
  let fail = match fld f "fail" with
    | "none" -> None
    | s ->
      (match String.split_on_char ':' s with
       | [k; i] ->
         let i = int_of_string i in
         Some (match k with
             | "metrics" -> base_m | "up" -> base_u + i | "set" -> base_d + i | "rule" -> base_r + i
             | "cache" -> base_c | "srv" -> base_s + i | _ -> failwith "startup: bad fail kind")
       | _ -> failwith "startup: bad fail") in
  let steps = cfg_steps metrics (nat_of_int nu) (nat_of_int nd) (nat_of_int nr) (nat_of_int ns)
      (match fail with Some p -> Some (nat_of_int p) | None -> None) in
  let pinned = (fld_opt f "pinned" = Some "1") in
  let o = if pinned then run_pinned steps else run steps in
  let ((cls, nsrv), nup) = summary o in
  let spec = if startup_oracle steps o then "ok" else "FAIL:startup-oracle" in
  let spec2 = match close_twice o with
    | Some ((c1, p1), (c2, p2)) -> if (not p1) && (not p2) && c2 = [] && List.length c1 > 0 then spec else "FAIL:close-twice"
    | None -> spec in
  let nlisten = int_of_nat nsrv in
  (match int_of_nat cls with
   | 0 -> ignore nup; Printf.sprintf "res=OK srv=%d || spec=%s" nlisten spec2
   | 1 -> Printf.sprintf "res=ERR srv=%d || spec=%s" nlisten spec2
   | _ -> Printf.sprintf "PANIC! || spec=%s" spec2)

let () = register "closerace" run_closerace
(* ---- upown: the upstream as a composite of the transports / sockets it owns (Net/ShutdownOwn.v) ----
   case:   <id> up=<kind> plan=<ok|tc|mu|tm,..|-> [q0=<n>] [alpn=h1]
   result: close=ok close2=ok pre=<udp>/<tcp> infl=<err|ok|late,..|-> after=<err|ok> legs=<..|-> udp=<n> tcp=<n> srv=<n> *)
let run_upown (parts : string list) : string =
  let f = fields parts in
  let up = fld f "up" in
  let k = ukind_of up in
  let mux = (fld_opt f "alpn" <> Some "h1") in
  (* hf = an exchange whose TLS / QUIC handshake fails: the dial fails, nothing is acquired, the model state is unchanged
     (the dial closure as a program: C18_failed_handshake_releases) *)
  let plan = List.filter (fun s -> s <> "" && s <> "-" && s <> "hf") (String.split_on_char ',' (fld f "plan")) in
  let plan = List.map (fun s -> match s with
      | "ok" -> UoPlOk | "tc" -> UoPlTc | "mu" -> UoPlMute | "tm" -> UoPlTcMute
      | _ -> failwith ("upown: unknown plan step " ^ s)) plan in
  match uo_plan_run k mux (uo_new k) plan [] with
  | None -> "MODEL-STUCK || spec=FAIL:plan-not-applicable"
  | Some (s, hs) ->
    let cnt st udp = int_of_nat (uo_sockets k udp st) in
    let pre = if fld_opt f "q0" <> None || fld_opt f "hs" <> None || not mux then "-" else Printf.sprintf "%d/%d" (cnt s true) (cnt s false) in
    let s1 = uo_close_settled k s in
    let s2 = uo_close_settled k s1 in
    let infl = List.map (fun h -> match uo_result s2 h with Some false -> "err" | Some true -> "ok" | None -> "late") hs in
    let fails i = if uo_new_fails k s2 (nat_of_int i) then "err" else "ok" in
    let after = fails 0 in
    let legs = if up = "udp" then fails 0 ^ "," ^ fails 1 else "-" in
    let nu = cnt s2 true and nt = cnt s2 false in
    let spec_bits =
      (if uo_all_closed s1 && uo_all_closed s2 then [] else ["owned-part-not-closed"])
      @ (if uo_all_eff_once s1 && uo_all_eff_once s2 then [] else ["part-not-closed-exactly-once"])
      @ (if nu = 0 && nt = 0 then [] else ["leak"])
      @ (if List.for_all (fun r -> r = "err") infl then [] else ["inflight-does-not-fail"])
      @ (if after = "err" && (legs = "-" || legs = "err,err") then [] else ["exchange-after-close-succeeds"]) in
    let spec = if spec_bits = [] then "ok" else "FAIL:" ^ String.concat "+" spec_bits in
    Printf.sprintf "close=ok close2=ok pre=%s infl=%s after=%s legs=%s udp=%d tcp=%d srv=%d || spec=%s"
      pre (if infl = [] then "-" else String.concat "," infl) after legs nu nt nt spec

(* ---- startcfg: configuration errors are reported and nothing acquired on the way is left (Router/StartupInit.v) ----
   case:   <id> cfg=<item>;<item>;... [mode=bin]     (items: see harness/cmd/implrun/c18start.go)
   result: res=<ERR|OK> sock=<n> fd=0 gor=<0|1> *)
let si_fault_of (s : string) : si_fault =
  match s with
  | "inuse" -> SfInUse | "proto" -> SfProto | "badaddr" -> SfBadAddr | "nocert" -> SfNoCert
  | "certonly" -> SfCertOnly | "keyonly" -> SfKeyOnly | "certmissing" -> SfCertMissing
  | "certgarbage" -> SfCertGarbage | "mismatch" -> SfMismatch | "camissing" -> SfCaMissing
  | "cagarbage" -> SfCaGarbage | "vccnoca" -> SfVccNoCa | "notag" -> SfNoTag | "duptag" -> SfDupTag
  | "noaddr" -> SfNoAddr | "scheme" -> SfScheme | "badtag" -> SfBadTag | "nofile" -> SfNoFile
  | "baddata" -> SfBadData | "noset" -> SfNoSet | "noup" -> SfNoUp | "nomarker" -> SfNoMarker
  | "badmarker" -> SfBadMarker | "badredis" -> SfBadRedis
  | _ -> failwith ("startcfg: unknown fault " ^ s)

(* item: <comp>[:<kind>][+rp][@client][!fault] -> (kind, fault, explicit so_reuseport, a client is attached) *)
let si_item_of (it : string) : (si_kind * si_fault option) * (bool * bool) =
  let cut c str = match String.index_opt str c with
    | Some i -> String.sub str 0 i, Some (String.sub str (i + 1) (String.length str - i - 1))
    | None -> str, None in
  let body, fault = cut '!' it in
  let body, client = cut '@' body in
  let n = String.length body in
  let rp = n >= 3 && String.sub body (n - 3) 3 = "+rp" in
  let body = if rp then String.sub body 0 (n - 3) else body in
  let comp, kind = match cut ':' body with (c, Some k) -> c, k | (c, None) -> c, "" in
  let has sub = let n = String.length sub and m = String.length kind in
    let rec go i = i + n <= m && (String.sub kind i n = sub || go (i + 1)) in go 0 in
  let k = match comp with
    | "m" -> SiKMetrics
    | "u" -> SiKUp (match kind with "quic" | "doq" | "h3" -> SiUpSock | _ -> SiUpLazy)
    | "d" -> SiKSet
    | "r" -> SiKRule
    | "c" -> SiKCache (has "mem", has "redis" || fault = Some "badredis",
                       has "marker" || fault = Some "nomarker" || fault = Some "badmarker")
    | "s" -> SiKSrv (match kind with
        | "udp" | "udp1" -> SiSrvUdp | "udp2" -> SiSrvUdpN | "tcp" -> SiSrvTcp | "gnet" -> SiSrvGnet
        | "http" -> SiSrvHttp | "fasthttp" -> SiSrvFast | "tls" -> SiSrvTls | "https" -> SiSrvHttps
        | "quic" -> SiSrvQuic
        | _ -> failwith ("startcfg: unknown listener kind " ^ kind))
    | _ -> failwith ("startcfg: unknown item " ^ it) in
  let f = match fault with
    | Some "rtr" -> Some (SfHeldByRouter rp)
    | Some f -> Some (si_fault_of f)
    | None -> None in
  ((k, f), (rp, client <> None))

let run_startcfg (parts : string list) : string =
  let f = fields parts in
  let parsed = List.map si_item_of (List.filter (fun s -> s <> "") (String.split_on_char ';' (fld f "cfg"))) in
  let items = List.map fst parsed in
  let pinned = (fld_opt f "pinned" = Some "1") in
  let ((err, socks), gor) = si_observe pinned items in
  let socks = int_of_nat socks in
  let safe = List.for_all (fun (k, _) -> si_safeb (si_prog_of pinned k)) items in
  let must_err = (si_first_fault items O <> None) in
  (* an address held by another instance must be refused unless so_reuseport is configured explicitly *)
  let shares = List.exists (fun ((k, fo), (rp, _)) ->
      match fo with Some (SfHeldByRouter _) -> si_must_refuse k rp && not (si_refuses k rp) | _ -> false) parsed in
  let closes = si_close_returns (List.map (fun ((k, _), (_, cl)) -> (k, cl)) parsed) in
  let spec_bits =
    (if socks = 0 && not gor then [] else ["acquired-resource-neither-registered-nor-released"])
    @ (if safe then [] else ["unsafe-init-program"])
    @ (if err = must_err then [] else ["error-not-reported"])
    @ (if shares then ["second-instance-not-refused"] else [])
    @ (if closes then [] else ["closer-waits-for-a-peer"]) in
  let spec = if spec_bits = [] then "ok" else "FAIL:" ^ String.concat "+" spec_bits in
  if (not err) && not closes then
    Printf.sprintf "HANG router close did not return within 3s || spec=%s" spec
  else if fld_opt f "mode" = Some "bin" then
    Printf.sprintf "res=%s sock=- fd=- gor=- || spec=%s" (if err then "ERR" else "OK") spec
  else
    Printf.sprintf "res=%s sock=%d fd=0 gor=%d || spec=%s" (if err then "ERR" else "OK") socks (if gor then 1 else 0) spec

let () = register "upclose" run_upclose
let () = register "startcfg" run_startcfg
let () = register "upown" run_upown
let () = register "startup" run_startup
