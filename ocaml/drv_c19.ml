open Model
open Drv_common

(* ---------- C19: prefetch ---------- *)

(* decimal string -> N without going through OCaml ints (uint64 keys do not fit in 63 bits) *)
let n_of_dec (s : string) : n =
  let acc = ref N0 in
  String.iter (fun c ->
    let d = Char.code c - 48 in
    if d < 0 || d > 9 then failwith "bad decimal";
    let x = !acc in
    let x2 = N.add x x in let x4 = N.add x2 x2 in let x8 = N.add x4 x4 in
    acc := N.add (N.add x8 x2) (n_of_int d)) s;
  !acc

let two64 = n_of_dec "18446744073709551616"

(* kind needprefetch:  <id> so=<ns> eo=<ns>   ->  thr=<ns> at0=<0|1> chk=<0|1>
   thr = the first instant (relative to the call) at which the window test holds; chk = the model's
   need_prefetch flips exactly at thr *)
let run_needprefetch (parts : string list) : string =
  let f = fields parts in
  let so = z_of_int (ifld f "so") and eo = z_of_int (ifld f "eo") in
  let thr = prefetch_threshold so eo in
  let at0 = need_prefetch so eo (z_of_int 0) in
  let chk = need_prefetch so eo thr && not (need_prefetch so eo (Z.add thr (z_of_int (-1)))) in
  Printf.sprintf "thr=%d at0=%d chk=%d" (int_of_z thr) (b2i at0) (b2i chk)

(* kind prefetchctl *)
let run_prefetchctl (parts : string list) : string =
  let f = fields parts in
  let qs = match fld_opt f "qs" with
    | None | Some "-" | Some "" -> []
    | Some s -> String.split_on_char ',' s in
  (* canonical index of a question = first index with the same (name, type, class, group letter) *)
  let idents = List.map (fun q ->
    match String.split_on_char ':' q with
    | [n; t; c; g] -> n ^ ":" ^ t ^ ":" ^ c ^ ":" ^ String.sub g 0 1
    | _ -> failwith "bad question") qs in
  let canon i =
    let id = List.nth idents i in
    let rec go j = function [] -> i | x :: t -> if x = id then j else go (j + 1) t in
    go 0 idents in
  let labels : (n * string) list ref = ref [] in
  let ops = match fld_opt f "ops" with
    | None | Some "-" | Some "" -> []
    | Some s -> String.split_on_char ',' s in
  let mops = List.map (fun op ->
    let arg = String.sub op 1 (String.length op - 1) in
    let (k, lab) = match op.[0] with
      | 'r' | 'd' -> (n_of_dec arg, "k" ^ arg)
      | 'R' | 'D' -> let c = canon (int_of_string arg) in (N.add two64 (n_of_int c), "q" ^ string_of_int c)
      | _ -> failwith "bad op" in
    if not (List.mem_assoc k !labels) then labels := (k, lab) :: !labels;
    ((op.[0] = 'r' || op.[0] = 'R'), k)) ops in
  let (bs, q) = pfctl_run mops [] in
  let res = String.concat "" (List.map (fun b -> if b then "1" else "0") bs) in
  let set = List.sort compare (List.map (fun k -> List.assoc k !labels) q) in
  Printf.sprintf "res=%s set=%s" (if res = "" then "-" else res) (if set = [] then "-" else String.concat "," set)

(* kind prefetch (e2e): the model's prediction for the scripted scenario, same canonical string *)
let run_prefetch (parts : string list) : string =
  let f = fields parts in
  let mode = fld f "mode" in
  let ttl = ifld f "ttl" and n = ifld f "n" and delay_ms = ifld f "delay" in
  let sec = 1_000_000_000 and ms = 1_000_000 in
  let tl = ttl * sec in
  let zt = z_of_int in
  let q = n_of_int 1 in
  let a = n_of_int 7 and b = n_of_int 8 and c = n_of_int 9 in
  let run evs = pf_scenario false (zt 0) evs in
  let mark (o : 'a option) = match o with
    | None -> "-"
    | Some e -> (match int_of_n e.pe_val with 7 -> "A" | 8 -> "B" | v -> "?" ^ string_of_int v) in
  let count_a l = List.length (List.filter (fun o -> mark o = "A") l) in
  let rec drop k l = if k <= 0 then l else match l with [] -> [] | _ :: t -> drop (k - 1) t in
  let last l = List.nth l (List.length l - 1) in
  let len_nat l = List.length l in
  (* remaining TTL served at instant t for an entry: ttl - floor((t - stored)/1s) *)
  let served_ttl (o : 'a option) t = match o with
    | None -> 0
    | Some e -> let life = (int_of_z e.pe_expire - int_of_z e.pe_stored) / sec in
                life - (t - int_of_z e.pe_stored) / sec in
  let t_early = tl / 4 in
  let ev0 = [PfStore (q, a, zt tl, false); PfTick (zt t_early); PfBurst (q, nat_of_int n)] in
  let s0 = run ev0 in
  let out = Printf.sprintf "timing=ok warm=A/1 early=%d/%d early_up=%d early_infl=%d"
      (count_a s0.pfs_answers) n (len_nat s0.pfs_sent) (len_nat s0.pfs_inflight) in
  let t_fire = tl * 3 / 4 + 150 * ms in
  let to_fire = PfTick (zt (t_fire - t_early)) in
  match mode with
  | "early" -> out
  | "ok" | "silent" ->
    let ev1 = ev0 @ [to_fire; PfBurst (q, nat_of_int n); PfSend (nat_of_int 0)] in
    let s1 = run ev1 in                       (* the upstream has NOT answered yet *)
    let burst = drop n s1.pfs_answers in
    let answered = List.length (List.filter (fun o -> o <> None) burst) in
    let out = out ^ Printf.sprintf " ans=%d/%d slow=%d up_burst=%d infl_mid=%d"
        (count_a burst) n (n - answered) (len_nat s1.pfs_sent) (len_nat s1.pfs_inflight) in
    if mode = "silent" then out else begin
      let ev2 = ev1 @ [PfTick (zt (delay_ms * ms)); PfUp (nat_of_int 0, RfOk (b, zt tl, false));
                       PfTick (zt (50 * ms)); PfHit q] in
      let s2 = run ev2 in
      let t_late = t_fire + delay_ms * ms + 50 * ms in
      let l = last s2.pfs_answers in
      out ^ Printf.sprintf " after=%s renewed=%d up_after=%d infl_end=%d" (mark l)
        (b2i (served_ttl l t_late >= ttl - 1)) (len_nat s2.pfs_sent) (len_nat s2.pfs_inflight)
    end
  | "fail" ->
    let ev1 = ev0 @ [to_fire; PfHit q; PfSend (nat_of_int 0); PfUp (nat_of_int 0, RfFail)] in
    let s1 = run ev1 in
    let up1 = len_nat s1.pfs_sent in
    let ev2 = ev1 @ [PfTick (zt (100 * ms)); PfHit q; PfSend (nat_of_int 1)] in
    let s2 = run ev2 in
    let t2 = t_fire + 100 * ms in
    let ev3 = ev2 @ [PfTick (zt (delay_ms * ms)); PfUp (nat_of_int 1, RfOk (b, zt tl, false))] in
    let s3 = run ev3 in
    let ev4 = ev3 @ [PfTick (zt (10 * ms)); PfHit q] in
    let s4 = run ev4 in
    let t4 = t2 + delay_ms * ms + 10 * ms in
    out ^ Printf.sprintf " h1=%s up1=%d infl1=%d h2=%s aged=%d up2=%d infl2=%d h3=%s renewed=%d up3=%d"
      (mark (last s1.pfs_answers)) up1 (len_nat s1.pfs_inflight)
      (mark (last s2.pfs_answers)) (b2i (served_ttl (last s2.pfs_answers) t2 <= ttl / 4 + 1))
      (len_nat s3.pfs_sent - up1) (len_nat s3.pfs_inflight)
      (mark (last s4.pfs_answers)) (b2i (served_ttl (last s4.pfs_answers) t4 >= ttl - 1))
      (len_nat s4.pfs_sent - up1)
  | "neg" ->
    let nx = RfOk (c, zt (30 * sec), true) in
    let ev1 = ev0 @ [to_fire; PfHit q; PfSend (nat_of_int 0); PfTick (zt (delay_ms * ms)); PfUp (nat_of_int 0, nx)] in
    let s1 = run ev1 in
    let ev2 = ev1 @ [PfTick (zt (50 * ms)); PfHit q; PfSend (nat_of_int 1)] in
    let s2 = run ev2 in
    let t2 = t_fire + delay_ms * ms + 50 * ms in
    let ev3 = ev2 @ [PfTick (zt (delay_ms * ms)); PfUp (nat_of_int 1, nx)] in
    let s3 = run ev3 in
    out ^ Printf.sprintf " h1=%s up1=%d infl1=%d h2=%s aged=%d up2=%d infl2=%d"
      (mark (last s1.pfs_answers)) (len_nat s1.pfs_sent) (len_nat s1.pfs_inflight)
      (mark (last s2.pfs_answers)) (b2i (served_ttl (last s2.pfs_answers) t2 <= ttl / 4 + 1))
      (len_nat s3.pfs_sent) (len_nat s3.pfs_inflight)
  | _ -> failwith "bad mode"

let () = register "needprefetch" run_needprefetch
let () = register "prefetchctl" run_prefetchctl
let () = register "prefetch" run_prefetch

(* kind prefetchfan (e2e, many keys): the model's prediction for the scripted scenario of
   harness/cmd/implrun/c19_fan.go, same canonical string; spec = the single-flight oracle (largest number of
   refresh threads holding one key at any event boundary of the run) *)
let run_prefetchfan (parts : string list) : string =
  let f = fields parts in
  let mode = fld f "mode" in
  let n = ifld f "n" and delay_ms = ifld f "delay" in
  let sec = 1_000_000_000 and ms = 1_000_000 in
  let life = 120 and left = 20 in
  let zt = z_of_int in
  let a = n_of_int 7 and b = n_of_int 8 in
  let rec range i k = if k <= 0 then [] else i :: range (i + 1) (k - 1) in
  let wq = List.map (fun i -> n_of_int (1 + i)) (range 0 n) in
  let cq = List.map (fun i -> n_of_int (1_000_000 + i)) (range 0 n) in
  let nn = nat_of_int n in
  let worst = ref 0 in
  let run evs = let s = pf_scenario false (zt 0) evs in
    (let m = int_of_nat s.pfs_max in if m > !worst then worst := m); s in
  let rec drop k l = if k <= 0 then l else match l with [] -> [] | _ :: t -> drop (k - 1) t in
  let rec take k l = if k <= 0 then [] else match l with [] -> [] | x :: t -> x :: take (k - 1) t in
  let is_val v (o : 'a option) = match o with Some e -> int_of_n e.pe_val = v | None -> false in
  let count p l = List.length (List.filter p l) in
  (* per-question multiplicities in a list of sent queries *)
  let log (l : n list) =
    let tbl = Hashtbl.create 64 in
    List.iter (fun q -> let k = int_of_n q in
                Hashtbl.replace tbl k (1 + (try Hashtbl.find tbl k with Not_found -> 0))) l;
    let keys = Hashtbl.length tbl and mx = Hashtbl.fold (fun _ c m -> max c m) tbl 0 in
    (keys, mx) in
  (* served TTL at instant t >= life - 2 *)
  let renewed t (o : 'a option) = match o with
    | Some e -> int_of_n e.pe_val = 8 &&
                (int_of_z e.pe_expire - int_of_z e.pe_stored) / sec - (t - int_of_z e.pe_stored) / sec >= life - 2
    | None -> false in
  let wave k (s : psummary) = take n (drop (k * n) s.pfs_answers) in
  let len = List.length in
  (* window entries stored at 0 (120 s lifetime); control entries stored at 90 s; the bursts start at 100 s *)
  let ev0 = List.map (fun q -> PfStore (q, a, zt (life * sec), false)) wq
            @ [PfTick (zt ((life - left - 10) * sec))]
            @ List.map (fun q -> PfStore (q, a, zt (life * sec), false)) cq
            @ [PfTick (zt (10 * sec)); PfFan cq] in
  let s0 = run ev0 in
  let out = Printf.sprintf "timing=ok ctl=%d/%d ctl_up=%d" (count (is_val 7) (wave 0 s0)) n (len s0.pfs_sent) in
  let ev1 = ev0 @ [PfFan wq; PfSendN (nat_of_int 0, nn)] in
  let s1 = run ev1 in
  let w1 = wave 1 s1 in
  let (k1, m1) = log s1.pfs_sent in
  let out = out ^ Printf.sprintf " ans=%d/%d late=%d lost=0 up_keys=%d up_max=%d infl_mid=%d"
      (count (is_val 7) w1) n (count (fun o -> o = None) w1) k1 m1 (len s1.pfs_inflight) in
  let ev2 = ev1 @ [PfTick (zt (200 * ms)); PfFan wq] in
  let s2 = run ev2 in
  let w2 = wave 2 s2 in
  let (_, m2) = log s2.pfs_sent in
  let out = out ^ Printf.sprintf " ans2=%d/%d late2=%d up_max2=%d infl2=%d"
      (count (is_val 7) w2) n (count (fun o -> o = None) w2) m2 (len s2.pfs_inflight) in
  let t2 = (life - left) * sec + 200 * ms in
  let out = match mode with
  | "slow" ->
    let ev3 = ev2 @ [PfTick (zt (delay_ms * ms)); PfUpN (nat_of_int 0, nn, RfOk (b, zt (life * sec), false))] in
    let s3 = run ev3 in
    let ev4 = ev3 @ [PfTick (zt (150 * ms)); PfFan wq] in
    let s4 = run ev4 in
    let w = wave 3 s4 in
    let t4 = t2 + delay_ms * ms + 150 * ms in
    out ^ Printf.sprintf " infl_end=%d after=%d/%d renewed=%d/%d up_end=%d" (len s3.pfs_inflight)
      (count (is_val 8) w) n (count (renewed t4) w) n (len s4.pfs_sent)
  | "silent" ->
    (* every exchange fails at prefetchTimeout (6 s) *)
    let ev3 = ev2 @ [PfTick (zt (6 * sec)); PfUpN (nat_of_int 0, nn, RfFail)] in
    let s3 = run ev3 in
    let ev4 = ev3 @ [PfTick (zt (200 * ms)); PfFan wq; PfSendN (nn, nn);
                     PfUpN (nn, nn, RfOk (b, zt (life * sec), false))] in
    let s4 = run ev4 in
    let (k3, m3) = log (drop n s4.pfs_sent) in
    let ev5 = ev4 @ [PfTick (zt (100 * ms)); PfFan wq] in
    let s5 = run ev5 in
    let w = wave 4 s5 in
    let t5 = t2 + 6 * sec + 300 * ms in
    out ^ Printf.sprintf " infl_to=%d old=%d/%d up3_keys=%d up3_max=%d infl_end=%d after=%d/%d renewed=%d/%d up_end=%d"
      (len s3.pfs_inflight) (count (is_val 7) (wave 3 s4)) n k3 m3 (len s4.pfs_inflight)
      (count (is_val 8) w) n (count (renewed t5) w) n (len s5.pfs_sent - n)
  | _ -> failwith "bad mode" in
  out ^ (if !worst <= 1 then " || spec=ok" else Printf.sprintf " || spec=FAIL:%d-refreshes-hold-one-key" !worst)

let () = register "prefetchfan" run_prefetchfan

(* ---------- kind prefetchgrp (e2e, client groups): the model's prediction for the scripted scenario of
   harness/cmd/implrun/c19_grp.go, same canonical string.  Clients are mapped to groups by the extracted
   load_marker / mark_of (C07's model of the ip marker) through pg_group; the script runs through pg_scenario
   (Router/PrefetchGroups.v -> Router/Prefetch.v); the ECS prediction is pg_refresh_client (the address copied at
   spawn time).  spec = single flight per key over every prefix of the run. ---------- *)

let c19_trim (s : string) : string = String.trim s

(* text of an address -> nl_addr (netip.ParseAddr on the subset the generator writes: dotted IPv4; IPv6 with at
   most one "::" and an optional dotted IPv4 tail) *)
let c19_n_of_groups (gs : int list) : n =
  List.fold_left (fun acc g -> N.add (N.mul acc (n_of_int 65536)) (n_of_int g)) N0 gs

let c19_v4 (s : string) : int option =
  match String.split_on_char '.' s with
  | [a; b; c; d] ->
    (try
       let l = List.map int_of_string [a; b; c; d] in
       if List.for_all (fun x -> x >= 0 && x <= 255) l
       then Some (List.fold_left (fun acc x -> acc * 256 + x) 0 l) else None
     with _ -> None)
  | _ -> None

let c19_addr_of (s : string) : nl_addr option =
  if s = "-" || s = "" then None
  else if not (String.contains s ':') then
    (match c19_v4 s with Some v -> Some (NlA4 (n_of_int v)) | None -> None)
  else begin
    let groups_of (t : string) : int list option =
      if t = "" then Some [] else begin
        let ps = String.split_on_char ':' t in
        let n = List.length ps in
        try
          Some (List.concat (List.mapi (fun i p ->
            if i = n - 1 && String.contains p '.' then
              (match c19_v4 p with Some v -> [v lsr 16; v land 0xffff] | None -> failwith "v4")
            else begin
              if p = "" || String.length p > 4 then failwith "group";
              [int_of_string ("0x" ^ p)]
            end) ps))
        with _ -> None
      end in
    (* split at the first "::" *)
    let find_dc () =
      let rec go i = if i + 1 >= String.length s then None else if s.[i] = ':' && s.[i + 1] = ':' then Some i else go (i + 1) in
      go 0 in
    match find_dc () with
    | None ->
      (match groups_of s with Some g when List.length g = 8 -> Some (NlA6 (c19_n_of_groups g)) | _ -> None)
    | Some i ->
      let hd = String.sub s 0 i and tl = String.sub s (i + 2) (String.length s - i - 2) in
      (match groups_of hd, groups_of tl with
       | Some a, Some b when List.length a + List.length b <= 7 ->
         let z = List.init (8 - List.length a - List.length b) (fun _ -> 0) in
         Some (NlA6 (c19_n_of_groups (a @ z @ b)))
       | _ -> None)
  end

let c19_string_of_hex (h : string) : string =
  String.concat "" (List.map (fun x -> String.make 1 (Char.chr (int_of_n x))) (bytes_of_hex h))

(* loadIpMarkerFromReader, line by line: cut at '#', trim, skip empty, "start,end,label" *)
let c19_marker_lines (text : string) : mline list =
  List.map (fun line ->
    let t = match String.index_opt line '#' with Some i -> String.sub line 0 i | None -> line in
    let t = c19_trim t in
    if t = "" then MBlank else
    match String.index_opt t ',' with
    | None -> MBad
    | Some i ->
      let a = String.sub t 0 i and rest = String.sub t (i + 1) (String.length t - i - 1) in
      (match String.index_opt rest ',' with
       | None -> MBad
       | Some j ->
         let b = String.sub rest 0 j and lb = String.sub rest (j + 1) (String.length rest - j - 1) in
         (match c19_addr_of a, c19_addr_of b with
          | Some a, Some b -> MRange (a, b, List.map (fun c -> n_of_int (Char.code c)) (List.of_seq (String.to_seq lb)))
          | _ -> MBad))) (String.split_on_char '\n' text)

(* "listener@address" -> the address the router sees *)
let c19_client (s : string) : nl_addr option =
  match String.index_opt s '@' with
  | None -> failwith "bad client"
  | Some i ->
    let l = String.sub s 0 i and a = String.sub s (i + 1) (String.length s - i - 1) in
    let is_http = (String.length l >= 4 && String.sub l 0 4 = "http") || (String.length l >= 8 && String.sub l 0 8 = "fasthttp") in
    if not is_http then c19_addr_of "127.0.0.1" else c19_addr_of a

let c19_clients (s : string) : nl_addr option list =
  if s = "-" || s = "" then [] else List.map c19_client (String.split_on_char '+' s)

let run_prefetchgrp (parts : string list) : string =
  let f = fields parts in
  let mode = fld f "mode" and ecs_on = fld f "ecs" = "1" in
  let delay_ms = ifld f "delay" in
  let sec = 1_000_000_000 and ms = 1_000_000 in
  let life = 120 in
  let zt = z_of_int in
  let mk = match fld f "mk" with
    | "-" | "" -> None
    | h -> (match load_marker (c19_marker_lines (c19_string_of_hex h)) with
        | Some es -> Some es
        | None -> failwith "marker does not load") in
  let hit = c19_clients (fld f "hit") and later = c19_clients (fld f "later") in
  let others = match fld f "oth" with
    | "-" | "" -> []
    | s -> List.map (fun o -> match String.index_opt o ':' with
        | Some i -> (String.sub o 0 i, c19_clients (String.sub o (i + 1) (String.length o - i - 1)))
        | None -> failwith "bad oth") (String.split_on_char ',' s) in
  let q = n_of_int 1 in
  let evs = ref [] and nh = ref 0 and now = ref 0 and worst = ref 0 in
  let add e = evs := !evs @ e in
  let tick d = now := !now + d; add [PgTick (zt d)] in
  let run () = let s = pg_scenario mk (zt 0) !evs in
    (let m = int_of_nat s.pfs_max in if m > !worst then worst := m); s in
  let len = List.length in
  let answer (s : psummary) i = List.nth s.pfs_answers i in
  let att (s : psummary) i = List.nth s.pfs_atts i in
  let mark (o : pentry option) = match o with
    | None -> "-"
    | Some e -> (match int_of_n e.pe_val with
        | v when v >= 7 && v <= 11 -> String.make 1 (Char.chr (Char.code 'A' + v - 7))
        | v -> "?" ^ string_of_int v) in
  let ttl_class (o : pentry option) t = match o with
    | None -> "?"
    | Some e ->
      let lf = (int_of_z e.pe_expire - int_of_z e.pe_stored) / sec in
      let ttl = lf - (t - int_of_z e.pe_stored) / sec in
      if ttl >= 100 then "r" else if ttl <= 21 then "a" else "m" in
  (* one query of client c, run to completion; returns its hit-thread index *)
  let one c = add [PgHit (q, c)]; let i = !nh in incr nh; i in
  let burst cs = add [PgBurst (q, cs)]; let a = !nh in nh := !nh + len cs; List.mapi (fun k _ -> a + k) cs in
  let fmt_hit i = let s = run () in mark (answer s i) ^ ":" ^ ttl_class (answer s i) !now in

  (* ---- setup: G's entry was stored 100 s before the burst; fresh groups ask 5 s before it *)
  add [PgStore (q, List.hd hit, n_of_int 7, zt (life * sec), false)];
  List.iter (fun (st, cs) ->
    if st = "window" then add [PgStore (q, List.hd cs, n_of_int 9, zt (life * sec), false)]) others;
  tick (95 * sec);
  let n_fresh = ref 0 and setup_up = ref 0 in
  List.iter (fun (st, cs) ->
    if st = "fresh" then begin
      incr n_fresh;
      let c0 = List.hd cs in
      let i = one c0 in
      (match answer (run ()) i with
       | None -> incr setup_up; add [PgStore (q, c0, n_of_int 9, zt (life * sec), false)]
       | Some _ -> ())
    end) others;
  tick (5 * sec);
  let out = Printf.sprintf "timing=ok setup=%d/%d setup_up=%d" !n_fresh !n_fresh !setup_up in

  (* ---- the burst *)
  let fresh_clients = List.concat (List.map (fun (st, cs) -> if st = "fresh" || st = "window" then cs else []) others) in
  let idx = burst (hit @ fresh_clients) in
  let rec take k l = if k <= 0 then [] else match l with [] -> [] | x :: t -> x :: take (k - 1) t in
  let rec drop k l = if k <= 0 then l else match l with [] -> [] | _ :: t -> drop (k - 1) t in
  let hit_idx = take (len hit) idx and fresh_idx = drop (len hit) idx in
  let n_ref = len (List.filter (fun i -> att (run ()) i = Some true) idx) in
  add (List.init n_ref (fun j -> PgSend (nat_of_int j)));
  let s1 = run () in
  let n_a = len (List.filter (fun i -> mark (answer s1 i) = "A" && ttl_class (answer s1 i) !now = "a") hit_idx) in
  let n_c = len (List.filter (fun i -> mark (answer s1 i) = "C") fresh_idx) in
  let out = out ^ Printf.sprintf " ans=%d/%d oth=%d/%d" n_a (len hit) n_c (len fresh_clients) in
  let out = if mode = "slow"
    then out ^ Printf.sprintf " up_mid=%d infl_mid=%d" (len s1.pfs_sent) (len s1.pfs_inflight) else out in
  (* the client on whose behalf the refresh asks: the one whose reserve succeeded, copied at spawn time *)
  let spawner = List.filter (fun (i, _) -> att s1 i = Some true) (List.combine idx (hit @ fresh_clients)) in
  let ecs = match spawner with
    | [] -> "noquery"
    | l -> String.concat "+" (List.sort compare (List.map (fun (_, c) ->
        match pg_refresh_client false c PgRcZeroed with
        | Some _ when ecs_on -> "own"
        | _ -> "none") l)) in
  (match mode with
   | "slow" | "fast" -> tick (delay_ms * ms);
     add (List.init n_ref (fun j -> PgUp (nat_of_int j, RfOk (n_of_int 8, zt (life * sec), false))))
   | "neg" -> tick (delay_ms * ms); add [PgUp (nat_of_int 0, RfOk (n_of_int 12, zt (30 * sec), true))]
   | "fail" -> add [PgUp (nat_of_int 0, RfFail)]
   | _ -> failwith "bad mode");
  let s2 = run () in
  let up_end = len s2.pfs_sent in
  let out = out ^ Printf.sprintf " ecs=%s infl_end=%d up_end=%d" ecs (len s2.pfs_inflight) up_end in

  (* ---- later hits of the same group *)
  tick (100 * ms);
  let out = match mode with
    | "slow" | "fast" ->
      let ls = List.map (fun c -> fmt_hit (one c)) later in
      out ^ Printf.sprintf " later=%s up_after=%d" (String.concat "," ls) (len (run ()).pfs_sent)
    | _ ->
      let l0 = fmt_hit (one (List.hd later)) in
      add [PgSend (nat_of_int 1); PgUp (nat_of_int 1, RfOk (n_of_int 8, zt (life * sec), false))];
      tick (50 * ms);
      let up2 = len (run ()).pfs_sent - up_end in
      let ls = List.map (fun c -> fmt_hit (one c)) (List.tl later) in
      out ^ Printf.sprintf " later=%s up2=%d" (String.concat "," (l0 :: ls)) up2 in

  (* ---- the other groups: a group with an entry gets it, a group without one misses (the upstream says D) *)
  tick (50 * ms);
  let oth_up = ref 0 in
  let oa = List.map (fun (_, cs) ->
    String.concat "" (List.map (fun c ->
      let i = one c in
      match answer (run ()) i with
      | None -> incr oth_up; add [PgStore (q, c, n_of_int 10, zt (life * sec), false)]; "D"
      | o -> mark o) cs)) others in
  let final = fmt_hit (one (List.hd later)) in
  let sf = run () in
  let out = out ^ Printf.sprintf " oth_after=%s oth_up=%d final=%s infl_final=%d churn_bad=0"
      (if oa = [] then "-" else String.concat "," oa) !oth_up final (len sf.pfs_inflight) in
  out ^ (if !worst <= 1 then " || spec=ok" else Printf.sprintf " || spec=FAIL:%d-refreshes-hold-one-key" !worst)

let () = register "prefetchgrp" run_prefetchgrp

(* ---------- kind prefetchcost (limiter x prefetch): the model's charges for the scripted run of
   harness/cmd/implrun/c19_cost.go (Router/PrefetchCost.v: pco_run with fwd = false, one event list per op), same
   canonical string; spec = the executable form of C19_cost_own_requests_only / C19_cost_formula on this run: the
   buckets after the run with its refreshes = the buckets after the run without them = burst - pco_total ---------- *)
let run_prefetchcost (parts : string list) : string =
  let f = fields parts in
  let burst = ifld f "burst" and glob = fld f "glob" = "1" in
  let cls = Array.of_list (String.split_on_char '+' (fld f "cl")) in
  let split_cl s = match String.index_opt s '@' with
    | Some i -> (String.sub s 0 i, String.sub s (i + 1) (String.length s - i - 1))
    | None -> failwith "bad client" in
  let starts p s = String.length s >= String.length p && String.sub s 0 (String.length p) = p in
  let listener l =
    if l = "udp" then PcoUdp else if l = "tcp" then PcoTcp else if l = "gnet" then PcoGnet
    else if starts "fasthttp" l then PcoFast else if starts "http" l then PcoHttp else failwith "bad listener" in
  (* bucket ids: one per distinct address text *)
  let ids : (string * int) list ref = ref [] in
  let bucket a = match List.assoc_opt a !ids with
    | Some i -> i
    | None -> let i = 1 + List.length !ids in ids := !ids @ [(a, i)]; i in
  let client_addr s = let (l, a) = split_cl s in
    match listener l with
    | PcoHttp | PcoFast -> if a = "-" then None else Some a
    | _ -> Some "127.0.0.1" in
  (* register buckets in the order the harness prints them *)
  Array.iter (fun s -> match client_addr s with Some a -> ignore (bucket a) | None -> ()) cls;
  ignore (bucket "127.0.0.1");
  let peer = Some (n_of_int (bucket "127.0.0.1")) in
  let zb = z_of_int burst in
  let st = ref (pco_init (if glob then Some zb else None)) in
  let all_evs = ref [] in
  let tok s a = int_of_z (pco_tok zb s (n_of_int (bucket a))) in
  let gtok s = match s.pco_g with Some g -> int_of_z g | None -> 0 in
  let rs = List.mapi (fun _ o ->
    let (k, ci) = match String.split_on_char '@' o with [k; i] -> (k, int_of_string i) | _ -> failwith "bad op" in
    let (l, _) = split_cl cls.(ci) in
    let ca = client_addr cls.(ci) in
    let client = match ca with Some a -> Some (n_of_int (bucket a)) | None -> None in
    let kind = if k = "M" then PcoMiss else PcoHit in
    let req = PcoReq (listener l, peer, client, kind) in
    let (s1, res) = pco_run false zb !st [req] in
    let answered = (match res with [PcoAnswered _] -> true | _ -> false) in
    let evs = if k = "W" && answered then [req; PcoRefresh client] else [req] in
    let (s2, _) = pco_run false zb !st evs in
    ignore s1;
    let c0 = (match ca with Some a -> tok !st a | None -> 0) and c1 = (match ca with Some a -> tok s2 a | None -> 0) in
    let p0 = tok !st "127.0.0.1" and p1 = tok s2 "127.0.0.1" in
    let g0 = gtok !st and g1 = gtok s2 in
    st := s2; all_evs := !all_evs @ evs;
    let ans = match res with
      | [PcoAnswered PcoHit] -> "A" | [PcoAnswered PcoMiss] -> "B"
      | [PcoRefused] -> (match listener l with PcoUdp -> "R5" | PcoHttp -> "E:http-503" | _ -> "E:no-response")
      | _ -> "E:no-response" in
    let up = if not answered then 0 else if k = "H" then 0 else 1 in
    Printf.sprintf "%s:%s:%s:%s:%d" ans
      (match ca with Some _ -> string_of_int (c0 - c1) | None -> "-")
      (match ca with Some "127.0.0.1" -> "=" | _ -> string_of_int (p0 - p1))
      (if glob then string_of_int (g0 - g1) else "-") up) (String.split_on_char ',' (fld f "ops")) in
  let toks = List.map (fun (a, _) -> Printf.sprintf "%s:%d" a (burst - tok !st a)) !ids
             @ (if glob then [Printf.sprintf "global:%d" (burst - gtok !st)] else []) in
  (* spec: refresh-free run and cost formula on this very run *)
  let reqs = List.filter (fun e -> match e with PcoReq _ -> true | _ -> false) !all_evs in
  let (sf, _) = pco_run false zb (pco_init (if glob then Some zb else None)) reqs in
  let same = List.for_all (fun (a, _) -> tok sf a = tok !st a) !ids && gtok sf = gtok !st in
  let formula = List.for_all (fun (a, i) ->
    let t = int_of_z (pco_total (n_of_int i) !all_evs) in t > burst || tok !st a = burst - t) !ids in
  Printf.sprintf "r=%s tok=%s || spec=%s" (String.concat "," rs) (String.concat "," toks)
    (if not same then "FAIL:buckets-depend-on-refreshes" else if not formula then "FAIL:bucket-is-not-burst-minus-own-cost" else "ok")

let () = register "prefetchcost" run_prefetchcost
