open Model
open Drv_common

(* ---------- C08: cache lifetime policy, TTL ageing, expiry (kinds policy, ttl, cachehist + spec kinds) ---------- *)

let rec int64_of_pos (p : positive) : int64 =
  match p with XH -> 1L | XO q -> Int64.mul 2L (int64_of_pos q) | XI q -> Int64.add (Int64.mul 2L (int64_of_pos q)) 1L
let int64_of_z (x : z) : int64 = match x with Z0 -> 0L | Zpos p -> int64_of_pos p | Zneg p -> Int64.neg (int64_of_pos p)
let rec pos_of_int64 (i : int64) : positive =
  if i = 1L then XH
  else if Int64.logand i 1L = 1L then XI (pos_of_int64 (Int64.shift_right_logical i 1))
  else XO (pos_of_int64 (Int64.shift_right_logical i 1))
let z_of_int64 (i : int64) : z =
  if i = 0L then Z0 else if Int64.compare i 0L > 0 then Zpos (pos_of_int64 i) else Zneg (pos_of_int64 (Int64.neg i))
let zstr (x : z) : string = Int64.to_string (int64_of_z x)
let n64 (x : n) : int64 = match x with N0 -> 0L | Npos p -> int64_of_pos p
let nstr (x : n) : string = Int64.to_string (n64 x)
let n_of_int64 (i : int64) : n = if i = 0L then N0 else Npos (pos_of_int64 i)

let second = 1_000_000_000
let z_ns_of_ms (ms : int) : z = z_of_int (ms * 1_000_000)

let c08_hdr (id : int) (rcode : int) (tc : bool) : header =
  { h_id = n_of_int id; h_resp = true; h_opcode = N0; h_aa = false; h_tc = tc; h_rd = true; h_ra = true;
    h_ad = false; h_cd = false; h_rcode = n_of_int rcode }
let c08_a (ttl : int64) (i : int) : rr =
  { r_name = []; r_type = n_of_int 1; r_class = n_of_int 1; r_ttl = n_of_int64 ttl; r_len = n_of_int 4;
    r_data = RA [n_of_int 10; N0; N0; n_of_int i] }
let c08_msg (id : int) (rcode : int) (tc : bool) (ttls : int64 list) : msg =
  { m_hdr = c08_hdr id rcode tc; m_qs = []; m_an = List.mapi (fun i t -> c08_a t i) ttls; m_ns = []; m_ar = [] }
let with_id (m : msg) (id : int) : msg = { m with m_hdr = { m.m_hdr with h_id = n_of_int id } }

let ttl_str (m : msg) : string =
  let sec l = String.concat "," (List.map (fun r -> istr r.r_type ^ ":" ^ nstr r.r_ttl) l) in
  sec m.m_an ^ "|" ^ sec m.m_ns ^ "|" ^ sec m.m_ar

let pack_ok (m : msg) : bool = match pack_msg (msg_len m) false O m with Ok _ -> true | _ -> false

(* ---------- kind: policy ---------- *)
(* property oracle for one policy case, on the values (stored, l) that either side produced *)
let policy_spec (f : (string * string) list) (mo : msg option) (mx : z) (stored : string) (l : int64) : string =
  let pre = fld f "pre" in
  match mo with
  | None -> if stored = "new" then "FAIL:nil-response-stored" else "ok"
  | Some m ->
    if m.m_hdr.h_tc then (if stored = "new" then "FAIL:truncated-response-stored" else "ok")
    else if stored = "new" then begin
      let (u, has) = get_minimal_ttl m in
      let bound = int64_of_z (table_bound m.m_hdr.h_rcode has u mx) in
      if Int64.compare l bound > 0 then Printf.sprintf "FAIL:lifetime-%Ld-above-table-%Ld" l bound
      else if Int64.compare l 0L <= 0 then "FAIL:lifetime-not-positive"
      else if pre = "pos" && negative m then "FAIL:error-response-displaced-live-positive-cp_entry"
      else "ok"
    end else "ok"

type 'a pr = Good of 'a | Bad of string

let policy_setup parts =
  let f = fields parts in
  let mx = init_max_ttl (z_of_int64 (Int64.of_string (fld f "maxttl"))) in
  let mo =
    if fld f "nil" = "1" then Good None
    else (match unpack_msg (bytes_of_hex (fld f "msg")) with
        | Ok m -> Good (Some (with_id m 0x5555))
        | Err _ -> Bad "UNDECODABLE" | Panic -> Bad "PANIC!" | OutOfFuel -> Bad "HANG") in
  (f, mx, mo)

let run_policy parts =
  let (f, mx, mo) = policy_setup parts in
  match mo with
  | Bad e -> e
  | Good mo ->
    (* otter's clock counts seconds since the first cache of the process was created: 0 here, so that clock + TTL
       cannot wrap uint32 in the model; a lifetime within a day of 2^32 s is flagged (wrap=1) because on the real
       clock expiration wraps below "now" and the cp_entry is expired at once (compared as "either") *)
    let t = z_of_int 500_000_000 in
    let eps = z_of_int 1000 in
    let k = n_of_int 1 in
    let pre = (match fld f "pre" with
        | "pos" -> [EvStore (t, eps, k, Some (c08_msg 0xAAAA 0 false [100L]), true)]
        | "neg" -> [EvStore (t, eps, k, Some (c08_msg 0xAAAA 3 false []), true)]
        | _ -> []) in
    let pk = (match mo with Some m -> pack_ok m | None -> true) in
    let evs = pre @ [EvStore (t, eps, k, mo, pk); EvGet (t, k)] in
    let (_, outs) = cp_run mx (init_state N0) evs in
    let (stored, l, ttls) = (match List.rev outs with
        | OHit (m, s, x) :: _ ->
          ((if int_of_n m.m_hdr.h_id = 0xAAAA then "old" else "new"), Int64.sub (int64_of_z x) (int64_of_z s), ttl_str m)
        | _ -> ("none", 0L, "")) in
    let wrap = if stored = "new" && Int64.compare (Int64.div l 1_000_000_000L) (Int64.sub 4294967296L 86400L) >= 0 then " wrap=1" else "" in
    Printf.sprintf "stored=%s L=%Ld ttls=%s%s || spec=%s" stored l ttls wrap (policy_spec f mo mx stored l)

(* oracle on the implementation's output: <case fields> istored=.. il=.. *)
let run_policyspec parts =
  let (f, mx, mo) = policy_setup parts in
  match mo with
  | Bad _ -> "spec=ok"
  | Good mo -> "spec=" ^ policy_spec f mo mx (fld f "istored") (Int64.of_string (fld f "il"))

(* ---------- kind: ttl ---------- *)
let parse_ttls (s : string) : (int * int64) list list =
  List.map (fun sec ->
      if sec = "" then [] else
        List.map (fun tok -> match String.split_on_char ':' tok with
            | [ty; tt] -> (int_of_string ty, Int64.of_string tt)
            | _ -> failwith "bad ttl token") (String.split_on_char ',' sec))
    (String.split_on_char '|' s)

(* the property on reported TTLs, literally: OPT unchanged, every other record <= max 1 (ttl - delta).
   (a served TTL of 0 differs from the model - reported as a mismatch - but is not above the property's bound) *)
let ttl_spec (m : msg) (delta : n) (got : (int * int64) list list) (rest : string) : string =
  if rest <> "same" then "FAIL:something-besides-ttl-changed" else
  let orig = [m.m_an; m.m_ns; m.m_ar] in
  if List.length got <> 3 || List.exists2 (fun o g -> List.length o <> List.length g) orig got then "FAIL:record-count"
  else begin
    let bad = ref "ok" in
    List.iter2 (fun o g -> List.iter2 (fun r (ty, tt) ->
        if ty <> int_of_n r.r_type then bad := "FAIL:record-order"
        else if cp_is_opt r then (if tt <> n64 r.r_ttl then bad := "FAIL:opt-ttl-changed")
        else begin
          let bound = n64 (aged delta r.r_ttl) in
          if Int64.compare tt bound > 0 then bad := Printf.sprintf "FAIL:ttl-%Ld-above-bound-%Ld" tt bound
        end) o g) orig got;
    !bad
  end

let ttl_delta f : n =
  match fld f "mode" with
  | "sub" -> n_of_int64 (Int64.of_string (fld f "delta"))
  | _ -> elapsed_secs (z_of_int64 (Int64.mul (Int64.of_string (fld f "age")) 1_000_000L)) Z0

let run_ttl parts =
  let f = fields parts in
  match unpack_msg (bytes_of_hex (fld f "msg")) with
  | Err _ -> "UNDECODABLE" | Panic -> "PANIC!" | OutOfFuel -> "HANG"
  | Ok m ->
    (match fld f "mode" with
     | "min" -> let (u, ok) = get_minimal_ttl m in Printf.sprintf "min=%s ok=%d || spec=ok" (nstr u) (b2i ok)
     | "sub" ->
       let delta = ttl_delta f in
       let m' = subtract_ttl delta m in
       let s = ttl_str m' in
       Printf.sprintf "ttls=%s rest=same || spec=%s" s (ttl_spec m delta (parse_ttls s) "same")
     | "age" ->
       if not (pack_ok m) then "PACKERR" else begin
         (* an cp_entry stored `age` before the Get, through the model's own Get *)
         let now = z_of_int64 (Int64.mul (Int64.of_string (fld f "age")) 1_000_000L) in
         let e = { e_stored = Z0; e_expire = Z.add now (z_of_int (3600 * second)); e_msg = m; e_neg = false;
                   e_exp = n_of_int 1000000 } in
         let st = { st_clk = n_of_int 5; st_map = [(n_of_int 1, e)] } in
         match cachectl_get st now (n_of_int 1) with
         | (_, OHit (m', _, _)) ->
           let s = ttl_str m' in
           Printf.sprintf "ttls=%s rest=same || spec=%s" s (ttl_spec m (ttl_delta f) (parse_ttls s) "same")
         | _ -> "MISS"
       end
     | _ -> "MODEL-EXN bad mode")

(* oracle on the implementation's output: <case fields> ittls=<..> irest=<..> *)
let run_ttlspec parts =
  let f = fields parts in
  match unpack_msg (bytes_of_hex (fld f "msg")) with
  | Ok m when fld f "mode" <> "min" ->
    "spec=" ^ (try ttl_spec m (ttl_delta f) (parse_ttls (fld f "ittls")) (fld f "irest") with _ -> "FAIL:unparsable")
  | _ -> "spec=ok"

(* ---------- kind: cachehist ---------- *)
(* round 2: op  a.<at ms>.<key>.<age ms>.<remain ms>.<nx>.<ttl_ttl|x>  = MemoryCache.Store called directly at +at with
   storedTime = now - age and expireTime = now + remain (the promotion of a redis hit; hook StoreAt) *)
type hop = { hk : char; hat : int; hkey : int; hrcode : int; htc : bool; httls : int64 list;
             hage : int; hremain : int; hnx : bool }

let parse_ops (s : string) : hop list =
  List.map (fun tok ->
      match String.split_on_char '.' tok with
      | [k; at; key] -> { hk = k.[0]; hat = int_of_string at; hkey = int_of_string key; hrcode = 0; htc = false; httls = [];
                          hage = 0; hremain = 0; hnx = false }
      | [k; at; key; rc; tc; ttls] ->
        { hk = k.[0]; hat = int_of_string at; hkey = int_of_string key; hrcode = int_of_string rc; htc = (tc = "1");
          httls = (if ttls = "x" then [] else List.map Int64.of_string (String.split_on_char '_' ttls));
          hage = 0; hremain = 0; hnx = false }
      | [k; at; key; age; remain; nx; ttls] ->
        { hk = k.[0]; hat = int_of_string at; hkey = int_of_string key; hrcode = 0; htc = false;
          httls = (if ttls = "x" then [] else List.map Int64.of_string (String.split_on_char '_' ttls));
          hage = int_of_string age; hremain = int_of_string remain; hnx = (nx = "1") }
      | _ -> failwith ("bad op " ^ tok)) (String.split_on_char ',' s)

(* One cp_run of the model on the scheduled history: otter's ticker has phase [phase_ms] (ticks at T0 - 1 s + phase + k s),
   and the cleanup goroutine collects an expired node just before store op number i iff bit i of [collect] is set. *)
let hist_run (mx : z) (ops : hop list) (phase_ms : int) (collect : int) : string list =
  let t0_ms = 1_000_000 in
  let clock_at (ms : int) : int = 999 + (t0_ms + ms - (t0_ms - 1000 + phase_ms)) / 1000 in
  let evs = ref [] and what = ref [] and si = ref 0 in
  List.iteri (fun i op ->
      let t = z_ns_of_ms (t0_ms + op.hat) in
      let k = n_of_int op.hkey in
      evs := EvTick (n_of_int (clock_at op.hat)) :: !evs; what := `Skip :: !what;
      (match op.hk with
       | 's' | 'n' ->
         if (collect lsr !si) land 1 = 1 then begin evs := EvCollect k :: !evs; what := `Skip :: !what end;
         incr si;
         let resp = if op.hk = 'n' then None else Some (c08_msg (i + 1) op.hrcode op.htc op.httls) in
         evs := EvStore (t, z_of_int 1000, k, resp, true) :: !evs; what := `Store op.hk :: !what
       | 'a' ->
         if (collect lsr !si) land 1 = 1 then begin evs := EvCollect k :: !evs; what := `Skip :: !what end;
         incr si;
         let stored = z_ns_of_ms (t0_ms + op.hat - op.hage) and expire = z_ns_of_ms (t0_ms + op.hat + op.hremain) in
         evs := EvStoreAt (t, stored, expire, k, c08_msg (i + 1) 0 false op.httls, op.hnx) :: !evs; what := `Store 'a' :: !what
       | _ -> evs := EvGet (t, k) :: !evs; what := `Get :: !what)) ops;
  let (_, outs) = cp_run mx (init_state (n_of_int 990)) (List.rev !evs) in
  List.concat (List.map2 (fun w o ->
      match w, o with
      | `Skip, _ -> []
      | `Store c, _ -> [String.make 1 c]
      | `Get, OHit (m, _, _) ->
        [Printf.sprintf "H%d:%s" (int_of_n m.m_hdr.h_id - 1) (String.concat "_" (List.map (fun r -> nstr r.r_ttl) m.m_an))]
      | `Get, _ -> ["M"]) (List.rev !what) outs)

let run_cachehist parts =
  let f = fields parts in
  let mx = init_max_ttl (z_of_int64 (Int64.of_string (fld f "maxttl"))) in
  let ops = parse_ops (fld f "ops") in
  let nstores = List.length (List.filter (fun o -> o.hk <> 'g') ops) in
  if nstores > 10 then "MODEL-EXN too many stores" else begin
    let runs = ref [] in
    for p = 0 to 19 do
      for c = 0 to (1 lsl nstores) - 1 do
        runs := hist_run mx ops (25 + 50 * p) c :: !runs
      done
    done;
    let n = List.length ops in
    let toks = List.init n (fun i ->
        let alts = List.sort_uniq compare (List.map (fun r -> List.nth r i) !runs) in
        match alts with [a] -> a | _ -> "E[" ^ String.concat "|" alts ^ "]") in
    String.concat " " toks
  end


(* ---------- kind: routerhist (router level: which requests store) ---------- *)
type qop = { qat : int; qkey : int; qbeh : string }

let parse_qops (s : string) : qop list =
  List.map (fun tok -> match String.split_on_char '.' tok with
      | [_; at; key; beh] -> { qat = int_of_string at; qkey = int_of_string key; qbeh = beh }
      | _ -> failwith ("bad op " ^ tok)) (String.split_on_char ',' s)

let upstream_of (beh : string) : upstream_result =
  match beh with
  | "fail" -> UpFail
  | "nx" -> UpReply (c08_msg 1 3 false [])
  | "nd" -> UpReply (c08_msg 1 0 false [])
  | "sf" -> UpReply (c08_msg 1 2 false [])
  | "rf" -> UpReply (c08_msg 1 5 false [])
  | "tc" -> UpReply (c08_msg 1 0 true [60L])
  | _ -> let t = Int64.of_string (String.sub beh 1 (String.length beh - 1)) in
    UpReply (c08_msg 1 0 false [t; Int64.add t 5L])

let tok_of (pfx : string) (m : msg) : string =
  Printf.sprintf "%s%d%s:%s" pfx (int_of_n m.m_hdr.h_rcode) (if m.m_hdr.h_tc then "t" else "")
    (String.concat "_" (List.map (fun r -> nstr r.r_ttl) m.m_an))

(* the request path of handleReq, cp_step by cp_step on the model cp_state: Get; on a miss the upstream result decides through
   [handle_req_store] whether and what is stored *)
let router_run (mx : z) (ops : qop list) (phase_ms : int) (collect : int) : string list =
  let t0_ms = 1_000_000 in
  let clock_at (ms : int) : int = 999 + (ms + 1000 - phase_ms) / 1000 in
  let st = ref (init_state (n_of_int 990)) in
  let si = ref 0 in
  List.map (fun op ->
      let t = z_ns_of_ms (t0_ms + op.qat) in
      let k = n_of_int op.qkey in
      let do_ev ev = let (st', o) = cp_step mx !st ev in st := st'; o in
      ignore (do_ev (EvTick (n_of_int (clock_at op.qat))));
      match do_ev (EvGet (t, k)) with
      | OHit (m, _, _) -> ignore (handle_req_store PathHit); tok_of "C" m
      | _ ->
        let u = upstream_of op.qbeh in
        let bit = (collect lsr !si) land 1 in
        incr si;
        (match handle_req_store (PathMiss u) with
         | Some resp ->
           if bit = 1 then ignore (do_ev (EvCollect k));
           ignore (do_ev (EvStore (t, z_of_int 1000, k, resp, true)))
         | None -> ());
        (match u with UpReply m -> tok_of "U" m | UpFail -> "U2:")) ops

let run_routerhist parts =
  let f = fields parts in
  let mx = init_max_ttl (z_of_int64 (Int64.of_string (fld f "maxttl"))) in
  let ops = parse_qops (fld f "ops") in
  let nq = min 10 (List.length ops) in
  let runs = ref [] in
  for p = 0 to 19 do
    for c = 0 to (1 lsl nq) - 1 do
      runs := router_run mx ops (25 + 50 * p) c :: !runs
    done
  done;
  let toks = List.init (List.length ops) (fun i ->
      let alts = List.sort_uniq compare (List.map (fun r -> List.nth r i) !runs) in
      match alts with [a] -> a | _ -> "E[" ^ String.concat "|" alts ^ "]") in
  String.concat " " toks

(* ---------- kind: promote (round 2): the two-tier cache model Cache/CacheTier.v ---------- *)
(* ops: s.<at>.<key>.<ttls>  r.<at>.<key>.<age ms>.<remain ms>.<ttls>  x.<at>.<key>  g.<at>.<key> *)
type pop = { pk : char; pat : int; pkey : int; pttls : int64 list; page : int; premain : int; prcode : int }

let parse_pttls (s : string) : int64 list =
  if s = "x" then [] else List.map Int64.of_string (String.split_on_char '_' s)

let parse_pops (s : string) : pop list =
  List.map (fun tok ->
      match String.split_on_char '.' tok with
      | [k; at; key] -> { pk = k.[0]; pat = int_of_string at; pkey = int_of_string key; pttls = []; page = 0; premain = 0; prcode = 0 }
      | [k; at; key; ttls] ->
        { pk = k.[0]; pat = int_of_string at; pkey = int_of_string key; pttls = parse_pttls ttls; page = 0; premain = 0; prcode = 0 }
      | [k; at; key; rc; ttls] ->      (* round 4: e.<at>.<key>.<rcode>.<ttls> = Store of an error response *)
        { pk = k.[0]; pat = int_of_string at; pkey = int_of_string key; pttls = parse_pttls ttls; page = 0; premain = 0;
          prcode = int_of_string rc }
      | [k; at; key; age; remain; ttls] ->
        { pk = k.[0]; pat = int_of_string at; pkey = int_of_string key; pttls = parse_pttls ttls;
          page = int_of_string age; premain = int_of_string remain; prcode = 0 }
      | _ -> failwith ("bad op " ^ tok)) (String.split_on_char ',' s)

(* One run of the two-tier model: otter's ticker has phase [phase_ms]; the history starts [unix_ms] after a whole Unix
   second (the instants that travel through redis are cut to whole seconds); [prompt]: otter's cleanup collects an
   expired node of the key before every op / never. *)
let cmd_token (mx : z) (t : z) (k : n) (m : msg) : string =
  match ct_store_cmd mx t (z_of_int 1000) k (Some m) true with
  | Some (RSet (_, nx, Some px)) -> Printf.sprintf "{%s:%s}" (if nx then "SETNX" else "SET") (zstr px)
  | Some (RSet (_, nx, None)) -> Printf.sprintf "{%s:nopx}" (if nx then "SETNX" else "SET")
  | _ -> "{none}"

let promote_run ?(hm = true) ?(cmd = false) (mx : z) (ops : pop list) (phase_ms : int) (unix_ms : int) (prompt : bool) : string list =
  let t0_ms = 1_000_000 + unix_ms in
  let clock_at (ms : int) : int = 999 + (ms + 1000 - phase_ms) / 1000 in
  let st = ref (ct_init (n_of_int 990)) in
  let do_ev ev = let (st', o) = ctc_step hm mx !st ev in st := st'; o in
  let skew = ref 0 in       (* round 6: op v = the redis server's clock jumps ahead; later events are seen that much later *)
  List.mapi (fun i op ->
      let t = z_ns_of_ms (t0_ms + op.pat + !skew) in
      let k = n_of_int op.pkey in
      ignore (do_ev (CtTick (n_of_int (clock_at op.pat))));
      if prompt then ignore (do_ev (CtCollect k));
      match op.pk with
      | 's' | 'e' ->
        let m = c08_msg (i + 1) op.prcode false op.pttls in
        ignore (do_ev (CtStore (t, z_of_int 1000, k, Some m, true)));
        String.make 1 op.pk ^ (if cmd then cmd_token mx t k m else "")
      | 'v' -> skew := !skew + op.pkey; "v"
      | 'r' ->
        let stored = z_ns_of_ms (t0_ms + op.pat - op.page) and expire = z_ns_of_ms (t0_ms + op.pat + op.premain) in
        ignore (do_ev (CtForeign (t, stored, expire, k, c08_msg (i + 1) 0 false op.pttls, false))); "r"
      | 'x' -> ignore (do_ev (CtDrop k)); "x"
      | _ ->
        (match do_ev (CtGet (t, k)) with
         | OHit (m, _, _) ->
           Printf.sprintf "H%d:%s" (int_of_n m.m_hdr.h_id - 1) (String.concat "_" (List.map (fun r -> nstr r.r_ttl) m.m_an))
         | _ -> "M")) ops

let run_promote parts =
  let f = fields parts in
  let mx = init_max_ttl (z_of_int64 (Int64.of_string (fld f "maxttl"))) in
  let ops = parse_pops (fld f "ops") in
  let hm = (try fld f "mem" <> "0" with _ -> true) in
  let cmd = (try fld f "cmd" = "1" with _ -> false) in
  let runs = ref [] in
  for p = 0 to (if hm then 19 else 0) do        (* without a memory backend otter's ticker plays no part *)
    for u = 0 to 39 do
      runs := promote_run ~hm ~cmd mx ops (25 + 50 * p) (12 + 25 * u) false :: promote_run ~hm ~cmd mx ops (25 + 50 * p) (12 + 25 * u) true :: !runs
    done
  done;
  let toks = List.init (List.length ops) (fun i ->
      let alts = List.sort_uniq compare (List.map (fun r -> List.nth r i) !runs) in
      match alts with [a] -> a | _ -> "E[" ^ String.concat "|" alts ^ "]") in
  String.concat " " toks

let () =
  register "promote" run_promote;
  register "redisneg" run_promote;
  register "rediscmd" run_promote;
  register "routerhist" run_routerhist;
  register "policy" run_policy;
  register "policyspec" run_policyspec;
  register "ttl" run_ttl;
  register "ttlspec" run_ttlspec;
  register "cachehist" run_cachehist;
  register "storeat" run_cachehist
