open Model
open Drv_common

(* ---------- kinds: stream / streamgarbage / streamspec (C13, stream clause of C01) ----------
   The extracted readers (tcp_run_dns / gnet_feed_dns) decode the case's segments; every decoded query is answered by the
   router model (handle + respond, or refuse beyond the in-flight limit); the result line is what the client reads back,
   as a multiset of response bodies, plus the reader's final rd_status and, for the exact gnet feed, the connCtx trace. *)

let split c s = if s = "" || s = "-" then [] else String.split_on_char c s

(* --- cfgspec (same grammar as harness/hx/routerenv.go; the subset the stream cases use) --- *)
let labels_of_raw (raw : n list) : n list list =
  let rec go l acc = match l with
    | [] -> List.rev acc
    | c :: tl ->
      let k = int_of_n c in
      let rec take i l a = if i = 0 then (List.rev a, l) else (match l with x :: r -> take (i - 1) r (x :: a) | [] -> (List.rev a, [])) in
      let (lab, rest) = take k tl [] in go rest (lab :: acc) in
  go raw []

type scfg = { s_ecs : bool; s_sets : dset_entry list list; s_rules : rule list; s_maxc : int }

let parse_scfg (spec : string) : scfg =
  let parts = List.filter_map (fun p -> match String.index_opt p '=' with
    | Some i -> Some (String.sub p 0 i, String.sub p (i + 1) (String.length p - i - 1)) | None -> None) (String.split_on_char ';' spec) in
  let get k = try List.assoc k parts with Not_found -> "" in
  let sets = List.map (fun s ->
      if s = "-" then [] else
      List.map (fun e ->
        let kind = String.sub e 0 1 in
        let raw = bytes_of_hex (String.sub e 2 (String.length e - 2)) in
        let ls = labels_of_raw raw in
        if kind = "f" then DsFull ls else DsDomain ls) (String.split_on_char '+' s)) (split ',' (get "S")) in
  let rules = List.map (fun r ->
      match String.split_on_char ':' r with
      | [s; rev; rej; fwd] ->
        { ru_cond = (if s = "-" then None else Some (nat_of_int (int_of_string s), rev = "1"));
          ru_reject = n_of_int (int_of_string rej);
          ru_forward = (if fwd = "-" then None else Some (nat_of_int (int_of_string fwd))) }
      | _ -> failwith "bad rule") (split ',' (get "R")) in
  let maxc = (match get "M" with "" -> 100 | m -> let v = int_of_string m in if v <= 0 then 100 else v) in
  { s_ecs = (get "E" = "1"); s_sets = sets; s_rules = rules; s_maxc = maxc }

let smatches (c : scfg) : nat -> n list -> bool =
  fun i name -> (match List.nth_opt c.s_sets (int_of_nat i) with Some es -> set_match es name | None -> false)

(* scripted upstream replies, keyed by their (single) question *)
let parse_ups (s : string) : (question * msg) list =
  List.filter_map (fun e ->
    match String.index_opt e ':' with
    | Some i ->
      (match unpack_msg (bytes_of_hex (String.sub e (i + 1) (String.length e - i - 1))) with
       | Ok m -> (match m.m_qs with q :: _ -> Some (q, m) | [] -> None)
       | _ -> None)
    | None -> None) (split ',' s)

let same_q (a : question) (b : question) : bool =
  a.q_name = b.q_name && a.q_type = b.q_type && a.q_class = b.q_class

type pred = { p_st : string; p_units : n list list; p_tr : string; p_spec : string; p_unscripted : bool; p_var : string }

let strip2 (b : n list) : n list = match b with _ :: _ :: r -> r | _ -> b

let predict (f : (string * string) list) : (pred, string) result =
  let c = parse_scfg (fld f "cfg") in
  let segs = List.map bytes_of_hex (split ',' (fld f "segs")) in
  let l = fld f "l" and via = fld f "via" in
  let ups = parse_ups (fld f "ups") in
  let burst = (match fld_opt f "burst" with Some "1" -> true | _ -> false) in
  (* kind streamtimed (gaps=<ms>,.. idle=<ms>): the readers with their idle timer (Net/FramingTimed.v) *)
  let timed = (match fld_opt f "gaps" with Some g when g <> "-" && g <> "" -> true | _ -> false) in
  let tsegs = if not timed then [] else
      List.map2 (fun g sg -> (nat_of_int (int_of_string g), sg)) (split ',' (fld f "gaps")) segs in
  let idle = if timed then nat_of_int (int_of_string (fld f "idle")) else nat_of_int 0 in
  let st_of = (function RdNeedMore -> "open" | RdClosed -> "closed") in
  let tst_of = (function FtNeedMore -> "open" | FtClosed -> "closed" | FtTimedOut -> "timeout") in
  let run = (match timed, l with
    | true, "gnet" ->
      (match ft_gnet_run_dns idle tsegs with
       | Ok (fs, st) -> Result.Ok (fs, tst_of st, [])
       | Panic -> Result.Error "PANIC!" | OutOfFuel -> Result.Error "HANG" | Err _ -> Result.Error "ERR")
    | true, _ ->
      (match ft_tcp_run_dns idle tsegs with
       | Ok (fs, st) -> Result.Ok (fs, tst_of st, [])
       | Panic -> Result.Error "PANIC!" | OutOfFuel -> Result.Error "HANG" | Err _ -> Result.Error "ERR")
    | false, "gnet" ->
      (match gnet_feed_dns segs with
       | Ok ((fs, st), tr) -> Result.Ok (fs, st_of st, tr)
       | Panic -> Result.Error "PANIC!" | OutOfFuel -> Result.Error "HANG" | Err _ -> Result.Error "ERR")
    | false, _ ->
      (match tcp_run_dns segs with
       | Ok (fs, st) -> Result.Ok (fs, st_of st, [])
       | Panic -> Result.Error "PANIC!" | OutOfFuel -> Result.Error "HANG" | Err _ -> Result.Error "ERR")) in
  match run with
  | Result.Error e -> Result.Error e
  | Result.Ok (frames, st, tr) ->
    let k = List.length frames in
    (* in-flight counter: the queries arrive in bursts (phases=k1,k2,..; default one burst of all); within a burst no
       handler finishes, between bursts all running handlers finish *)
    let refused =
      if not burst then List.map (fun _ -> false) frames else begin
        let phases = (match fld_opt f "phases" with
          | Some p when p <> "-" -> List.map int_of_string (String.split_on_char ',' p) | _ -> [k]) in
        (* build the event list incrementally so that the finishes name exactly the admitted queries *)
        let lim = nat_of_int c.s_maxc in
        let rec go st base ph acc = match ph with
          | [] -> List.rev acc
          | n :: rest ->
            let arr = List.init n (fun i -> InflArrive (nat_of_int (base + i))) in
            (match infl_run lim st arr with
             | Some (st1, outs) ->
               let flags = List.filter_map (fun o -> match o with InflRefused _ -> Some true | InflAccepted _ -> Some false | _ -> None) outs in
               let fin = List.map (fun q -> InflFinish q) st1.infl_fl in
               (match infl_run lim st1 fin with
                | Some (st2, _) -> go st2 (base + n) rest (List.rev_append flags acc)
                | None -> failwith "counter model: finish of a query not in flight")
             | None -> failwith "counter model")
        in
        let fl = go infl_init 0 phases [] in
        if List.length fl = k then fl else List.map (fun _ -> false) frames
      end in
    let client = A4 [n_of_int 127; n_of_int 0; n_of_int 0; n_of_int 1] in
    let spec = ref "ok" in
    let unscripted = ref false in
    (* C13_deadline, evaluated: a paced stream of decodable queries is decoded whole and never timed out; and whether
       the refuted variant (re-arm only when the bufio reader is drained) would have cut this very schedule *)
    let var = ref "-" in
    if timed then begin
      (match parse_stream (List.concat segs) with
       | Some sent when List.for_all dns_ok sent && List.for_all (fun (_, sg) -> sg <> []) tsegs ->
         let holds = if l = "gnet" then ft_gaps_below idle tsegs else ft_paced_segs idle sent tsegs in
         if holds && not (frames = sent && st = "open") then spec := "FAIL:c13-deadline"
       | _ -> ());
      if l <> "gnet" then
        var := (match ft_tcp_run_dns_drained idle tsegs with Ok (_, FtTimedOut) -> "timeout" | Ok _ -> "same" | _ -> "?")
    end;
    let units = List.map2 (fun fr rf ->
        match unpack_msg fr with
        | Ok m ->
          let wire =
            if rf then (match refuse LTcp m with b :: _ -> b | [] -> [])
            else begin
              let up = (fun _ _ ->
                match m.m_qs with
                | q :: _ -> (match List.find_opt (fun (rq, _) -> same_q rq (lower_q q)) ups with
                             | Some (_, r) -> UReply r | None -> unscripted := true; UFail)
                | [] -> UFail) in
              let (resp, _) = handle (smatches c) c.s_rules c.s_ecs up m client in
              (match respond LTcp m resp with b :: _ -> b | [] -> [])
            end in
          let body = strip2 wire in
          (* C13_contiguous, per unit: what ONE write emits is be16 |body| ++ body *)
          if unit_of body <> wire then spec := "FAIL:c13-prefix";
          body
        | _ -> spec := "FAIL:c13-undecodable-frame-delivered"; []) frames refused in
    (* some completion order other than the arrival order: the stream read back parses to exactly that order *)
    let rev_sched = List.init k (fun i -> nat_of_int (k - 1 - i)) in
    (match parse_stream (write_sched units rev_sched []) with
     | Some us when us = List.rev units -> ()
     | _ -> if !spec = "ok" then spec := "FAIL:c13-contiguity");
    let trs =
      if via = "feed" && l = "gnet" then
        let one (((gs, inb), _nfr), act) =
          Printf.sprintf "%d:%d:%d:%d:%s"
            (match gs.g_buf with Some b -> List.length b | None -> -1) (int_of_nat gs.g_readN) (b2i gs.g_hdr)
            (int_of_nat inb) (match act with GaNone -> "none" | GaClose -> "close") in
        (match tr with [] -> "-" | _ -> String.concat ";" (List.map one tr))
      else "-" in
    Result.Ok { p_st = st; p_units = units; p_tr = trs; p_spec = !spec; p_unscripted = !unscripted; p_var = !var }

let ans_of (u : n list) : string =
  match u with
  | a :: b :: _ :: d :: _ -> Printf.sprintf "%02x%02x:%d" (int_of_n a) (int_of_n b) ((int_of_n d) land 15)
  | _ -> "short"

let units_str (us : n list list) : string =
  match us with [] -> "-" | _ -> String.concat "," (List.sort compare (List.map hex_of_bytes us))

let run_stream parts =
  let f = fields parts in
  match predict f with
  | Result.Error e -> e
  | Result.Ok p ->
    let alive = (match fld_opt f "probe" with Some "1" -> "1" | _ -> "-") in
    let ans = (match p.p_units with [] -> "-" | us -> String.concat "," (List.sort compare (List.map ans_of us))) in
    (* a decoded query that is forwarded but has no scripted upstream reply waits for the 6 s request deadline: inconclusive *)
    if p.p_unscripted then "INCONCLUSIVE unscripted-forward || spec=ok" else
    (* the idle timer fires in the model: when and whether a connection is closed for idleness is outside the property *)
    if p.p_st = "timeout" then Printf.sprintf "INCONCLUSIVE idle-timeout-in-model || spec=%s" p.p_spec else
    Printf.sprintf "st=%s n=%d units=%s ans=%s bad=0 alive=%s tr=%s || spec=%s%s"
      p.p_st (List.length p.p_units) (units_str p.p_units) ans alive p.p_tr p.p_spec
      (if p.p_var = "-" then "" else " drained-variant=" ^ p.p_var)

(* the property oracle on what the IMPLEMENTATION wrote: field raw=<octets read back> appended to the case line *)
let run_streamspec parts =
  let f = fields parts in
  match predict f with
  | Result.Error e -> "spec=FAIL:model-" ^ e
  | Result.Ok p when p.p_unscripted -> "spec=ok"
  | Result.Ok p ->
    let raw = bytes_of_hex (fld f "raw") in
    (match parse_stream raw with
     | None -> "spec=FAIL:c13-contiguity"
     | Some us ->
       let got = List.sort compare us and want = List.sort compare p.p_units in
       if p.p_st = "open" then begin
         if got = want then "spec=ok"
         else if List.length got < List.length want then "spec=FAIL:c13-dropped"
         else if List.length got > List.length want then "spec=FAIL:c13-surplus"
         else "spec=FAIL:c13-wrong-response"
       end else begin
         (* the connection was closed on a rejected frame: responses in flight may be lost, none may be invented *)
         let rec sub g w = match g, w with
           | [], _ -> true
           | _, [] -> false
           | x :: g', y :: w' -> if x = y then sub g' w' else if compare y x < 0 then sub g w' else false in
         if sub got want then "spec=ok" else "spec=FAIL:c13-surplus"
       end)

let () = register "stream" run_stream
let () = register "streamgarbage" run_stream
let () = register "streamtimed" run_stream
let () = register "streamspec" run_streamspec
