open Model
open Drv_common

(* ---------- C07: cache key, marker, memory cache, value encoding ---------- *)

let split_on c s = if s = "-" || s = "" then [] else String.split_on_char c s

(* kind: cachekey *)
let run_cachekey parts =
  let f = fields parts in
  let b k = bytes_of_hex (fld f k) and n k = n_of_int (ifld f k) in
  let n1 = b "n1" and m1 = b "m1" and n2 = b "n2" and m2 = b "m2" in
  let c1 = n "c1" and t1 = n "t1" and c2 = n "c2" and t2 = n "t2" in
  let k1 = req_key n1 c1 t1 m1 and k2 = req_key n2 c2 t2 m2 in
  let spec =
    if spec_keys n1 c1 t1 m1 n2 c2 t2 m2 k1 k2 then "ok"
    else if same_request n1 c1 t1 m1 n2 c2 t2 m2 then "FAIL:same-request-different-keys"
    else "FAIL:collision" in
  Printf.sprintf "k1=%s k1r=%s k2=%s || spec=%s" (hex_of_bytes k1) (hex_of_bytes k1) (hex_of_bytes k2) spec

(* the property oracle on keys produced by the implementation *)
let run_keyspec parts =
  let f = fields parts in
  let b k = bytes_of_hex (fld f k) and n k = n_of_int (ifld f k) in
  let ok = spec_keys (b "n1") (n "c1") (n "t1") (b "m1") (b "n2") (n "c2") (n "t2") (b "m2") (b "k1") (b "k2") in
  let det = (fld f "k1") = (fld f "k1r") in
  "spec=" ^ (if not det then "FAIL:nondeterministic" else if ok then "ok" else "FAIL:keys")

(* addresses: 4<8 hex digits> | 6<32 hex digits> | x *)
let addr_of (s : string) : nl_addr option =
  if s = "x" || s = "" then None
  else begin
    let v = n_of_bytes (bytes_of_hex (String.sub s 1 (String.length s - 1))) in
    if s.[0] = '4' then Some (NlA4 v) else Some (NlA6 v)
  end

(* lines: b | x | r/<nl_addr>/<nl_addr>/<label_cm hex> separated by ';' *)
let lines_of (s : string) : mline list =
  List.map (fun t ->
    if t = "b" then MBlank else if t = "x" then MBad
    else match String.split_on_char '/' t with
      | [_; a; b; lb] -> (match addr_of a, addr_of b with
          | Some a, Some b -> MRange (a, b, bytes_of_hex lb)
          | _ -> MBad)
      | _ -> MBad) (split_on ';' s)

let label_str (r : n list res) : string =
  match r with Ok l -> hex_of_bytes l | Err _ -> "ERR" | Panic -> "PANIC!" | OutOfFuel -> "HANG"

(* kind: marker *)
let run_marker parts =
  let f = fields parts in
  let ls = lines_of (fld f "lines") in
  match load_marker ls with
  | None -> "ERR"
  | Some es ->
    let probes = List.map addr_of (split_on ',' (fld f "pr")) in
    let rs = ranges_of ls in
    let spec_ok = List.for_all (fun a -> match a with
      | None -> true
      | Some a -> (match lookup es (to16 a) with Ok r -> r = linear_spec rs (to16 a) | _ -> false)) probes in
    Printf.sprintf "OK n=%d %s || spec=%s" (List.length es)
      (String.concat "," (List.map (fun a -> label_str (mark_of (Some es) a)) probes))
      (if spec_ok then "ok" else "FAIL:lookup-vs-linear")

(* kind: cache *)
let parse_op (s : string) : op list =
  match String.split_on_char ':' s with
  | ["S"; k; v; ttl; nx] -> [OStore (bytes_of_hex k, bytes_of_hex v, n_of_int (int_of_string ttl), nx = "1")]
  | ["G"; k] -> [OGet (bytes_of_hex k)]
  | ["E"; k] -> [OEvict (bytes_of_hex k)]
  | ["T"; ms] ->
    let rec chunks d = if d <= 0 then [] else if d < 1000 then [OSleep (n_of_int d)] else OSleep (n_of_int 999) :: chunks (d - 999) in
    chunks (int_of_string ms)
  | [r; k; k2; v2] when String.length r = 2 && r.[0] = 'R' ->
    [ORace (nat_of_int (Char.code r.[1] - 48), bytes_of_hex k, bytes_of_hex k2, bytes_of_hex v2)]
  | _ -> failwith ("bad op " ^ s)

let run_cache parts =
  let f = fields parts in
  let ops = List.concat_map parse_op (split_on ',' (fld f "ops")) in
  match big_run ops cm_init with
  | None -> "MODEL-STUCK"
  | Some s ->
    let outs = List.filter_map (fun e -> match e with
      | CmHit (_, v) -> Some ("H" ^ hex_of_bytes v) | CmMiss _ -> Some "M" | CmStore _ -> None) (returns s) in
    if outs = [] then "r=-" else "r=" ^ String.concat "," outs

(* canonical message dump (same format as harness/cmd/implrun/codec.go dumpMsg), TTLs masked *)
let c07_dump_rr (r : rr) : string =
  let hd = Printf.sprintf "%s,%s,%s,0,%s," (hex_of_bytes r.r_name) (istr r.r_type) (istr r.r_class) (istr r.r_len) in
  hd ^ (match r.r_data with
    | RA a -> "A:" ^ hex_of_bytes a
    | RAAAA a -> "AAAA:" ^ hex_of_bytes a
    | RName nm -> "N:" ^ hex_of_bytes nm
    | RSOA (ns, mb, a, b, c, d, e) -> Printf.sprintf "SOA:%s,%s,%s,%s,%s,%s,%s" (hex_of_bytes ns) (hex_of_bytes mb) (istr a) (istr b) (istr c) (istr d) (istr e)
    | RMX (p, mx) -> Printf.sprintf "MX:%s,%s" (istr p) (hex_of_bytes mx)
    | RSRV (a, b, c, t) -> Printf.sprintf "SRV:%s,%s,%s,%s" (istr a) (istr b) (istr c) (hex_of_bytes t)
    | RRaw d -> "RAW:" ^ hex_of_bytes d)
let c07_dump_msg (m : msg) : string =
  let h = m.m_hdr in
  let hs = Printf.sprintf "H%s,%d,%s,%d,%d,%d,%d,%d,%d,%s" (istr h.h_id) (b2i h.h_resp) (istr h.h_opcode) (b2i h.h_aa)
      (b2i h.h_tc) (b2i h.h_rd) (b2i h.h_ra) (b2i h.h_ad) (b2i h.h_cd) (istr h.h_rcode) in
  let qs = String.concat ";" (List.map (fun q -> Printf.sprintf "%s,%s,%s" (hex_of_bytes q.q_name) (istr q.q_type) (istr q.q_class)) m.m_qs) in
  let sec l = String.concat ";" (List.map c07_dump_rr l) in
  hs ^ "|Q" ^ qs ^ "|AN" ^ sec m.m_an ^ "|NS" ^ sec m.m_ns ^ "|AR" ^ sec m.m_ar

(* kind: hitmiss — s2 is an oracle with dec (enc x) = Some x: the identity here *)
let run_hitmiss parts =
  let f = fields parts in
  let marker = if fld f "lines" = "-" then Some None
    else (match load_marker (lines_of (fld f "lines")) with None -> None | Some es -> Some (Some es)) in
  match marker with
  | None -> "ERR"
  | Some mk ->
    (match unpack_msg (bytes_of_hex (fld f "msg")) with
     | Ok m ->
       let g1 = mark_of mk (addr_of (fld f "p1")) and g2 = mark_of mk (addr_of (fld f "p2")) in
       (match g1, g2 with
        | Ok g1, Ok g2 ->
          let n k = n_of_int (ifld f k) in
          let k1 = req_key (bytes_of_hex (fld f "n1")) (n "c1") (n "t1") g1 in
          let k2 = req_key (bytes_of_hex (fld f "n2")) (n "c2") (n "t2") g2 in
          let g = Printf.sprintf "g1=%s g2=%s " (hex_of_bytes g1) (hex_of_bytes g2) in
          if k1 <> k2 then g ^ "MISS"
          else (match pack_cache (fun x -> x) m with
              | Ok c -> (match unpack_cache (fun x -> Some x) c with
                  | Ok m' -> g ^ "HIT " ^ c07_dump_msg m'
                  | _ -> g ^ "HIT-UNDECODABLE")
              | _ -> g ^ "PACK-ERR")
        | _ -> "PANIC!")
     | Err _ -> "UNDECODABLE"
     | Panic -> "PANIC!" | OutOfFuel -> "HANG")

let () =
  register "cachekey" run_cachekey;
  register "keyspec" run_keyspec;
  register "marker" run_marker;
  register "cache" run_cache;
  register "hitmiss" run_hitmiss
