open Model
open Drv_common

(* ---------- kinds: matcher, matcherspec, readable (C11) ---------- *)
let hex_list (s : string) : n list list =
  if s = "none" || s = "" then [] else List.map bytes_of_hex (String.split_on_char ',' s)

let bits (l : bool list) : string = String.concat "" (List.map (fun b -> if b then "1" else "0") l)

let lower_probes f probes =
  if fld f "lower" = "1" then List.map to_lower_name probes else probes

(* returns (head, model match bits, reference bits) *)
let eval_matcher f : string * string * string =
  let probes = lower_probes f (hex_list (fld f "probes")) in
  match fld f "mode" with
  | "load" ->
    let ((ok, ms), ss) = run_load (bytes_of_hex (fld f "text")) probes in
    ((if ok then "L=ok" else "L=err"), bits ms, bits ss)
  | _ ->
    let ((fl, ms), ss) = run_add (hex_list (fld f "rules")) probes in
    ("A=" ^ bits fl, bits ms, bits ss)

let first_diff a b =
  let rec go i = if i >= String.length a || i >= String.length b then i else if a.[i] <> b.[i] then i else go (i + 1) in go 0

let run_matcher parts =
  let f = fields parts in
  let (hd, ms, ss) = eval_matcher f in
  let spec = if ms = ss then "ok" else Printf.sprintf "FAIL:probe%d-model=%c-reference=%c" (first_diff ms ss) ms.[first_diff ms ss] ss.[first_diff ms ss] in
  Printf.sprintf "%s M=%s || spec=%s" hd ms spec

(* the declarative reference evaluated against the implementation's printed result (out=<A..>|<M..>) *)
let run_matcherspec parts =
  let f = fields parts in
  let (hd, _, ss) = eval_matcher f in
  let want = hd ^ "|M=" ^ ss in
  let got = fld f "out" in
  if got = want then "spec=ok"
  else if String.length got = String.length want then
    "spec=FAIL:reference=" ^ want
  else "spec=FAIL:shape-reference=" ^ want

let run_readable parts =
  let f = fields parts in
  match fld f "op" with
  | "readable" -> res_class (to_readable (bytes_of_hex (fld f "name"))) (fun t -> "OK " ^ hex_of_bytes t)
  | "parse" -> res_class (parse_readable (bytes_of_hex (fld f "s"))) (fun d -> "OK " ^ hex_of_bytes d)
  | "lower" ->
    let n = bytes_of_hex (fld f "name") in
    let l = hex_of_bytes (to_lower_name n) in
    (match scan n with Ok _ -> "OK " ^ l | Err _ -> "ERR " ^ l | Panic -> "PANIC!" | OutOfFuel -> "HANG")
  | _ -> "MODEL-EXN bad op"

let () =
  register "matcher" run_matcher;
  register "matcherspec" run_matcherspec;
  register "readable" run_readable
