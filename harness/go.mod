module github.com/IrineSistiana/mosproxy/verifharness

go 1.22.1

require github.com/IrineSistiana/mosproxy v0.0.0

require (
	github.com/IrineSistiana/bytespool v0.0.0-20240303022030-cfcf97e7141f // indirect
	github.com/IrineSistiana/connpool v0.0.0-20240326131245-897b52e59cfc // indirect
	github.com/IrineSistiana/gopool v0.0.0-20240118084800-c21759e56cf2 // indirect
	github.com/mattn/go-colorable v0.1.13 // indirect
	github.com/mattn/go-isatty v0.0.20 // indirect
	github.com/quic-go/qpack v0.4.0 // indirect
	github.com/quic-go/quic-go v0.42.0 // indirect
	github.com/rs/zerolog v1.32.0 // indirect
	golang.org/x/crypto v0.21.0 // indirect
	golang.org/x/exp v0.0.0-20240325151524-a685a6edb6d8 // indirect
	golang.org/x/net v0.22.0 // indirect
	golang.org/x/sys v0.18.0 // indirect
	golang.org/x/text v0.14.0 // indirect
)

replace github.com/IrineSistiana/mosproxy => /repo
