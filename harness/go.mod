module github.com/IrineSistiana/mosproxy/verifharness

go 1.22.1

require (
	github.com/IrineSistiana/mosproxy v0.0.0
	github.com/miekg/dns v1.1.58
	github.com/panjf2000/gnet/v2 v2.3.6
	github.com/quic-go/quic-go v0.42.0
	github.com/rs/zerolog v1.32.0
	golang.org/x/net v0.22.0
	golang.org/x/sys v0.18.0
	gopkg.in/yaml.v3 v3.0.1
)

require (
	github.com/IrineSistiana/bytespool v0.0.0-20240303022030-cfcf97e7141f // indirect
	github.com/IrineSistiana/connpool v0.0.0-20240326131245-897b52e59cfc // indirect
	github.com/IrineSistiana/gopool v0.0.0-20240118084800-c21759e56cf2 // indirect
	github.com/andybalholm/brotli v1.1.0 // indirect
	github.com/beorn7/perks v1.0.1 // indirect
	github.com/cespare/xxhash/v2 v2.2.0 // indirect
	github.com/dolthub/maphash v0.1.0 // indirect
	github.com/gammazero/deque v0.2.1 // indirect
	github.com/klauspost/compress v1.17.7 // indirect
	github.com/mattn/go-colorable v0.1.13 // indirect
	github.com/mattn/go-isatty v0.0.20 // indirect
	github.com/maypok86/otter v1.2.0 // indirect
	github.com/mitchellh/mapstructure v1.5.0 // indirect
	github.com/prometheus/client_golang v1.19.0 // indirect
	github.com/prometheus/client_model v0.6.0 // indirect
	github.com/prometheus/common v0.51.1 // indirect
	github.com/prometheus/procfs v0.13.0 // indirect
	github.com/puzpuzpuz/xsync/v3 v3.1.0 // indirect
	github.com/quic-go/qpack v0.4.0 // indirect
	github.com/redis/rueidis v1.0.32 // indirect
	github.com/spf13/cobra v1.8.0 // indirect
	github.com/spf13/pflag v1.0.5 // indirect
	github.com/valyala/bytebufferpool v1.0.0 // indirect
	github.com/valyala/fasthttp v1.52.0 // indirect
	go.uber.org/multierr v1.11.0 // indirect
	go.uber.org/zap v1.27.0 // indirect
	golang.org/x/crypto v0.21.0 // indirect
	golang.org/x/exp v0.0.0-20240325151524-a685a6edb6d8 // indirect
	golang.org/x/sync v0.6.0 // indirect
	golang.org/x/text v0.14.0 // indirect
	golang.org/x/time v0.5.0 // indirect
	google.golang.org/protobuf v1.33.0 // indirect
	gopkg.in/natefinch/lumberjack.v2 v2.2.1 // indirect
)

replace github.com/IrineSistiana/mosproxy => /repo
