package main

// Kind "outage" (C14, round 2): a SEQUENCE of exchanges of one real upstream across a server outage.
//
//   case:   <id> tr=<udp|tcp|tcpp|tls|tlsp|doh|doq|sudp|stcpp|stcp|sdoq> warm=<k> down=<refuse|hsfail|rwfail>
//                conc=<n> reps=<r> dl=<ms> after=<m> adl=<ms>
//
//   phase 1  the server is healthy; k concurrent warm-up exchanges put connections into the transport's pool
//            (k = 0: the outage meets a transport that has never dialled).
//   phase 2  OUTAGE: the server drops every connection it holds (the pooled ones become stale) and
//              refuse : stops listening. TCP: RST on SYN; UDP: ICMP port unreachable = ECONNREFUSED on the connected
//                       client socket, reported to whichever of send(2) / recv(2) comes next - so both the writer
//                       and the read loop of a pipelined UDP connection may see the failure; DoQ: packets vanish.
//              hsfail : keeps listening but fails every handshake (TLS / DoH: the accepted connection is closed at
//                       once; DoQ: no common ALPN = a handshake error; plain TCP: accept-and-close).
//              rwfail : (scripted transports) the dial "succeeds" with a connection whose Write fails with
//                       ECONNREFUSED and whose Read fails as soon as the connection is closed: writer AND reader
//                       report the same failure, the writer first.
//              rwboth : as rwfail, and the blocked Read fails by itself as soon as a Write has failed (RST / ICMP
//                       error seen by both syscalls): writer and reader report concurrently.
//            n goroutines then make r exchanges each (deadline dl each).
//   phase 3  RECOVERY: the server is back on the SAME port, healthy. m sequential exchanges (deadline adl each).
//
//   tr=udp..doq: upstream.NewUpstream against a loopback server; the port is kept reserved during the outage by a
//            bound-but-idle holder socket (TCP: bound, not listening; UDP: bound and connected elsewhere), so the
//            server can always come back on it.
//   tr=s*:   the transport constructors (PipelineTransport over datagrams / frames, ReuseConnTransport,
//            QuicTransport) with an injected, scripted dialer: refusal on demand, otherwise net.Pipe ends served by
//            an echo goroutine (sdoq: a real quic-go loopback server that is always up).
//
//   result: burst=<ERR|REPLY|MIXED|HANG> bn=<returned>/<started> late=<0|1> after=<R|E|H per exchange> nd=<n|-> acc=<n>
//     late : some exchange returned later than its deadline + 1.5 s (HANG: not within deadline + 2.5 s)
//     nd   : dials made by the upstream during phase 3 (scripted dialer / Opt.Control); '-' for doh, doq, udp
//     acc  : connections the server accepted during phase 3 (udp: distinct client sockets)
//   Every potentially blocking call runs under a watchdog: a transport that hangs yields HANG / H, never a hung check.

import (
	"context"
	"crypto/tls"
	"encoding/binary"
	"fmt"
	"io"
	"log"
	"net"
	"net/http"
	"os"
	"strings"
	"sync"
	"sync/atomic"
	"syscall"
	"time"

	"github.com/IrineSistiana/mosproxy/internal/upstream"
	"github.com/IrineSistiana/mosproxy/internal/upstream/transport"
	"github.com/IrineSistiana/mosproxy/verifharness/hx"
	"github.com/quic-go/quic-go"
	"github.com/quic-go/quic-go/http3"
	"golang.org/x/net/http2"
)

func init() { register("outage", 10, runOutage) }

const ogHangAfter = 2500 * time.Millisecond // watchdog: deadline + this

func runOutage(id string, parts []string) string {
	return guard(id, 90*time.Second, func() string { return outageCase(hx.Fields(parts)) })
}

// ---------------------------------------------------------------- the server

func ogReuseCtl(network, address string, c syscall.RawConn) error {
	var e error
	err := c.Control(func(fd uintptr) {
		e = syscall.SetsockoptInt(int(fd), syscall.SOL_SOCKET, syscall.SO_REUSEADDR, 1)
		if e == nil && strings.HasPrefix(network, "tcp") {
			e = syscall.SetsockoptInt(int(fd), syscall.SOL_SOCKET, 15 /* SO_REUSEPORT */, 1)
		}
	})
	if err != nil {
		return err
	}
	return e
}

type ogServer struct {
	tr     string
	useTLS bool
	port   int
	addr   string
	cert   tls.Certificate
	holdFd int
	holdUC net.Conn

	mu     sync.Mutex
	ln     net.Listener
	pc     net.PacketConn
	qt     *quic.Transport
	ql     *quic.Listener
	hs     *http.Server
	h3s    *http3.Server // round 6
	conns  []net.Conn
	qconns []quic.Connection
	seen   map[string]bool
	acc    atomic.Int32

	streamFn func(net.Conn)       // round 3: serves an accepted (and TLS-wrapped) stream instead of the plain echo
	udpFn    func(net.PacketConn) // round 3: serves the UDP socket instead of the plain echo

	// round 4
	maxStreams int64                               // doq: MaxIncomingStreams; doh: h2 MaxConcurrentStreams (0 = library default)
	quicFn     func(st quic.Stream, q []byte) bool // doq: handles the query itself (true) or leaves it to the echo
	dohFn      func(w http.ResponseWriter, r *http.Request, q []byte) bool
	replyDelay atomic.Int64 // udp: nanoseconds every reply is held back
	qcount     atomic.Int32 // udp: query datagrams received
}

func ogNewServer(tr string) (*ogServer, error) {
	s := &ogServer{tr: tr, holdFd: -1, seen: map[string]bool{}}
	s.useTLS = tr == "tls" || tr == "tlsp" || tr == "doh"
	cert, err := c14ServerCert()
	if err != nil {
		return nil, err
	}
	s.cert = cert
	// The port is chosen by a PLAIN bind (no SO_REUSE* at bind time), so it is in use by nobody else and an automatic
	// port selection of any other socket (ours or another process's) can never land on it; the sharing options are
	// set on the holder only afterwards, for the server sockets that bind the port explicitly.
	if tr == "udp" || tr == "doq" || tr == "h3" {
		h, err := net.DialUDP("udp4", &net.UDPAddr{IP: net.IPv4(127, 0, 0, 1)}, &net.UDPAddr{IP: net.IPv4(127, 0, 0, 1), Port: 1})
		if err != nil {
			return nil, err
		}
		rc, err := h.SyscallConn()
		if err == nil {
			var e error
			if err = rc.Control(func(fd uintptr) {
				e = syscall.SetsockoptInt(int(fd), syscall.SOL_SOCKET, syscall.SO_REUSEADDR, 1)
			}); err == nil {
				err = e
			}
		}
		if err != nil {
			h.Close()
			return nil, err
		}
		s.holdUC = h
		s.port = h.LocalAddr().(*net.UDPAddr).Port
	} else {
		fd, err := syscall.Socket(syscall.AF_INET, syscall.SOCK_STREAM|syscall.SOCK_CLOEXEC, 0)
		if err != nil {
			return nil, err
		}
		if err := syscall.Bind(fd, &syscall.SockaddrInet4{Addr: [4]byte{127, 0, 0, 1}}); err != nil {
			syscall.Close(fd)
			return nil, err
		}
		// SO_REUSEPORT only (not SO_REUSEADDR): a listener of another process, which has SO_REUSEADDR by default, still
		// conflicts with the holder
		if err := syscall.SetsockoptInt(fd, syscall.SOL_SOCKET, 15 /* SO_REUSEPORT */, 1); err != nil {
			syscall.Close(fd)
			return nil, err
		}
		sa, err := syscall.Getsockname(fd)
		if err != nil {
			syscall.Close(fd)
			return nil, err
		}
		s.holdFd = fd
		s.port = sa.(*syscall.SockaddrInet4).Port
	}
	s.addr = fmt.Sprintf("127.0.0.1:%d", s.port)
	return s, nil
}

func (s *ogServer) release() {
	s.down()
	if s.holdFd >= 0 {
		syscall.Close(s.holdFd)
	}
	if s.holdUC != nil {
		s.holdUC.Close()
	}
}

func (s *ogServer) track(c net.Conn) {
	s.mu.Lock()
	s.conns = append(s.conns, c)
	s.mu.Unlock()
}

// up starts listening on the reserved port; mode "ok" (healthy) or "hsfail" (every handshake fails)
func (s *ogServer) up(mode string) error {
	lc := net.ListenConfig{Control: ogReuseCtl}
	s.mu.Lock()
	defer s.mu.Unlock()
	switch s.tr {
	case "udp":
		pc, err := lc.ListenPacket(context.Background(), "udp4", s.addr)
		if err != nil {
			return err
		}
		s.pc = pc
		if s.udpFn != nil {
			go s.udpFn(pc)
		} else {
			go s.serveUDP(pc)
		}
	case "h3":
		pc, err := lc.ListenPacket(context.Background(), "udp4", s.addr)
		if err != nil {
			return err
		}
		qconf := &quic.Config{MaxIdleTimeout: 30 * time.Second}
		if s.maxStreams > 0 {
			qconf.MaxIncomingStreams = s.maxStreams // request streams; the control streams are unidirectional
		}
		h3s := &http3.Server{
			Handler:    http.HandlerFunc(s.serveDoH),
			TLSConfig:  http3.ConfigureTLSConfig(&tls.Config{Certificates: []tls.Certificate{s.cert}}),
			QuicConfig: qconf,
		}
		s.pc, s.h3s = pc, h3s
		go h3s.Serve(pc)
	case "doq":
		pc, err := lc.ListenPacket(context.Background(), "udp4", s.addr)
		if err != nil {
			return err
		}
		alpn := "doq"
		if mode == "hsfail" {
			alpn = "not-doq"
		}
		qt := &quic.Transport{Conn: pc}
		qconf := &quic.Config{MaxIdleTimeout: 30 * time.Second}
		if s.maxStreams > 0 {
			qconf.MaxIncomingStreams = s.maxStreams
		}
		ql, err := qt.Listen(&tls.Config{Certificates: []tls.Certificate{s.cert}, NextProtos: []string{alpn}}, qconf)
		if err != nil {
			pc.Close()
			return err
		}
		s.pc, s.qt, s.ql = pc, qt, ql
		go s.serveQUIC(ql)
	default:
		ln, err := lc.Listen(context.Background(), "tcp4", s.addr)
		if err != nil {
			return err
		}
		s.ln = ln
		if s.tr == "doh" && mode == "ok" {
			cfg := &tls.Config{Certificates: []tls.Certificate{s.cert}, NextProtos: []string{"h2", "http/1.1"}}
			hs := &http.Server{Handler: http.HandlerFunc(s.serveDoH), TLSConfig: cfg, ErrorLog: log.New(io.Discard, "", 0),
				ConnState: func(c net.Conn, st http.ConnState) {
					if st == http.StateNew {
						s.acc.Add(1)
					}
				}}
			if s.maxStreams > 0 {
				http2.ConfigureServer(hs, &http2.Server{MaxConcurrentStreams: uint32(s.maxStreams)})
			}
			s.hs = hs
			go hs.ServeTLS(ln, "", "")
		} else {
			go s.acceptLoop(ln, mode)
		}
	}
	return nil
}

// down stops listening and drops every connection the server holds
func (s *ogServer) down() {
	s.mu.Lock()
	ln, pc, qt, ql, hs, h3s := s.ln, s.pc, s.qt, s.ql, s.hs, s.h3s
	conns, qconns := s.conns, s.qconns
	s.ln, s.pc, s.qt, s.ql, s.hs, s.h3s, s.conns, s.qconns = nil, nil, nil, nil, nil, nil, nil, nil
	s.mu.Unlock()
	if hs != nil {
		hs.Close()
	}
	if h3s != nil {
		h3s.Close()
	}
	if ln != nil {
		ln.Close()
	}
	for _, c := range qconns {
		c.CloseWithError(0, "")
	}
	if ql != nil {
		ql.Close()
	}
	if qt != nil {
		qt.Close()
	}
	if pc != nil {
		pc.Close()
	}
	for _, c := range conns {
		c.Close()
	}
}

func (s *ogServer) acceptLoop(ln net.Listener, mode string) {
	for {
		c, err := ln.Accept()
		if err != nil {
			return
		}
		if mode == "hsfail" {
			c.Close()
			continue
		}
		s.track(c)
		go s.serveStream(c)
	}
}

func (s *ogServer) serveStream(raw net.Conn) {
	defer raw.Close()
	var c net.Conn = raw
	if s.useTLS {
		tc := tls.Server(raw, &tls.Config{Certificates: []tls.Certificate{s.cert}})
		raw.SetDeadline(time.Now().Add(5 * time.Second))
		if err := tc.Handshake(); err != nil {
			return
		}
		raw.SetDeadline(time.Time{})
		c = tc
	}
	s.acc.Add(1)
	if s.streamFn != nil {
		s.streamFn(c)
		return
	}
	ogEchoFrames(c)
}

func ogEchoFrames(c net.Conn) {
	for {
		var h [2]byte
		if _, err := io.ReadFull(c, h[:]); err != nil {
			return
		}
		q := make([]byte, binary.BigEndian.Uint16(h[:]))
		if _, err := io.ReadFull(c, q); err != nil {
			return
		}
		if len(q) < 12 {
			return
		}
		if _, err := c.Write(c14Frame(hx.BuildReply(q, false, 0, [4]byte{1, 4, 1, 4}, 60))); err != nil {
			return
		}
	}
}

func (s *ogServer) serveUDP(pc net.PacketConn) {
	buf := make([]byte, 4096)
	for {
		n, addr, err := pc.ReadFrom(buf)
		if err != nil {
			return
		}
		if n < 12 {
			continue
		}
		s.mu.Lock()
		if !s.seen[addr.String()] {
			s.seen[addr.String()] = true
			s.acc.Add(1)
		}
		s.mu.Unlock()
		s.qcount.Add(1)
		reply := hx.BuildReply(append([]byte(nil), buf[:n]...), false, 0, [4]byte{1, 4, 1, 4}, 60)
		if d := time.Duration(s.replyDelay.Load()); d > 0 {
			go func(a net.Addr) { time.Sleep(d); pc.WriteTo(reply, a) }(addr)
			continue
		}
		pc.WriteTo(reply, addr)
	}
}

func (s *ogServer) serveQUIC(ql *quic.Listener) {
	for {
		c, err := ql.Accept(context.Background())
		if err != nil {
			return
		}
		s.acc.Add(1)
		s.mu.Lock()
		s.qconns = append(s.qconns, c)
		s.mu.Unlock()
		go s.serveQuicConn(c)
	}
}

func (s *ogServer) serveQuicConn(c quic.Connection) {
	for {
		st, err := c.AcceptStream(context.Background())
		if err != nil {
			return
		}
		go func() {
			var h [2]byte
			if _, err := io.ReadFull(st, h[:]); err != nil {
				st.Close()
				return
			}
			q := make([]byte, binary.BigEndian.Uint16(h[:]))
			if _, err := io.ReadFull(st, q); err != nil || len(q) < 12 {
				st.Close()
				return
			}
			if s.quicFn != nil && s.quicFn(st, q) {
				return // the stream is the handler's business (it may leave it unfinished)
			}
			st.Write(c14Frame(hx.BuildReply(q, false, 0, [4]byte{1, 4, 1, 4}, 60)))
			st.Close()
		}()
	}
}

func (s *ogServer) serveDoH(w http.ResponseWriter, r *http.Request) {
	q, err := base64RawURL(r.URL.Query().Get("dns"))
	if err != nil || len(q) < 12 {
		w.WriteHeader(400)
		return
	}
	if s.dohFn != nil && s.dohFn(w, r, q) {
		return
	}
	w.Header().Set("Content-Type", "application/dns-message")
	w.Write(hx.BuildReply(q, false, 0, [4]byte{1, 4, 1, 4}, 60))
}

// ---------------------------------------------------------------- the scripted dialer

// a "connected socket" whose peer port refuses: Write reports ECONNREFUSED, Read blocks until the socket is closed
// and then fails too
type ogDeadConn struct {
	closed chan struct{}
	once   sync.Once
	both   bool // the read fails by itself once a write has failed (no Close needed): reader and writer race
	broken chan struct{}
	bonce  sync.Once
}

func ogNewDeadConn(both bool) *ogDeadConn {
	return &ogDeadConn{closed: make(chan struct{}), broken: make(chan struct{}), both: both}
}

func (c *ogDeadConn) Read(b []byte) (int, error) {
	select {
	case <-c.closed:
		return 0, &net.OpError{Op: "read", Net: "udp", Err: net.ErrClosed}
	case <-c.broken:
		return 0, &net.OpError{Op: "read", Net: "udp", Err: os.NewSyscallError("recvfrom", syscall.ECONNREFUSED)}
	}
}
func (c *ogDeadConn) Write(b []byte) (int, error) {
	select {
	case <-c.closed:
		return 0, &net.OpError{Op: "write", Net: "udp", Err: net.ErrClosed}
	default:
	}
	if c.both {
		c.bonce.Do(func() { close(c.broken) })
	}
	return 0, &net.OpError{Op: "write", Net: "udp", Err: os.NewSyscallError("sendto", syscall.ECONNREFUSED)}
}

// Close wakes the reader first and returns a little later (the closing goroutine is descheduled inside close(2)):
// the reader's reaction to the closed socket overlaps with what the closer does next
func (c *ogDeadConn) Close() error {
	c.once.Do(func() { close(c.closed); time.Sleep(5 * time.Millisecond) })
	return nil
}
func (c *ogDeadConn) LocalAddr() net.Addr                { return &net.UDPAddr{IP: net.IPv4(127, 0, 0, 1), Port: 1} }
func (c *ogDeadConn) RemoteAddr() net.Addr               { return &net.UDPAddr{IP: net.IPv4(127, 0, 0, 1), Port: 2} }
func (c *ogDeadConn) SetDeadline(t time.Time) error      { return nil }
func (c *ogDeadConn) SetReadDeadline(t time.Time) error  { return nil }
func (c *ogDeadConn) SetWriteDeadline(t time.Time) error { return nil }

type ogScript struct {
	dgram bool
	mu    sync.Mutex
	state string // ok | refuse | rwfail | rwboth
	peers []net.Conn
	dials atomic.Int32
	acc   atomic.Int32
}

func (sc *ogScript) set(state string) {
	sc.mu.Lock()
	sc.state = state
	var peers []net.Conn
	if state != "ok" {
		peers, sc.peers = sc.peers, nil
	}
	sc.mu.Unlock()
	for _, p := range peers { // the server drops the connections it holds
		p.Close()
	}
}

func (sc *ogScript) dial(ctx context.Context) (net.Conn, error) {
	sc.dials.Add(1)
	sc.mu.Lock()
	defer sc.mu.Unlock()
	switch sc.state {
	case "refuse":
		return nil, &net.OpError{Op: "dial", Net: "tcp", Err: os.NewSyscallError("connect", syscall.ECONNREFUSED)}
	case "rwfail":
		return ogNewDeadConn(false), nil
	case "rwboth":
		return ogNewDeadConn(true), nil
	}
	cl, sv := net.Pipe()
	sc.peers = append(sc.peers, sv)
	sc.acc.Add(1)
	if sc.dgram {
		go func() {
			defer sv.Close()
			buf := make([]byte, 4096)
			for {
				n, err := sv.Read(buf)
				if err != nil {
					return
				}
				if n < 12 {
					continue
				}
				if _, err := sv.Write(hx.BuildReply(append([]byte(nil), buf[:n]...), false, 0, [4]byte{1, 4, 1, 4}, 60)); err != nil {
					return
				}
			}
		}()
	} else {
		go func() { defer sv.Close(); ogEchoFrames(sv) }()
	}
	return cl, nil
}

// ---------------------------------------------------------------- the case

func outageCase(f map[string]string) string {
	tr := f["tr"]
	warm := hx.MustAtoi(f["warm"])
	downMode := f["down"]
	conc := hx.MustAtoi(f["conc"])
	reps := 1
	if f["reps"] != "" {
		reps = hx.MustAtoi(f["reps"])
	}
	dl := time.Duration(hx.MustAtoi(f["dl"])) * time.Millisecond
	after := hx.MustAtoi(f["after"])
	adl := time.Duration(hx.MustAtoi(f["adl"])) * time.Millisecond

	var u upstream.Upstream
	var srv *ogServer
	var sc *ogScript
	var dials atomic.Int32 // Opt.Control: sockets created by the upstream's dialer
	scripted := strings.HasPrefix(tr, "s")
	if scripted {
		sc = &ogScript{state: "ok"}
		switch tr {
		case "sudp":
			sc.dgram = true
			u = transport.NewPipelineTransport(transport.PipelineOpts{DialContext: sc.dial, IsTCP: false, MaxConcurrentQuery: 4096})
		case "stcpp":
			u = transport.NewPipelineTransport(transport.PipelineOpts{DialContext: sc.dial, IsTCP: true})
		case "stcp":
			u = transport.NewReuseConnTransport(transport.ReuseConnOpts{DialContext: sc.dial})
		case "sdoq":
			s, err := ogNewServer("doq")
			if err != nil {
				return "HARNESS-ERROR " + err.Error()
			}
			srv = s
			defer srv.release()
			if err := srv.up("ok"); err != nil {
				return "HARNESS-ERROR " + err.Error()
			}
			u = transport.NewQuicTransport(transport.QuicTransportOpts{DialContext: func(ctx context.Context) (quic.Connection, error) {
				sc.dials.Add(1)
				sc.mu.Lock()
				st := sc.state
				sc.mu.Unlock()
				if st != "ok" {
					return nil, &net.OpError{Op: "dial", Net: "udp", Err: os.NewSyscallError("connect", syscall.ECONNREFUSED)}
				}
				return quic.DialAddr(ctx, srv.addr, &tls.Config{InsecureSkipVerify: true, NextProtos: []string{"doq"}},
					&quic.Config{MaxIdleTimeout: 30 * time.Second})
			}})
		default:
			return "HARNESS-ERROR unknown transport " + tr
		}
	} else {
		s, err := ogNewServer(tr)
		if err != nil {
			return "HARNESS-ERROR " + err.Error()
		}
		srv = s
		defer srv.release()
		if err := srv.up("ok"); err != nil {
			return "HARNESS-ERROR " + err.Error()
		}
		opt := upstream.Opt{
			TLSConfig: &tls.Config{InsecureSkipVerify: true},
			Control: func(network, address string, c syscall.RawConn) error {
				dials.Add(1)
				return nil
			},
		}
		var url string
		switch tr {
		case "udp":
			url = "udp://" + srv.addr
		case "tcp":
			url = "tcp://" + srv.addr
		case "tcpp":
			url = "tcp+pipeline://" + srv.addr
		case "tls":
			url = "tls://" + srv.addr
		case "tlsp":
			url = "tls+pipeline://" + srv.addr
		case "doh":
			url = "https://" + srv.addr + "/dns-query"
		case "doq":
			url = "quic://" + srv.addr
		default:
			return "HARNESS-ERROR unknown transport " + tr
		}
		u, err = upstream.NewUpstream(url, opt)
		if err != nil {
			return "HARNESS-ERROR " + err.Error()
		}
	}
	hung := false
	defer func() {
		// a transport whose lock is leaked would block Close for ever: never wait for it
		done := make(chan struct{})
		go func() { u.Close(); close(done) }()
		wait := 2 * time.Second
		if hung {
			wait = 100 * time.Millisecond
		}
		select {
		case <-done:
		case <-time.After(wait):
		}
	}()

	name := []byte("\x03c14\x04test")
	type xres struct {
		ok bool
		el time.Duration
	}
	one := func(id uint16, d time.Duration) xres {
		t0 := time.Now()
		ctx, cancel := context.WithTimeout(context.Background(), d)
		defer cancel()
		r, err := u.ExchangeContext(ctx, hx.BuildQuery(id, name, 1, 1, true))
		el := time.Since(t0)
		return xres{ok: err == nil && r != nil && r.Header.ID == id && len(r.Answers) == 1, el: el}
	}

	// ---- phase 1: warm-up
	if warm > 0 {
		var wg sync.WaitGroup
		var bad atomic.Int32
		for i := 0; i < warm; i++ {
			wg.Add(1)
			go func(i int) {
				defer wg.Done()
				if !one(uint16(0x1000+i), 5*time.Second).ok {
					bad.Add(1)
				}
			}(i)
		}
		wg.Wait()
		if bad.Load() > 0 {
			return fmt.Sprintf("HARNESS-ERROR warm-up failed for %d of %d", bad.Load(), warm)
		}
		time.Sleep(30 * time.Millisecond) // connections go back to the pool
	}

	// ---- phase 2: outage
	if scripted {
		sc.set(downMode)
		if srv != nil { // sdoq: the server drops the cached connection; it stays up, the scripted dialer refuses
			srv.mu.Lock()
			qc := srv.qconns
			srv.qconns = nil
			srv.mu.Unlock()
			for _, c := range qc {
				c.CloseWithError(0, "")
			}
		}
	} else {
		srv.down()
		if downMode == "hsfail" {
			if err := srv.up("hsfail"); err != nil {
				return "HARNESS-ERROR outage listener: " + err.Error()
			}
		}
	}
	time.Sleep(60 * time.Millisecond) // let the client side see what happened to its pooled connections

	bc := make(chan xres, conc*reps)
	for i := 0; i < conc; i++ {
		go func(i int) {
			for r := 0; r < reps; r++ {
				bc <- one(uint16(0x2000+i*reps+r), dl)
			}
		}(i)
	}
	total := conc * reps
	got, nOK, late := 0, 0, 0
	tmo := time.After(time.Duration(reps)*dl + ogHangAfter)
collect:
	for got < total {
		select {
		case r := <-bc:
			got++
			if r.ok {
				nOK++
			}
			if r.el > dl+c14Slack {
				late = 1
			}
		case <-tmo:
			hung = true
			break collect
		}
	}
	burst := "ERR"
	switch {
	case hung:
		burst, late = "HANG", 1
	case nOK == total:
		burst = "REPLY"
	case nOK > 0:
		burst = "MIXED"
	}

	// ---- phase 3: recovery on the same port
	d0 := dials.Load()
	if scripted {
		d0 = sc.dials.Load()
		sc.acc.Store(0)
	}
	if srv != nil {
		srv.acc.Store(0)
		srv.mu.Lock()
		srv.seen = map[string]bool{}
		srv.mu.Unlock()
	}
	if scripted {
		sc.set("ok")
	} else {
		srv.down()
		var err error
		for i := 0; i < 20; i++ {
			if err = srv.up("ok"); err == nil {
				break
			}
			time.Sleep(25 * time.Millisecond)
		}
		if err != nil {
			return "HARNESS-ERROR the server could not come back: " + err.Error()
		}
	}
	time.Sleep(30 * time.Millisecond)
	var ab strings.Builder
	for i := 0; i < after; i++ {
		rc := make(chan xres, 1)
		go func(i int) { rc <- one(uint16(0x3000+i), adl) }(i)
		wd := adl + ogHangAfter
		if hung {
			wd = adl + 300*time.Millisecond // the transport is already known to hang: do not pay the full watchdog again
		}
		select {
		case r := <-rc:
			switch {
			case r.el > adl+c14Slack:
				late = 1
				ab.WriteByte('L')
			case r.ok:
				ab.WriteByte('R')
			default:
				ab.WriteByte('E')
			}
		case <-time.After(wd):
			hung = true
			late = 1
			ab.WriteByte('H')
		}
		time.Sleep(20 * time.Millisecond)
	}
	if after == 0 {
		ab.WriteByte('-')
	}
	nd := "-"
	acc := int32(0)
	switch {
	case scripted:
		nd = fmt.Sprint(sc.dials.Load() - d0)
		acc = sc.acc.Load()
		if srv != nil {
			acc = srv.acc.Load()
		}
	case tr == "doh" || tr == "doq" || tr == "udp":
		// udp: whether the socket of the outage died depends on the ICMP error having been delivered
		acc = srv.acc.Load()
	default:
		nd = fmt.Sprint(dials.Load() - d0)
		acc = srv.acc.Load()
	}
	return fmt.Sprintf("burst=%s bn=%d/%d late=%d after=%s nd=%s acc=%d", burst, got, total, late, ab.String(), nd, acc)
}
