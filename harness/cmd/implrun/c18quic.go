package main

// C18, kind "closerace" with tr=quic: the REAL transport.QuicTransport driven through its injectable dial
// function. The dialled "connections" are fakes implementing quic.Connection / quic.Stream that count
// CloseWithError calls; dial completion is gated by the script exactly as for the reuse/pipeline transports.
//   case:   <id> tr=quic dm=<honour|ignore> max=<ignored> it=<ignored> ev=<e>,<e>,...
//   result: ev=<o|s per event> res=<ok|err|pend per exchange> open=<n> dials=<n> closed=<0|1>

import (
	"context"
	"encoding/binary"
	"errors"
	"fmt"
	"net"
	"strconv"
	"strings"
	"sync"
	"time"

	"github.com/IrineSistiana/mosproxy/internal/upstream/transport"
	"github.com/IrineSistiana/mosproxy/verifharness/hx"
	"github.com/quic-go/quic-go"
)

type fqConn struct {
	quic.Connection // nil: every method the transport may call is overridden below
	env    *crEnv
	ctx    context.Context
	cancel context.CancelFunc
	once   sync.Once
}

func (c *fqConn) die() {
	c.once.Do(func() {
		c.env.mu.Lock()
		c.env.closed++
		c.env.mu.Unlock()
		c.cancel()
		c.env.activity.Add(1)
	})
}
func (c *fqConn) alive() bool { return c.ctx.Err() == nil }

func (c *fqConn) CloseWithError(quic.ApplicationErrorCode, string) error { c.die(); return nil }
func (c *fqConn) Context() context.Context                                { return c.ctx }
func (c *fqConn) LocalAddr() net.Addr                                     { return &net.UDPAddr{IP: net.IPv4(127, 0, 0, 1), Port: 1} }
func (c *fqConn) RemoteAddr() net.Addr                                    { return &net.UDPAddr{IP: net.IPv4(127, 0, 0, 1), Port: 2} }

var errFqClosed = errors.New("verif: fake quic connection closed")

func (c *fqConn) OpenStream() (quic.Stream, error) {
	if !c.alive() {
		return nil, errFqClosed
	}
	return &fqStream{conn: c, reply: make(chan []byte, 1), stop: make(chan struct{})}, nil
}

type fqStream struct {
	quic.Stream // nil
	conn     *fqConn
	mu       sync.Mutex
	wbuf     []byte
	rbuf     []byte
	reply    chan []byte
	stop     chan struct{}
	stopOnce sync.Once
}

type fqQuery struct {
	st       *fqStream
	wire     []byte
	answered bool
}

func (s *fqStream) Write(p []byte) (int, error) {
	if !s.conn.alive() {
		return 0, errFqClosed
	}
	s.mu.Lock()
	s.wbuf = append(s.wbuf, p...)
	var q []byte
	if len(s.wbuf) >= 2 && len(s.wbuf) >= 2+int(binary.BigEndian.Uint16(s.wbuf)) {
		q = append([]byte(nil), s.wbuf[2:2+int(binary.BigEndian.Uint16(s.wbuf))]...)
	}
	s.mu.Unlock()
	if q != nil {
		if i := crIdx(q); i >= 0 {
			e := s.conn.env
			e.mu.Lock()
			e.fq[i] = &fqQuery{st: s, wire: q}
			e.mu.Unlock()
		}
		s.conn.env.activity.Add(1)
	}
	return len(p), nil
}
func (s *fqStream) Close() error { return nil }
func (s *fqStream) Read(p []byte) (int, error) {
	s.mu.Lock()
	if len(s.rbuf) > 0 {
		n := copy(p, s.rbuf)
		s.rbuf = s.rbuf[n:]
		s.mu.Unlock()
		return n, nil
	}
	s.mu.Unlock()
	select {
	case b := <-s.reply:
		s.mu.Lock()
		n := copy(p, b)
		s.rbuf = b[n:]
		s.mu.Unlock()
		return n, nil
	case <-s.conn.ctx.Done():
		return 0, errFqClosed
	case <-s.stop:
		return 0, errors.New("verif: read cancelled")
	}
}
func (s *fqStream) CancelRead(quic.StreamErrorCode)  { s.stopOnce.Do(func() { close(s.stop) }) }
func (s *fqStream) CancelWrite(quic.StreamErrorCode) {}
func (s *fqStream) SetDeadline(time.Time) error      { return nil }

func (e *crEnv) dialQuic(ctx context.Context) (quic.Connection, error) {
	d := &crDial{gate: make(chan bool, 1), pending: true}
	e.mu.Lock()
	e.dials = append(e.dials, d)
	e.mu.Unlock()
	e.activity.Add(1)
	var ok bool
	if e.honour {
		select {
		case ok = <-d.gate:
		case <-ctx.Done():
			e.mu.Lock()
			was := d.pending
			d.pending = false
			e.mu.Unlock()
			e.activity.Add(1)
			if was {
				return nil, ctx.Err()
			}
			ok = <-d.gate
		}
	} else {
		ok = <-d.gate
	}
	defer e.activity.Add(1)
	if !ok {
		return nil, errCrDial
	}
	cctx, cancel := context.WithCancel(context.Background())
	c := &fqConn{env: e, ctx: cctx, cancel: cancel}
	e.mu.Lock()
	e.opened++
	e.fqConns = append(e.fqConns, c)
	e.mu.Unlock()
	return c, nil
}

func runCloseRaceQuic(id string, f map[string]string) string {
	env := &crEnv{honour: f["dm"] == "honour", queries: map[int]*crQuery{}, fq: map[int]*fqQuery{}}
	t := transport.NewQuicTransport(transport.QuicTransportOpts{DialContext: env.dialQuic})
	var marks strings.Builder
	closedSeen := false
	fatal := ""
	var wg sync.WaitGroup

	for _, ev := range strings.Split(f["ev"], ",") {
		if ev == "" || fatal != "" {
			continue
		}
		ok := false
		num := func(pre string) int { n, _ := strconv.Atoi(strings.TrimPrefix(ev, pre)); return n }
		switch {
		case ev == "x":
			env.mu.Lock()
			i := len(env.results)
			env.results = append(env.results, "")
			ctx, cancel := context.WithTimeout(context.Background(), 8*time.Second)
			env.cancels = append(env.cancels, cancel)
			env.mu.Unlock()
			wg.Add(1)
			go func() {
				defer wg.Done()
				res := "err"
				func() {
					defer func() {
						if r := recover(); r != nil {
							res = "panic"
						}
					}()
					q := hx.BuildQuery(uint16(0x1000+i), crName(i), 1, 1, true)
					m, err := t.ExchangeContext(ctx, q)
					if err == nil && m != nil {
						res = "ok"
						if m.Header.ID != uint16(0x1000+i) {
							res = "badid"
						}
					}
				}()
				env.mu.Lock()
				env.results[i] = res
				env.mu.Unlock()
				env.activity.Add(1)
			}()
			ok = true
		case strings.HasPrefix(ev, "dok"), strings.HasPrefix(ev, "dfail"):
			good := strings.HasPrefix(ev, "dok")
			j := num("dok")
			if !good {
				j = num("dfail")
			}
			env.mu.Lock()
			if j < len(env.dials) && env.dials[j].pending {
				env.dials[j].pending = false
				env.dials[j].gate <- good
				ok = true
			}
			env.mu.Unlock()
		case strings.HasPrefix(ev, "reply"), strings.HasPrefix(ev, "perr"):
			isReply := strings.HasPrefix(ev, "reply")
			i := num("reply")
			if !isReply {
				i = num("perr")
			}
			env.mu.Lock()
			q := env.fq[i]
			if q != nil && !q.answered && q.st.conn.alive() && i < len(env.results) && env.results[i] == "" {
				q.answered = true
				ok = true
			}
			env.mu.Unlock()
			if ok {
				if isReply {
					r := hx.BuildReply(q.wire, false, 0, [4]byte{9, 9, 9, 9}, 60)
					out := binary.BigEndian.AppendUint16(nil, uint16(len(r)))
					q.st.reply <- append(out, r...)
				} else {
					q.st.conn.die() // the peer / the idle time-out ends the connection
				}
				env.activity.Add(1)
			}
		case strings.HasPrefix(ev, "cancel"):
			i := num("cancel")
			env.mu.Lock()
			if i < len(env.cancels) {
				env.cancels[i]()
				ok = true
			}
			env.mu.Unlock()
			env.activity.Add(1)
		case ev == "idle":
			env.mu.Lock()
			cs := append([]*fqConn(nil), env.fqConns...)
			env.mu.Unlock()
			for _, c := range cs {
				if c.alive() {
					c.die()
				}
			}
			ok = true
		case ev == "close":
			done := make(chan string, 1)
			go func() {
				defer func() {
					if r := recover(); r != nil {
						done <- "PANIC! Close: " + strings.ReplaceAll(fmt.Sprint(r), "\n", " ")
					}
				}()
				t.Close()
				done <- ""
			}()
			select {
			case r := <-done:
				if r != "" {
					fatal = r
				}
			case <-time.After(2 * time.Second):
				fatal = "HANG Close did not return within 2s"
			}
			closedSeen = true
			env.activity.Add(1)
			ok = true
		default:
			return "HARNESS-ERROR bad event " + ev
		}
		env.quiesce()
		if ok {
			marks.WriteByte('o')
		} else {
			marks.WriteByte('s')
		}
	}
	env.quiesce()
	env.mu.Lock()
	res := make([]string, len(env.results))
	for i, r := range env.results {
		if r == "" {
			r = "pend"
		}
		res[i] = r
	}
	open := env.opened - env.closed
	dials := len(env.dials)
	env.mu.Unlock()

	// clean up
	env.mu.Lock()
	for _, d := range env.dials {
		if d.pending {
			d.pending = false
			d.gate <- false
		}
	}
	for _, c := range env.cancels {
		c()
	}
	env.mu.Unlock()
	go func() {
		defer func() { recover() }()
		t.Close()
	}()
	waitDone := make(chan struct{})
	go func() { wg.Wait(); close(waitDone) }()
	select {
	case <-waitDone:
	case <-time.After(3 * time.Second):
		if fatal == "" {
			fatal = "HANG an exchange did not return after cancel+close"
		}
	}
	if fatal != "" {
		return fatal
	}
	for _, r := range res {
		if r == "panic" {
			return "PANIC! in ExchangeContext"
		}
	}
	rs := "-"
	if len(res) > 0 {
		rs = strings.Join(res, ",")
	}
	c := 0
	if closedSeen {
		c = 1
	}
	return fmt.Sprintf("ev=%s res=%s open=%d dials=%d closed=%d", marks.String(), rs, open, dials, c)
}
