package main

// Kinds "decode" (C01), "pack" (C02/C09): the real dnsmsg codec on wire bytes.
//   decode: <id> msg=<hex>                      -> OK <dump> | ERR | PANIC! | HANG
//   pack:   <id> c=<0|1> size=<n> msg=<hex>     -> OK <hex of Pack output> | ERR | UNDECODABLE | PANIC!

import (
	"fmt"
	"os"
	"strings"
	"time"

	"github.com/IrineSistiana/mosproxy/internal/dnsmsg"
	"github.com/IrineSistiana/mosproxy/internal/pool"
	"github.com/IrineSistiana/mosproxy/verifharness/hx"
)

func init() {
	register("decode", 1, runDecode)
	register("pack", 1, runPack)
}

func b2i(b bool) int {
	if b {
		return 1
	}
	return 0
}

func dumpRR(sb *strings.Builder, r dnsmsg.Resource) {
	h := r.Hdr()
	fmt.Fprintf(sb, "%s,%d,%d,%d,%d,", hx.Hex(h.Name), h.Type, h.Class, h.TTL, h.Length)
	switch r := r.(type) {
	case *dnsmsg.A:
		fmt.Fprintf(sb, "A:%s", hx.Hex(r.A[:]))
	case *dnsmsg.AAAA:
		fmt.Fprintf(sb, "AAAA:%s", hx.Hex(r.AAAA[:]))
	case *dnsmsg.NAMEResource:
		fmt.Fprintf(sb, "N:%s", hx.Hex(r.NameData))
	case *dnsmsg.SOA:
		fmt.Fprintf(sb, "SOA:%s,%s,%d,%d,%d,%d,%d", hx.Hex(r.NS), hx.Hex(r.MBox), r.Serial, r.Refresh, r.Retry, r.Expire, r.MinTTL)
	case *dnsmsg.MX:
		fmt.Fprintf(sb, "MX:%d,%s", r.Pref, hx.Hex(r.MX))
	case *dnsmsg.SRV:
		fmt.Fprintf(sb, "SRV:%d,%d,%d,%s", r.Priority, r.Weight, r.Port, hx.Hex(r.Target))
	case *dnsmsg.RawResource:
		fmt.Fprintf(sb, "RAW:%s", hx.Hex(r.Data))
	default:
		fmt.Fprintf(sb, "?")
	}
}

func dumpMsg(m *dnsmsg.Msg) string {
	var sb strings.Builder
	h := m.Header
	fmt.Fprintf(&sb, "H%d,%d,%d,%d,%d,%d,%d,%d,%d,%d", h.ID, b2i(h.Response), h.OpCode, b2i(h.Authoritative),
		b2i(h.Truncated), b2i(h.RecursionDesired), b2i(h.RecursionAvailable), b2i(h.AuthenticData),
		b2i(h.CheckingDisabled), h.RCode)
	sb.WriteString("|Q")
	for i, q := range m.Questions {
		if i > 0 {
			sb.WriteByte(';')
		}
		fmt.Fprintf(&sb, "%s,%d,%d", hx.Hex(q.Name), q.Type, q.Class)
	}
	for si, rs := range [][]dnsmsg.Resource{m.Answers, m.Authorities, m.Additionals} {
		sb.WriteString([]string{"|AN", "|NS", "|AR"}[si])
		for i, r := range rs {
			if i > 0 {
				sb.WriteByte(';')
			}
			dumpRR(&sb, r)
		}
	}
	return sb.String()
}

// guard runs fn under recover() and a watchdog.
func guard(id string, limit time.Duration, fn func() string) (res string) {
	done := make(chan string, 1)
	go func() {
		defer func() {
			if r := recover(); r != nil {
				done <- "PANIC! " + strings.ReplaceAll(fmt.Sprint(r), "\n", " ")
			}
		}()
		done <- fn()
	}()
	select {
	case r := <-done:
		return r
	case <-time.After(limit):
		emit("R " + id + " HANG")
		os.Exit(3)
		return ""
	}
}

func runDecode(id string, parts []string) string {
	f := hx.Fields(parts)
	b, err := hx.UnHex(f["msg"])
	if err != nil {
		return "HARNESS-ERROR bad hex"
	}
	return guard(id, 10*time.Second, func() string {
		// the receive paths hand UnpackMsg a pool buffer slice; use one here too
		buf := pool.GetBuf(len(b))
		copy(buf, b)
		m, err := dnsmsg.UnpackMsg(buf)
		// poison the receive buffer before dumping: the decoded message must not alias it (C20)
		for i := range buf {
			buf[i] = 0xAA
		}
		pool.ReleaseBuf(buf)
		if err != nil {
			return "ERR"
		}
		s := "OK " + dumpMsg(m)
		dnsmsg.ReleaseMsg(m)
		return s
	})
}

func runPack(id string, parts []string) string {
	f := hx.Fields(parts)
	b, err := hx.UnHex(f["msg"])
	if err != nil {
		return "HARNESS-ERROR bad hex"
	}
	compress := f["c"] == "1"
	size := hx.MustAtoi(f["size"])
	return guard(id, 20*time.Second, func() string {
		m, err := dnsmsg.UnpackMsg(b)
		if err != nil {
			return "UNDECODABLE"
		}
		defer dnsmsg.ReleaseMsg(m)
		l := m.Len()
		buf := pool.GetBuf(l)
		defer pool.ReleaseBuf(buf)
		for i := range buf {
			buf[i] = 0xEE
		}
		n, err := m.Pack(buf, compress, size)
		if err != nil {
			return "ERR"
		}
		return "OK " + hx.Hex(buf[:n])
	})
}
