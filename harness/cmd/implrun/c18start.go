package main

// C18, kind "startcfg": a start-up error is REPORTED and nothing that run() acquired on the way is left behind.
//
// One child process per case.  The case is a configuration written as a list of items, at most a few of which
// carry a fault.  The child builds the router.Config (fresh ports and files), runs the real run() once to warm
// up every lazily started library goroutine, takes a baseline of the process (open file descriptors by class,
// goroutines), runs run() again `reps` times (a router that does start is closed again), waits for the process
// to settle and reports what is left over.
//
//   case:   <id> cfg=<item>;<item>;...  [mode=bin]
//           items (in the order of run()):
//             m[!inuse]                                 metrics endpoint
//             u:<udp|tcp|tcpp|tls|tlsp|https|http|h3|quic|doq>[!fault]   upstream
//                  faults: notag duptag noaddr scheme badtag camissing cagarbage certmissing certgarbage
//                          mismatch vccnoca certonly keyonly
//             d[!notag|duptag|nofile|baddata]           domain set
//             r[!noset|noup]                            rule
//             c:<none|mem|marker|memmarker>[!nomarker|badmarker|badredis]   cache
//             s:<udp|tcp|gnet|http|fasthttp|tls|https|quic>[!fault]      listener
//                  faults: inuse proto badaddr nocert certonly keyonly certmissing certgarbage mismatch
//                          camissing cagarbage vccnoca
//   result: res=<ERR|OK|MIXED> sock=<n> fd=<n> gor=<0|1>
//           res:  what run() returned (every repetition): an error / a router
//           sock: sockets of the process left over per repetition (socket: entries of /proc/self/fd)
//           fd:   other file descriptors left over per repetition
//           gor:  1 when goroutines are left over after every repetition (3 s grace), else 0
//   mode=bin: the configuration is written as YAML and given to the real binary: res=ERR = exit status != 0
//           without a Go panic trace, res=OK = it came up (killed afterwards); sock/fd/gor are not observed (-).

import (
	"bytes"
	"context"
	"crypto/tls"
	"fmt"
	"net"
	"os"
	"os/exec"
	"path/filepath"
	"runtime"
	"runtime/debug"
	"strings"
	"time"

	"github.com/IrineSistiana/mosproxy/app/router"
	"github.com/IrineSistiana/mosproxy/verifharness/hx"
	"github.com/quic-go/quic-go"
	"gopkg.in/yaml.v3"
)

func init() {
	register("startcfg", 6, runStartCfgParent)
	register("startcfg1", 1, runStartCfgChild)
}

func runStartCfgParent(id string, parts []string) string {
	for try := 0; try < 4; try++ {
		cmd := exec.Command(os.Args[0], "startcfg1")
		cmd.Stdin = strings.NewReader(id + " " + strings.Join(parts, " ") + "\n")
		var out, errb bytes.Buffer
		cmd.Stdout = &out
		cmd.Stderr = &errb
		done := make(chan error, 1)
		if err := cmd.Start(); err != nil {
			return "HARNESS-ERROR " + err.Error()
		}
		go func() { done <- cmd.Wait() }()
		select {
		case <-done:
		case <-time.After(60 * time.Second):
			cmd.Process.Kill()
			return "HANG child did not finish"
		}
		res := ""
		for _, l := range strings.Split(out.String(), "\n") {
			if strings.HasPrefix(l, "R "+id+" ") {
				res = strings.TrimPrefix(l, "R "+id+" ")
			}
		}
		if res == "" {
			es := errb.String()
			if strings.Contains(es, "panic:") || strings.Contains(es, "fatal error") {
				return "PANIC! the process died with a Go panic trace"
			}
			return "CRASH"
		}
		if res != "port collision" {
			return res
		}
	}
	return "HARNESS-ERROR repeated port collisions"
}

type scItem struct {
	comp   string // m u d r c s
	kind   string
	fault  string
	rp     bool   // +rp: socket.so_reuseport configured explicitly
	client string // @idle @mid @hs: a client in that state is connected to the endpoint when the router is closed
}

func scParse(s string) ([]scItem, error) {
	var out []scItem
	for _, it := range strings.Split(s, ";") {
		if it == "" {
			continue
		}
		body, fault, _ := strings.Cut(it, "!")
		body, client, _ := strings.Cut(body, "@")
		rp := strings.HasSuffix(body, "+rp")
		body = strings.TrimSuffix(body, "+rp")
		comp, kind, _ := strings.Cut(body, ":")
		switch comp {
		case "m", "u", "d", "r", "c", "s":
		default:
			return nil, fmt.Errorf("unknown item %q", it)
		}
		out = append(out, scItem{comp, kind, fault, rp, client})
	}
	return out, nil
}

type scFiles struct {
	redisURL string
	dir                                    string
	cert, key, cert2, key2, ca, garbage    string
	set, badset, marker, badmarker, nofile string
}

func scMakeFiles(dir string) (*scFiles, error) {
	pki, err := c17pki()
	if err != nil {
		return nil, err
	}
	f := &scFiles{dir: dir}
	if _, f.cert, f.key, err = pki.leafFiles("valid", "127.0.0.1"); err != nil {
		return nil, err
	}
	if _, f.cert2, f.key2, err = pki.leafFiles("valid", "127.0.0.1"); err != nil {
		return nil, err
	}
	// any certificate is a usable ca file
	f.ca = f.cert2
	w := func(name, content string) string {
		p := filepath.Join(dir, name)
		os.WriteFile(p, []byte(content), 0o644)
		return p
	}
	f.garbage = w("garbage.pem", "-----BEGIN NOTHING-----\nthis is not pem\n")
	f.set = w("set.txt", "full:example.org\ndomain:example.com\n")
	f.badset = w("badset.txt", "regexp:(\n")
	f.marker = w("marker.txt", "10.0.0.0,10.255.255.255,a\n")
	f.badmarker = w("badmarker.txt", "this is not a prefix\n")
	f.nofile = filepath.Join(dir, "no-such-file")
	return f, nil
}

func scUpAddr(kind string, port int) string {
	hp := fmt.Sprintf("127.0.0.1:%d", port)
	switch kind {
	case "udp":
		return "udp://" + hp
	case "tcp":
		return "tcp://" + hp
	case "tcpp":
		return "tcp+pipeline://" + hp
	case "tls":
		return "tls://" + hp
	case "tlsp":
		return "tls+pipeline://" + hp
	case "https":
		return "https://" + hp + "/dns-query"
	case "http":
		return "http://" + hp + "/dns-query"
	case "h3":
		return "h3://" + hp + "/dns-query"
	case "quic":
		return "quic://" + hp
	case "doq":
		return "doq://" + hp
	}
	return kind + "://" + hp
}

func scTlsFault(t *router.TlsConfig, fault string, f *scFiles, server bool) {
	if server {
		t.Cert, t.Key = f.cert, f.key
	}
	switch fault {
	case "nocert":
		t.Cert, t.Key = "", ""
	case "certonly":
		t.Cert, t.Key = f.cert, ""
	case "keyonly":
		t.Cert, t.Key = "", f.key
	case "certmissing":
		t.Cert, t.Key = f.nofile, f.nofile
	case "certgarbage":
		t.Cert, t.Key = f.garbage, f.garbage
	case "mismatch":
		t.Cert, t.Key = f.cert, f.key2
	case "camissing":
		t.CA = f.nofile
	case "cagarbage":
		t.CA = f.garbage
	case "vccnoca":
		t.VerifyClientCert = true
	}
}

// build the configuration; held = sockets the harness binds to provoke "address in use"
// an endpoint of the configuration under test that a client is to be attached to
type scEndpoint struct {
	comp, kind, client, addr string
}

type scBuilt struct {
	cfg   *router.Config
	first []*router.Config // "another instance of the router": one configuration per port it has to hold
	eps   []scEndpoint
}

func scServerConfig(it scItem, idx int, listen string, f *scFiles) router.ServerConfig {
	proto := it.kind
	sc := router.ServerConfig{Tag: fmt.Sprintf("s%d", idx), Listen: listen}
	switch it.kind {
	case "udp1":
		proto = "udp"
		sc.Udp.Threads = 1
	case "udp2":
		proto = "udp"
		sc.Udp.Threads = 2
	}
	sc.Protocol = proto
	sc.Socket.SO_REUSEPORT = it.rp
	if proto == "tls" || proto == "https" || proto == "quic" {
		scTlsFault(&sc.Tls, "", f, true)
	}
	return sc
}

func scBuild(items []scItem, f *scFiles, intended map[int]bool, hold func(port int, udp bool) error) (*scBuilt, error) {
	b := &scBuilt{}
	cfg := &router.Config{}
	b.cfg = cfg
	nu, nd := 0, 0
	upPort := hx.FreePort()
	for _, it := range items {
		switch it.comp {
		case "m":
			p := hx.FreePort()
			cfg.Metrics.Addr = fmt.Sprintf("127.0.0.1:%d", p)
			switch it.fault {
			case "inuse":
				intended[p] = true
				if err := hold(p, false); err != nil {
					return nil, err
				}
			case "rtr":
				intended[p] = true
				c1 := &router.Config{}
				c1.Metrics.Addr = cfg.Metrics.Addr
				b.first = append(b.first, c1)
			}
			if it.client != "" {
				b.eps = append(b.eps, scEndpoint{"m", "", it.client, cfg.Metrics.Addr})
			}
		case "u":
			uc := router.UpstreamConfig{Tag: fmt.Sprintf("up%d", nu), Addr: scUpAddr(it.kind, upPort)}
			switch it.fault {
			case "notag":
				uc.Tag = ""
			case "duptag":
				uc.Tag = "up0"
			case "noaddr":
				uc.Addr = ""
			case "scheme":
				uc.Addr = "bogus://127.0.0.1:1"
			case "badtag":
				uc.Tag = "up\xff\xfe"
			default:
				scTlsFault(&uc.Tls, it.fault, f, false)
			}
			cfg.Upstreams = append(cfg.Upstreams, uc)
			nu++
		case "d":
			dc := router.DomainSetConfig{Tag: fmt.Sprintf("set%d", nd), Files: []string{f.set}}
			switch it.fault {
			case "notag":
				dc.Tag = ""
			case "duptag":
				dc.Tag = "set0"
			case "nofile":
				dc.Files = []string{f.set, f.nofile}
			case "baddata":
				dc.Files = []string{f.set, f.badset}
			}
			cfg.DomainSets = append(cfg.DomainSets, dc)
			nd++
		case "r":
			rc := router.RuleConfig{}
			if nd > 0 {
				rc.Domain = "set0"
			}
			if nu > 0 {
				rc.Forward = "up0"
			} else {
				rc.Reject = 5
			}
			switch it.fault {
			case "noset":
				rc.Domain = "no-such-set"
			case "noup":
				rc.Forward = "no-such-upstream"
			}
			cfg.Rules = append(cfg.Rules, rc)
		case "c":
			if strings.Contains(it.kind, "mem") {
				cfg.Cache.MemSize = 1 << 20
			}
			if strings.Contains(it.kind, "marker") {
				cfg.Cache.IpMarker = f.marker
			}
			if strings.Contains(it.kind, "redis") {
				cfg.Cache.Redis = f.redisURL // the fake redis of this process
			}
			switch it.fault {
			case "nomarker":
				cfg.Cache.IpMarker = f.nofile
			case "badmarker":
				cfg.Cache.IpMarker = f.badmarker
			case "badredis":
				cfg.Cache.Redis = "nosuchscheme://127.0.0.1:1"
			}
		case "s":
			p := hx.FreePort()
			sc := scServerConfig(it, len(cfg.Servers), fmt.Sprintf("127.0.0.1:%d", p), f)
			isTls := sc.Protocol == "tls" || sc.Protocol == "https" || sc.Protocol == "quic"
			udp := sc.Protocol == "udp" || sc.Protocol == "quic"
			switch it.fault {
			case "":
			case "inuse":
				intended[p] = true
				if err := hold(p, udp); err != nil {
					return nil, err
				}
			case "rtr":
				// the port is held by ANOTHER INSTANCE of the router with the same listener
				intended[p] = true
				c1 := &router.Config{}
				c1.Servers = []router.ServerConfig{scServerConfig(it, 0, sc.Listen, f)}
				b.first = append(b.first, c1)
			case "proto":
				sc.Protocol = "bogus"
			case "badaddr":
				sc.Listen = "256.0.0.1:1"
			default:
				scTlsFault(&sc.Tls, it.fault, f, isTls)
			}
			if it.client != "" {
				b.eps = append(b.eps, scEndpoint{"s", sc.Protocol, it.client, sc.Listen})
			}
			cfg.Servers = append(cfg.Servers, sc)
		}
	}
	return b, nil
}

// attach a client in the given state to an endpoint; returns a closer for the client's side
func scAttach(ep scEndpoint) (func(), error) {
	partialFrame := []byte{0x00, 0x64, 1, 2, 3, 4, 5, 6, 7, 8, 9, 10} // announces 100 octets, delivers 10
	httpReq := func(path string) []byte {
		// a request whose announced body never arrives
		return []byte("POST " + path + " HTTP/1.1\r\nHost: verif\r\nContent-Type: application/dns-message\r\nContent-Length: 16\r\n\r\n")
	}
	tcpDial := func() (net.Conn, error) { return net.DialTimeout("tcp", ep.addr, 2*time.Second) }
	tlsDial := func(protos []string) (net.Conn, error) {
		d := &net.Dialer{Timeout: 2 * time.Second}
		return tls.DialWithDialer(d, "tcp", ep.addr, &tls.Config{InsecureSkipVerify: true, NextProtos: protos})
	}
	kind := ep.kind
	if ep.comp == "m" {
		kind = "metrics"
	}
	switch kind {
	case "metrics", "http", "fasthttp", "tcp", "gnet":
		c, err := tcpDial()
		if err != nil {
			return nil, err
		}
		if ep.client == "mid" {
			switch kind {
			case "metrics":
				c.Write([]byte("GET /metrics HTTP/1.1\r\nHost: verif\r\nContent-Length: 16\r\n\r\n"))
			case "http", "fasthttp":
				c.Write(httpReq("/dns-query"))
			default:
				c.Write(partialFrame)
			}
		}
		return func() { c.Close() }, nil
	case "tls", "https":
		if ep.client == "mid" {
			protos := []string(nil)
			if kind == "https" {
				protos = []string{"http/1.1"}
			}
			c, err := tlsDial(protos)
			if err != nil {
				return nil, err
			}
			if kind == "https" {
				c.Write(httpReq("/dns-query"))
			} else {
				c.Write(partialFrame)
			}
			return func() { c.Close() }, nil
		}
		c, err := tcpDial()
		if err != nil {
			return nil, err
		}
		if ep.client == "hs" {
			c.Write([]byte{0x16, 0x03, 0x01}) // the first 3 octets of a TLS record header
		}
		return func() { c.Close() }, nil
	case "quic":
		ctx, cancel := context.WithTimeout(context.Background(), 3*time.Second)
		defer cancel()
		qc, err := quic.DialAddr(ctx, ep.addr, &tls.Config{InsecureSkipVerify: true, NextProtos: []string{"doq"}}, nil)
		if err != nil {
			return nil, err
		}
		if ep.client == "mid" {
			st, err := qc.OpenStreamSync(ctx)
			if err != nil {
				qc.CloseWithError(0, "")
				return nil, err
			}
			st.Write(partialFrame)
		}
		return func() { qc.CloseWithError(0, "") }, nil
	}
	return nil, fmt.Errorf("no client for endpoint kind %q", kind)
}

func scFds() (sock, other int) {
	ents, err := os.ReadDir("/proc/self/fd")
	if err != nil {
		return -1, -1
	}
	for _, e := range ents {
		l, err := os.Readlink("/proc/self/fd/" + e.Name())
		if err != nil {
			continue
		}
		if strings.HasPrefix(l, "socket:") {
			sock++
		} else {
			other++
		}
	}
	return
}

// goroutines of the process, except library goroutines that are known to linger for a bounded time after their
// owner was closed: fasthttp's worker-pool cleaner sleeps MaxIdleWorkerDuration (10 s) before it sees the stop.
var scLingering = []string{"fasthttp.(*workerPool).Start.func2"}

func scGoroutines() int {
	buf := make([]byte, 1<<20)
	for {
		n := runtime.Stack(buf, true)
		if n < len(buf) {
			buf = buf[:n]
			break
		}
		buf = make([]byte, 2*len(buf))
	}
	cnt := 0
	for _, g := range strings.Split(string(buf), "\n\n") {
		if !strings.HasPrefix(g, "goroutine ") {
			continue
		}
		skip := false
		for _, p := range scLingering {
			if strings.Contains(g, p) {
				skip = true
			}
		}
		if !skip {
			cnt++
		}
	}
	return cnt
}

func runStartCfgChild(id string, parts []string) string {
	f := hx.Fields(parts)
	items, err := scParse(f["cfg"])
	if err != nil {
		return "HARNESS-ERROR " + err.Error()
	}
	dir, err := os.MkdirTemp("", "verif-c18s-")
	if err != nil {
		return "HARNESS-ERROR " + err.Error()
	}
	defer os.RemoveAll(dir)
	files, err := scMakeFiles(dir)
	if err != nil {
		return "HARNESS-ERROR " + err.Error()
	}
	for _, it := range items {
		if it.comp == "c" && strings.Contains(it.kind, "redis") && files.redisURL == "" {
			// a redis tier: a fake redis server inside this process, up for all runs (part of the baseline); its
			// accepted connections are sockets of the process too, so a client connection that survives close
			// shows up twice in the socket count
			fr, err := newFakeRedis()
			if err != nil {
				return "HARNESS-ERROR " + err.Error()
			}
			defer fr.close()
			files.redisURL = fr.url()
		}
	}
	router.VerifQuiet()
	// A socket that is merely unreachable is closed by its finalizer at some later garbage collection: that is
	// not "released by the error path".  No collection runs in this process, so such sockets stay visible.
	debug.SetGCPercent(-1)
	intended := map[int]bool{}
	var held []interface{ Close() error }
	hold := func(port int, udp bool) error {
		c, err := suBind(suPort{port, udp})
		if err != nil {
			return err
		}
		held = append(held, c)
		return nil
	}
	dropHeld := func() {
		for _, c := range held {
			c.Close()
		}
		held = nil
	}
	defer dropHeld()

	if f["mode"] == "bin" {
		b, err := scBuild(items, files, intended, hold)
		if err != nil {
			return "HARNESS-ERROR " + err.Error()
		}
		// "another instance": the real binary, running, with the listener that holds the port
		for i, c1 := range b.first {
			stop, err := scStartFirstBin(dir, i, c1)
			if err != nil {
				return "HARNESS-ERROR first instance: " + err.Error()
			}
			defer stop()
		}
		coll := false
		r := startupBin(dir, b.cfg, true, nil, intended, &coll)
		if coll {
			return "port collision"
		}
		switch {
		case strings.HasPrefix(r, "res=ERR"):
			return "res=ERR sock=- fd=- gor=-"
		case strings.HasPrefix(r, "res=OK"), strings.HasPrefix(r, "HANG the binary neither"):
			// exit status 0, or still running after 10 s: the configuration was accepted
			return "res=OK sock=- fd=- gor=-"
		}
		return r
	}

	collision := false
	one := func() string {
		for k := range intended {
			delete(intended, k)
		}
		dropHeld()
		b, err := scBuild(items, files, intended, hold)
		if err != nil {
			return "HARNESS-ERROR " + err.Error()
		}
		cfg := b.cfg
		// "another instance of the router" holding a port: started first, closed after the run under test
		var firsts []*router.VerifRouter
		closeFirsts := func() {
			for _, r1 := range firsts {
				r1.Close()
			}
			firsts = nil
		}
		defer closeFirsts()
		for _, c1 := range b.first {
			r1, err := router.VerifRun(c1)
			if err != nil {
				if strings.Contains(err.Error(), "address already in use") {
					collision = true
					return "ERR"
				}
				return "HARNESS-ERROR first instance: " + err.Error()
			}
			firsts = append(firsts, r1)
		}
		type out struct {
			r   *router.VerifRouter
			err error
		}
		ch := make(chan out, 1)
		go func() {
			r, err := router.VerifRun(cfg)
			ch <- out{r, err}
		}()
		var o out
		select {
		case o = <-ch:
		case <-time.After(15 * time.Second):
			return "HANG run() did not return within 15s"
		}
		// the sockets the harness held for "address in use" are not the proxy's
		dropHeld()
		if o.err != nil {
			if os.Getenv("VERIF_C18_STACKS") != "" {
				fmt.Fprintln(os.Stderr, "run():", o.err)
			}
			if suCollision(o.err.Error(), intended) {
				collision = true
			}
			return "ERR"
		}
		time.Sleep(20 * time.Millisecond)
		// clients that are connected / in the middle of a handshake / of a request when the router is closed
		var detach []func()
		for _, ep := range b.eps {
			d, err := scAttach(ep)
			if err != nil {
				for _, x := range detach {
					x()
				}
				o.r.Close()
				return "HARNESS-ERROR client on " + ep.comp + ":" + ep.kind + ": " + err.Error()
			}
			detach = append(detach, d)
		}
		if len(b.eps) > 0 {
			time.Sleep(80 * time.Millisecond)
		}
		done := make(chan struct{})
		t0 := time.Now()
		go func() { o.r.Close(); close(done) }()
		if v := os.Getenv("VERIF_C18_CLOSEBOUND"); v != "" {
			scCloseBound, _ = time.ParseDuration(v)
		}
		select {
		case <-done:
			if os.Getenv("VERIF_C18_STACKS") != "" {
				fmt.Fprintln(os.Stderr, "close took", time.Since(t0))
			}
		case <-time.After(scCloseBound):
			return fmt.Sprintf("HANG router close did not return within %v", scCloseBound)
		}
		for _, x := range detach {
			x()
		}
		return "OK"
	}
	return guardStartCfg(func() string {
		first := one() // warm-up: library goroutines that are started once per process
		if collision {
			return "port collision"
		}
		if strings.HasPrefix(first, "HANG") || strings.HasPrefix(first, "HARNESS") {
			return first
		}
		settle := func(bs, bo, bg int) (int, int, int) {
			var s, o, g int
			for i := 0; i < 300; i++ {
				runtime.Gosched()
				s, o = scFds()
				g = scGoroutines()
				if s <= bs && o <= bo && g <= bg {
					break
				}
				time.Sleep(10 * time.Millisecond)
			}
			return s, o, g
		}
		// baseline: the process as the warm-up left it, once it has been stable for 4 samples
		bs, bo := scFds()
		bg := scGoroutines()
		stable := 0
		for i := 0; i < 120 && stable < 4; i++ {
			time.Sleep(20 * time.Millisecond)
			s, o := scFds()
			g := scGoroutines()
			if s == bs && o == bo && g == bg {
				stable++
			} else {
				stable = 0
				bs, bo, bg = s, o, g
			}
		}
		const reps = 2
		res := first
		for i := 0; i < reps; i++ {
			r := one()
			if collision {
				return "port collision"
			}
			if strings.HasPrefix(r, "HANG") || strings.HasPrefix(r, "HARNESS") {
				return r
			}
			if r != res {
				res = "MIXED"
			}
		}
		s, o, g := settle(bs, bo, bg)
		per := func(d int) int {
			if d <= 0 {
				return 0
			}
			return (d + reps - 1) / reps
		}
		gor := 0
		if g-bg >= reps {
			gor = 1
			if os.Getenv("VERIF_C18_STACKS") != "" {
				buf := make([]byte, 1<<20)
				n := runtime.Stack(buf, true)
				os.Stderr.Write(buf[:n])
			}
		}
		return fmt.Sprintf("res=%s sock=%d fd=%d gor=%d", res, per(s-bs), per(o-bo), gor)
	})
}

// router.close must return promptly whatever its peers do
var scCloseBound = 3 * time.Second

// start the real binary with cfg and wait until it is up; the returned function kills it
func scStartFirstBin(dir string, i int, cfg *router.Config) (func(), error) {
	suBinOnce.Do(func() {
		suBinPath = os.Getenv("VERIF_MOSPROXY")
		if suBinPath == "" {
			suBinPath = filepath.Join(filepath.Dir(os.Args[0]), "mosproxy")
		}
	})
	b, err := yaml.Marshal(cfg)
	if err != nil {
		return nil, err
	}
	cp := filepath.Join(dir, fmt.Sprintf("first%d.yaml", i))
	if err := os.WriteFile(cp, b, 0o644); err != nil {
		return nil, err
	}
	cmd := exec.Command(suBinPath, "router", "-c", cp)
	var errb bytes.Buffer
	cmd.Stderr = &errb
	cmd.Stdout = &errb
	if err := cmd.Start(); err != nil {
		return nil, err
	}
	exited := make(chan struct{})
	go func() { cmd.Wait(); close(exited) }()
	stop := func() { cmd.Process.Kill(); <-exited }
	for j := 0; j < 200; j++ {
		select {
		case <-exited:
			return nil, fmt.Errorf("exited: %s", errb.String())
		default:
		}
		if strings.Contains(errb.String(), "up and running") {
			return stop, nil
		}
		time.Sleep(25 * time.Millisecond)
	}
	stop()
	return nil, fmt.Errorf("did not come up")
}

func guardStartCfg(fn func() string) (res string) {
	defer func() {
		if r := recover(); r != nil {
			res = fmt.Sprintf("PANIC! %v", r)
		}
	}()
	return fn()
}

var _ = net.Listen
