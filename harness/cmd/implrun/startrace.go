package main

// Kind "startrace" (C10 / C03): clients that are ALREADY sending while run() executes.
//   <id> cfg=<cfgspec with B=<n>: domain sets that take a while to load> qf=<hex: forwarded by the last rule>
//        qr=<hex: matched by the first rule (a reject rule)> up=reply:<hex>
//   -> n=<responses> fwd=<n>:<good> rej=<n>:<good> bad=<first deviating response, hex, or -> early=<responses received
//      before run() returned>
// A UDP and a TCP client send the two questions in a tight loop from before the router is started until shortly
// after run() returned.  Queries that arrive before a listener is bound are lost (ICMP / connection refused): that is
// fine.  Every response that IS received must be the response the rules demand: whatever run() does internally, a
// listener must not answer before the rules (and the domain sets they refer to) are in place.
// One case at a time (the hook hx.BeforeRun is process-wide).

import (
	"encoding/binary"
	"fmt"
	"io"
	"net"
	"strings"
	"sync"
	"sync/atomic"
	"time"

	"github.com/IrineSistiana/mosproxy/app/router"
	"github.com/IrineSistiana/mosproxy/verifharness/hx"
)

func init() { register("startrace", 1, runStartRace) }

type srStats struct {
	mu    sync.Mutex
	n     int
	fwd   [2]int // received, as demanded
	rej   [2]int
	bad   string
	early int
}

func (s *srStats) add(resp, qf, qr []byte, wantF []byte, ready *atomic.Bool) {
	s.mu.Lock()
	defer s.mu.Unlock()
	s.n++
	if !ready.Load() {
		s.early++
	}
	if len(resp) < 12 {
		if s.bad == "" {
			s.bad = hx.Hex(resp)
		}
		return
	}
	key := hx.QuestionKey(resp)
	rcode := resp[3] & 0x0F
	an := binary.BigEndian.Uint16(resp[6:8])
	switch key {
	case hx.QuestionKey(qf):
		s.fwd[0]++
		// the upstream's reply relayed: NOERROR, the scripted answer section
		if rcode == 0 && an == binary.BigEndian.Uint16(wantF[6:8]) && an > 0 {
			s.fwd[1]++
		} else if s.bad == "" {
			s.bad = hx.Hex(resp)
		}
	case hx.QuestionKey(qr):
		s.rej[0]++
		if rcode == 3 && an == 0 {
			s.rej[1]++
		} else if s.bad == "" {
			s.bad = hx.Hex(resp)
		}
	default:
		if s.bad == "" {
			s.bad = hx.Hex(resp)
		}
	}
}

func runStartRace(id string, parts []string) (res string) {
	defer func() {
		if r := recover(); r != nil {
			res = fmt.Sprintf("PANIC! %v", r)
		}
	}()
	f := hx.Fields(parts)
	qf, err1 := hx.UnHex(f["qf"])
	qr, err2 := hx.UnHex(f["qr"])
	if err1 != nil || err2 != nil {
		return "HARNESS-ERROR bad hex"
	}
	beh := parseBehaviour(f["up"])
	router.VerifLogDiscard()

	var st srStats
	var ready, stop atomic.Bool
	var wg sync.WaitGroup
	hx.BeforeRun = func(env *hx.RouterEnv) {
		env.SetBehaviour(hx.QuestionKey(qf), beh)
		udpPort, tcpPort := env.Ports["udp"], env.Ports["tcp"]
		// UDP: one unconnected socket (a connected one would see ICMP errors as write errors: harmless, but noisy)
		pc, err := net.ListenUDP("udp", &net.UDPAddr{IP: net.IPv4(127, 0, 0, 1)})
		if err != nil {
			return
		}
		dst := &net.UDPAddr{IP: net.IPv4(127, 0, 0, 1), Port: udpPort}
		wg.Add(3)
		go func() { // sender
			defer wg.Done()
			var idn uint16
			for !stop.Load() {
				for _, q := range [][]byte{qf, qr} {
					idn++
					w := append([]byte(nil), q...)
					binary.BigEndian.PutUint16(w, idn)
					pc.WriteToUDP(w, dst)
				}
				time.Sleep(150 * time.Microsecond)
			}
			time.Sleep(60 * time.Millisecond)
			pc.Close()
		}()
		go func() { // receiver
			defer wg.Done()
			buf := make([]byte, 4096)
			for {
				n, _, err := pc.ReadFromUDP(buf)
				if err != nil {
					if stop.Load() {
						return
					}
					continue
				}
				st.add(append([]byte(nil), buf[:n]...), qf, qr, beh.Reply, &ready)
			}
		}()
		go func() { // TCP: connect, one query, one response, again
			defer wg.Done()
			k := 0
			for !stop.Load() {
				c, err := net.DialTimeout("tcp", fmt.Sprintf("127.0.0.1:%d", tcpPort), 200*time.Millisecond)
				if err != nil {
					time.Sleep(200 * time.Microsecond)
					continue
				}
				q := [][]byte{qf, qr}[k%2]
				k++
				w := binary.BigEndian.AppendUint16(nil, uint16(len(q)))
				w = append(w, q...)
				c.SetDeadline(time.Now().Add(time.Second))
				c.Write(w)
				var h [2]byte
				if _, err := io.ReadFull(c, h[:]); err == nil {
					b := make([]byte, binary.BigEndian.Uint16(h[:]))
					if _, err := io.ReadFull(c, b); err == nil {
						st.add(b, qf, qr, beh.Reply, &ready)
					}
				}
				c.Close()
			}
		}()
	}
	env, err := hx.NewRouterEnv(f["cfg"])
	hx.BeforeRun = nil
	ready.Store(true)
	if err != nil {
		stop.Store(true)
		wg.Wait()
		return "HARNESS-ERROR env: " + strings.ReplaceAll(err.Error(), " ", "_")
	}
	time.Sleep(40 * time.Millisecond)
	stop.Store(true)
	wg.Wait()
	env.Close()
	st.mu.Lock()
	defer st.mu.Unlock()
	bad := st.bad
	if bad == "" {
		bad = "-"
	}
	return fmt.Sprintf("n=%d fwd=%d:%d rej=%d:%d early=%d bad=%s", st.n, st.fwd[0], st.fwd[1], st.rej[0], st.rej[1], st.early, bad)
}
