package main

// C15, round 6.
//
// Kind "limstream": ONE long-lived stream connection (tcp, tls, gnet; quic: one connection, one stream per query) of a
// client carries a timed sequence of queries: single queries, pipelined bursts, pauses long enough for the bucket to
// refill.  A real router is started in-process with that one listener, a small client limit and a small
// max_concurrent_queries; a fake UDP upstream answers after `updelay` ms, so that the queries of a burst are in flight
// together.  A neighbour (another host of the client's /24, its own connection) shares the client's bucket.
//   case:   <id> l=<tcp|tls|gnet|quic> rate=<n> burst=<n> maxc=<n> updelay=<ms> steps=<step>,<step>,...
//           step = c | d      connect the client (127.0.1.1) / the neighbour (127.0.1.2)
//                | q | n      one query on the client's / the neighbour's connection, reply awaited
//                | p<k>       k queries written at once on the client's connection, k replies awaited
//                | s<ms>      pause
//   result: t=<a>:<b>,...  out=<letters>,...     one entry per step;  a / b = ns since start right before / after the step
//           letters: A answered, R REFUSED, C stream or connection closed without a reply, T timeout, X other,
//                    - for a pause; a connect step gives A (accepted) or C (closed at accept)
// The model replays the script with the measured instants (kind "limstreamspec" through respec): token bucket composed
// with the per-connection in-flight counter (Limit/Limiter.v sc_step).

import (
	"context"
	"crypto/tls"
	"encoding/binary"
	"fmt"
	"io"
	"net"
	"sort"
	"strconv"
	"strings"
	"sync"
	"time"

	"github.com/IrineSistiana/mosproxy/app/router"
	"github.com/IrineSistiana/mosproxy/internal/mlog"
	"github.com/IrineSistiana/mosproxy/verifharness/hx"
	"github.com/quic-go/quic-go"
	"github.com/rs/zerolog"
)

func init() { register("limstream", 8, runLimStream) }

type streamUpstream struct {
	uc    *net.UDPConn
	delay time.Duration
}

func (u *streamUpstream) serve() {
	buf := make([]byte, 4096)
	for {
		n, addr, err := u.uc.ReadFromUDP(buf)
		if err != nil {
			return
		}
		q := append([]byte(nil), buf[:n]...)
		go func() {
			if u.delay > 0 {
				time.Sleep(u.delay)
			}
			u.uc.WriteToUDP(hx.BuildReply(q, false, 0, [4]byte{9, 9, 9, 9}, 60), addr)
		}()
	}
}

const streamIOTimeout = 1500 * time.Millisecond

type streamPeer struct {
	src  net.IP
	c    net.Conn        // tcp / tls / gnet
	qc   quic.Connection // quic
	tr   *quic.Transport
	dead bool
}

func (p *streamPeer) close() {
	if p.c != nil {
		p.c.Close()
	}
	if p.qc != nil {
		p.qc.CloseWithError(0, "")
	}
	if p.tr != nil {
		p.tr.Close()
		p.tr.Conn.Close()
	}
}

func streamLetter(s string) byte {
	switch s {
	case "ANS":
		return 'A'
	case "REFUSED":
		return 'R'
	case "CLOSED", "SCLOSED":
		return 'C'
	case "TIMEOUT":
		return 'T'
	}
	return 'X'
}

func runLimStream(id string, parts []string) string {
	admitOnce.Do(func() { mlog.SetLvl(zerolog.Disabled) })
	f := hx.Fields(parts)
	proto := f["l"]
	return admitGuard(id, 60*time.Second, func() string {
		uc, err := net.ListenUDP("udp", &net.UDPAddr{IP: net.IPv4(127, 0, 0, 1)})
		if err != nil {
			return "HARNESS-ERROR " + err.Error()
		}
		defer uc.Close()
		up := &streamUpstream{uc: uc, delay: time.Duration(hx.MustAtoi(f["updelay"])) * time.Millisecond}
		go up.serve()

		var stop func()
		port := 0
		func() {
			admitStartMu.Lock()
			defer admitStartMu.Unlock()
			for try := 0; try < 5; try++ {
				port, _ = c15FreePort(proto == "quic")
				sc := router.ServerConfig{Tag: "s", Protocol: proto, Listen: fmt.Sprintf("127.0.0.1:%d", port),
					Tcp: router.TcpConfig{MaxConcurrentQueries: int32(hx.MustAtoi(f["maxc"]))}}
				if proto == "tls" || proto == "quic" {
					sc.Tls = router.TlsConfig{DebugUseTempCert: true}
				}
				cfg := &router.Config{
					Servers:   []router.ServerConfig{sc},
					Upstreams: []router.UpstreamConfig{{Tag: "up", Addr: fmt.Sprintf("udp://127.0.0.1:%d", uc.LocalAddr().(*net.UDPAddr).Port)}},
					Rules:     []router.RuleConfig{{Forward: "up"}},
					Limiter: router.LimiterConfig{
						Client: router.ClientLimiterConfig{Limit: hx.MustAtoi(f["rate"]), Burst: hx.MustAtoi(f["burst"])},
					},
				}
				stop, err = func() (st func(), e error) {
					defer func() {
						if r := recover(); r != nil {
							e = fmt.Errorf("router start panicked: %v", r)
						}
					}()
					return router.VerifC15Start(cfg)
				}()
				if err == nil {
					break
				}
			}
		}()
		if err != nil {
			return "HARNESS-ERROR router start: " + err.Error()
		}
		peers := []*streamPeer{{src: net.IPv4(127, 0, 1, 1)}, {src: net.IPv4(127, 0, 1, 2)}}
		defer func() {
			done := make(chan struct{})
			go func() {
				for _, p := range peers {
					p.close()
				}
				stop()
				close(done)
			}()
			select {
			case <-done:
			case <-time.After(3 * time.Second):
			}
		}()

		connect := func(p *streamPeer) string {
			switch proto {
			case "quic":
				ctx, cancel := context.WithTimeout(context.Background(), streamIOTimeout)
				defer cancel()
				uconn, err := net.ListenUDP("udp", &net.UDPAddr{IP: p.src})
				if err != nil {
					return "HARNESS-ERROR " + err.Error()
				}
				p.tr = &quic.Transport{Conn: uconn}
				c, err := p.tr.Dial(ctx, &net.UDPAddr{IP: net.IPv4(127, 0, 0, 1), Port: port},
					&tls.Config{InsecureSkipVerify: true, NextProtos: []string{"doq"}}, &quic.Config{})
				if err != nil {
					p.dead = true
					return "CLOSED"
				}
				p.qc = c
				return "ANS"
			default:
				d := net.Dialer{LocalAddr: &net.TCPAddr{IP: p.src}, Timeout: streamIOTimeout}
				c, err := d.Dial("tcp", fmt.Sprintf("127.0.0.1:%d", port))
				if err != nil {
					return "HARNESS-ERROR " + err.Error()
				}
				if proto == "tls" {
					tc := tls.Client(c, &tls.Config{InsecureSkipVerify: true})
					c.SetDeadline(time.Now().Add(streamIOTimeout))
					if err := tc.Handshake(); err != nil {
						c.Close()
						p.dead = true
						return "CLOSED"
					}
					c.SetDeadline(time.Time{})
					p.c = tc
					return "ANS"
				}
				// a connection refused by the limiter is closed at once
				c.SetReadDeadline(time.Now().Add(80 * time.Millisecond))
				var b [1]byte
				_, err = c.Read(b[:])
				if ne, ok := err.(net.Error); !(ok && ne.Timeout()) {
					c.Close()
					p.dead = true
					return "CLOSED"
				}
				c.SetReadDeadline(time.Time{})
				p.c = c
				return "ANS"
			}
		}

		qn := 0
		mkq := func() []byte {
			qn++
			name := []byte(fmt.Sprintf("\x03q%02d\x05%5.5s\x04test", qn%100, strings.ReplaceAll(id+"xxxxx", ".", "x")))
			return hx.BuildQuery(uint16(0x5000+qn), name, 1, 1, true)
		}
		// k queries written at once, k replies read (matched by ID)
		burst := func(p *streamPeer, k int) string {
			res := make([]byte, k)
			for i := range res {
				res[i] = 'T'
			}
			if p.dead || (p.c == nil && p.qc == nil) {
				for i := range res {
					res[i] = 'C'
				}
				return string(res)
			}
			qs := make([][]byte, k)
			for i := range qs {
				qs[i] = mkq()
			}
			if proto == "quic" {
				var wg sync.WaitGroup
				for i := range qs {
					wg.Add(1)
					go func(i int) {
						defer wg.Done()
						res[i] = streamLetter(streamQuicQuery(p, qs[i]))
					}(i)
				}
				wg.Wait()
				// the streams of a burst are opened concurrently: which of them the server sees first is not
				// determined; all have the same cost, so the answered ones are listed first
				sort.Slice(res, func(i, j int) bool { return res[i] == 'A' && res[j] != 'A' })
				return string(res)
			}
			var out []byte
			for _, q := range qs {
				out = binary.BigEndian.AppendUint16(out, uint16(len(q)))
				out = append(out, q...)
			}
			p.c.SetDeadline(time.Now().Add(streamIOTimeout))
			if _, err := p.c.Write(out); err != nil {
				p.dead = true
				for i := range res {
					res[i] = 'C'
				}
				return string(res)
			}
			for got := 0; got < k; got++ {
				var h [2]byte
				if _, err := io.ReadFull(p.c, h[:]); err != nil {
					if ne, ok := err.(net.Error); !(ok && ne.Timeout()) {
						p.dead = true
						for i := range res {
							if res[i] == 'T' {
								res[i] = 'C'
							}
						}
					}
					break
				}
				resp := make([]byte, binary.BigEndian.Uint16(h[:]))
				if _, err := io.ReadFull(p.c, resp); err != nil || len(resp) < 12 {
					break
				}
				rid := binary.BigEndian.Uint16(resp)
				for i, q := range qs {
					if binary.BigEndian.Uint16(q) == rid {
						res[i] = streamLetter(c15Rcode(resp, rid))
					}
				}
			}
			return string(res)
		}

		var ts, outs []string
		t0 := time.Now()
		for _, st := range strings.Split(f["steps"], ",") {
			if st == "" {
				continue
			}
			if st[0] != 's' {
				time.Sleep(15 * time.Millisecond) // the server side of the previous step has settled (slots given back)
			}
			a := time.Since(t0)
			var o string
			switch st[0] {
			case 'c':
				o = string(streamLetter(connect(peers[0])))
			case 'd':
				o = string(streamLetter(connect(peers[1])))
			case 'q':
				o = burst(peers[0], 1)
			case 'n':
				o = burst(peers[1], 1)
			case 'p':
				o = burst(peers[0], hx.MustAtoi(st[1:]))
			case 's':
				time.Sleep(time.Duration(hx.MustAtoi(st[1:])) * time.Millisecond)
				o = "-"
			default:
				return "HARNESS-ERROR bad step " + st
			}
			b := time.Since(t0)
			ts = append(ts, strconv.FormatInt(a.Nanoseconds(), 10)+":"+strconv.FormatInt(b.Nanoseconds(), 10))
			outs = append(outs, o)
		}
		return fmt.Sprintf("t=%s out=%s", strings.Join(ts, ","), strings.Join(outs, ","))
	})
}

func streamQuicQuery(p *streamPeer, q []byte) string {
	ctx, cancel := context.WithTimeout(context.Background(), streamIOTimeout)
	defer cancel()
	c := p.qc
	gone := func() string {
		select {
		case <-c.Context().Done():
			return "CLOSED"
		case <-time.After(60 * time.Millisecond):
			return "SCLOSED"
		}
	}
	st, err := c.OpenStreamSync(ctx)
	if err != nil {
		return gone()
	}
	st.SetDeadline(time.Now().Add(streamIOTimeout))
	out := binary.BigEndian.AppendUint16(nil, uint16(len(q)))
	if _, err := st.Write(append(out, q...)); err != nil {
		return gone()
	}
	st.Close()
	var h [2]byte
	if _, err := io.ReadFull(st, h[:]); err != nil {
		if ne, ok := err.(net.Error); ok && ne.Timeout() {
			return "TIMEOUT"
		}
		return gone()
	}
	resp := make([]byte, binary.BigEndian.Uint16(h[:]))
	if _, err := io.ReadFull(st, resp); err != nil {
		return "SHORT"
	}
	return c15Rcode(resp, binary.BigEndian.Uint16(q))
}
