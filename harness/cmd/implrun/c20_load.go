package main

// Kind "ownload" (C20): concurrent end-to-end load with the pool's poison/quarantine hook enabled — the SEARCH
// for a failing schedule on the real code (never the proof).
//
//   case:   <id> seed=<n> n=<client queries> conc=<client goroutines> cache=<mem_size> tn=<direct exchanges> [race=1]
//   result: viol=<0|1> q=<queries> ok=<n> lost=<n> badans=<n> poison=<n> upq=<n> upoison=<n> uforeign=<n>
//           tx=<direct exchanges> tok=<n> tbad=<n> ev=<hook event kinds|-> [race=<n>]
//
// Phase 1 (router): the REAL router in-process (udp/tcp/gnet/http/fasthttp listeners) in front of three fake
//   upstreams reached through the three real transports (udp pipeline, tcp reuse, tcp pipeline); a small memory
//   cache forces eviction and entry recycling; many client goroutines send questions from a vocabulary over a
//   random listener; some clients hang up early.  Every fake upstream answers a KEYED function of the question
//   after a random delay.
// Phase 2 (transports): many goroutines call ExchangeContext of the reuse / pipeline transports directly with
//   tiny random deadlines (so that contexts end around dial, write and read), against the same fake upstreams.
// Oracle: no poison octets (0xDB runs) in any client-visible response or upstream-visible query; every upstream
//   query is a well-formed question from the vocabulary; every response's answer is the keyed function of the
//   response's own question and that question is the one asked; zero hook events.

import (
	"bytes"
	"context"
	"crypto/sha256"
	"encoding/binary"
	"fmt"
	"io"
	"math/rand"
	"net"
	"os"
	"path/filepath"
	"strings"
	"sync"
	"sync/atomic"
	"time"

	"github.com/IrineSistiana/mosproxy/app/router"
	"github.com/IrineSistiana/mosproxy/internal/dnsmsg"
	"github.com/IrineSistiana/mosproxy/internal/pool"
	"github.com/IrineSistiana/mosproxy/internal/upstream"
	"github.com/IrineSistiana/mosproxy/internal/upstream/transport"
	"github.com/IrineSistiana/mosproxy/verifharness/hx"
)

func init() {
	register("ownload", 1, runOwnLoad)
}

// keyed answer: the A record's address is a function of (lower-cased name, type, class)
func c20Mark(qkey string) [4]byte {
	h := sha256.Sum256([]byte("c20|" + qkey))
	return [4]byte{h[0], h[1], h[2], h[3]}
}

func hasPoison(b []byte) bool {
	return bytes.Contains(b, []byte{c20Poison, c20Poison, c20Poison})
}

type c20Up struct {
	udp      *net.UDPConn
	tcp      net.Listener
	port     int
	vocab    map[string]bool
	rngMu    sync.Mutex
	rng      *rand.Rand
	maxDelay int // ms
	// round 4 faults: fraction (per mille) of UDP queries answered with TC=1 (the proxy's udp upstream then repeats the query
	// over TCP), and of TCP queries answered with a frame that ends early (length prefix, part of the body, close)
	tcPerMille      int
	tcpFailPerMille int
	queries  atomic.Int64
	poison   atomic.Int64
	foreign  atomic.Int64
	firstBad atomic.Value // string
	wg       sync.WaitGroup
}

func (u *c20Up) delay() time.Duration {
	u.rngMu.Lock()
	defer u.rngMu.Unlock()
	if u.rng.Intn(4) == 0 {
		return 0
	}
	return time.Duration(u.rng.Intn(u.maxDelay*1000)) * time.Microsecond
}

// inspect returns the reply for a received query, or nil (and counts) when the query is damaged
func (u *c20Up) roll(perMille int) bool {
	if perMille <= 0 {
		return false
	}
	u.rngMu.Lock()
	defer u.rngMu.Unlock()
	return u.rng.Intn(1000) < perMille
}

func (u *c20Up) inspect(q []byte, proto string) []byte {
	u.queries.Add(1)
	key := hx.QuestionKey(q)
	if hasPoison(q) {
		u.poison.Add(1)
		u.firstBad.CompareAndSwap(nil, proto+" poison "+hx.Hex(q))
		return nil
	}
	if key == "" || !u.vocab[key] {
		u.foreign.Add(1)
		u.firstBad.CompareAndSwap(nil, proto+" foreign "+hx.Hex(q))
		return nil
	}
	return hx.BuildReply(q, false, 0, c20Mark(key), 30)
}

func (u *c20Up) serveUDP() {
	buf := make([]byte, 65536)
	for {
		n, addr, err := u.udp.ReadFromUDP(buf)
		if err != nil {
			return
		}
		q := append([]byte(nil), buf[:n]...)
		r := u.inspect(q, "udp")
		if r == nil {
			continue
		}
		if u.roll(u.tcPerMille) {
			r[2] |= 0x02 // TC: same question and keyed answer, truncated flag set
		}
		d := u.delay()
		go func() {
			time.Sleep(d)
			u.udp.WriteToUDP(r, addr)
		}()
	}
}

func (u *c20Up) serveTCP() {
	for {
		c, err := u.tcp.Accept()
		if err != nil {
			return
		}
		go func() {
			defer c.Close()
			var wm sync.Mutex
			for {
				var h [2]byte
				if _, err := io.ReadFull(c, h[:]); err != nil {
					return
				}
				if h[0] == c20Poison && h[1] == c20Poison {
					// a released (poisoned) buffer was written to the connection: the frame length itself is poison
					u.queries.Add(1)
					u.poison.Add(1)
					u.firstBad.CompareAndSwap(nil, "tcp poison frame header dbdb")
					return
				}
				q := make([]byte, binary.BigEndian.Uint16(h[:]))
				if _, err := io.ReadFull(c, q); err != nil {
					return
				}
				r := u.inspect(q, "tcp")
				if r == nil {
					continue
				}
				if u.roll(u.tcpFailPerMille) {
					// the reply ends inside the frame: length prefix, part of the body, then the connection is closed
					fr := c20Frame(r)
					u.rngMu.Lock()
					cut := 2 + u.rng.Intn(len(r))
					u.rngMu.Unlock()
					// (the close happens under the write lock: a delayed reply of another pipelined query written behind the
					// partial frame would be read by the proxy as the rest of THIS frame's body)
					wm.Lock()
					c.Write(fr[:cut])
					c.Close()
					wm.Unlock()
					return
				}
				d := u.delay()
				go func() {
					time.Sleep(d)
					wm.Lock()
					c.Write(c20Frame(r))
					wm.Unlock()
				}()
			}
		}()
	}
}

func newC20Up(vocab map[string]bool, seed int64, maxDelay int) (*c20Up, error) {
	for try := 0; try < 30; try++ {
		p := hx.FreePort()
		t, err := net.Listen("tcp", fmt.Sprintf("127.0.0.1:%d", p))
		if err != nil {
			continue
		}
		uc, err := net.ListenUDP("udp", &net.UDPAddr{IP: net.IPv4(127, 0, 0, 1), Port: p})
		if err != nil {
			t.Close()
			continue
		}
		u := &c20Up{udp: uc, tcp: t, port: p, vocab: vocab, rng: rand.New(rand.NewSource(seed)), maxDelay: maxDelay}
		go u.serveUDP()
		go u.serveTCP()
		return u, nil
	}
	return nil, fmt.Errorf("cannot start fake upstream")
}

func (u *c20Up) close() { u.udp.Close(); u.tcp.Close() }

// vocabulary: names under three zones, one per upstream/transport
type c20Vocab struct {
	names [][]byte // raw wire names (no terminating zero), lower case
	keys  map[string]bool
}

func c20MakeVocab(rng *rand.Rand, n int) *c20Vocab {
	v := &c20Vocab{keys: map[string]bool{}}
	zones := []string{"zu", "zt", "zp"}
	for i := 0; i < n; i++ {
		var name []byte
		for l := 0; l < 1+rng.Intn(3); l++ {
			ln := 1 + rng.Intn(12)
			name = append(name, byte(ln))
			for j := 0; j < ln; j++ {
				name = append(name, byte('a'+rng.Intn(26)))
			}
		}
		z := zones[i%3]
		name = append(name, byte(len(z)))
		name = append(name, z...)
		name = append(name, 4, 't', 'e', 's', 't')
		v.names = append(v.names, name)
		for _, typ := range []uint16{1, 28, 16} {
			q := hx.BuildQuery(0, name, typ, 1, true)
			v.keys[hx.QuestionKey(q)] = true
		}
	}
	return v
}

func mixCase(rng *rand.Rand, raw []byte) []byte {
	b := append([]byte(nil), raw...)
	for off := 0; off < len(b); {
		l := int(b[off])
		for i := off + 1; i <= off+l && i < len(b); i++ {
			if b[i] >= 'a' && b[i] <= 'z' && rng.Intn(3) == 0 {
				b[i] -= 32
			}
		}
		off += 1 + l
	}
	return b
}

type loadStats struct {
	q, ok, lost, badans, poison, stray atomic.Int64
	firstBad                           atomic.Value
}

// checkResponse: the response must answer the question asked with the keyed answer
func checkResponse(st *loadStats, l string, q, resp []byte) {
	if hasPoison(resp) {
		st.poison.Add(1)
		st.firstBad.CompareAndSwap(nil, l+" poison resp="+hx.Hex(resp)+" q="+hx.Hex(q))
		return
	}
	m, err := dnsmsg.UnpackMsg(resp)
	if err != nil {
		st.badans.Add(1)
		st.firstBad.CompareAndSwap(nil, l+" undecodable resp="+hx.Hex(resp)+" q="+hx.Hex(q))
		return
	}
	defer dnsmsg.ReleaseMsg(m)
	key := hx.QuestionKey(q)
	good := m.Header.ID == binary.BigEndian.Uint16(q) && m.Header.Response && len(m.Questions) == 1
	if good {
		rq := hx.BuildQuery(0, m.Questions[0].Name, uint16(m.Questions[0].Type), uint16(m.Questions[0].Class), true)
		good = hx.QuestionKey(rq) == key
	}
	if good && m.Header.RCode == dnsmsg.RCodeSuccess {
		good = len(m.Answers) == 1
		if good {
			a, isA := m.Answers[0].(*dnsmsg.A)
			good = isA && a.A == c20Mark(key)
		}
	} else if good {
		// SERVFAIL etc. (time-out under load) is not an ownership violation; count it as lost
		st.lost.Add(1)
		return
	}
	if !good {
		st.badans.Add(1)
		st.firstBad.CompareAndSwap(nil, l+" wrong answer resp="+hx.Hex(resp)+" q="+hx.Hex(q))
		return
	}
	st.ok.Add(1)
}

// one query over UDP from a fresh socket. The kernel may hand this socket the ephemeral port of a client that hung
// up a moment ago; the proxy's (correct) late response to THAT client then arrives here. Like any DNS client, skip
// datagrams whose id is not ours — but still require them to be self-consistent (keyed answer of their own question).
func c20UDPQuery(st *loadStats, port int, wire []byte, timeout time.Duration) ([][]byte, string) {
	c, err := net.DialUDP("udp", nil, &net.UDPAddr{IP: net.IPv4(127, 0, 0, 1), Port: port})
	if err != nil {
		return nil, "dial-error"
	}
	defer c.Close()
	c.Write(wire)
	buf := make([]byte, 65536)
	c.SetReadDeadline(time.Now().Add(timeout))
	for {
		n, err := c.Read(buf)
		if err != nil {
			return nil, "no-response"
		}
		resp := append([]byte(nil), buf[:n]...)
		if n >= 2 && (resp[0] != wire[0] || resp[1] != wire[1]) && !hasPoison(resp) {
			if m, err := dnsmsg.UnpackMsg(resp); err == nil && len(m.Questions) == 1 {
				rq := hx.BuildQuery(binary.BigEndian.Uint16(resp), m.Questions[0].Name, uint16(m.Questions[0].Type), uint16(m.Questions[0].Class), true)
				dnsmsg.ReleaseMsg(m)
				st.stray.Add(1)
				var tmp loadStats
				checkResponse(&tmp, "udp", rq, resp)
				if tmp.badans.Load() == 0 && tmp.poison.Load() == 0 {
					continue // somebody else's intact response
				}
			}
		}
		return [][]byte{resp}, "ok"
	}
}

// one query over a stream listener; a frame whose length octets are poison is reported as such at once
func c20StreamQuery(port int, wire []byte, timeout time.Duration) ([][]byte, string) {
	c, err := net.DialTimeout("tcp", fmt.Sprintf("127.0.0.1:%d", port), time.Second)
	if err != nil {
		return nil, "dial-error"
	}
	defer c.Close()
	c.Write(c20Frame(wire))
	c.SetReadDeadline(time.Now().Add(timeout))
	var h [2]byte
	if _, err := io.ReadFull(c, h[:]); err != nil {
		return nil, "no-response"
	}
	if h[0] == c20Poison && h[1] == c20Poison {
		return nil, "poison"
	}
	body := make([]byte, binary.BigEndian.Uint16(h[:]))
	if _, err := io.ReadFull(c, body); err != nil {
		return nil, "short-frame"
	}
	return [][]byte{body}, "ok"
}

func runOwnLoad(id string, parts []string) string {
	f := hx.Fields(parts)
	if f["race"] == "1" && !raceEnabled {
		return c20RunUnderRace("ownload", id, parts)
	}
	return guard(id, 170*time.Second, func() string {
		pool.VerifPoison(true)
		pool.VerifEvents()
		dnsmsg.VerifObjTrack(true) // ownership tracking of the pooled objects (Msg, Question, resource structs)
		dnsmsg.VerifObjEvents()
		router.VerifQuiet()
		seed := int64(hx.MustAtoi(f["seed"]))
		n := hx.MustAtoi(f["n"])
		conc := hx.MustAtoi(f["conc"])
		tn := hx.MustAtoi(f["tn"])
		rng := rand.New(rand.NewSource(seed))
		vocab := c20MakeVocab(rng, 240)

		var ups []*c20Up
		for i := 0; i < 3; i++ {
			u, err := newC20Up(vocab.keys, seed*7+int64(i), 12)
			if err != nil {
				return "HARNESS-ERROR " + err.Error()
			}
			defer u.close()
			ups = append(ups, u)
		}
		// fault mix: the udp upstream truncates some replies and its TCP leg (only the fallback goes there) often ends a
		// frame early; the tcp reuse / tcp pipeline upstreams do so rarely (a closed pipelined connection fails every
		// exchange in flight on it)
		ups[0].tcPerMille, ups[0].tcpFailPerMille = 120, 300
		ups[1].tcpFailPerMille = 30
		ups[2].tcpFailPerMille = 15

		// ---- phase 1: the router ----
		dir, err := os.MkdirTemp("", "c20load")
		if err != nil {
			return "HARNESS-ERROR " + err.Error()
		}
		defer os.RemoveAll(dir)
		cfg := &router.Config{}
		schemes := []string{"udp", "tcp", "tcp+pipeline"}
		zones := []string{"zu.test", "zt.test", "zp.test"}
		for i := range ups {
			cfg.Upstreams = append(cfg.Upstreams, router.UpstreamConfig{Tag: fmt.Sprintf("up%d", i),
				Addr: fmt.Sprintf("%s://127.0.0.1:%d", schemes[i], ups[i].port)})
			fp := filepath.Join(dir, fmt.Sprintf("set%d.txt", i))
			os.WriteFile(fp, []byte("domain:"+zones[i]+"\n"), 0644)
			cfg.DomainSets = append(cfg.DomainSets, router.DomainSetConfig{Tag: fmt.Sprintf("set%d", i), Files: []string{fp}})
			cfg.Rules = append(cfg.Rules, router.RuleConfig{Domain: fmt.Sprintf("set%d", i), Forward: fmt.Sprintf("up%d", i)})
		}
		cfg.Cache.MemSize = hx.MustAtoi(f["cache"])
		// listeners on free loopback ports; another check may grab a port between FreePort and listen, and a failing
		// start-up of the pinned router can panic (D13, C18's business): retry with fresh ports
		var env *hx.RouterEnv
		var r *router.VerifRouter
		for attempt := 0; attempt < 6 && r == nil; attempt++ {
			env = &hx.RouterEnv{Ports: map[string]int{}}
			cfg.Servers = nil
			for _, k := range hx.ListenerKinds {
				p := hx.FreePort()
				env.Ports[k] = p
				cfg.Servers = append(cfg.Servers, router.ServerConfig{Tag: k, Protocol: k, Listen: fmt.Sprintf("127.0.0.1:%d", p)})
			}
			func() {
				defer func() {
					if rec := recover(); rec != nil {
						err = fmt.Errorf("router start panicked: %v", rec)
					}
				}()
				r, err = router.VerifRun(cfg)
			}()
		}
		if r == nil {
			return "HARNESS-ERROR router: " + strings.ReplaceAll(fmt.Sprint(err), " ", "_")
		}
		for _, k := range []string{"tcp", "gnet", "http", "fasthttp"} {
			for i := 0; i < 200; i++ {
				c, err := net.DialTimeout("tcp", fmt.Sprintf("127.0.0.1:%d", env.Ports[k]), 200*time.Millisecond)
				if err == nil {
					c.Close()
					break
				}
				time.Sleep(10 * time.Millisecond)
			}
		}

		var st loadStats
		listeners := []string{"udp", "udp", "tcp", "gnet", "gnet", "http-get", "http-post", "fasthttp-post", "fasthttp-get"}
		var wg sync.WaitGroup
		per := n / conc
		for g := 0; g < conc; g++ {
			wg.Add(1)
			grng := rand.New(rand.NewSource(seed*1000 + int64(g)))
			go func() {
				defer wg.Done()
				for i := 0; i < per; i++ {
					// a skewed choice keeps part of the vocabulary hot (cache hits) and the rest churning (evictions)
					var idx int
					if grng.Intn(2) == 0 {
						idx = grng.Intn(24)
					} else {
						idx = grng.Intn(len(vocab.names))
					}
					typ := []uint16{1, 28, 16}[grng.Intn(3)]
					// one query in 16 is "not implemented" for the router (RD clear): answered by a header-only reply
					rd := grng.Intn(16) != 0
					q := hx.BuildQuery(uint16(grng.Intn(65536)), mixCase(grng, vocab.names[idx]), typ, 1, rd)
					l := listeners[grng.Intn(len(listeners))]
					st.q.Add(1)
					if grng.Intn(16) == 0 {
						// a stream client whose frame ends early (FIN or RST after the length prefix and part of the body)
						sl := []string{"tcp", "gnet"}[grng.Intn(2)]
						c20FaultClient(env, sl, []string{"short-body", "reset-mid-body", "short-prefix"}[grng.Intn(3)], grng)
						st.lost.Add(1)
						continue
					}
					if grng.Intn(12) == 0 {
						// a client that hangs up at once: the handler's write fails or goes nowhere
						env.Query(l, q, "-", time.Duration(1+grng.Intn(3))*time.Millisecond, time.Millisecond)
						st.lost.Add(1)
						continue
					}
					var resps [][]byte
					var status string
					if l == "tcp" || l == "gnet" {
						resps, status = c20StreamQuery(env.Ports[l], q, 8*time.Second)
						if status == "poison" {
							st.poison.Add(1)
							st.firstBad.CompareAndSwap(nil, l+" poison frame header (0xdbdb) for q="+hx.Hex(q))
							continue
						}
					} else if l == "udp" {
						resps, status = c20UDPQuery(&st, env.Ports[l], q, 8*time.Second)
					} else {
						resps, status = env.Query(l, q, "-", 8*time.Second, 0)
					}
					if status != "ok" || len(resps) == 0 {
						st.lost.Add(1)
						continue
					}
					checkResponse(&st, l, q, resps[0])
				}
			}()
		}
		wg.Wait()
		r.Close()

		// ---- phase 2: the transports, directly, with tiny deadlines ----
		var tx, tok, tbad atomic.Int64
		dial := func(network string, u *c20Up) func(ctx context.Context) (net.Conn, error) {
			return func(ctx context.Context) (net.Conn, error) {
				var d net.Dialer
				return d.DialContext(ctx, network, fmt.Sprintf("127.0.0.1:%d", u.port))
			}
		}
		trs := []transport.Transport{
			transport.NewReuseConnTransport(transport.ReuseConnOpts{DialContext: dial("tcp", ups[1])}),
			transport.NewPipelineTransport(transport.PipelineOpts{DialContext: dial("tcp", ups[2]), IsTCP: true}),
			transport.NewPipelineTransport(transport.PipelineOpts{DialContext: dial("udp", ups[0])}),
			transport.NewReuseConnTransport(transport.ReuseConnOpts{DialContext: dial("tcp", ups[1])}),
		}
		// the udp upstream as the router builds it (udp pipeline + tcp fallback for truncated replies)
		if fb, err := upstream.NewUpstream(fmt.Sprintf("udp://127.0.0.1:%d", ups[0].port), upstream.Opt{}); err == nil {
			trs = append(trs, fb, fb)
		}
		tconc := conc
		tper := tn / tconc
		for g := 0; g < tconc; g++ {
			wg.Add(1)
			grng := rand.New(rand.NewSource(seed*7777 + int64(g)))
			go func() {
				defer wg.Done()
				for i := 0; i < tper; i++ {
					tr := trs[grng.Intn(len(trs))]
					idx := grng.Intn(len(vocab.names))
					qid := uint16(grng.Intn(65536))
					q := hx.BuildQuery(qid, vocab.names[idx], []uint16{1, 28, 16}[grng.Intn(3)], 1, true)
					key := hx.QuestionKey(q)
					var dl time.Duration
					switch grng.Intn(5) {
					case 4:
						dl = 0 // the caller's context is already done when the exchange starts
					case 0:
						dl = time.Duration(grng.Intn(400)) * time.Microsecond // around dial / goroutine start / write
					case 1:
						dl = time.Duration(grng.Intn(6000)) * time.Microsecond // inside the upstream's delay
					default:
						dl = 2 * time.Second
					}
					ctx, cancel := context.WithTimeout(context.Background(), dl)
					m, err := tr.ExchangeContext(ctx, q)
					cancel()
					tx.Add(1)
					if err != nil {
						continue
					}
					if dnsmsg.VerifObjReleased(m) {
						tbad.Add(1)
						st.firstBad.CompareAndSwap(nil, fmt.Sprintf("transport %T returned a released message for q=%s", tr, hx.Hex(q)))
						dnsmsg.ReleaseMsg(m)
						continue
					}
					good := m.Header.ID == qid && len(m.Questions) == 1 && len(m.Answers) == 1
					if good {
						rq := hx.BuildQuery(0, m.Questions[0].Name, uint16(m.Questions[0].Type), uint16(m.Questions[0].Class), true)
						a, isA := m.Answers[0].(*dnsmsg.A)
						good = hx.QuestionKey(rq) == key && isA && a.A == c20Mark(key)
					}
					if good {
						tok.Add(1)
					} else {
						tbad.Add(1)
						st.firstBad.CompareAndSwap(nil, fmt.Sprintf("transport %T wrong reply for q=%s", tr, hx.Hex(q)))
					}
					dnsmsg.ReleaseMsg(m)
				}
			}()
		}
		wg.Wait()
		time.Sleep(60 * time.Millisecond) // let late worker goroutines write what they hold
		for _, tr := range trs {
			tr.Close()
		}
		time.Sleep(20 * time.Millisecond)

		var upq, upoison, uforeign int64
		for _, u := range ups {
			upq += u.queries.Load()
			upoison += u.poison.Load()
			uforeign += u.foreign.Load()
			if fb := u.firstBad.Load(); fb != nil {
				st.firstBad.CompareAndSwap(nil, "upstream saw "+fb.(string))
			}
		}
		ev, nev := c20Events()
		viol := 0
		if st.badans.Load() > 0 || st.poison.Load() > 0 || upoison > 0 || uforeign > 0 || tbad.Load() > 0 || nev > 0 {
			viol = 1
		}
		if fb := st.firstBad.Load(); fb != nil {
			fmt.Fprintln(os.Stderr, "C20 ownload first failure:", fb.(string))
		}
		gets, rels, _ := pool.VerifStats()
		return fmt.Sprintf("viol=%d q=%d ok=%d lost=%d badans=%d poison=%d upq=%d upoison=%d uforeign=%d tx=%d tok=%d tbad=%d ev=%s stray=%d gets=%d rels=%d",
			viol, st.q.Load(), st.ok.Load(), st.lost.Load(), st.badans.Load(), st.poison.Load(), upq, upoison, uforeign,
			tx.Load(), tok.Load(), tbad.Load(), ev, st.stray.Load(), gets, rels)
	})
}
