package main

// C17, round 6.
//
// kind "uprouter": SEVERAL upstream entries in one router.  A real router is started by run() (hook
//   router.VerifC17RunRouter) from a Config whose `upstreams:` list has the case's 2..4 entries — entries that share
//   some TLS fields (the same ca file, the same cert/key files, all unset) and differ in others (insecure_skip_verify,
//   ca, cert/key, dial_addr, URL host, scheme spelling) — and EVERY upstream is then driven on its own against its
//   own fake server (certificate kind per entry).  split=<j> > 0 puts entries [0,j) and [j,n) into TWO routers that
//   live in the process at the same time.  The result of every entry must be what the same entry yields alone.
//   61234 in url<i>/da<i> = the port of entry i's fake server.  Entries with ck=1 use the SAME cert/key files.
//   case:   <id> n=<k> split=<j> then for i in 0..k-1:  tag<i>= url<i>=<hex> da<i>=<hex> srv<i>= listen<i>=<v4|v6>
//                san<i>= ca<i>= ck<i>= ins<i>= peer<i>=<certificate kind|-> srvreq<i>=
//   result: start=ok d0=<server address when something arrived there|-> x0=<ok|fail> d1=.. x1=.. ...   |   start=err
//
// kind "lsrouter": SEVERAL TLS listeners in one router (run() through router.VerifC17Run): 2..3 listeners
//   {tls, https, quic} that name the SAME cert / key files (and the same ca file or none) and differ in
//   verify_client_cert / ca; every listener is then probed by a client presenting the entry's certificate kind (or
//   none).  Every listener must serve / refuse as the same listener alone.
//   case:   <id> n=<k> then for i in 0..k-1:  proto<i>=<tls|https|quic> ca<i>= vc<i>= peer<i>=<certificate kind|absent>
//   result: start=ok s0=<0|1> s1=.. ...   |   start=err

import (
	"context"
	"crypto/tls"
	"crypto/x509"
	"fmt"
	"net"
	"os"
	"strconv"
	"strings"
	"time"

	"github.com/IrineSistiana/mosproxy/app/router"
	"github.com/IrineSistiana/mosproxy/verifharness/hx"
)

func init() {
	register("uprouter", 8, runUpRouter)
	register("lsrouter", 8, runLsRouter)
}

func runUpRouter(id string, parts []string) string {
	f := hx.Fields(parts)
	return guard(id, 60*time.Second, func() string { return upRouterCase(f) })
}

func upRouterCase(f map[string]string) string {
	pki, err := c17pki()
	if err != nil {
		return "HARNESS-ERROR pki " + err.Error()
	}
	if !pki.sysRoots {
		return "HARNESS-ERROR system roots not under control"
	}
	n, err := strconv.Atoi(f["n"])
	if err != nil || n < 1 || n > 8 {
		return "HARNESS-ERROR bad n"
	}
	split, _ := strconv.Atoi(f["split"])
	// one client key pair for the whole case: entries with ck=1 name the SAME files
	var certFile, keyFile string
	type ent struct {
		ip, port string
		seen     *c17Seen
		cfg      router.UpstreamConfig
	}
	ents := make([]*ent, n)
	for i := 0; i < n; i++ {
		g := func(k string) string { return f[k+strconv.Itoa(i)] }
		ub, e1 := hx.UnHex(g("url"))
		db, e2 := hx.UnHex(g("da"))
		if e1 != nil || e2 != nil {
			return "HARNESS-ERROR bad hex"
		}
		srv := g("srv")
		usesTLS := srv == "tls" || srv == "https" || srv == "quic" || srv == "h3"
		var cert *tls.Certificate
		var clientCAs *x509.CertPool
		if usesTLS {
			c, _, _, err := pki.leaf(g("peer"), g("san"))
			if err != nil {
				return "HARNESS-ERROR leaf " + err.Error()
			}
			cert = &c
			if g("srvreq") == "1" {
				clientCAs = pki.caPool
			}
		}
		e := &ent{ip: "127.0.0.1", seen: &c17Seen{}}
		if g("listen") == "v6" {
			e.ip = "::1"
		}
		addr, closeSrv, err := c17StartServer(srv, net.JoinHostPort(e.ip, "0"), cert, e.seen, clientCAs)
		if err != nil {
			return "HARNESS-ERROR listen " + err.Error()
		}
		defer closeSrv()
		_, e.port, _ = net.SplitHostPort(addr)
		var t router.TlsConfig
		if g("ca") == "1" {
			t.CA = pki.caFile
		}
		if g("ck") == "1" {
			if certFile == "" {
				_, certFile, keyFile, err = pki.leafFiles("valid", "client.test")
				if err != nil {
					return "HARNESS-ERROR leaf " + err.Error()
				}
			}
			t.Cert, t.Key = certFile, keyFile
		}
		t.InsecureSkipVerify = g("ins") == "1"
		e.cfg = router.UpstreamConfig{
			Tag:      g("tag"),
			Addr:     strings.ReplaceAll(string(ub), c17PortToken, e.port),
			DialAddr: strings.ReplaceAll(string(db), c17PortToken, e.port),
			Tls:      t,
		}
		ents[i] = e
	}
	groups := [][]*ent{ents}
	if split > 0 && split < n {
		groups = [][]*ent{ents[:split], ents[split:]}
	}
	routers := make([]*router.VerifC17Router, len(groups))
	for gi, grp := range groups {
		cfg := &router.Config{}
		for _, e := range grp {
			cfg.Upstreams = append(cfg.Upstreams, e.cfg)
		}
		r, err := router.VerifC17RunRouter(cfg)
		if err != nil || r == nil {
			return "start=err"
		}
		defer r.Close()
		routers[gi] = r
	}
	var out strings.Builder
	out.WriteString("start=ok")
	for gi, grp := range groups {
		for _, e := range grp {
			i := 0
			for ; ents[i] != e; i++ {
			}
			u := routers[gi].Upstream(e.cfg.Tag)
			x := "fail"
			if u != nil {
				q := hx.BuildQuery(uint16(0x1740+i), []byte("\x04c17r\x04test"), 1, 1, true)
				ctx, cancel := context.WithTimeout(context.Background(), 3*time.Second)
				na, xerr := u.Exchange(ctx, q)
				cancel()
				if xerr == nil && na == 1 {
					x = "ok"
				}
			}
			dial := "-"
			if c17Touched(e.seen) > 0 {
				dial = net.JoinHostPort(e.ip, c17PortToken)
			}
			fmt.Fprintf(&out, " d%d=%s x%d=%s", i, dial, i, x)
		}
	}
	return out.String()
}

func runLsRouter(id string, parts []string) string {
	f := hx.Fields(parts)
	return guard(id, 60*time.Second, func() string { return lsRouterCase(f) })
}

func lsRouterCase(f map[string]string) string {
	pki, err := c17pki()
	if err != nil {
		return "HARNESS-ERROR pki " + err.Error()
	}
	n, err := strconv.Atoi(f["n"])
	if err != nil || n < 1 || n > 6 {
		return "HARNESS-ERROR bad n"
	}
	useen := &c17Seen{}
	uaddr, closeUp, err := c17StartServer("udp", "127.0.0.1:0", nil, useen, nil)
	if err != nil {
		return "HARNESS-ERROR listen " + err.Error()
	}
	defer closeUp()
	// every listener names the SAME cert / key files
	_, certFile, keyFile, err := pki.leafFiles("valid", "localhost")
	if err != nil {
		return "HARNESS-ERROR leaf " + err.Error()
	}
	var closeRouter func()
	lnames := make([]string, n)
	for attempt := 0; ; attempt++ {
		cfg := &router.Config{
			Upstreams: []router.UpstreamConfig{{Tag: "u", Addr: "udp://" + uaddr}},
			Rules:     []router.RuleConfig{{Forward: "u"}},
		}
		for i := 0; i < n; i++ {
			g := func(k string) string { return f[k+strconv.Itoa(i)] }
			if g("proto") == "quic" {
				p, err := c17FreePort("udp")
				if err != nil {
					return "HARNESS-ERROR port " + err.Error()
				}
				lnames[i] = "127.0.0.1:" + strconv.Itoa(p)
			} else {
				lnames[i] = fmt.Sprintf("@verif-c17-%d-%d", os.Getpid(), c17unixSeq.Add(1))
			}
			t := router.TlsConfig{Cert: certFile, Key: keyFile, VerifyClientCert: g("vc") == "1"}
			if g("ca") == "1" {
				t.CA = pki.caFile
			}
			cfg.Servers = append(cfg.Servers, router.ServerConfig{Tag: "in" + strconv.Itoa(i), Protocol: g("proto"), Listen: lnames[i], Tls: t})
		}
		closeRouter, err = c17RunRouter(cfg)
		if err != nil {
			if attempt < 5 && strings.Contains(err.Error(), "address already in use") {
				continue
			}
			return "start=err"
		}
		break
	}
	defer closeRouter()
	var out strings.Builder
	out.WriteString("start=ok")
	for i := 0; i < n; i++ {
		g := func(k string) string { return f[k+strconv.Itoa(i)] }
		ccfg := &tls.Config{RootCAs: pki.caPool, ServerName: "localhost"}
		if g("peer") != "absent" {
			cc, _, _, err := pki.leaf(g("peer"), "client.test")
			if err != nil {
				return "HARNESS-ERROR leaf " + err.Error()
			}
			ccfg.GetClientCertificate = func(*tls.CertificateRequestInfo) (*tls.Certificate, error) { return &cc, nil }
		}
		useen.mu.Lock()
		before := useen.queries
		useen.mu.Unlock()
		served, herr := c17ProbeListener(g("proto"), lnames[i], ccfg)
		if herr != "" {
			return herr
		}
		// a query that reached the fake upstream was served even if the answer got lost
		useen.mu.Lock()
		if useen.queries > before {
			served = true
		}
		useen.mu.Unlock()
		if served {
			fmt.Fprintf(&out, " s%d=1", i)
		} else {
			fmt.Fprintf(&out, " s%d=0", i)
		}
	}
	return out.String()
}
