package main

// Kind "mix" (C04): concurrent keyed-answer stress through the REAL router (in-process) — many clients over a
// mix of listeners, fake upstreams answering a keyed function of (name, type, class) after pseudo-random
// delays (so replies are reordered), a small cache (eviction pressure), repeated and distinct questions.
// Oracle (evaluated here with an independent decoder, miekg/dns): the answer section of every response is the
// keyed function of the response's OWN question, which is the question that client asked on that socket.
//   <id> cfg=<cfgspec> clients=<n> per=<queries per client> names=<pool size> seed=<n> delay=<ms>
//   -> total=<n> ok=<n> wrong=<n> noresp=<n> upstream=<n> first=<description of the first wrong response|->

import (
	"encoding/binary"
	"net"
	"fmt"
	"math/rand"
	"strings"
	"sync"
	"sync/atomic"
	"time"

	"github.com/IrineSistiana/mosproxy/verifharness/hx"
	"github.com/miekg/dns"
)

func init() { register("mix", 1, runMix) }

func runMix(id string, parts []string) string {
	f := hx.Fields(parts)
	env, err := hx.NewRouterEnv(f["cfg"])
	if err != nil {
		return "HARNESS-ERROR env: " + strings.ReplaceAll(err.Error(), " ", "_")
	}
	defer env.Close()
	nclients := hx.MustAtoi(f["clients"])
	per := hx.MustAtoi(f["per"])
	nnames := hx.MustAtoi(f["names"])
	seed := int64(hx.MustAtoi(f["seed"]))
	ttl := 300
	if v := f["ttl"]; v != "" {
		ttl = hx.MustAtoi(v)
	}
	env.EnableKeyed(uint32(ttl), time.Duration(hx.MustAtoi(f["delay"]))*time.Millisecond)
	rng := rand.New(rand.NewSource(seed))
	labels := []string{"example", "com", "net", "www", "a", "b", "mail", "cdn", "x-1"}
	type qd struct {
		name []byte
		typ  uint16
		cls  uint16
	}
	pool := make([]qd, nnames)
	for i := range pool {
		var raw []byte
		for k := 0; k < 1+rng.Intn(3); k++ {
			l := labels[rng.Intn(len(labels))]
			if rng.Intn(4) == 0 {
				l = strings.ToUpper(l)
			}
			raw = append(raw, byte(len(l)))
			raw = append(raw, l...)
		}
		raw = append(raw, byte(len(fmt.Sprint(i%97))))
		raw = append(raw, fmt.Sprint(i%97)...)
		pool[i] = qd{raw, []uint16{1, 28, 16, 15}[rng.Intn(4)], []uint16{1, 1, 3}[rng.Intn(3)]}
	}
	allowed := make(map[string]bool, len(pool))
	for _, q := range pool {
		allowed[hx.QuestionKey(hx.BuildQuery(0, q.name, q.typ, q.cls, true))] = true
	}
	env.SetKeyedAllowed(allowed)
	listeners := []string{"udp", "udp", "tcp", "gnet", "http-post", "fasthttp-get"}
	if ls := f["ls"]; ls != "" {
		listeners = strings.Split(ls, "+")
	}
	var total, okc, wrong, noresp, sfail atomic.Int64
	var firstMu sync.Mutex
	first := "-"
	var wg sync.WaitGroup
	for c := 0; c < nclients; c++ {
		wg.Add(1)
		crng := rand.New(rand.NewSource(seed*1000 + int64(c)))
		go func() {
			defer wg.Done()
			// one long-lived UDP socket per client (fast path); a response with a foreign ID (late reply to an
			// earlier, timed-out query of this socket) is skipped, never taken for the current query's
			var uc *net.UDPConn
			defer func() {
				if uc != nil {
					uc.Close()
				}
			}()
			udpQuery := func(wire []byte) ([][]byte, string) {
				if uc == nil {
					c, err := net.DialUDP("udp", nil, &net.UDPAddr{IP: net.IPv4(127, 0, 0, 1), Port: env.Ports["udp"]})
					if err != nil {
						return nil, "dial-error"
					}
					uc = c
				}
				uc.Write(wire)
				buf := make([]byte, 65536)
				uc.SetReadDeadline(time.Now().Add(8 * time.Second))
				for {
					n, err := uc.Read(buf)
					if err != nil {
						uc.Close()
						uc = nil
						return nil, "no-response"
					}
					if n >= 2 && buf[0] == wire[0] && buf[1] == wire[1] {
						return [][]byte{append([]byte(nil), buf[:n]...)}, "ok"
					}
				}
			}
			pace := time.Duration(hx.MustAtoi(orDefault(f["pace"], "0"))) * time.Millisecond
			for k := 0; k < per; k++ {
				if pace > 0 {
					time.Sleep(pace)
				}
				q := pool[crng.Intn(len(pool))]
				l := listeners[crng.Intn(len(listeners))]
				idn := uint16(crng.Intn(65536))
				wire := hx.BuildQuery(idn, q.name, q.typ, q.cls, true)
				total.Add(1)
				var resps [][]byte
				var st string
				if l == "udp" {
					resps, st = udpQuery(wire)
				} else {
					resps, st = env.Query(l, wire, "-", 8*time.Second, 0)
				}
				if st != "ok" || len(resps) == 0 {
					noresp.Add(1)
					continue
				}
				bad := checkKeyed(wire, resps[0], q.typ, q.cls)
				if bad == "" {
					okc.Add(1)
				} else if bad == "servfail" {
					sfail.Add(1)
				} else {
					wrong.Add(1)
					firstMu.Lock()
					if first == "-" {
						first = strings.ReplaceAll(fmt.Sprintf("%s:%s:q=%s:resp=%s", l, bad, hx.Hex(wire), hx.Hex(resps[0])), " ", "_")
					}
					firstMu.Unlock()
				}
			}
		}()
	}
	wg.Wait()
	time.Sleep(50 * time.Millisecond) // let background refreshes reach the upstream
	fsample := "-"
	if v := env.KeyedForeignSample.Load(); v != nil {
		fsample = v.(string)
	}
	return fmt.Sprintf("total=%d ok=%d wrong=%d noresp=%d servfail=%d upstream=%d upforeign=%d first=%s upsample=%s", total.Load(), okc.Load(),
		wrong.Load(), noresp.Load(), sfail.Load(), env.KeyedCount.Load(), env.KeyedForeign.Load(), first, fsample)
}

// checkKeyed returns "" when resp is the keyed answer for the question asked in wire.
func checkKeyed(wire, resp []byte, typ, cls uint16) string {
	m := new(dns.Msg)
	if err := m.Unpack(resp); err != nil {
		return "undecodable"
	}
	if m.Id != binary.BigEndian.Uint16(wire) {
		return "id"
	}
	if hx.KeyedClass(hx.QuestionKey(wire)) == "fail" {
		// every upstream exchange for this question fails: SERVFAIL with the client's own question, no records
		if m.Rcode != dns.RcodeServerFailure || len(m.Answer) != 0 {
			return fmt.Sprintf("failname-rcode%d-an%d", m.Rcode, len(m.Answer))
		}
		if len(m.Question) != 1 || m.Question[0].Qtype != typ || m.Question[0].Qclass != cls {
			return "failname-question"
		}
		return ""
	}
	if m.Rcode == dns.RcodeServerFailure && len(m.Answer) == 0 && len(m.Question) == 1 &&
		m.Question[0].Qtype == typ && m.Question[0].Qclass == cls {
		// collateral failure (e.g. the pipelined connection was closed by the server for another question):
		// an honest SERVFAIL for the client's own question is not a mixed-up answer; counted separately
		return "servfail"
	}
	if m.Rcode != dns.RcodeSuccess {
		return fmt.Sprintf("rcode%d", m.Rcode)
	}
	if len(m.Question) != 1 || m.Question[0].Qtype != typ || m.Question[0].Qclass != cls {
		return "question"
	}
	key := hx.QuestionKey(wire)
	want := hx.KeyedAnswer(key)
	if len(m.Answer) != len(want) {
		return fmt.Sprintf("answer-count-%d-want-%d", len(m.Answer), len(want))
	}
	for i, rr := range m.Answer {
		var got []byte
		switch a := rr.(type) {
		case *dns.A:
			got = a.A.To4()
		case *dns.RFC3597:
			got, _ = hx.UnHex(a.Rdata)
		default:
			// class != IN: miekg keeps A records of other classes as *dns.A as well; anything else is wrong
			return "answer-type"
		}
		if len(got) != 4 || got[0] != want[i][0] || got[1] != want[i][1] || got[2] != want[i][2] || got[3] != want[i][3] {
			return fmt.Sprintf("answer-%d", i)
		}
		if rr.Header().Ttl == 0 || rr.Header().Ttl > 300 {
			return "ttl"
		}
	}
	return ""
}

func orDefault(s, d string) string {
	if s == "" {
		return d
	}
	return s
}
