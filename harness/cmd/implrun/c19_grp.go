package main

// Kind "prefetchgrp" (C19, one clause shared with C07): the dimension "client groups". A private in-process router
// with an ip marker file (cache.ip_marker: several labelled ranges + unlabelled space), optionally ECS, a scripted
// upstream. Clients of several groups are simulated: the DoH listeners take the client address from a header (no
// header = a client without a valid address), udp/tcp/gnet clients are 127.0.0.1 (a labelled range in some markers).
//
//   case:   <id> mode=<slow|fast|neg|fail> up=<u|t> ecs=<0|1> mk=<hex of the marker file text>
//                hit=<cl+cl..> later=<cl+cl..> oth=<fresh|absent|window>:<cl+cl..>,..|- delay=<ms> tag=<hex label> stagger=<ms>
//           cl = <listener>@<address|->   (address "-" on a DoH listener = no client-address header)
//   hit   : clients of ONE group G that hit G's entry inside its last quarter, all at once
//   later : other clients of G (other addresses of the same group) that ask after the refresh
//   oth   : per other group X (each a different group, none of them G): X has its own fresh entry for the same
//           question (placed by a real miss of its first client) or no entry; its clients are active meanwhile.
//           "window" (mode slow only): X's own entry is inside its last quarter too and X's clients hit it in the same
//           burst — X's own refresh runs at the same time (one per (question, group)) and renews X's entry
//
//   result: timing=ok setup=<fresh groups whose first query was answered by the upstream>/<fresh groups> setup_up=<queries>
//             ans=<G hits answered with G's cached answer>/<n> oth=<hits of fresh groups answered with their own>/<m>
//             [slow: up_mid=<refresh queries so far> infl_mid=<in-flight set>]
//             ecs=<own|none|foreign per refresh query, sorted, joined by '+'>   (ECS option of the refresh query: subnet of
//                  one of the clients that hit inside the window / none / anything else)
//             infl_end=<in-flight after the refresh> up_end=<refresh queries>
//             slow,fast: later=<answer:ttl class per later client> up_after=<queries in total>
//             neg,fail : later=<first: old answer, aged; then renewed> up2=<queries of the second refresh>
//             oth_after=<answers per other group> oth_up=<upstream queries caused by the other groups' clients>
//             final=<a G client once more> infl_final=<..> churn_bad=<answers to other groups' clients that were not theirs>
//           answers: A = G's old entry, B = the refreshed answer, C = another group's own entry, D = what the upstream
//           says at the end (an answer no cache entry can hold before a client of that group asked), E = background name;
//           ttl class: r = renewed (>= 100 of 120 s), a = aged (<= 21 s: the old entry), m = in between.
//
// Entries of G are placed with the VerifC19StoreAtFor hook (real ipMark/cacheKey/packCacheMsg/MemoryCache.Store):
// lifetime 120 s, stored 100 s ago, 20 s left.

import (
	"encoding/binary"
	"fmt"
	"net/netip"
	"sort"
	"strings"
	"sync"
	"sync/atomic"
	"time"

	"github.com/IrineSistiana/mosproxy/app/router"
	"github.com/IrineSistiana/mosproxy/verifharness/hx"
)

func init() { register("prefetchgrp", 16, runPrefetchGrp) }

type c19Client struct{ l, addr string }

func c19ParseClients(s string) ([]c19Client, bool) {
	if s == "" || s == "-" {
		return nil, true
	}
	var out []c19Client
	for _, p := range strings.Split(s, "+") {
		l, a, ok := strings.Cut(p, "@")
		if !ok || l == "" || a == "" {
			return nil, false
		}
		out = append(out, c19Client{l, a})
	}
	return out, true
}

func (c c19Client) isHTTP() bool { return strings.HasPrefix(c.l, "http") || strings.HasPrefix(c.l, "fasthttp") }

// the address the router sees for this client
func (c c19Client) netip() netip.Addr {
	if !c.isHTTP() {
		return netip.MustParseAddr("127.0.0.1")
	}
	if c.addr == "-" {
		return netip.Addr{}
	}
	a, err := netip.ParseAddr(c.addr)
	if err != nil {
		return netip.Addr{}
	}
	return a
}

// c19GrpTransport remembers (per scenario) the first query that got no DNS answer at all: this kind is about WHICH
// answer a group is served; a lost datagram or a refused connection on an overloaded machine is not its matter (hits that
// are not answered are the matter of kinds prefetch / prefetchfan), so such a scenario is skipped and counted.
type c19GrpTransport struct{ first atomic.Value }

func (t *c19GrpTransport) note(h c19Hit) c19Hit {
	if h.status != "ok" {
		t.first.CompareAndSwap(nil, h.status)
	}
	return h
}

func (c c19Client) query(env *hx.RouterEnv, wire []byte, id uint16) c19Hit {
	q := append([]byte(nil), wire...)
	binary.BigEndian.PutUint16(q, id)
	t := time.Now()
	resps, st := env.Query(c.l, q, c.addr, 5*time.Second, 5*time.Millisecond)
	h := c19Parse(resps, st)
	h.sent = t
	h.latency = time.Since(t)
	return h
}

// ECS option of a query as the proxy writes it for a client address (RFC 7871 with /24 and /56), "" = none
func c19EcsWant(a netip.Addr) string {
	if !a.IsValid() {
		return ""
	}
	a = a.Unmap()
	if a.Is4() {
		p, _ := a.Prefix(24)
		b := p.Addr().As4()
		return fmt.Sprintf("1/24/%x", b[:3])
	}
	p, _ := a.Prefix(56)
	b := p.Addr().As16()
	return fmt.Sprintf("2/56/%x", b[:7])
}

// ECS option found in an upstream query: "<family>/<source prefix>/<hex address octets>", "" = none, "?" = unparsable
func c19EcsOf(wire []byte) string {
	qe := hx.QuestionEnd(wire)
	if qe < 0 {
		return "?"
	}
	if binary.BigEndian.Uint16(wire[6:]) != 0 || binary.BigEndian.Uint16(wire[8:]) != 0 {
		return "?"
	}
	off := qe
	for n := int(binary.BigEndian.Uint16(wire[10:])); n > 0; n-- {
		if off+11 > len(wire) || wire[off] != 0 {
			return "?"
		}
		typ := binary.BigEndian.Uint16(wire[off+1:])
		rdlen := int(binary.BigEndian.Uint16(wire[off+9:]))
		rd := off + 11
		if rd+rdlen > len(wire) {
			return "?"
		}
		if typ == 41 {
			for o := rd; o+4 <= rd+rdlen; {
				code := binary.BigEndian.Uint16(wire[o:])
				l := int(binary.BigEndian.Uint16(wire[o+2:]))
				if o+4+l > rd+rdlen {
					return "?"
				}
				if code == 8 {
					d := wire[o+4 : o+4+l]
					if len(d) < 4 {
						return "?"
					}
					return fmt.Sprintf("%d/%d/%x", binary.BigEndian.Uint16(d), d[2], d[4:])
				}
				o += 4 + l
			}
		}
		off = rd + rdlen
	}
	return ""
}

func c19GMark(h c19Hit) string {
	if h.status != "ok" {
		return "E:" + h.status
	}
	if h.rcode != 0 {
		return fmt.Sprintf("R%d", h.rcode)
	}
	if h.mark >= 7 && h.mark <= 11 {
		return string(rune('A' + h.mark - 7))
	}
	return fmt.Sprintf("?%d", h.mark)
}

func c19GTtl(h c19Hit) string {
	switch {
	case h.ttl >= 100:
		return "r"
	case h.ttl <= 21:
		return "a"
	}
	return "m"
}

type c19Other struct {
	fresh, window bool
	clients       []c19Client
}

func runPrefetchGrp(id string, parts []string) string {
	f := hx.Fields(parts)
	mode := f["mode"]
	delay := time.Duration(hx.MustAtoi(f["delay"])) * time.Millisecond
	tag, err := hx.UnHex(f["tag"])
	hit, ok1 := c19ParseClients(f["hit"])
	later, ok2 := c19ParseClients(f["later"])
	if err != nil || len(tag) == 0 || len(tag) > 40 || !ok1 || !ok2 || len(hit) == 0 || len(later) < 2 ||
		(mode != "slow" && mode != "fast" && mode != "neg" && mode != "fail") {
		return "HARNESS-ERROR bad case"
	}
	var others []c19Other
	if f["oth"] != "" && f["oth"] != "-" {
		for _, o := range strings.Split(f["oth"], ",") {
			st, cl, ok := strings.Cut(o, ":")
			cs, ok3 := c19ParseClients(cl)
			if !ok || !ok3 || len(cs) == 0 || (st != "fresh" && st != "absent" && st != "window") || (st == "window" && mode != "slow") {
				return "HARNESS-ERROR bad case"
			}
			others = append(others, c19Other{st == "fresh", st == "window", cs})
		}
	}
	c19Quiet.Do(router.VerifQuiet)
	spec := "U=" + f["up"] + ";E=" + f["ecs"] + ";R=-:0:0:0;C=8388608"
	if f["mk"] != "" && f["mk"] != "-" {
		spec += ";K=" + f["mk"]
	}
	env, err := c19NewEnv(spec)
	if err != nil {
		return "HARNESS-ERROR env: " + strings.ReplaceAll(err.Error(), " ", "_")
	}
	defer env.Close()
	if st := hx.MustAtoi(f["stagger"]); st > 0 {
		time.Sleep(time.Duration(st) * time.Millisecond)
	}
	const life = 120
	name := c19FanName("g", 0, tag)
	bgName := c19FanName("bg", 0, tag)
	q := hx.BuildQuery(0x1000, name, 1, 1, true)
	bg := hx.BuildQuery(0x1000, bgName, 1, 1, true)
	key, bgKey := hx.QuestionKey(q), hx.QuestionKey(bg)
	reply := func(m byte, d time.Duration) hx.Behaviour {
		return hx.Behaviour{Kind: "reply", Reply: hx.BuildReply(q, false, 0, [4]byte{10, 0, 0, m}, life), Delay: d}
	}
	bad := func(why string) string { return "timing=bad why=" + why }
	var idc atomic.Uint32
	nextID := func() uint16 { return uint16(0x2000 + idc.Add(1)) }
	tr := &c19GrpTransport{}
	ask := func(c c19Client, wire []byte) c19Hit { return tr.note(c.query(env, wire, nextID())) }
	lost := func() (string, bool) {
		if v := tr.first.Load(); v != nil {
			return "timing=bad why=transport:" + strings.ReplaceAll(v.(string), " ", "_"), true
		}
		return "", false
	}

	// ---- setup: every "fresh" other group gets its own entry C by a real miss of its first client
	env.SetBehaviour(key, reply(9, 0))
	env.SetBehaviour(bgKey, hx.Behaviour{Kind: "reply", Reply: hx.BuildReply(bg, false, 0, [4]byte{10, 0, 0, 11}, life)})
	nFresh, gotC := 0, 0
	for _, o := range others {
		if o.fresh {
			nFresh++
			if c19GMark(ask(o.clients[0], q)) == "C" {
				gotC++
			}
		}
	}
	out := fmt.Sprintf("timing=ok setup=%d/%d setup_up=%d", gotC, nFresh, len(env.PeekQueries(key)))
	// G's entry: answer A, inside its last quarter
	t0 := time.Now()
	if _, err := env.R.VerifC19StoreAtFor(hx.BuildReply(q, false, 0, [4]byte{10, 0, 0, 7}, life), hit[0].netip(),
		-(life-20)*time.Second, 20*time.Second); err != nil {
		return "HARNESS-ERROR store: " + strings.ReplaceAll(err.Error(), " ", "_")
	}
	for _, o := range others { // groups whose own entry (answer C) is inside its last quarter as well
		if o.window {
			if _, err := env.R.VerifC19StoreAtFor(hx.BuildReply(q, false, 0, [4]byte{10, 0, 0, 9}, life), o.clients[0].netip(),
				-(life-20)*time.Second, 20*time.Second); err != nil {
				return "HARNESS-ERROR store: " + strings.ReplaceAll(err.Error(), " ", "_")
			}
		}
	}

	// ---- the burst: every hitting client of G at once, the clients of the other groups as well (those with an
	// entry ask the same question, the others a background name)
	switch mode {
	case "slow":
		env.SetBehaviour(key, reply(8, delay))
	case "fast":
		env.SetBehaviour(key, reply(8, 0))
	case "neg":
		env.SetBehaviour(key, hx.Behaviour{Kind: "reply", Reply: hx.BuildReply(q, false, 3, [4]byte{10, 0, 0, 12}, 30), Delay: delay})
	case "fail":
		env.SetBehaviour(key, hx.Behaviour{Kind: "close"})
	}
	var churnBad atomic.Int64
	otherRound := func(wg *sync.WaitGroup, freshOK *atomic.Int64) {
		for _, o := range others {
			for _, c := range o.clients {
				wg.Add(1)
				go func(o c19Other, c c19Client) {
					defer wg.Done()
					// a group with its own entry asks the question itself. A "window" group does so in the burst only:
					// a hit on an entry inside its last quarter that straddles the end of the refresh (entry read before
					// the store, reserve after done) legitimately starts one more refresh — still never two at a time,
					// but the totals of this scripted run would no longer be determined
					if o.fresh || (o.window && freshOK != nil) {
						if c19GMark(ask(c, q)) == "C" {
							if freshOK != nil {
								freshOK.Add(1)
							}
						} else {
							churnBad.Add(1)
						}
					} else if c19GMark(ask(c, bg)) != "E" {
						churnBad.Add(1)
					}
				}(o, c)
			}
		}
	}
	tb := time.Now()
	hits := make([]c19Hit, len(hit))
	var wg sync.WaitGroup
	var freshOK atomic.Int64
	for i := range hit {
		wg.Add(1)
		go func(i int) {
			defer wg.Done()
			hits[i] = ask(hit[i], q)
		}(i)
	}
	otherRound(&wg, &freshOK)
	wg.Wait()
	churnBad.Store(0) // the burst's own results are reported as oth=
	nA, mFresh := 0, 0
	for _, h := range hits {
		if c19GMark(h) == "A" && c19GTtl(h) == "a" {
			nA++
		}
	}
	for _, o := range others {
		if o.fresh || o.window {
			mFresh += len(o.clients)
		}
	}
	out += fmt.Sprintf(" ans=%d/%d oth=%d/%d", nA, len(hit), freshOK.Load(), mFresh)

	if r, bad := lost(); bad {
		return r
	}
	if mode == "slow" {
		time.Sleep(150 * time.Millisecond)
		upMid := len(env.PeekQueries(key))
		inflMid := env.R.VerifPrefetchInflight()
		if time.Since(tb) > delay-300*time.Millisecond {
			return bad("burst-late") // the refresh may have ended before the observation
		}
		out += fmt.Sprintf(" up_mid=%d infl_mid=%d", upMid, inflMid)
		// while the refresh waits for the upstream, and while it stores, the other groups' clients keep asking
		// (their request contexts come from the same pool as the hit's)
		for time.Since(tb) < delay+150*time.Millisecond {
			var w sync.WaitGroup
			otherRound(&w, nil)
			w.Wait()
			time.Sleep(25 * time.Millisecond)
		}
	}
	inflEnd := c19WaitIdle(env, 4*time.Second)
	ups := env.PeekQueries(key)
	want := map[string]bool{}
	for _, c := range hit {
		want[c19EcsWant(c.netip())] = true
	}
	for _, o := range others {
		if o.window {
			for _, c := range o.clients {
				want[c19EcsWant(c.netip())] = true
			}
		}
	}
	var ecs []string
	for _, u := range ups {
		e := c19EcsOf(u.Wire)
		cls := "foreign"
		switch {
		case e == "":
			cls = "none"
		case want[e]:
			cls = "own"
		}
		ecs = append(ecs, cls)
	}
	sort.Strings(ecs)
	upEnd := len(ups)
	if mode == "fail" && upEnd >= 2 && upEnd <= 8 && ecs[0] == ecs[upEnd-1] {
		// ONE failing exchange over re-used TCP connections is written again by the transport on every stale idle
		// connection it picks (up to 6 retries + 1, C14): still one flight, asked on behalf of one client
		ecs, upEnd = ecs[:1], 1
	}
	if len(ecs) == 0 {
		ecs = []string{"noquery"}
	}
	out += fmt.Sprintf(" ecs=%s infl_end=%d up_end=%d", strings.Join(ecs, "+"), inflEnd, upEnd)

	// ---- later hits of the same group
	fmtHit := func(h c19Hit) string { return c19GMark(h) + ":" + c19GTtl(h) }
	var ls []string
	if mode == "slow" || mode == "fast" {
		for _, c := range later {
			ls = append(ls, fmtHit(ask(c, q)))
		}
		time.Sleep(30 * time.Millisecond)
		out += fmt.Sprintf(" later=%s up_after=%d", strings.Join(ls, ","), len(env.PeekQueries(key)))
	} else {
		// nothing was stored: the old entry is still served (and still inside its last quarter, so this hit
		// starts a second refresh, which succeeds); afterwards the group sees the renewed entry
		if time.Since(t0) > 14*time.Second {
			return bad("scenario-late")
		}
		env.SetBehaviour(key, reply(8, 0))
		ls = append(ls, fmtHit(ask(later[0], q)))
		time.Sleep(30 * time.Millisecond)
		c19WaitIdle(env, 4*time.Second)
		up2 := len(env.PeekQueries(key))
		for _, c := range later[1:] {
			ls = append(ls, fmtHit(ask(c, q)))
		}
		out += fmt.Sprintf(" later=%s up2=%d", strings.Join(ls, ","), up2)
	}

	// ---- the other groups' view of the same question: the upstream now says D, which no entry can hold unless a
	// client of that group asks. A group with its own entry still gets it; a group without one MISSES.
	env.SetBehaviour(key, reply(10, 0))
	var oa []string
	for _, o := range others {
		s := ""
		for _, c := range o.clients {
			s += c19GMark(ask(c, q))
		}
		oa = append(oa, s)
	}
	time.Sleep(30 * time.Millisecond)
	othUp := len(env.PeekQueries(key))
	final := ask(later[0], q)
	if r, bad := lost(); bad {
		return r
	}
	return out + fmt.Sprintf(" oth_after=%s oth_up=%d final=%s infl_final=%d churn_bad=%d", strings.Join(orDash(oa), ","),
		othUp, fmtHit(final), env.R.VerifPrefetchInflight(), churnBad.Load())
}
