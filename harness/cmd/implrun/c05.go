package main

// C05: the real transport.PipelineTransport (multiplexed upstream connection) against scripted fake servers.
//
// Kind "pipeline": one connection (only the first dial succeeds), a scripted history, each event run to
// quiescence (no timing guesses: see c05Conn.barrier).
//   case:   <id> net=<tcp|udp> q0=<n> ev=<S<cid>[:<flags>]|U<k>|R<k>.<mark>|I<id>.<mark>|G|C<k>|X|Y>,...
//           flags of a start (write outcomes chosen by the environment):
//             l  the Write puts the octets on the wire but RETURNS late (after U<k>): the exchange is not yet in its select
//             h  the exchange's net.Conn.Write is HELD (it has its wire id and sits inside write) until U<k>
//             o  oversized query (65508..65535 octets): a real datagram socket answers EMSGSIZE (connection stays
//                open); over TCP framing it is an ordinary large frame
//             s  the Write returns a scripted EMSGSIZE error without writing (connection stays open)
//             x  the Write returns a scripted other error (udp: write closes the connection; tcp: stays open)
//           U<k> lets the held Write of exchange k return (success, or the failure its flags say)
//   result: o=<o0>,<o1>,... w=<w0>,<w1>,... closed=<0|1> reuse=<wire ids found in the Write calls of two exchanges>
//           o_k = M<mark> | B<mark> | M? | B? | E | W ; w_k = wire id seen by the server or "-"
// Kind "pipeline_eol": n sequential exchanges against servers that answer everything; wire-id exhaustion.
//   case:   <id> net=<tcp|udp> n=<count> q0=<n>
//   result: n0= first= last= mono= retired= rest= rfirst= ok= bad= err=
// Kind "pipeline_conc": concurrent exchanges against reordering/duplicating/spoofing/dropping servers,
// judged by an oracle (no model).
//   case:   <id> net=<tcp|udp> n= par= seed= q0= dup=<pct> unsol=<pct> drop=<pct> cancel=<pct> [big=<pct>]
//           big: share of exchanges whose query has 65508..65535 octets: on the real datagram socket every Write of it
//           gets the kernel's EMSGSIZE (connection stays open, ExchangeContext retries up to 5 times on the same
//           connection), on tcp the scripted connection fails every Write of such a frame (connection stays open,
//           same retries) - write failures interleaved with the successful exchanges of the other workers
//   result: ok=<n> err=<n> conns=<n> viol=<none|text>

import (
	"bufio"
	"context"
	"encoding/binary"
	"errors"
	"fmt"
	"io"
	"math/rand"
	"net"
	"os"
	"runtime"
	"strconv"
	"strings"
	"sync"
	"sync/atomic"
	"syscall"
	"time"

	"github.com/IrineSistiana/mosproxy/internal/dnsmsg"
	"github.com/IrineSistiana/mosproxy/internal/upstream/transport"
	"github.com/IrineSistiana/mosproxy/verifharness/hx"
)

func init() {
	register("pipeline", 8, func(id string, p []string) string {
		return c05Guard(60*time.Second, func() string { return c05RunPipeline(p) })
	})
	// pipeline_arms: the same runner; histories that end with "Write returns late, reply delivered, connection closed,
	// Write returns": the exchange enters its select with BOTH arms ready (compared against both model outcomes)
	register("pipeline_arms", 8, func(id string, p []string) string {
		return c05Guard(60*time.Second, func() string { return c05RunPipeline(p) })
	})
	register("pipeline_eol", 2, func(id string, p []string) string {
		return c05Guard(120*time.Second, func() string { return c05RunEol(p) })
	})
	register("pipeline_conc", 2, func(id string, p []string) string {
		return c05Guard(120*time.Second, func() string { return c05RunConc(p) })
	})
}

// ---------------------------------------------------------------------------------------------
// shared helpers

func c05OneLine(s string) string {
	s = strings.ReplaceAll(s, "\r", " ")
	s = strings.ReplaceAll(s, "\n", " ")
	return s
}

// c05Guard runs fn with a recover and a watchdog.
func c05Guard(d time.Duration, fn func() string) string {
	ch := make(chan string, 1)
	go func() {
		defer func() {
			if r := recover(); r != nil {
				ch <- "PANIC! " + c05OneLine(fmt.Sprint(r))
			}
		}()
		ch <- fn()
	}()
	tm := time.NewTimer(d)
	defer tm.Stop()
	select {
	case s := <-ch:
		return s
	case <-tm.C:
		return "HANG"
	}
}

// c05Conn wraps the client side net.Conn handed to the real transport. It observes (never alters) the
// traffic: bytes consumed by the real readLoop, whether the readLoop is currently blocked in Read, and
// whether the real code closed the connection.
type c05Conn struct {
	net.Conn
	mu        sync.Mutex
	inRead    bool
	bytesRead int64
	closed    bool
	// onWrite, when set, decides the outcome of a Write (the environment: a Write may block and may fail)
	onWrite func(inner net.Conn, b []byte) (int, error)
}

func (c *c05Conn) Write(b []byte) (int, error) {
	if c.onWrite != nil {
		return c.onWrite(c.Conn, b)
	}
	return c.Conn.Write(b)
}

func (c *c05Conn) Read(b []byte) (int, error) {
	c.mu.Lock()
	c.inRead = true
	c.mu.Unlock()
	n, err := c.Conn.Read(b)
	c.mu.Lock()
	c.bytesRead += int64(n) // one critical section: never (inRead && new byte count) for a finished Read
	c.inRead = false
	c.mu.Unlock()
	return n, err
}

func (c *c05Conn) Close() error {
	c.mu.Lock()
	c.closed = true
	c.mu.Unlock()
	return c.Conn.Close()
}

func (c *c05Conn) isClosed() bool {
	c.mu.Lock()
	defer c.mu.Unlock()
	return c.closed
}

// barrier waits until the real readLoop is blocked in Read having consumed every byte the server ever
// wrote (so every emitted message has been routed or discarded), or the connection was closed.
func (c *c05Conn) barrier(totalWritten int64) bool {
	deadline := time.Now().Add(5 * time.Second)
	for i := 0; ; i++ {
		c.mu.Lock()
		ok := c.closed || (c.inRead && c.bytesRead == totalWritten)
		c.mu.Unlock()
		if ok {
			return true
		}
		if i < 20 {
			runtime.Gosched()
			continue
		}
		if time.Now().After(deadline) {
			return false
		}
		time.Sleep(50 * time.Microsecond)
	}
}

func (c *c05Conn) waitClosed(d time.Duration) bool {
	deadline := time.Now().Add(d)
	for {
		if c.isClosed() {
			return true
		}
		if time.Now().After(deadline) {
			return false
		}
		time.Sleep(100 * time.Microsecond)
	}
}

func c05Name(k int) []byte {
	l := "e" + strconv.Itoa(k)
	b := make([]byte, 0, len(l)+6)
	b = append(b, byte(len(l)))
	b = append(b, l...)
	b = append(b, 4, 't', 'e', 's', 't')
	return b
}

// c05ParseQuery returns the wire id and the exchange number ("e<k>" first label) of a query.
func c05ParseQuery(q []byte) (wid uint16, k int, ok bool) {
	if len(q) < 14 {
		return 0, 0, false
	}
	wid = binary.BigEndian.Uint16(q)
	l := int(q[12])
	if l < 2 || l > 63 || 13+l > len(q) || q[13] != 'e' {
		return wid, 0, false
	}
	k, err := strconv.Atoi(string(q[14 : 13+l]))
	if err != nil || k < 0 {
		return wid, 0, false
	}
	return wid, k, true
}

func c05Mark(m uint32) [4]byte {
	var b [4]byte
	binary.BigEndian.PutUint32(b[:], m)
	return b
}

func c05Frame(msg []byte) []byte {
	b := make([]byte, 2+len(msg))
	binary.BigEndian.PutUint16(b, uint16(len(msg)))
	copy(b[2:], msg)
	return b
}

var c05UnsolName = []byte("\x01u\x04test")

func c05AbsReply(id uint16, mark uint32) []byte {
	return hx.BuildReply(hx.BuildQuery(id, c05UnsolName, 1, 1, true), false, 0, c05Mark(mark), 60)
}

// c05ReadFrame reads one length-prefixed message.
func c05ReadFrame(br *bufio.Reader) ([]byte, error) {
	var h [2]byte
	if _, err := io.ReadFull(br, h[:]); err != nil {
		return nil, err
	}
	q := make([]byte, binary.BigEndian.Uint16(h[:]))
	if _, err := io.ReadFull(br, q); err != nil {
		return nil, err
	}
	return q, nil
}

// c05Outcome classifies a returned message: (restored id ok, mark, has mark).
func c05MsgInfo(resp *dnsmsg.Msg) (hid uint16, mark uint32, has bool) {
	hid = resp.Header.ID
	if len(resp.Answers) > 0 {
		if a, ok := resp.Answers[0].(*dnsmsg.A); ok {
			return hid, binary.BigEndian.Uint32(a.A[:]), true
		}
	}
	return hid, 0, false
}

func c05NewTransport(netw string, q0 int, maxConc int, dial func(ctx context.Context) (net.Conn, error)) *transport.PipelineTransport {
	opts := transport.PipelineOpts{
		DialContext:        dial,
		IsTCP:              netw == "tcp",
		IdleTimeout:        60 * time.Second,
		DialTimeout:        2 * time.Second,
		MaxConcurrentQuery: maxConc,
	}
	if q0 == 0 {
		return transport.NewPipelineTransport(opts)
	}
	return transport.VerifNewPipelineTransportPreset(opts, q0)
}

// c05Timeouts counts expired waits in this process. A correct implementation never lets one expire
// (every wait is for something that must happen); a broken one (lost replies) would make a whole run crawl,
// so after a few expirations the remaining waits are cut short.
var c05Timeouts atomic.Int32

func c05WaitChan(ch <-chan struct{}, d time.Duration) bool {
	select {
	case <-ch:
		return true
	default:
	}
	if c05Timeouts.Load() >= 6 && d > 150*time.Millisecond {
		d = 150 * time.Millisecond
	}
	tm := time.NewTimer(d)
	defer tm.Stop()
	select {
	case <-ch:
		return true
	case <-tm.C:
		c05Timeouts.Add(1)
		return false
	}
}

func c05UDPPair() (srv *net.UDPConn, cli *net.UDPConn, err error) {
	srv, err = net.ListenUDP("udp", &net.UDPAddr{IP: net.IPv4(127, 0, 0, 1), Port: 0})
	if err != nil {
		return nil, nil, err
	}
	cli, err = net.DialUDP("udp", nil, srv.LocalAddr().(*net.UDPAddr))
	if err != nil {
		srv.Close()
		return nil, nil, err
	}
	return srv, cli, nil
}

// ---------------------------------------------------------------------------------------------
// kind "pipeline"

type c05Ex struct {
	cid    uint16
	cancel context.CancelFunc
	done   chan struct{}
	seen   chan struct{}
	once   sync.Once
	// write plan (flags of the start event)
	hold     bool
	late     bool // held AFTER the octets went out (Write returns late)
	big      bool
	fail     byte          // 0, 's' (scripted EMSGSIZE), 'x' (scripted other error)
	held     chan struct{} // closed when the exchange's Write has been entered and is being held
	heldOnce sync.Once
	release  chan struct{} // closed by U<k> (or teardown)
	relOnce  sync.Once
	emitMark int // event loop only: len(emitLog) when the exchange was started
	// written by the exchange goroutine before close(done)
	out string
	// guarded by c05Pipe.mu
	wid int
	q   []byte
}

func (e *c05Ex) isDone() bool {
	select {
	case <-e.done:
		return true
	default:
		return false
	}
}

type c05Pipe struct {
	netw string
	t    *transport.PipelineTransport

	mu      sync.Mutex
	dials   int
	refuse  bool
	cw      *c05Conn     // client end (wrapped), nil until dialled
	tcpSrv  net.Conn     // server end of the pipe
	udpSrv  *net.UDPConn // server socket
	udpCli  *net.UDPAddr
	exs     []*c05Ex
	srvDone chan struct{}
	writes  [][2]int // (exchange, wire id) of every Write call the real code made, failed ones included

	// event loop only
	totalWritten int64
	closedKnown  bool
	emitLog      []uint16 // header ids of every message the server emitted, in order
}

func (st *c05Pipe) dial(ctx context.Context) (net.Conn, error) {
	st.mu.Lock()
	defer st.mu.Unlock()
	st.dials++
	if st.dials > 1 || st.refuse {
		return nil, errors.New("c05: dial refused")
	}
	st.srvDone = make(chan struct{})
	if st.netw == "tcp" {
		c, s := net.Pipe()
		st.cw = &c05Conn{Conn: c, onWrite: st.onWrite}
		st.tcpSrv = s
		go st.serveTCP(s, st.srvDone)
		return st.cw, nil
	}
	srv, cli, err := c05UDPPair()
	if err != nil {
		close(st.srvDone)
		return nil, err
	}
	st.cw = &c05Conn{Conn: cli, onWrite: st.onWrite}
	st.udpSrv = srv
	st.udpCli = cli.LocalAddr().(*net.UDPAddr)
	go st.serveUDP(srv, st.srvDone)
	return st.cw, nil
}

// onWrite is the environment's side of net.Conn.Write for the exchange the octets belong to.
func (st *c05Pipe) onWrite(inner net.Conn, b []byte) (int, error) {
	q := b
	if st.netw == "tcp" && len(b) >= 2 {
		q = b[2:]
	}
	wid, k, ok := c05ParseQuery(q)
	var e *c05Ex
	if ok {
		st.mu.Lock()
		if k < len(st.exs) {
			e = st.exs[k]
			st.writes = append(st.writes, [2]int{k, int(wid)})
		}
		st.mu.Unlock()
	}
	if e == nil {
		return inner.Write(b)
	}
	if e.hold && !e.late {
		e.heldOnce.Do(func() { close(e.held) })
		<-e.release
	}
	// A failing Write also cancels the caller: ExchangeContext then does not retry on the same connection
	// (retries are exercised by pipeline_conc big=), one exchange = one attempt = one thread of the model.
	switch e.fail {
	case 's':
		e.cancel()
		return 0, &net.OpError{Op: "write", Net: "udp", Err: os.NewSyscallError("write", syscall.EMSGSIZE)}
	case 'x':
		e.cancel()
		return 0, errors.New("c05: scripted write error")
	}
	n, err := inner.Write(b)
	if err != nil && (e.big || e.hold) {
		e.cancel()
	}
	if err == nil && e.late {
		// the octets are on the wire, but Write RETURNS late: the exchange is not yet parked in its select while the
		// server answers (and possibly closes); after U<k> it enters select with whatever became ready meanwhile
		e.heldOnce.Do(func() { close(e.held) })
		<-e.release
	}
	return n, err
}

// c05BigQuery is a valid one-question query padded (EDNS padding option) to 65508..65535 octets: one more than
// fits into a UDP datagram over IPv4.
func c05BigQuery(cid uint16, k int) []byte {
	q := hx.BuildQuery(cid, c05Name(k), 1, 1, true)
	target := 65508 + (k*7)%28
	pad := target - len(q) - 11 - 4
	binary.BigEndian.PutUint16(q[10:], 1)
	q = append(q, 0, 0, 41, 0x04, 0xd0, 0, 0, 0, 0)
	q = binary.BigEndian.AppendUint16(q, uint16(pad+4))
	q = binary.BigEndian.AppendUint16(q, 12)
	q = binary.BigEndian.AppendUint16(q, uint16(pad))
	q = append(q, make([]byte, pad)...)
	return q
}

func (st *c05Pipe) onQuery(q []byte) {
	wid, k, ok := c05ParseQuery(q)
	if !ok {
		return
	}
	st.mu.Lock()
	if k >= len(st.exs) {
		st.mu.Unlock()
		return
	}
	e := st.exs[k]
	if e.wid < 0 {
		e.wid = int(wid)
		e.q = q
	}
	st.mu.Unlock()
	e.once.Do(func() { close(e.seen) })
}

func (st *c05Pipe) serveTCP(s net.Conn, done chan struct{}) {
	defer close(done)
	br := bufio.NewReaderSize(s, 4096)
	for {
		q, err := c05ReadFrame(br)
		if err != nil {
			return
		}
		st.onQuery(q)
	}
}

func (st *c05Pipe) serveUDP(s *net.UDPConn, done chan struct{}) {
	defer close(done)
	buf := make([]byte, 4096)
	for {
		n, _, err := s.ReadFromUDP(buf)
		if err != nil {
			return
		}
		st.onQuery(append([]byte(nil), buf[:n]...))
	}
}

func (st *c05Pipe) conn() *c05Conn {
	st.mu.Lock()
	defer st.mu.Unlock()
	return st.cw
}

// write sends raw bytes from the server to the client and accounts for them.
func (st *c05Pipe) write(msg []byte) {
	st.mu.Lock()
	ts, us, ua := st.tcpSrv, st.udpSrv, st.udpCli
	st.mu.Unlock()
	if st.netw == "tcp" {
		ts.SetWriteDeadline(time.Now().Add(5 * time.Second))
		n, _ := ts.Write(c05Frame(msg))
		st.totalWritten += int64(n)
		return
	}
	n, _ := us.WriteToUDP(msg, ua)
	st.totalWritten += int64(n)
}

func (st *c05Pipe) pending() []*c05Ex {
	st.mu.Lock()
	defer st.mu.Unlock()
	var r []*c05Ex
	for _, e := range st.exs {
		if !e.isDone() {
			r = append(r, e)
		}
	}
	return r
}

func (st *c05Pipe) waitAllPending() {
	for _, e := range st.pending() {
		if e.hold {
			select {
			case <-e.release:
			default:
				continue // still inside Write
			}
		}
		c05WaitChan(e.done, 5*time.Second)
	}
}

// emit writes one server message carrying header id `id`, waits for the readLoop to have routed it,
// then for the exchange (if any) it was routed to.
func (st *c05Pipe) emit(msg []byte, id uint16) string {
	cw := st.conn()
	if cw == nil || st.closedKnown {
		return ""
	}
	st.emitLog = append(st.emitLog, id)
	st.write(msg)
	if !cw.barrier(st.totalWritten) {
		return "HARNESS-ERROR barrier timeout"
	}
	st.mu.Lock()
	var match []*c05Ex
	for _, e := range st.exs {
		if e.wid == int(id) && !e.isDone() {
			match = append(match, e)
		}
	}
	st.mu.Unlock()
	for _, e := range match {
		if e.hold {
			select {
			case <-e.release:
			default:
				continue // still inside Write: it returns only after U<k>
			}
		}
		c05WaitChan(e.done, 5*time.Second)
	}
	return ""
}

func (st *c05Pipe) start(cid uint16, flags string) string {
	st.mu.Lock()
	k := len(st.exs)
	ctx, cancel := context.WithCancel(context.Background())
	e := &c05Ex{cid: cid, cancel: cancel, done: make(chan struct{}), seen: make(chan struct{}), wid: -1,
		held: make(chan struct{}), release: make(chan struct{})}
	for _, f := range flags {
		switch f {
		case 'h':
			e.hold = true
		case 'l':
			e.hold, e.late = true, true
		case 'o':
			e.big = true
		case 's', 'x':
			e.fail = byte(f)
		}
	}
	st.exs = append(st.exs, e)
	st.mu.Unlock()
	q := hx.BuildQuery(cid, c05Name(k), 1, 1, true)
	if e.big {
		q = c05BigQuery(cid, k)
	}
	go func() {
		defer close(e.done)
		defer func() {
			if r := recover(); r != nil {
				e.out = "PANIC!" + strings.ReplaceAll(c05OneLine(fmt.Sprint(r)), " ", "_")
			}
		}()
		resp, err := st.t.ExchangeContext(ctx, q)
		if err != nil || resp == nil {
			e.out = "E"
			return
		}
		hid, mark, has := c05MsgInfo(resp)
		o := "M"
		if hid != cid {
			o = "B"
		}
		if has {
			o += strconv.FormatUint(uint64(mark), 10)
		} else {
			o += "?"
		}
		e.out = o
	}()
	tm := time.NewTimer(5 * time.Second)
	defer tm.Stop()
	e.emitMark = len(st.emitLog)
	select {
	case <-e.seen:
	case <-e.done:
	case <-e.held:
	case <-tm.C:
		return fmt.Sprintf("HARNESS-ERROR exchange %d neither seen nor done", k)
	}
	if !e.hold {
		if s := st.afterWrite(e); s != "" {
			return s
		}
	}
	if e.late {
		select { // the query is on the wire: let the server see it before the next event
		case <-e.seen:
		case <-e.done:
		case <-tm.C:
			return fmt.Sprintf("HARNESS-ERROR late exchange %d not seen", k)
		}
	}
	return ""
}

// willFail: the Write of e fails (when it is reached on a healthy connection); closes: that failure makes write
// close the connection (datagram socket, error other than EMSGSIZE).
func (st *c05Pipe) willFail(e *c05Ex) (fails, closes bool) {
	switch {
	case e.fail == 'x':
		return true, st.netw == "udp"
	case e.fail == 's':
		return true, false
	case e.big && st.netw == "udp":
		return true, false
	}
	return false, false
}

// afterWrite waits for what the (released or never held) Write of e leads to.
func (st *c05Pipe) afterWrite(e *c05Ex) string {
	fails, closes := st.willFail(e)
	if !fails {
		return ""
	}
	c05WaitChan(e.done, 5*time.Second)
	if closes {
		// write closed the connection itself (if the Write was reached at all)
		if cw := st.conn(); cw != nil && cw.waitClosed(300*time.Millisecond) {
			st.closedKnown = true
			st.waitAllPending()
		}
	}
	return ""
}

// releaseHeld lets the held Write of exchange k return.
func (st *c05Pipe) releaseHeld(k int) string {
	st.mu.Lock()
	var e *c05Ex
	if k >= 0 && k < len(st.exs) {
		e = st.exs[k]
	}
	st.mu.Unlock()
	if e == nil || !e.hold {
		return ""
	}
	e.relOnce.Do(func() { close(e.release) })
	tm := time.NewTimer(5 * time.Second)
	defer tm.Stop()
	select {
	case <-e.seen:
	case <-e.done:
	case <-tm.C:
		return fmt.Sprintf("HARNESS-ERROR released exchange %d neither seen nor done", k)
	}
	// A message carrying this exchange's wire id that arrived while it sat inside Write is in its channel: after a
	// successful Write the exchange returns it at once.  Wait for that (else a following close would race with the
	// reply arm: two ready select arms).
	st.mu.Lock()
	wid := e.wid
	st.mu.Unlock()
	if wid >= 0 && !e.isDone() {
		for _, id := range st.emitLog[e.emitMark:] {
			if int(id) == wid {
				c05WaitChan(e.done, 5*time.Second)
				break
			}
		}
	}
	return st.afterWrite(e)
}

func c05RunPipeline(parts []string) string {
	f := hx.Fields(parts)
	netw := f["net"]
	if netw != "tcp" && netw != "udp" {
		return "HARNESS-ERROR bad net"
	}
	q0 := hx.MustAtoi(f["q0"])
	st := &c05Pipe{netw: netw}
	st.t = c05NewTransport(netw, q0, 4096, st.dial)

	// teardown (runs after the snapshot): nothing may outlive the case.
	defer func() {
		st.mu.Lock()
		exs := append([]*c05Ex(nil), st.exs...)
		st.mu.Unlock()
		for _, e := range exs {
			e.relOnce.Do(func() { close(e.release) })
			e.cancel()
		}
		st.t.Close()
		st.mu.Lock()
		st.refuse = true
		cw, ts, us, sd := st.cw, st.tcpSrv, st.udpSrv, st.srvDone
		st.mu.Unlock()
		if cw != nil {
			cw.Close()
		}
		if ts != nil {
			ts.Close()
		}
		if us != nil {
			us.Close()
		}
		for _, e := range exs {
			c05WaitChan(e.done, 2*time.Second)
		}
		if sd != nil {
			c05WaitChan(sd, 2*time.Second)
		}
	}()

	evs := []string{}
	if s := f["ev"]; s != "" && s != "-" {
		evs = strings.Split(s, ",")
	}
	for _, ev := range evs {
		if ev == "" {
			continue
		}
		arg := ev[1:]
		switch ev[0] {
		case 'S':
			cs, flags, _ := strings.Cut(arg, ":")
			cid := hx.MustAtoi(cs)
			if cid < 0 || cid > 65535 {
				return "HARNESS-ERROR bad cid " + ev
			}
			if s := st.start(uint16(cid), flags); s != "" {
				return s
			}
		case 'U':
			if s := st.releaseHeld(hx.MustAtoi(arg)); s != "" {
				return s
			}
		case 'R':
			ks, ms, ok := strings.Cut(arg, ".")
			if !ok {
				return "HARNESS-ERROR bad event " + ev
			}
			k := hx.MustAtoi(ks)
			mark := uint32(hx.MustAtoi(ms))
			st.mu.Lock()
			var q []byte
			wid := -1
			if k >= 0 && k < len(st.exs) && st.exs[k].wid >= 0 {
				wid = st.exs[k].wid
				q = st.exs[k].q
			}
			st.mu.Unlock()
			if wid < 0 {
				continue
			}
			if s := st.emit(hx.BuildReply(q, false, 0, c05Mark(mark), 60), uint16(wid)); s != "" {
				return s
			}
		case 'I':
			is, ms, ok := strings.Cut(arg, ".")
			if !ok {
				return "HARNESS-ERROR bad event " + ev
			}
			id := hx.MustAtoi(is)
			if id < 0 || id > 65535 {
				return "HARNESS-ERROR bad id " + ev
			}
			mark := uint32(hx.MustAtoi(ms))
			if s := st.emit(c05AbsReply(uint16(id), mark), uint16(id)); s != "" {
				return s
			}
		case 'G':
			cw := st.conn()
			if cw == nil || st.closedKnown {
				continue
			}
			garbage := []byte{0xff, 0xff, 0xff, 0xff, 0xff}
			st.write(garbage)
			if netw == "tcp" {
				// The real readLoop aborts the connection on an undecodable frame, asynchronously to this
				// write: wait until it did (else a following S races with the closure).
				st.closedKnown = true
				cw.waitClosed(5 * time.Second)
				st.waitAllPending()
			} else if !cw.barrier(st.totalWritten) {
				return "HARNESS-ERROR barrier timeout"
			}
		case 'C':
			k := hx.MustAtoi(arg)
			st.mu.Lock()
			var e *c05Ex
			if k >= 0 && k < len(st.exs) {
				e = st.exs[k]
			}
			st.mu.Unlock()
			if e == nil {
				continue
			}
			e.cancel()
			stillHeld := false
			if e.hold {
				select {
				case <-e.release:
				default:
					stillHeld = true // blocked inside Write: it cannot notice the cancellation before U<k>
				}
			}
			if !stillHeld {
				c05WaitChan(e.done, 5*time.Second)
			}
		case 'X', 'Y':
			if ev[0] == 'X' && netw == "tcp" {
				st.mu.Lock()
				ts := st.tcpSrv
				if ts == nil {
					st.refuse = true // the server is gone before anybody connected
				}
				st.mu.Unlock()
				if ts != nil {
					ts.Close()
					// the real readLoop sees EOF and closes its end asynchronously: wait for it
					if cw := st.conn(); cw != nil {
						cw.waitClosed(5 * time.Second)
					}
				}
			} else {
				st.t.Close()
			}
			st.closedKnown = true
			st.waitAllPending()
		default:
			return "HARNESS-ERROR bad event " + ev
		}
	}

	cw := st.conn()
	if st.closedKnown && cw != nil {
		cw.waitClosed(2 * time.Second)
	}
	time.Sleep(30 * time.Millisecond)

	// snapshot
	st.mu.Lock()
	exs := append([]*c05Ex(nil), st.exs...)
	wids := make([]int, len(exs))
	for i, e := range exs {
		wids[i] = e.wid
	}
	owner := map[int]int{}
	reused := map[int]bool{}
	for _, w := range st.writes {
		if o, ok := owner[w[1]]; ok && o != w[0] {
			reused[w[1]] = true
		}
		owner[w[1]] = w[0]
	}
	st.mu.Unlock()
	os, ws := make([]string, len(exs)), make([]string, len(exs))
	for i, e := range exs {
		if e.isDone() {
			os[i] = e.out
		} else {
			os[i] = "W"
		}
		if wids[i] >= 0 {
			ws[i] = strconv.Itoa(wids[i])
		} else {
			ws[i] = "-"
		}
	}
	closed := 0
	if cw != nil && cw.isClosed() {
		closed = 1
	}
	if len(exs) == 0 {
		return fmt.Sprintf("o=- w=- closed=%d reuse=0", closed)
	}
	return fmt.Sprintf("o=%s w=%s closed=%d reuse=%d", strings.Join(os, ","), strings.Join(ws, ","), closed, len(reused))
}

// ---------------------------------------------------------------------------------------------
// kind "pipeline_eol"

type c05EolConn struct {
	cw   *c05Conn
	tcp  net.Conn
	udp  *net.UDPConn
	done chan struct{}
	mu   sync.Mutex
	ids  []uint16
}

func (c *c05EolConn) answer(q []byte) []byte {
	wid, k, ok := c05ParseQuery(q)
	if !ok {
		return nil
	}
	c.mu.Lock()
	c.ids = append(c.ids, wid)
	c.mu.Unlock()
	return hx.BuildReply(q, false, 0, c05Mark(uint32(k+1)), 60)
}

func (c *c05EolConn) serveTCP() {
	defer close(c.done)
	br := bufio.NewReaderSize(c.tcp, 4096)
	for {
		q, err := c05ReadFrame(br)
		if err != nil {
			return
		}
		if r := c.answer(q); r != nil {
			c.tcp.SetWriteDeadline(time.Now().Add(5 * time.Second))
			if _, err := c.tcp.Write(c05Frame(r)); err != nil {
				return
			}
		}
	}
}

func (c *c05EolConn) serveUDP() {
	defer close(c.done)
	buf := make([]byte, 4096)
	for {
		n, addr, err := c.udp.ReadFromUDP(buf)
		if err != nil {
			return
		}
		if r := c.answer(buf[:n]); r != nil {
			c.udp.WriteToUDP(r, addr)
		}
	}
}

func c05RunEol(parts []string) string {
	f := hx.Fields(parts)
	netw := f["net"]
	if netw != "tcp" && netw != "udp" {
		return "HARNESS-ERROR bad net"
	}
	n := hx.MustAtoi(f["n"])
	q0 := hx.MustAtoi(f["q0"])

	var mu sync.Mutex
	var conns []*c05EolConn
	dial := func(ctx context.Context) (net.Conn, error) {
		ec := &c05EolConn{done: make(chan struct{})}
		if netw == "tcp" {
			c, s := net.Pipe()
			ec.cw = &c05Conn{Conn: c}
			ec.tcp = s
			go ec.serveTCP()
		} else {
			srv, cli, err := c05UDPPair()
			if err != nil {
				return nil, err
			}
			ec.cw = &c05Conn{Conn: cli}
			ec.udp = srv
			go ec.serveUDP()
		}
		mu.Lock()
		conns = append(conns, ec)
		mu.Unlock()
		return ec.cw, nil
	}
	t := c05NewTransport(netw, q0, 4096, dial)
	defer func() {
		t.Close()
		mu.Lock()
		cs := append([]*c05EolConn(nil), conns...)
		mu.Unlock()
		for _, c := range cs {
			c.cw.Close()
			if c.tcp != nil {
				c.tcp.Close()
			}
			if c.udp != nil {
				c.udp.Close()
			}
		}
		for _, c := range cs {
			c05WaitChan(c.done, 2*time.Second)
		}
	}()

	ok, bad, errs := 0, 0, 0
	t0 := time.Now()
	for i := 0; i < n; i++ {
		cid := uint16((i*7 + 3) % 65536)
		q := hx.BuildQuery(cid, c05Name(i), 1, 1, true)
		ctx, cancel := context.WithTimeout(context.Background(), 5*time.Second)
		resp, err := t.ExchangeContext(ctx, q)
		cancel()
		if err != nil || resp == nil {
			errs++
			if errs >= 8 && time.Since(t0) > 20*time.Second {
				// a broken implementation times out on every exchange: give up, count the rest as errors
				errs += n - i - 1
				break
			}
			continue
		}
		hid, mark, has := c05MsgInfo(resp)
		if has && mark == uint32(i+1) && hid == cid {
			ok++
		} else {
			bad++
		}
	}

	mu.Lock()
	cs := append([]*c05EolConn(nil), conns...)
	mu.Unlock()
	n0, rest := 0, 0
	first, last, rfirst := "-", "-", "-"
	mono, retired := 1, 0
	for i, c := range cs {
		c.mu.Lock()
		ids := append([]uint16(nil), c.ids...)
		c.mu.Unlock()
		if i == 0 {
			n0 = len(ids)
			if n0 > 0 {
				first = strconv.Itoa(int(ids[0]))
				last = strconv.Itoa(int(ids[n0-1]))
			}
			for j := 1; j < len(ids); j++ {
				if int(ids[j]) != int(ids[j-1])+1 {
					mono = 0
				}
			}
			continue
		}
		rest += len(ids)
		if i == 1 && len(ids) > 0 {
			rfirst = strconv.Itoa(int(ids[0]))
		}
	}
	if len(cs) > 0 {
		if n0 >= 65536-q0 {
			cs[0].cw.waitClosed(time.Second)
		}
		if cs[0].cw.isClosed() {
			retired = 1
		}
	}
	return fmt.Sprintf("n0=%d first=%s last=%s mono=%d retired=%d rest=%d rfirst=%s ok=%d bad=%d err=%d",
		n0, first, last, mono, retired, rest, rfirst, ok, bad, errs)
}

// ---------------------------------------------------------------------------------------------
// kind "pipeline_conc"

type c05Pair struct {
	conn int
	wid  uint16
}

type c05Entry struct {
	wid     uint16
	q       []byte
	dupOnly bool
}

type c05Conc struct {
	netw                     string
	dupP, unsolP, dropP, seed int

	markCtr atomic.Uint32

	mu      sync.Mutex
	conns   []*c05ConcConn
	pairs   [][]c05Pair      // per exchange: (conn, wid) under which its query was seen
	seenWid []map[uint16]int // per conn: wire id -> exchange
	sent    map[uint32]c05Pair
	reuse   string
}

type c05ConcConn struct {
	st    *c05Conc
	idx   int
	cw    *c05Conn
	tcp   net.Conn
	udp   *net.UDPConn
	caddr *net.UDPAddr
	ch    chan c05Entry
	rdone chan struct{}
	edone chan struct{}
	dead  bool // emitter only: writes fail, stop trying
}

func (c *c05ConcConn) onQuery(q []byte) {
	wid, k, ok := c05ParseQuery(q)
	if !ok {
		return
	}
	st := c.st
	st.mu.Lock()
	if k < len(st.pairs) {
		p := c05Pair{c.idx, wid}
		dup := false
		for _, x := range st.pairs[k] {
			if x == p {
				dup = true
			}
		}
		if !dup {
			st.pairs[k] = append(st.pairs[k], p)
		}
		if prev, seen := st.seenWid[c.idx][wid]; seen {
			if prev != k && st.reuse == "" {
				st.reuse = fmt.Sprintf("id-reused:%d:%d", c.idx, wid)
			}
		} else {
			st.seenWid[c.idx][wid] = k
		}
	}
	st.mu.Unlock()
	c.ch <- c05Entry{wid: wid, q: q}
}

func (c *c05ConcConn) readTCP() {
	defer close(c.rdone)
	defer close(c.ch)
	br := bufio.NewReaderSize(c.tcp, 4096)
	for {
		q, err := c05ReadFrame(br)
		if err != nil {
			return
		}
		c.onQuery(q)
	}
}

func (c *c05ConcConn) readUDP() {
	defer close(c.rdone)
	defer close(c.ch)
	buf := make([]byte, 4096)
	for {
		n, _, err := c.udp.ReadFromUDP(buf)
		if err != nil {
			return
		}
		c.onQuery(append([]byte(nil), buf[:n]...))
	}
}

func (c *c05ConcConn) send(wid uint16, build func(mark uint32) []byte) {
	mark := c.st.markCtr.Add(1)
	c.st.mu.Lock()
	c.st.sent[mark] = c05Pair{c.idx, wid}
	c.st.mu.Unlock()
	if c.dead {
		return
	}
	msg := build(mark)
	if c.tcp != nil {
		c.tcp.SetWriteDeadline(time.Now().Add(2 * time.Second))
		if _, err := c.tcp.Write(c05Frame(msg)); err != nil {
			c.dead = true
		}
		return
	}
	c.udp.WriteToUDP(msg, c.caddr)
}

func (c *c05ConcConn) emitter() {
	defer close(c.edone)
	st := c.st
	rng := rand.New(rand.NewSource(int64(st.seed)*1000003 + int64(c.idx)*7919 + 17))
	const hold = 8
	var pool []c05Entry
	pct := func(p int) bool { return p > 0 && rng.Intn(100) < p }
	emitOne := func() {
		j := rng.Intn(len(pool))
		e := pool[j]
		pool[j] = pool[len(pool)-1]
		pool = pool[:len(pool)-1]
		reply := func(mark uint32) []byte { return hx.BuildReply(e.q, false, 0, c05Mark(mark), 60) }
		if e.dupOnly {
			c.send(e.wid, reply)
			return
		}
		if pct(st.dropP) {
			return
		}
		c.send(e.wid, reply)
		if pct(st.dupP) {
			if rng.Intn(2) == 0 {
				c.send(e.wid, reply)
			} else {
				pool = append(pool, c05Entry{wid: e.wid, q: e.q, dupOnly: true})
			}
		}
		if pct(st.unsolP) {
			var other uint16
			switch rng.Intn(4) {
			case 0:
				other = e.wid + 1
			case 1:
				other = e.wid - 1
			case 2:
				other = e.wid + uint16(rng.Intn(64)) - 32
			default:
				other = uint16(rng.Intn(65536))
			}
			c.send(other, func(mark uint32) []byte { return c05AbsReply(other, mark) })
		}
	}
	for {
		if len(pool) == 0 {
			e, ok := <-c.ch
			if !ok {
				return
			}
			pool = append(pool, e)
			continue
		}
		if len(pool) < hold {
			tm := time.NewTimer(time.Millisecond)
			select {
			case e, ok := <-c.ch:
				tm.Stop()
				if !ok {
					for len(pool) > 0 {
						emitOne()
					}
					return
				}
				pool = append(pool, e)
			case <-tm.C:
				for len(pool) > 0 { // reader idle: flush so nothing starves
					emitOne()
				}
			}
			continue
		}
		emitOne()
	}
}

type c05ConcRes struct {
	msg  bool
	hid  uint16
	cid  uint16
	mark uint32
	has  bool
}

func c05RunConc(parts []string) string {
	f := hx.Fields(parts)
	netw := f["net"]
	if netw != "tcp" && netw != "udp" {
		return "HARNESS-ERROR bad net"
	}
	get := func(k string, def int) int {
		if v, ok := f[k]; ok {
			return hx.MustAtoi(v)
		}
		return def
	}
	n := get("n", 1000)
	par := get("par", 8)
	seed := get("seed", 1)
	q0 := get("q0", 0)
	cancelP := get("cancel", 0)
	bigP := get("big", 0)
	if par < 1 {
		par = 1
	}
	st := &c05Conc{netw: netw, dupP: get("dup", 0), unsolP: get("unsol", 0), dropP: get("drop", 0), seed: seed,
		pairs: make([][]c05Pair, n), sent: make(map[uint32]c05Pair)}

	dial := func(ctx context.Context) (net.Conn, error) {
		cc := &c05ConcConn{st: st, ch: make(chan c05Entry, 1024), rdone: make(chan struct{}), edone: make(chan struct{})}
		if netw == "tcp" {
			c, s := net.Pipe()
			cc.cw = &c05Conn{Conn: c}
			if bigP > 0 {
				cc.cw.onWrite = func(inner net.Conn, b []byte) (int, error) {
					if len(b) > 65507+2 {
						return 0, errors.New("c05: scripted write error (oversized frame)")
					}
					return inner.Write(b)
				}
			}
			cc.tcp = s
		} else {
			srv, cli, err := c05UDPPair()
			if err != nil {
				return nil, err
			}
			srv.SetReadBuffer(4 << 20)
			cli.SetReadBuffer(4 << 20)
			cc.cw = &c05Conn{Conn: cli}
			cc.udp = srv
			cc.caddr = cli.LocalAddr().(*net.UDPAddr)
		}
		st.mu.Lock()
		cc.idx = len(st.conns)
		st.conns = append(st.conns, cc)
		st.seenWid = append(st.seenWid, make(map[uint16]int))
		st.mu.Unlock()
		if netw == "tcp" {
			go cc.readTCP()
		} else {
			go cc.readUDP()
		}
		go cc.emitter()
		return cc.cw, nil
	}
	t := c05NewTransport(netw, q0, 4096, dial)

	torn := false
	teardown := func() {
		if torn {
			return
		}
		torn = true
		t.Close()
		st.mu.Lock()
		cs := append([]*c05ConcConn(nil), st.conns...)
		st.mu.Unlock()
		for _, c := range cs {
			c.cw.Close()
			if c.udp != nil {
				// drain the queries that are already in the socket buffer, then stop
				c.udp.SetReadDeadline(time.Now().Add(100 * time.Millisecond))
			}
		}
		for _, c := range cs {
			// tcp: the client end is closed, the reader sees EOF after the bytes it already consumed
			c05WaitChan(c.rdone, 3*time.Second)
			if c.tcp != nil {
				c.tcp.Close()
			}
			if c.udp != nil {
				c.udp.Close()
			}
			c05WaitChan(c.rdone, 3*time.Second)
			c05WaitChan(c.edone, 5*time.Second)
		}
	}
	defer teardown()

	res := make([]c05ConcRes, n)
	var next atomic.Int64
	var wg sync.WaitGroup
	for w := 0; w < par; w++ {
		wg.Add(1)
		go func(w int) {
			defer wg.Done()
			rng := rand.New(rand.NewSource(int64(seed) + int64(w)))
			for {
				i := int(next.Add(1) - 1)
				if i >= n {
					return
				}
				cid := uint16(rng.Intn(65536))
				q := hx.BuildQuery(cid, c05Name(i), 1, 1, true)
				if bigP > 0 && rng.Intn(100) < bigP {
					q = c05BigQuery(cid, i) // its writes fail, the wire ids they were assigned stay consumed
				}
				ctx, cancel := context.WithTimeout(context.Background(), 400*time.Millisecond)
				var tm *time.Timer
				if cancelP > 0 && rng.Intn(100) < cancelP {
					tm = time.AfterFunc(time.Duration(rng.Intn(2001))*time.Microsecond, cancel)
				}
				resp, err := t.ExchangeContext(ctx, q)
				if tm != nil {
					tm.Stop()
				}
				cancel()
				if err != nil || resp == nil {
					continue
				}
				hid, mark, has := c05MsgInfo(resp)
				res[i] = c05ConcRes{msg: true, hid: hid, cid: cid, mark: mark, has: has}
			}
		}(w)
	}
	wg.Wait()
	teardown()

	st.mu.Lock()
	defer st.mu.Unlock()
	okN, errN := 0, 0
	viol := ""
	setViol := func(s string) {
		if viol == "" {
			viol = s
		}
	}
	byMark := make(map[uint32]int)
	for i := range res {
		r := res[i]
		if !r.msg {
			errN++
			continue
		}
		okN++
		if r.hid != r.cid {
			setViol(fmt.Sprintf("id-not-restored:%d", i))
		}
		if !r.has {
			setViol(fmt.Sprintf("unknown-mark:%d", i))
			continue
		}
		sp, known := st.sent[r.mark]
		if !known {
			setViol(fmt.Sprintf("unknown-mark:%d", i))
			continue
		}
		mine := false
		for _, p := range st.pairs[i] {
			if p == sp {
				mine = true
			}
		}
		if !mine {
			setViol(fmt.Sprintf("foreign-reply:%d:%d:%d/%d", i, r.mark, sp.conn, sp.wid))
		}
		if _, twice := byMark[r.mark]; twice {
			setViol(fmt.Sprintf("double-delivery:%d", r.mark))
		}
		byMark[r.mark] = i
	}
	if st.reuse != "" {
		setViol(st.reuse)
	}
	if viol == "" {
		viol = "none"
	}
	return fmt.Sprintf("ok=%d err=%d conns=%d viol=%s", okN, errN, len(st.conns), viol)
}
