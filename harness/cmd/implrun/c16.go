package main

// Kind "fallback" (C16): a real upstream.NewUpstream("udp://127.0.0.1:port") against a scripted fake
// server that listens on UDP and TCP on the same port.
//   case:   <id> udp=<plain|tc|silent|garbage> tcp=<reply|close|silent|garbage> name=<hex> type=<n> dl=<ms>
//   result: res=<U|T|ERR> tcpq=<n> udpq=<n> sameq=<0|1|-> sameaddr=<0|1>

import (
	"bytes"
	"context"
	"encoding/binary"
	"fmt"
	"io"
	"net"
	"sync"
	"sync/atomic"
	"time"

	"github.com/IrineSistiana/mosproxy/internal/dnsmsg"
	"github.com/IrineSistiana/mosproxy/internal/upstream"
	"github.com/IrineSistiana/mosproxy/verifharness/hx"
)

func init() { register("fallback", 16, runFallback) }

type fbServer struct {
	uc       *net.UDPConn
	tl       net.Listener
	udpMode  string
	tcpMode  string
	udpDelay time.Duration
	udpQ     atomic.Int32
	tcpQ     atomic.Int32
	mu       sync.Mutex
	udpWire  []byte
	tcpWire  []byte
}

func listenPair() (*net.UDPConn, net.Listener, error) {
	for i := 0; i < 50; i++ {
		tl, err := net.Listen("tcp", "127.0.0.1:0")
		if err != nil {
			return nil, nil, err
		}
		port := tl.Addr().(*net.TCPAddr).Port
		uc, err := net.ListenUDP("udp", &net.UDPAddr{IP: net.IPv4(127, 0, 0, 1), Port: port})
		if err != nil {
			tl.Close()
			continue
		}
		return uc, tl, nil
	}
	return nil, nil, fmt.Errorf("no free udp+tcp port pair")
}

func (s *fbServer) mode() string {
	s.mu.Lock()
	defer s.mu.Unlock()
	return s.udpMode
}

func (s *fbServer) setMode(m string) {
	s.mu.Lock()
	s.udpMode = m
	s.mu.Unlock()
}

func (s *fbServer) serveUDP() {
	buf := make([]byte, 4096)
	uc := s.uc
	for {
		n, addr, err := uc.ReadFromUDP(buf)
		if err != nil {
			return
		}
		q := append([]byte(nil), buf[:n]...)
		s.udpQ.Add(1)
		s.mu.Lock()
		s.udpWire = q
		s.mu.Unlock()
		if s.udpDelay > 0 && (s.mode() == "plain" || s.mode() == "tc") {
			// a slow server: the reply comes well inside the caller's deadline, seconds after the last datagram the
			// socket has seen (nothing else keeps the socket's read deadline moving)
			mode := s.mode()
			go func() {
				time.Sleep(s.udpDelay)
				uc.WriteToUDP(hx.BuildReply(q, mode == "tc", 0, [4]byte{1, 1, 1, map[bool]byte{false: 1, true: 2}[mode == "tc"]}, 60), addr)
			}()
			continue
		}
		switch s.mode() {
		case "plain":
			uc.WriteToUDP(hx.BuildReply(q, false, 0, [4]byte{1, 1, 1, 1}, 60), addr)
		case "tc":
			uc.WriteToUDP(hx.BuildReply(q, true, 0, [4]byte{1, 1, 1, 2}, 60), addr)
		case "bigplain":
			// a 2049..4096-octet UDP reply without TC (the upstream read buffer is 4096 octets): returned as received
			uc.WriteToUDP(c16Big(hx.BuildReply(q, false, 0, [4]byte{1, 1, 1, 1}, 60), 180), addr)
		case "bigtc":
			uc.WriteToUDP(c16Big(hx.BuildReply(q, true, 0, [4]byte{1, 1, 1, 2}, 60), 180), addr)
		case "garbage":
			uc.WriteToUDP([]byte{q[0], q[1], 0xff, 0xff, 0xff}, addr)
		case "silent":
		}
	}
}

// c16Big appends n further A records (owner = pointer to the question name) to a one-answer reply
func c16Big(r []byte, n int) []byte {
	out := append([]byte(nil), r...)
	for i := 0; i < n; i++ {
		out = append(out, 0xc0, 0x0c, 0, 1, 0, 1, 0, 0, 0, 60, 0, 4, 9, 9, byte(i>>8), byte(i))
	}
	an := int(binary.BigEndian.Uint16(out[6:8])) + n
	binary.BigEndian.PutUint16(out[6:8], uint16(an))
	return out
}

func (s *fbServer) serveTCP() {
	for {
		c, err := s.tl.Accept()
		if err != nil {
			return
		}
		go func() {
			defer c.Close()
			for {
				var h [2]byte
				if _, err := io.ReadFull(c, h[:]); err != nil {
					return
				}
				q := make([]byte, binary.BigEndian.Uint16(h[:]))
				if _, err := io.ReadFull(c, q); err != nil {
					return
				}
				s.tcpQ.Add(1)
				s.mu.Lock()
				s.tcpWire = q
				s.mu.Unlock()
				switch s.tcpMode {
				case "reply":
					r := hx.BuildReply(q, false, 0, [4]byte{2, 2, 2, 2}, 60)
					out := binary.BigEndian.AppendUint16(nil, uint16(len(r)))
					c.Write(append(out, r...))
				case "tc":
					// the TCP answer is truncated as well (an answer beyond 64 KiB): the caller gets it as it is, TC set
					r := hx.BuildReply(q, true, 0, [4]byte{2, 2, 2, 3}, 60)
					out := binary.BigEndian.AppendUint16(nil, uint16(len(r)))
					c.Write(append(out, r...))
				case "close":
					return
				case "garbage":
					c.Write([]byte{0, 5, q[0], q[1], 0xff, 0xff, 0xff})
				case "silent":
					time.Sleep(3 * time.Second)
					return
				}
			}
		}()
	}
}

func runFallback(id string, parts []string) string {
	f := hx.Fields(parts)
	name, _ := hx.UnHex(f["name"])
	typ := hx.MustAtoi(f["type"])
	dl := time.Duration(hx.MustAtoi(f["dl"])) * time.Millisecond

	uc, tl, err := listenPair()
	if err != nil {
		return "HARNESS-ERROR " + err.Error()
	}
	s := &fbServer{uc: uc, tl: tl, udpMode: f["udp"], tcpMode: f["tcp"]}
	if f["ud"] != "" {
		s.udpDelay = time.Duration(hx.MustAtoi(f["ud"])) * time.Millisecond
	}
	go s.serveUDP()
	go s.serveTCP()
	defer uc.Close()
	defer tl.Close()

	port := tl.Addr().(*net.TCPAddr).Port
	addr, opt := fmt.Sprintf("udp://127.0.0.1:%d", port), upstream.Opt{}
	if f["da"] == "1" {
		// the URL names another host (nothing listens there); dial_addr is the server: BOTH legs must go to dial_addr
		addr, opt = fmt.Sprintf("udp://127.0.0.2:%d", port), upstream.Opt{DialAddr: fmt.Sprintf("127.0.0.1:%d", port)}
	}
	u, err := upstream.NewUpstream(addr, opt)
	if err != nil {
		return "HARNESS-ERROR " + err.Error()
	}
	defer u.Close()

	if f["seq"] == "tcgap" {
		// history before the measured exchange: (1) a truncated reply answered over TCP, (2) more than 3 s of uptime,
		// (3) the server's UDP port goes away while a query is sent to it (ICMP unreachable: the upstream's UDP socket
		// dies and has to be replaced), (4) the port is back.  The measured exchange must work like the first one of a
		// fresh upstream: nothing of an earlier exchange (a dial deadline, a socket) may be left on the shared dialer.
		want := s.mode()
		s.setMode("tc")
		c1, cancel1 := context.WithTimeout(context.Background(), 2*time.Second)
		r1, err1 := u.ExchangeContext(c1, hx.BuildQuery(0xBEE0, name, uint16(typ), 1, true))
		cancel1()
		if err1 != nil || r1 == nil {
			return "HARNESS-ERROR the first (truncated -> tcp) exchange of the history failed"
		}
		dnsmsg.ReleaseMsg(r1)
		time.Sleep(time.Duration(hx.MustAtoi(f["gap"])) * time.Millisecond)
		uc.Close()
		for k := 0; k < 3; k++ {
			c2, cancel2 := context.WithTimeout(context.Background(), 150*time.Millisecond)
			if r2, err2 := u.ExchangeContext(c2, hx.BuildQuery(0xBEE1, name, uint16(typ), 1, true)); err2 == nil && r2 != nil {
				dnsmsg.ReleaseMsg(r2)
			}
			cancel2()
		}
		uc2, err := net.ListenUDP("udp", &net.UDPAddr{IP: net.IPv4(127, 0, 0, 1), Port: port})
		if err != nil {
			return "HARNESS-ERROR cannot reopen the udp port"
		}
		defer uc2.Close()
		s.uc = uc2
		s.setMode(want)
		s.udpQ.Store(0)
		s.tcpQ.Store(0)
		s.mu.Lock()
		s.udpWire, s.tcpWire = nil, nil
		s.mu.Unlock()
		go s.serveUDP()
	}
	q := hx.BuildQuery(0xBEEF, name, uint16(typ), 1, true)
	ctx, cancel := context.WithTimeout(context.Background(), dl)
	defer cancel()
	resp, err := u.ExchangeContext(ctx, q)
	res := "ERR"
	if err == nil && resp == nil {
		// neither a message nor an error: the caller was told the exchange succeeded and got nothing
		res = "NIL-NIL"
	}
	if err == nil && resp != nil {
		res = "?"
		if a, ok := firstA(resp); ok && a == [4]byte{2, 2, 2, 3} {
			if resp.Header.Truncated {
				res = "TT"
			} else {
				res = "TT-TC-CLEARED"
			}
		} else if resp.Header.Truncated {
			res = "TRUNCATED"
		} else if len(resp.Answers) == 1 || len(resp.Answers) == 181 {
			if a, ok := resp.Answers[0].(*dnsmsg.A); ok {
				switch a.A {
				case [4]byte{1, 1, 1, 1}:
					res = "U"
				case [4]byte{2, 2, 2, 2}:
					res = "T"
				case [4]byte{1, 1, 1, 2}:
					res = "TRUNCATED"
				}
			}
		}
		if resp.Header.ID != 0xBEEF {
			res += "/BADID"
		}
	}
	// let a late TCP attempt (if any) land before counting
	time.Sleep(30 * time.Millisecond)
	s.mu.Lock()
	sameq := "-"
	if s.tcpWire != nil && s.udpWire != nil {
		if len(s.tcpWire) >= 2 && len(s.udpWire) >= 2 && bytes.Equal(s.tcpWire[2:], s.udpWire[2:]) {
			sameq = "1"
		} else {
			sameq = "0"
		}
	}
	s.mu.Unlock()
	return fmt.Sprintf("res=%s tcpq=%d udpq=%d sameq=%s", res, s.tcpQ.Load(), s.udpQ.Load(), sameq)
}

func firstA(m *dnsmsg.Msg) ([4]byte, bool) {
	if len(m.Answers) == 0 {
		return [4]byte{}, false
	}
	a, ok := m.Answers[0].(*dnsmsg.A)
	if !ok {
		return [4]byte{}, false
	}
	return a.A, true
}
