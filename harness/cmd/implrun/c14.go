package main

// Kind "faults" (C14): one scripted exchange of a REAL upstream.NewUpstream(...) against a fake server on loopback
// whose per-connection behaviour is given by the case line.
//
//   case:   <id> tr=<udp|tcp|tcpp|tls|tlsp|doh> pool=<tok,..|-> dial=<tok,..|-> dl=<ms> [conc=<n>]
//     conc : n concurrent measured exchanges (pipelined transports: all n wait on the ONE pooled connection; the server
//            applies fin / rst / garbage only once all n queries have arrived). res / when are then the common value
//            of all n exchanges or MIXED; dials and att are not reported.
//     pool : behaviour of the connections that are in the transport's pool when the measured exchange starts
//            (established by len(pool) concurrent warm-up exchanges that the server answers normally):
//              ok | silent | half | garbage | fin | rst      what the server does when the NEXT query arrives on it
//              ifin | irst | igarb                          what the server does to it while it is idle
//              idown                                        (udp) the server socket is closed while the client socket is pooled
//     dial : behaviour of the connections dialled during the measured exchange, in order (missing = ok):
//              ok | refuse | blackhole | efin | erst | silent | half | garbage | fin | rst
//     tr=pfake: a PipelineTransport (TCP framing) built directly over an injected dialer whose connections are
//            net.Pipe ends served by an echo goroutine; pool=werr,..,werr[,ok]: the ONE pooled connection fails its next
//            n Writes (a TCP pipelined connection is not closed by a failed Write, so the pool hands it out again):
//            pins the pipelined retry constant on the real loop. att is the number of Writes, also on success.
//     tr=doq: a quic:// upstream against a quic-go server. The ONE cached connection is pool[0]; its behaviour
//            (fin = stream closed without data, rst = stream reset, garbage, silent, half) applies to EVERY stream
//            opened on it, as the connection itself stays alive; ifin = the server closes the connection while idle.
//            dial tokens: ok | blackhole (a UDP socket that swallows everything) | efin (connection closed right
//            after the handshake) | silent | half | garbage | fin | rst (per stream). att = streams the server saw.
//     idle=<ms> [bg=<ms>] (tcpp, tlsp, udp): the transport is built with this SHORT idle time-out (udp: a
//            PipelineTransport directly over UDP sockets, as NewUpstream pins one minute there). With bg, BACKGROUND
//            exchanges (own deadline 200 ms) are started every bg ms on the same transport while the measured one
//            waits, and 4 more (deadline 400 ms) after it returned. A pooled connection that goes `silent` on reuse
//            must be declared dead by the read loop's idle deadline although queries keep being written on it; the
//            measured exchange (deadline = several idle time-outs) is then retried on a fresh connection.
//            The result carries  bg=<started>/<replied>  after=<replied>/<started>  (not compared with the model).
//   result: res=<REPLY|ERR|HANG> dials=<n|-> att=<n|-> when=<early|dl> late=<0|1>
//     dials: sockets created by the upstream's dialer during the measured exchange (Opt.Control hook)
//     att  : on ERR, the number of joined errors (= loop iterations of ExchangeContext); '-' when not observable
//     when : early = returned before the context deadline; dl = at/after it
//     late : returned later than deadline + 1.5 s

import (
	"context"
	"crypto/ecdsa"
	"crypto/elliptic"
	"crypto/rand"
	"crypto/tls"
	"crypto/x509"
	"crypto/x509/pkix"
	"encoding/binary"
	"fmt"
	"io"
	"log"
	"math/big"
	"net"
	"net/http"
	"os"
	"strings"
	"sync"
	"sync/atomic"
	"syscall"
	"time"

	"github.com/IrineSistiana/mosproxy/internal/upstream"
	"github.com/IrineSistiana/mosproxy/internal/upstream/transport"
	"github.com/IrineSistiana/mosproxy/verifharness/hx"
	"github.com/quic-go/quic-go"
)

func init() { register("faults", 12, runFaults) }

const c14Slack = 1500 * time.Millisecond

var (
	c14CertOnce sync.Once
	c14Cert     tls.Certificate
	c14CertErr  error
)

func c14ServerCert() (tls.Certificate, error) {
	c14CertOnce.Do(func() {
		key, err := ecdsa.GenerateKey(elliptic.P256(), rand.Reader)
		if err != nil {
			c14CertErr = err
			return
		}
		tmpl := &x509.Certificate{
			SerialNumber: big.NewInt(14),
			Subject:      pkix.Name{CommonName: "c14.test"},
			NotBefore:    time.Now().Add(-time.Hour),
			NotAfter:     time.Now().Add(24 * time.Hour),
			KeyUsage:     x509.KeyUsageDigitalSignature,
			ExtKeyUsage:  []x509.ExtKeyUsage{x509.ExtKeyUsageServerAuth},
			IPAddresses:  []net.IP{net.IPv4(127, 0, 0, 1)},
			DNSNames:     []string{"c14.test"},
		}
		der, err := x509.CreateCertificate(rand.Reader, tmpl, tmpl, &key.PublicKey, key)
		if err != nil {
			c14CertErr = err
			return
		}
		c14Cert = tls.Certificate{Certificate: [][]byte{der}, PrivateKey: key}
	})
	return c14Cert, c14CertErr
}

// ---------------------------------------------------------------- fake server

type c14Conn struct {
	mq    int // queries received in the measured phase
	raw   *net.TCPConn
	c     net.Conn // raw or the TLS session over it
	idx   int
	isNew bool   // accepted during the measured phase
	beh   string // behaviour (new connections); pooled connections read s.pool[idx] at query time
}

type c14Server struct {
	tr     string
	useTLS bool
	ln     *net.TCPListener
	lnFile *os.File
	uc     *net.UDPConn
	tlsCfg *tls.Config
	pool   []string
	dial   []string
	conc   int

	mu          sync.Mutex
	phase       int // 0 warm-up, 1 measured
	conns       []*c14Conn
	newCount    int
	warmWant    int
	warmGot     int
	warmRelease chan struct{}
	paused      bool
	resume      chan struct{}
	done        chan struct{}
	fillers     []net.Conn
	udpPooled   map[string]bool
	udpNew      map[string]int
	queries     atomic.Int32
}

// a TCP listener whose backlog can later be shrunk to 0 (black-hole dial: the accept queue is full, SYNs are dropped)
func c14Listen() (*net.TCPListener, *os.File, error) {
	fd, err := syscall.Socket(syscall.AF_INET, syscall.SOCK_STREAM|syscall.SOCK_CLOEXEC, 0)
	if err != nil {
		return nil, nil, err
	}
	if err := syscall.Bind(fd, &syscall.SockaddrInet4{Port: 0, Addr: [4]byte{127, 0, 0, 1}}); err != nil {
		syscall.Close(fd)
		return nil, nil, err
	}
	if err := syscall.Listen(fd, 128); err != nil {
		syscall.Close(fd)
		return nil, nil, err
	}
	f := os.NewFile(uintptr(fd), "c14-listener")
	l, err := net.FileListener(f)
	if err != nil {
		f.Close()
		return nil, nil, err
	}
	return l.(*net.TCPListener), f, nil
}

func c14Garbage(q []byte) []byte {
	// QR, QDCOUNT=1, then a compression pointer cut in half: undecodable, but well framed
	g := []byte{0, 0, 0x81, 0x80, 0, 1, 0, 0, 0, 0, 0, 0, 0xC0}
	if len(q) >= 2 {
		g[0], g[1] = q[0], q[1]
	}
	return g
}

func c14Frame(m []byte) []byte {
	out := binary.BigEndian.AppendUint16(nil, uint16(len(m)))
	return append(out, m...)
}

func (s *c14Server) acceptLoop() {
	for {
		s.mu.Lock()
		paused, resume := s.paused, s.resume
		s.mu.Unlock()
		if paused {
			select {
			case <-resume:
			case <-s.done:
				return
			}
			continue
		}
		s.ln.SetDeadline(time.Now().Add(20 * time.Millisecond))
		c, err := s.ln.AcceptTCP()
		if err != nil {
			if ne, ok := err.(net.Error); ok && ne.Timeout() {
				select {
				case <-s.done:
					return
				default:
					continue
				}
			}
			return
		}
		s.mu.Lock()
		cc := &c14Conn{raw: c, c: c, idx: len(s.conns)}
		if s.phase == 1 {
			cc.isNew = true
			cc.beh = "ok"
			if s.newCount < len(s.dial) {
				cc.beh = s.dial[s.newCount]
			}
			s.newCount++
		}
		s.conns = append(s.conns, cc)
		s.mu.Unlock()
		go s.handle(cc)
	}
}

func (s *c14Server) behaviourFor(cc *c14Conn) string {
	if cc.isNew {
		return cc.beh
	}
	if cc.idx < len(s.pool) {
		return s.pool[cc.idx]
	}
	return "ok"
}

func (s *c14Server) hold() { <-s.done }

func (s *c14Server) handle(cc *c14Conn) {
	defer cc.raw.Close()
	if cc.isNew {
		switch cc.beh {
		case "efin":
			return
		case "erst":
			cc.raw.SetLinger(0)
			return
		case "blackhole": // TLS: the TCP connection is accepted, the handshake never answered
			s.hold()
			return
		}
	}
	if s.useTLS {
		tc := tls.Server(cc.raw, s.tlsCfg)
		cc.raw.SetDeadline(time.Now().Add(5 * time.Second))
		if err := tc.Handshake(); err != nil {
			return
		}
		cc.raw.SetDeadline(time.Time{})
		s.mu.Lock()
		cc.c = tc
		s.mu.Unlock()
	}
	c := cc.c
	for {
		var h [2]byte
		if _, err := io.ReadFull(c, h[:]); err != nil {
			return
		}
		q := make([]byte, binary.BigEndian.Uint16(h[:]))
		if _, err := io.ReadFull(c, q); err != nil {
			return
		}
		s.queries.Add(1)
		s.mu.Lock()
		phase := s.phase
		s.mu.Unlock()
		if phase == 0 {
			s.warmBarrier()
			c.Write(c14Frame(hx.BuildReply(q, false, 0, [4]byte{9, 9, 9, 9}, 60)))
			continue
		}
		beh := s.behaviourFor(cc)
		cc.mq++
		if !cc.isNew && cc.mq < s.conc && (beh == "fin" || beh == "rst" || beh == "garbage") {
			continue // wait until every concurrent exchange is waiting on this connection
		}
		switch beh {
		case "ok":
			c.Write(c14Frame(hx.BuildReply(q, false, 0, [4]byte{1, 4, 1, 4}, 60)))
		case "silent":
			s.hold()
			return
		case "half":
			r := c14Frame(hx.BuildReply(q, false, 0, [4]byte{1, 4, 1, 4}, 60))
			c.Write(r[:7])
			s.hold()
			return
		case "garbage", "igarb":
			c.Write(c14Frame(c14Garbage(q)))
			s.hold()
			return
		case "fin":
			c.Close()
			return
		case "rst":
			cc.raw.SetLinger(0)
			return
		default: // ifin / irst arrive here only if the idle action has not been seen yet
			return
		}
	}
}

func (s *c14Server) warmBarrier() {
	s.mu.Lock()
	s.warmGot++
	if s.warmGot == s.warmWant {
		close(s.warmRelease)
	}
	ch := s.warmRelease
	s.mu.Unlock()
	select {
	case <-ch:
	case <-time.After(3 * time.Second):
	}
}

func (s *c14Server) serveUDP() {
	buf := make([]byte, 4096)
	for {
		n, addr, err := s.uc.ReadFromUDP(buf)
		if err != nil {
			return
		}
		q := append([]byte(nil), buf[:n]...)
		s.queries.Add(1)
		key := addr.String()
		s.mu.Lock()
		phase := s.phase
		beh := "ok"
		if phase == 0 {
			s.udpPooled[key] = true
		} else if s.udpPooled[key] {
			if len(s.pool) > 0 {
				beh = s.pool[0]
			}
		} else {
			j, ok := s.udpNew[key]
			if !ok {
				j = len(s.udpNew)
				s.udpNew[key] = j
			}
			if j < len(s.dial) {
				beh = s.dial[j]
			}
		}
		s.mu.Unlock()
		if phase == 0 {
			s.uc.WriteToUDP(hx.BuildReply(q, false, 0, [4]byte{9, 9, 9, 9}, 60), addr)
			continue
		}
		switch beh {
		case "ok":
			s.uc.WriteToUDP(hx.BuildReply(q, false, 0, [4]byte{1, 4, 1, 4}, 60), addr)
		case "garbage":
			s.uc.WriteToUDP(c14Garbage(q), addr)
		case "half":
			r := hx.BuildReply(q, false, 0, [4]byte{1, 4, 1, 4}, 60)
			s.uc.WriteToUDP(r[:7], addr)
		default: // silent
		}
	}
}

// after the warm-up: what the server does to the pooled connections while they are idle
func (s *c14Server) idleActions() {
	s.mu.Lock()
	conns := append([]*c14Conn(nil), s.conns...)
	s.mu.Unlock()
	for _, cc := range conns {
		if cc.idx >= len(s.pool) {
			continue
		}
		switch s.pool[cc.idx] {
		case "ifin":
			cc.c.Close()
		case "irst":
			cc.raw.SetLinger(0)
			cc.raw.Close()
		case "igarb":
			cc.c.Write(c14Frame(c14Garbage(nil)))
		}
	}
}

// what a dial during the measured exchange will meet
func (s *c14Server) prepareDial() error {
	first := "ok"
	if len(s.dial) > 0 {
		first = s.dial[0]
	}
	switch {
	case s.uc != nil:
		if first == "refuse" {
			s.uc.Close()
		}
	case first == "refuse":
		s.mu.Lock()
		s.paused = true
		s.mu.Unlock()
		time.Sleep(30 * time.Millisecond)
		s.ln.Close()
		s.lnFile.Close()
	case first == "blackhole" && !s.useTLS && s.tr != "doh":
		s.mu.Lock()
		s.paused = true
		s.mu.Unlock()
		time.Sleep(30 * time.Millisecond) // the accept loop is parked
		if err := syscall.Listen(int(s.lnFile.Fd()), 0); err != nil {
			return err
		}
		// fill the accept queue: further SYNs are dropped
		for i := 0; i < 3; i++ {
			d := net.Dialer{Timeout: 150 * time.Millisecond}
			c, err := d.Dial("tcp", s.ln.Addr().String())
			if err != nil {
				return nil
			}
			s.fillers = append(s.fillers, c)
		}
		return fmt.Errorf("accept queue did not fill")
	}
	return nil
}

func (s *c14Server) close() {
	close(s.done)
	if s.ln != nil {
		s.ln.Close()
		s.lnFile.Close()
	}
	if s.uc != nil {
		s.uc.Close()
	}
	s.mu.Lock()
	for _, cc := range s.conns {
		cc.raw.Close()
	}
	for _, c := range s.fillers {
		c.Close()
	}
	s.mu.Unlock()
}

// ---------------------------------------------------------------- DoH server (h2 over TLS)

type c14DoH struct {
	s     *c14Server
	srv   *http.Server
	nreq  atomic.Int32
	nconn atomic.Int32
}

func (d *c14DoH) ServeHTTP(w http.ResponseWriter, r *http.Request) {
	s := d.s
	s.mu.Lock()
	phase := s.phase
	s.mu.Unlock()
	raw := r.URL.Query().Get("dns")
	q, err := base64RawURL(raw)
	if err != nil || len(q) < 12 {
		w.WriteHeader(400)
		return
	}
	if phase == 0 {
		w.Header().Set("Content-Type", "application/dns-message")
		w.Write(hx.BuildReply(q, false, 0, [4]byte{9, 9, 9, 9}, 60))
		return
	}
	// net/http may transparently replay a GET on another connection: every request of the measured phase meets
	// the same behaviour
	d.nreq.Add(1)
	beh := "ok"
	if len(s.dial) > 0 {
		beh = s.dial[0]
	}
	switch beh {
	case "ok":
		w.Header().Set("Content-Type", "application/dns-message")
		w.Write(hx.BuildReply(q, false, 0, [4]byte{1, 4, 1, 4}, 60))
	case "silent":
		select {
		case <-s.done:
		case <-r.Context().Done():
		}
	case "half":
		w.Header().Set("Content-Type", "application/dns-message")
		w.Header().Set("Content-Length", "64")
		w.Write(hx.BuildReply(q, false, 0, [4]byte{1, 4, 1, 4}, 60)[:7])
		if f, ok := w.(http.Flusher); ok {
			f.Flush()
		}
		select {
		case <-s.done:
		case <-r.Context().Done():
		}
	case "garbage":
		w.Header().Set("Content-Type", "application/dns-message")
		w.Write(c14Garbage(q))
	case "fin", "rst":
		panic(http.ErrAbortHandler)
	default:
		w.WriteHeader(500)
	}
}

func base64RawURL(s string) ([]byte, error) {
	const alphabet = "ABCDEFGHIJKLMNOPQRSTUVWXYZabcdefghijklmnopqrstuvwxyz0123456789-_"
	var out []byte
	var acc, bits uint
	for i := 0; i < len(s); i++ {
		v := strings.IndexByte(alphabet, s[i])
		if v < 0 {
			return nil, fmt.Errorf("bad base64")
		}
		acc = acc<<6 | uint(v)
		bits += 6
		if bits >= 8 {
			bits -= 8
			out = append(out, byte(acc>>bits))
			acc &= (1 << bits) - 1
		}
	}
	return out, nil
}

// ---------------------------------------------------------------- the case

func c14Tokens(s string) []string {
	if s == "" || s == "-" {
		return nil
	}
	return strings.Split(s, ",")
}

func c14CountErrs(err error) int {
	if err == nil {
		return 0
	}
	if j, ok := err.(interface{ Unwrap() []error }); ok {
		return len(j.Unwrap())
	}
	return 1
}

func runFaults(id string, parts []string) string {
	return guard(id, 40*time.Second, func() string { return faultsCase(hx.Fields(parts)) })
}

func faultsCase(f map[string]string) string {
	tr := f["tr"]
	if tr == "pfake" {
		return pfakeCase(f)
	}
	if tr == "doq" {
		return doqCase(f)
	}
	pool := c14Tokens(f["pool"])
	dial := c14Tokens(f["dial"])
	dl := time.Duration(hx.MustAtoi(f["dl"])) * time.Millisecond
	conc := 1
	if f["conc"] != "" {
		conc = hx.MustAtoi(f["conc"])
	}

	idle, bgEvery := time.Duration(0), time.Duration(0)
	if f["idle"] != "" {
		idle = time.Duration(hx.MustAtoi(f["idle"])) * time.Millisecond
	}
	if f["bg"] != "" {
		bgEvery = time.Duration(hx.MustAtoi(f["bg"])) * time.Millisecond
	}

	s := &c14Server{tr: tr, pool: pool, dial: dial, conc: conc, done: make(chan struct{}), resume: make(chan struct{}),
		warmRelease: make(chan struct{}), warmWant: len(pool), udpPooled: map[string]bool{}, udpNew: map[string]int{}}
	s.useTLS = tr == "tls" || tr == "tlsp"
	cert, err := c14ServerCert()
	if err != nil {
		return "HARNESS-ERROR cert " + err.Error()
	}
	s.tlsCfg = &tls.Config{Certificates: []tls.Certificate{cert}}
	var doh *c14DoH
	var port int
	if tr == "udp" {
		uc, err := net.ListenUDP("udp", &net.UDPAddr{IP: net.IPv4(127, 0, 0, 1)})
		if err != nil {
			return "HARNESS-ERROR " + err.Error()
		}
		s.uc = uc
		port = uc.LocalAddr().(*net.UDPAddr).Port
		go s.serveUDP()
	} else {
		ln, lf, err := c14Listen()
		if err != nil {
			return "HARNESS-ERROR " + err.Error()
		}
		s.ln, s.lnFile = ln, lf
		port = ln.Addr().(*net.TCPAddr).Port
		if tr == "doh" {
			doh = &c14DoH{s: s}
			cfg := &tls.Config{Certificates: []tls.Certificate{cert}, NextProtos: []string{"h2", "http/1.1"}}
			doh.srv = &http.Server{Handler: doh, TLSConfig: cfg, ErrorLog: log.New(io.Discard, "", 0)}
			go doh.srv.ServeTLS(&c14DoHListener{TCPListener: ln, s: s}, "", "")
		} else {
			go s.acceptLoop()
		}
	}
	defer s.close()
	if doh != nil {
		defer doh.srv.Close()
	}

	var dials atomic.Int32
	opt := upstream.Opt{
		TLSConfig: &tls.Config{InsecureSkipVerify: true},
		Control: func(network, address string, c syscall.RawConn) error {
			dials.Add(1)
			return nil
		},
		IdleTimeout: idle,
	}
	var url string
	switch tr {
	case "udp":
		url = fmt.Sprintf("udp://127.0.0.1:%d", port)
	case "tcp":
		url = fmt.Sprintf("tcp://127.0.0.1:%d", port)
	case "tcpp":
		url = fmt.Sprintf("tcp+pipeline://127.0.0.1:%d", port)
	case "tls":
		url = fmt.Sprintf("tls://127.0.0.1:%d", port)
	case "tlsp":
		url = fmt.Sprintf("tls+pipeline://127.0.0.1:%d", port)
	case "doh":
		url = fmt.Sprintf("https://127.0.0.1:%d/dns-query", port)
	default:
		return "HARNESS-ERROR unknown transport " + tr
	}
	var u upstream.Upstream
	if tr == "udp" && idle > 0 {
		d := &net.Dialer{Control: opt.Control}
		addr := fmt.Sprintf("127.0.0.1:%d", port)
		u = transport.NewPipelineTransport(transport.PipelineOpts{
			DialContext:        func(ctx context.Context) (net.Conn, error) { return d.DialContext(ctx, "udp", addr) },
			IdleTimeout:        idle,
			IsTCP:              false,
			MaxConcurrentQuery: 4096,
		})
	} else {
		u, err = upstream.NewUpstream(url, opt)
		if err != nil {
			return "HARNESS-ERROR " + err.Error()
		}
	}
	defer func() {
		// DoHTransport.Close on the pinned tree recurses when it has an extra closer (D12); plain https has none
		u.Close()
	}()

	name := []byte("\x03c14\x04test")
	// ---- warm-up: put len(pool) connections into the transport's pool
	if k := len(pool); k > 0 {
		var wg sync.WaitGroup
		var bad atomic.Int32
		for i := 0; i < k; i++ {
			wg.Add(1)
			go func(i int) {
				defer wg.Done()
				ctx, cancel := context.WithTimeout(context.Background(), 5*time.Second)
				defer cancel()
				r, err := u.ExchangeContext(ctx, hx.BuildQuery(uint16(0x1000+i), name, 1, 1, true))
				if err != nil || r == nil {
					bad.Add(1)
				}
			}(i)
		}
		wg.Wait()
		if bad.Load() > 0 {
			return fmt.Sprintf("HARNESS-ERROR warm-up failed for %d of %d", bad.Load(), k)
		}
		// wait until the transport shows them pooled
		okPooled := false
		for t0 := time.Now(); time.Since(t0) < 3*time.Second; time.Sleep(2 * time.Millisecond) {
			switch t := u.(type) {
			case *transport.ReuseConnTransport:
				idle, all := t.VerifIdleConns()
				okPooled = idle == k && all == k
			case *transport.PipelineTransport:
				_, busy, idle := t.VerifPoolStatus()
				okPooled = busy == 0 && idle == 1 && k == 1
			default:
				if pt, _ := upstream.VerifUdpParts(u); pt != nil {
					_, busy, idle := pt.VerifPoolStatus()
					okPooled = busy == 0 && idle == 1 && k == 1
				} else {
					okPooled = true // DoH: net/http's pool
				}
			}
			if okPooled {
				break
			}
		}
		if !okPooled {
			return "HARNESS-ERROR pool did not reach the scripted occupancy"
		}
		if doh != nil {
			for _, t := range pool {
				if t == "ifin" {
					doh.closeIdle()
				}
			}
		} else if s.uc != nil {
			if pool[0] == "idown" {
				s.uc.Close()
			}
		} else {
			s.idleActions()
		}
	}
	if err := s.prepareDial(); err != nil {
		return "HARNESS-ERROR " + err.Error()
	}
	s.mu.Lock()
	s.phase = 1
	s.mu.Unlock()
	if len(pool) > 0 {
		time.Sleep(60 * time.Millisecond) // let the client side see what happened to its idle connections
	}

	// ---- the measured exchange
	d0 := dials.Load()
	type result struct {
		ok   bool
		nerr int
		el   time.Duration
		nd   int // dials so far when this exchange returned
	}
	rc := make(chan result, conc)
	for i := 0; i < conc; i++ {
		go func(i int) {
			t0 := time.Now() // before the context exists: a return caused by the deadline always has el >= dl
			ctx, cancel := context.WithTimeout(context.Background(), dl)
			defer cancel()
			id := uint16(0xC014 + i)
			r, err := u.ExchangeContext(ctx, hx.BuildQuery(id, name, 1, 1, true))
			el := time.Since(t0)
			ok := err == nil && r != nil && r.Header.ID == id && len(r.Answers) == 1
			rc <- result{ok: ok, nerr: c14CountErrs(err), el: el, nd: int(dials.Load() - d0)}
		}(i)
	}
	// background exchanges on the same transport while the measured one waits
	var bgN, bgOK atomic.Int32
	bgStop := make(chan struct{})
	var bgWG sync.WaitGroup
	if bgEvery > 0 {
		bgWG.Add(1)
		go func() {
			defer bgWG.Done()
			tk := time.NewTicker(bgEvery)
			defer tk.Stop()
			for n := 0; ; n++ {
				select {
				case <-bgStop:
					return
				case <-tk.C:
				}
				bgN.Add(1)
				bgWG.Add(1)
				go func(n int) {
					defer bgWG.Done()
					ctx, cancel := context.WithTimeout(context.Background(), 200*time.Millisecond)
					defer cancel()
					id := uint16(0x2000 + n)
					r, err := u.ExchangeContext(ctx, hx.BuildQuery(id, name, 1, 1, true))
					if err == nil && r != nil && r.Header.ID == id {
						bgOK.Add(1)
					}
				}(n)
			}
		}()
	}
	var all []result
	hang := false
	tmo := time.After(dl + 5*time.Second)
	for len(all) < conc && !hang {
		select {
		case r := <-rc:
			all = append(all, r)
		case <-tmo:
			hang = true
		}
	}
	close(bgStop)
	bgWG.Wait()
	extra := ""
	if bgEvery > 0 {
		// after the switch-over: is the transport usable again?
		afterOK := 0
		for n := 0; n < 4 && !hang; n++ {
			ctx, cancel := context.WithTimeout(context.Background(), 400*time.Millisecond)
			id := uint16(0x3000 + n)
			r, err := u.ExchangeContext(ctx, hx.BuildQuery(id, name, 1, 1, true))
			cancel()
			if err == nil && r != nil && r.Header.ID == id {
				afterOK++
			}
			time.Sleep(20 * time.Millisecond)
		}
		extra = fmt.Sprintf(" bg=%d/%d after=%d/4", bgN.Load(), bgOK.Load(), afterOK)
	}
	time.Sleep(20 * time.Millisecond)
	nd := int(dials.Load() - d0)
	if bgEvery > 0 && len(all) == 1 {
		// later dials belong to the background / follow-up exchanges (e.g. the fresh connection idling out in between)
		nd = all[0].nd
	}
	dstr := fmt.Sprint(nd)
	if tr == "doh" || conc > 1 {
		dstr = "-"
	}
	if hang {
		return fmt.Sprintf("res=HANG dials=%s att=- when=dl late=1", dstr) + extra
	}
	cls, when, late, att := "", "", 0, "-"
	for _, res := range all {
		c, w := "ERR", "early"
		if res.ok {
			c = "REPLY"
		}
		if res.el >= dl {
			w = "dl"
		}
		if res.el > dl+c14Slack {
			late = 1
		}
		if cls == "" {
			cls, when = c, w
		}
		if cls != c {
			cls = "MIXED"
		}
		if when != w {
			when = "mixed"
		}
	}
	if conc == 1 && tr != "doh" && !all[0].ok {
		att = fmt.Sprint(all[0].nerr)
	}
	return fmt.Sprintf("res=%s dials=%s att=%s when=%s late=%d", cls, dstr, att, when, late) + extra
}

// ---- DoH plumbing: a listener that lets the scripted server refuse / black-hole new connections

type c14DoHListener struct {
	*net.TCPListener
	s *c14Server
}

func (l *c14DoHListener) Accept() (net.Conn, error) {
	for {
		c, err := l.TCPListener.AcceptTCP()
		if err != nil {
			return nil, err
		}
		s := l.s
		s.mu.Lock()
		first := "ok"
		if s.phase == 1 && len(s.dial) > 0 && s.newCount == 0 {
			first = s.dial[0]
		}
		if s.phase == 1 {
			s.newCount++
		}
		s.conns = append(s.conns, &c14Conn{raw: c, c: c})
		s.mu.Unlock()
		switch first {
		case "blackhole": // accepted, TLS handshake never answered
			continue
		case "efin":
			c.Close()
			continue
		case "erst":
			c.SetLinger(0)
			c.Close()
			continue
		}
		return c, nil
	}
}

func (d *c14DoH) closeIdle() {
	s := d.s
	s.mu.Lock()
	defer s.mu.Unlock()
	for _, cc := range s.conns {
		cc.raw.Close()
	}
}

// ---------------------------------------------------------------- tr=pfake

type c14FailConn struct {
	net.Conn
	fail   *atomic.Int32
	writes *atomic.Int32
}

func (c *c14FailConn) Write(b []byte) (int, error) {
	c.writes.Add(1)
	if c.fail.Load() > 0 {
		c.fail.Add(-1)
		return 0, fmt.Errorf("injected write error")
	}
	return c.Conn.Write(b)
}

func pfakeCase(f map[string]string) string {
	pool := c14Tokens(f["pool"])
	dial := c14Tokens(f["dial"])
	dl := time.Duration(hx.MustAtoi(f["dl"])) * time.Millisecond
	var dials, fail, writes atomic.Int32
	done := make(chan struct{})
	defer close(done)
	dialFn := func(ctx context.Context) (net.Conn, error) {
		n := int(dials.Add(1))
		if len(pool) == 0 || n > 1 { // a dial of the measured exchange
			if len(dial) > 0 && dial[0] == "refuse" {
				return nil, fmt.Errorf("injected dial error")
			}
		}
		cl, sv := net.Pipe()
		go func() {
			defer sv.Close()
			go func() { <-done; sv.Close() }()
			for {
				var h [2]byte
				if _, err := io.ReadFull(sv, h[:]); err != nil {
					return
				}
				q := make([]byte, binary.BigEndian.Uint16(h[:]))
				if _, err := io.ReadFull(sv, q); err != nil {
					return
				}
				sv.Write(c14Frame(hx.BuildReply(q, false, 0, [4]byte{1, 4, 1, 4}, 60)))
			}
		}()
		return &c14FailConn{Conn: cl, fail: &fail, writes: &writes}, nil
	}
	t := transport.NewPipelineTransport(transport.PipelineOpts{DialContext: dialFn, IsTCP: true})
	defer t.Close()
	name := []byte("\x03c14\x04test")
	if len(pool) > 0 {
		ctx, cancel := context.WithTimeout(context.Background(), 3*time.Second)
		_, err := t.ExchangeContext(ctx, hx.BuildQuery(0x1000, name, 1, 1, true))
		cancel()
		if err != nil {
			return "HARNESS-ERROR warm-up " + err.Error()
		}
		ok := false
		for t0 := time.Now(); time.Since(t0) < 2*time.Second; time.Sleep(time.Millisecond) {
			if _, busy, idle := t.VerifPoolStatus(); busy == 0 && idle == 1 {
				ok = true
				break
			}
		}
		if !ok {
			return "HARNESS-ERROR pool did not reach the scripted occupancy"
		}
		n := 0
		for _, p := range pool {
			if p == "werr" {
				n++
			}
		}
		fail.Store(int32(n))
	}
	d0, w0 := dials.Load(), writes.Load()
	type result struct {
		ok bool
		el time.Duration
	}
	rc := make(chan result, 1)
	go func() {
		t0 := time.Now() // before the context exists: a return caused by the deadline always has el >= dl
		ctx, cancel := context.WithTimeout(context.Background(), dl)
		defer cancel()
		r, err := t.ExchangeContext(ctx, hx.BuildQuery(0xC014, name, 1, 1, true))
		rc <- result{ok: err == nil && r != nil && r.Header.ID == 0xC014, el: time.Since(t0)}
	}()
	select {
	case res := <-rc:
		cls := "ERR"
		if res.ok {
			cls = "REPLY"
		}
		when, late := "early", 0
		if res.el >= dl {
			when = "dl"
		}
		if res.el > dl+c14Slack {
			late = 1
		}
		att := int(writes.Load() - w0)
		if cls == "ERR" && len(dial) > 0 && dial[0] == "refuse" && dials.Load() > d0 {
			att++ // the iteration whose dial failed made no Write
		}
		return fmt.Sprintf("res=%s dials=%d att=%d when=%s late=%d", cls, dials.Load()-d0, att, when, late)
	case <-time.After(dl + 5*time.Second):
		return fmt.Sprintf("res=HANG dials=%d att=%d when=dl late=1", dials.Load()-d0, writes.Load()-w0)
	}
}

// ---------------------------------------------------------------- tr=doq

func doqCase(f map[string]string) string {
	pool := c14Tokens(f["pool"])
	dial := c14Tokens(f["dial"])
	dl := time.Duration(hx.MustAtoi(f["dl"])) * time.Millisecond
	cert, err := c14ServerCert()
	if err != nil {
		return "HARNESS-ERROR cert " + err.Error()
	}
	done := make(chan struct{})
	defer close(done)
	var mu sync.Mutex
	phase := 0
	var pooled []quic.Connection
	newCount := 0
	var streams atomic.Int32
	first := "ok"
	if len(dial) > 0 {
		first = dial[0]
	}
	var port int
	if first == "blackhole" && len(pool) == 0 {
		uc, err := net.ListenUDP("udp", &net.UDPAddr{IP: net.IPv4(127, 0, 0, 1)})
		if err != nil {
			return "HARNESS-ERROR " + err.Error()
		}
		defer uc.Close()
		port = uc.LocalAddr().(*net.UDPAddr).Port
		go func() {
			b := make([]byte, 2048)
			for {
				if _, _, err := uc.ReadFromUDP(b); err != nil {
					return
				}
			}
		}()
	} else {
		ln, err := quic.ListenAddr("127.0.0.1:0", &tls.Config{Certificates: []tls.Certificate{cert}, NextProtos: []string{"doq"}},
			&quic.Config{MaxIdleTimeout: 30 * time.Second})
		if err != nil {
			return "HARNESS-ERROR " + err.Error()
		}
		defer ln.Close()
		port = ln.Addr().(*net.UDPAddr).Port
		serveStream := func(st quic.Stream, beh string) {
			var h [2]byte
			if _, err := io.ReadFull(st, h[:]); err != nil {
				return
			}
			q := make([]byte, binary.BigEndian.Uint16(h[:]))
			if _, err := io.ReadFull(st, q); err != nil {
				return
			}
			mu.Lock()
			ph := phase
			mu.Unlock()
			if ph == 0 {
				st.Write(c14Frame(hx.BuildReply(q, false, 0, [4]byte{9, 9, 9, 9}, 60)))
				st.Close()
				return
			}
			streams.Add(1)
			switch beh {
			case "ok":
				st.Write(c14Frame(hx.BuildReply(q, false, 0, [4]byte{1, 4, 1, 4}, 60)))
				st.Close()
			case "silent":
				<-done
			case "half":
				st.Write(c14Frame(hx.BuildReply(q, false, 0, [4]byte{1, 4, 1, 4}, 60))[:7])
				<-done
			case "garbage":
				st.Write(c14Frame(c14Garbage(q)))
				st.Close()
			case "fin":
				st.Close()
			case "rst":
				st.CancelWrite(1)
			default:
				st.Close()
			}
		}
		go func() {
			for {
				c, err := ln.Accept(context.Background())
				if err != nil {
					return
				}
				mu.Lock()
				beh := "ok"
				isPooled := phase == 0
				if isPooled {
					pooled = append(pooled, c)
				} else {
					if newCount < len(dial) {
						beh = dial[newCount]
					}
					newCount++
				}
				mu.Unlock()
				if beh == "efin" {
					c.CloseWithError(0, "")
					continue
				}
				go func() {
					for {
						st, err := c.AcceptStream(context.Background())
						if err != nil {
							return
						}
						b := beh
						if isPooled && len(pool) > 0 {
							b = pool[0]
						}
						go serveStream(st, b)
					}
				}()
			}
		}()
	}

	u, err := upstream.NewUpstream(fmt.Sprintf("quic://127.0.0.1:%d", port), upstream.Opt{TLSConfig: &tls.Config{InsecureSkipVerify: true}})
	if err != nil {
		return "HARNESS-ERROR " + err.Error()
	}
	defer u.Close()
	qt, _ := u.(*transport.QuicTransport)
	name := []byte("\x03c14\x04test")
	if len(pool) > 0 {
		ctx, cancel := context.WithTimeout(context.Background(), 5*time.Second)
		_, err := u.ExchangeContext(ctx, hx.BuildQuery(0x1000, name, 1, 1, true))
		cancel()
		if err != nil || qt == nil || !qt.VerifHasConn() {
			return fmt.Sprintf("HARNESS-ERROR doq warm-up failed: %v", err)
		}
		if pool[0] == "ifin" {
			mu.Lock()
			for _, c := range pooled {
				c.CloseWithError(0, "")
			}
			mu.Unlock()
		}
	}
	mu.Lock()
	phase = 1
	mu.Unlock()
	if len(pool) > 0 {
		time.Sleep(80 * time.Millisecond)
	}
	type result struct {
		ok bool
		el time.Duration
	}
	rc := make(chan result, 1)
	go func() {
		t0 := time.Now()
		ctx, cancel := context.WithTimeout(context.Background(), dl)
		defer cancel()
		r, err := u.ExchangeContext(ctx, hx.BuildQuery(0xC014, name, 1, 1, true))
		rc <- result{ok: err == nil && r != nil && r.Header.ID == 0xC014 && len(r.Answers) == 1, el: time.Since(t0)}
	}()
	select {
	case res := <-rc:
		time.Sleep(20 * time.Millisecond)
		cls, when, late := "ERR", "early", 0
		if res.ok {
			cls = "REPLY"
		}
		if res.el >= dl {
			when = "dl"
		}
		if res.el > dl+c14Slack {
			late = 1
		}
		att := "-"
		if n := streams.Load(); n > 0 {
			att = fmt.Sprint(n)
		}
		return fmt.Sprintf("res=%s dials=- att=%s when=%s late=%d", cls, att, when, late)
	case <-time.After(dl + 5*time.Second):
		return "res=HANG dials=- att=- when=dl late=1"
	}
}
