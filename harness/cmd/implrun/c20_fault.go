package main

// Kind "ownership" (C20), round 4: FAULT paths and pooled OBJECTS, replayed with both hooks on (the poison/quarantine
// hook of internal/pool for byte buffers, the ownership hook of internal/dnsmsg for Msg / Question / resource structs).
//
//   sc=rdfault tr=<reuse|pipeline|quic> sched=<complete|eof-before-frame|short-prefix|short-body|reset-mid-body|short-body-overlap>
//        the upstream peer of a stream transport sends a reply frame that ends early (EOF or reset after the length
//        prefix and FEWER octets than announced, after half a prefix, before the prefix); later exchanges must work
//   sc=listen sched=<short-prefix|eof-before-frame|short-body|reset-mid-body>
//        the same faults from CLIENTS of the stream listeners (tcp, tls, quic, gnet) of the real router; then ordinary
//        queries through every listener must get their own answers
//   sc=fallback sched=<plain|tc-tcp-ok|tc-tcp-close|tc-tcp-refused|tc-tcp-short|tc-tcp-garbage|tc-tcp-close-overlap|udp-timeout>
//        upstream.NewUpstream("udp://..") against a scripted UDP+TCP server: truncated UDP reply and a failing TCP leg
//   sc=handover sched=<reply-no-cancel|cancel-after-reply|deadline-after-reply|cancel-before-reply>
//        reuse transport: the caller's context ends around the hand-over of the reply (the worker is parked in its
//        epilogue by contention on the transport mutex while the caller receives the reply and its context ends)
//   sc=emptyresp sched=<no-rd|opcode|qr-set|qdcount2|qdcount0|refused|reject|servfail>
//        header-only replies of the real router through every listener (not-implemented queries; no rule matches; a
//        rejecting rule; the upstream exchange fails), each followed by ordinary queries
//
//   sc=prefetch sched=<hit-last-quarter|hit-fresh>
//        a cache hit in the last quarter of the entry's life (entry placed with chosen instants) through every listener:
//        the prefetch goroutine outlives the handler; every query the upstream sees must be a question a client asked
//
// The harness plays the OWNER of every message it is given: such a message must never be reported released by the
// hook while the harness holds it ("returned-released"), must carry the reply to the harness's own query for as long as
// it is held ("damaged-reply"), and is released by the harness exactly once (a release by anybody else then shows up as
// a double-release event).

import (
	"bytes"
	"context"
	"crypto/tls"
	"encoding/binary"
	"errors"
	"fmt"
	"io"
	"math/rand"
	"net"
	"os"
	"sync"
	"syscall"
	"time"

	"github.com/IrineSistiana/mosproxy/app/router"
	"github.com/IrineSistiana/mosproxy/internal/dnsmsg"
	"github.com/IrineSistiana/mosproxy/internal/upstream"
	"github.com/IrineSistiana/mosproxy/internal/upstream/transport"
	"github.com/IrineSistiana/mosproxy/verifharness/hx"
	"github.com/quic-go/quic-go"
)

// c20AutoServe answers every frame written on g with the marked reply (id and question taken from the written query).
func c20AutoServe(g *gatedConn, mark [4]byte, k int) {
	go func() {
		for range g.wrote {
			ws := g.wire()
			for ; k < len(ws); k++ {
				if len(ws[k]) > 2 {
					if r := hx.BuildReply(ws[k][2:], false, 0, mark, 60); r != nil {
						g.feed(c20Frame(r))
					}
				}
			}
		}
	}()
}

// ---------------------------------------------------------------- sc=rdfault
func c20RdFault(trk, sched string, rng *rand.Rand, o *ownOutcome) error {
	peer := &c20Peer{newCh: make(chan *gatedConn, 64), open: true}
	var tr transport.Transport
	idOff := -1
	switch trk {
	case "reuse":
		tr = transport.NewReuseConnTransport(transport.ReuseConnOpts{
			DialContext: func(ctx context.Context) (net.Conn, error) { return peer.next(), nil }})
	case "pipeline":
		idOff = 2
		tr = transport.NewPipelineTransport(transport.PipelineOpts{IsTCP: true,
			DialContext: func(ctx context.Context) (net.Conn, error) { return peer.next(), nil }})
	case "quic":
		idOff = 2
		tr = transport.NewQuicTransport(transport.QuicTransportOpts{
			DialContext: func(ctx context.Context) (quic.Connection, error) {
				cctx, cancel := context.WithCancel(context.Background())
				return &fakeQConn{ctx: cctx, cancel: cancel, next: peer.next}, nil
			}})
	default:
		return errors.New("unknown transport " + trk)
	}
	defer tr.Close()
	mark := [4]byte{7, 7, 7, byte(rng.Intn(250))}
	qid := uint16(rng.Intn(65536))
	q, name := c20Query(rng, qid)
	own := c20Frame(q)
	exchange := func(ctx context.Context) chan exRes {
		ch := make(chan exRes, 1)
		go func() {
			m, err := tr.ExchangeContext(ctx, q)
			ch <- exRes{m, err}
		}()
		return ch
	}
	ctx, cancel := context.WithTimeout(context.Background(), c20Wait)
	defer cancel()
	ch := exchange(ctx)
	g := peer.await()
	if g == nil || !waitCh(g.wrote, c20Wait) {
		return errors.New("no write")
	}
	w := g.wire()[0]
	r := hx.BuildReply(w[2:], false, 0, mark, 60)
	fr := c20Frame(r)
	// every LATER connection / stream answers properly (a transport may retry on a fresh connection)
	stop := make(chan struct{})
	defer close(stop)
	var later []*gatedConn
	var lmu sync.Mutex
	go func() {
		for {
			select {
			case g2 := <-peer.newCh:
				lmu.Lock()
				later = append(later, g2)
				lmu.Unlock()
				c20AutoServe(g2, mark, 0)
			case <-stop:
				return
			}
		}
	}()
	cut := 2 + rng.Intn(len(r)) // 0 .. len(r)-1 octets of the announced body
	switch sched {
	case "complete":
		g.feed(fr)
		c20AutoServe(g, mark, 1) // the connection stays in use
	case "eof-before-frame":
		g.Close()
	case "short-prefix":
		g.feed(fr[:1])
		g.Close()
	case "short-body", "short-body-overlap":
		g.feed(fr[:cut])
		g.Close()
	case "reset-mid-body":
		g.feed(fr[:cut])
		g.failRead(syscall.ECONNRESET)
	default:
		return errors.New("unknown schedule " + sched)
	}
	take := func(ch chan exRes) (*dnsmsg.Msg, error) {
		select {
		case r := <-ch:
			o.ret(r.err)
			if r.err != nil {
				return nil, nil
			}
			if dnsmsg.VerifObjReleased(r.m) {
				o.rets = append(o.rets, "returned-released")
				o.bad = true
			}
			return r.m, nil
		case <-time.After(c20Wait + time.Second):
			return nil, errors.New("exchange did not return")
		}
	}
	m1, err := take(ch)
	if err != nil {
		return err
	}
	// follow-up exchanges: sequential, or (overlap) concurrent while the first reply (if any) is still held
	n := 3
	var held []*dnsmsg.Msg
	if m1 != nil {
		held = append(held, m1)
	}
	if sched == "short-body-overlap" {
		var chs []chan exRes
		for i := 0; i < n; i++ {
			chs = append(chs, exchange(context.Background()))
		}
		for _, c := range chs {
			m, err := take(c)
			if err != nil {
				return err
			}
			if m != nil {
				held = append(held, m)
			}
		}
	} else {
		for i := 0; i < n; i++ {
			m, err := take(exchange(context.Background()))
			if err != nil {
				return err
			}
			if m != nil {
				held = append(held, m)
			}
		}
	}
	for i, m := range held {
		for j := 0; j < i; j++ {
			if held[j] == m {
				o.rets = append(o.rets, "same-object-twice")
				o.bad = true
			}
		}
		if dnsmsg.VerifObjReleased(m) || !c20ReplyOK(m, name, mark, qid) {
			o.bad = true
		}
	}
	for _, m := range held {
		dnsmsg.ReleaseMsg(m)
	}
	cls := func(g *gatedConn) {
		for _, w := range g.wire() {
			o.wires = append(o.wires, c20Classify(w, own, idOff))
		}
	}
	cls(g)
	lmu.Lock()
	for _, g2 := range later {
		cls(g2)
	}
	lmu.Unlock()
	time.Sleep(5 * time.Millisecond)
	return nil
}

// ---------------------------------------------------------------- router scenarios (listen, emptyresp)

// a name whose keyed upstream class is "plain"
func c20PlainName(rng *rand.Rand) []byte {
	for {
		_, name := c20Query(rng, 0)
		q := hx.BuildQuery(0, name, 1, 1, true)
		if hx.KeyedClass(hx.QuestionKey(q)) == "plain" {
			return name
		}
	}
}

// one ordinary A query through listener l: "ok" when the response is the keyed answer to exactly this question
func c20GoodQuery(env *hx.RouterEnv, l string, rng *rand.Rand) string {
	return c20KeyedQuery(env, l, c20PlainName(rng), rng)
}

func c20KeyedQuery(env *hx.RouterEnv, l string, name []byte, rng *rand.Rand) string {
	id := uint16(rng.Intn(65536))
	q := hx.BuildQuery(id, name, 1, 1, true)
	resps, status := env.Query(l, q, "-", 3*time.Second, 0)
	if status != "ok" || len(resps) == 0 {
		return "noresp(" + status + ")"
	}
	if hasPoison(resps[0]) {
		return "poison"
	}
	m, err := dnsmsg.UnpackMsg(resps[0])
	if err != nil {
		return "undecodable"
	}
	defer dnsmsg.ReleaseMsg(m)
	key := hx.QuestionKey(q)
	if m.Header.ID != id || !m.Header.Response || len(m.Questions) != 1 {
		return "bad-response"
	}
	rq := hx.BuildQuery(0, m.Questions[0].Name, uint16(m.Questions[0].Type), uint16(m.Questions[0].Class), true)
	if hx.QuestionKey(rq) != key {
		return "bad-response"
	}
	if m.Header.RCode != dnsmsg.RCodeSuccess {
		return "rcode"
	}
	want := hx.KeyedAnswer(key)
	if len(m.Answers) != len(want) {
		return "bad-response"
	}
	for i, rr := range m.Answers {
		a, ok := rr.(*dnsmsg.A)
		if !ok || a.A != want[i] {
			return "bad-response"
		}
	}
	return "ok"
}

func c20RouterEnv(tls bool) (*hx.RouterEnv, error) {
	return c20RouterEnvSpec("U=u;E=0;S=-;R=-:0:0:0", tls)
}

func c20RouterEnvSpec(spec string, tls bool) (*hx.RouterEnv, error) {
	router.VerifQuiet()
	if tls {
		spec += ";T=1"
	}
	var env *hx.RouterEnv
	var err error
	for attempt := 0; attempt < 5 && env == nil; attempt++ {
		func() {
			defer func() {
				if rec := recover(); rec != nil {
					err = fmt.Errorf("router start panicked: %v", rec)
				}
			}()
			env, err = hx.NewRouterEnv(spec)
		}()
	}
	if env == nil {
		return nil, err
	}
	env.EnableKeyed(60, 0)
	return env, nil
}

// one faulty client on stream listener l
func c20FaultClient(env *hx.RouterEnv, l, sched string, rng *rand.Rand) string {
	port := env.Ports[l]
	announced := []int{40, 64, 100, 300, 1400, 5000}[rng.Intn(6)]
	q, _ := c20Query(rng, uint16(rng.Intn(65536)))
	body := q
	if len(body) >= announced {
		body = body[:announced-1]
	}
	body = body[:1+rng.Intn(len(body))] // at least one octet, fewer than announced
	var data []byte
	switch sched {
	case "eof-before-frame":
	case "short-prefix":
		data = []byte{0}
	default:
		data = append(binary.BigEndian.AppendUint16(nil, uint16(announced)), body...)
	}
	reset := sched == "reset-mid-body"
	drain := func(c io.Reader, set func(time.Time) error) {
		set(time.Now().Add(300 * time.Millisecond))
		io.Copy(io.Discard, c)
	}
	switch l {
	case "tcp", "gnet":
		c, err := net.DialTimeout("tcp", fmt.Sprintf("127.0.0.1:%d", port), time.Second)
		if err != nil {
			return "dial-error"
		}
		c.Write(data)
		tc := c.(*net.TCPConn)
		if reset {
			time.Sleep(5 * time.Millisecond) // let the server read what was sent before the RST discards it
			tc.SetLinger(0)
			tc.Close()
			return "reset"
		}
		tc.CloseWrite()
		drain(c, c.SetReadDeadline)
		c.Close()
		return "fin"
	case "tls":
		d := &net.Dialer{Timeout: time.Second}
		c, err := tls.DialWithDialer(d, "tcp", fmt.Sprintf("127.0.0.1:%d", port), &tls.Config{InsecureSkipVerify: true})
		if err != nil {
			return "dial-error"
		}
		c.Write(data)
		if reset {
			time.Sleep(5 * time.Millisecond)
			if tc, ok := c.NetConn().(*net.TCPConn); ok {
				tc.SetLinger(0)
			}
			c.NetConn().Close()
			return "reset"
		}
		c.CloseWrite()
		drain(c, c.SetReadDeadline)
		c.Close()
		return "fin"
	case "quic":
		ctx, cancel := context.WithTimeout(context.Background(), 2*time.Second)
		defer cancel()
		c, err := quic.DialAddr(ctx, fmt.Sprintf("127.0.0.1:%d", port), &tls.Config{InsecureSkipVerify: true, NextProtos: []string{"doq"}}, nil)
		if err != nil {
			return "dial-error"
		}
		defer c.CloseWithError(0, "")
		st, err := c.OpenStreamSync(ctx)
		if err != nil {
			return "dial-error"
		}
		if len(data) == 0 {
			data = nil
		}
		st.Write(data)
		if reset {
			time.Sleep(5 * time.Millisecond)
			st.CancelWrite(1)
			time.Sleep(10 * time.Millisecond)
			return "reset"
		}
		st.Close()
		drain(st, st.SetReadDeadline)
		return "fin"
	}
	return "?"
}

func c20Listen(sched string, rng *rand.Rand, o *ownOutcome) error {
	env, err := c20RouterEnv(true)
	if err != nil {
		return err
	}
	closed := false
	defer func() {
		if !closed {
			env.Close()
		}
	}()
	ls := []string{"tcp", "tls", "quic", "gnet"}
	for round := 0; round < 2; round++ {
		for _, l := range ls {
			st := c20FaultClient(env, l, sched, rng)
			if st == "dial-error" {
				return errors.New("faulty client could not connect to " + l)
			}
		}
		for _, l := range append([]string{"udp"}, ls...) {
			st := c20GoodQuery(env, l, rng)
			o.rets = append(o.rets, l+":"+st)
			if st == "poison" || st == "bad-response" || st == "undecodable" {
				o.bad = true
			}
		}
	}
	time.Sleep(10 * time.Millisecond)
	env.Close()
	closed = true
	time.Sleep(10 * time.Millisecond)
	return nil
}

// zones of the emptyresp scenarios: names under "rej" are rejected by a rule (NXDOMAIN), names under "fwd" are forwarded,
// anything else matches no rule (REFUSED)
func c20ZoneName(rng *rand.Rand, zone string) []byte {
	_, name := c20Query(rng, 0)
	if len(name) > 40 {
		name = name[:0]
		name = append(name, 3, 'w', 'w', 'w')
	}
	name = append(name, byte(len(zone)))
	return append(name, zone...)
}

func c20EmptyResp(sched string, rng *rand.Rand, o *ownOutcome) error {
	rej := hx.Hex([]byte{3, 'r', 'e', 'j'})
	fwd := hx.Hex([]byte{3, 'f', 'w', 'd'})
	env, err := c20RouterEnvSpec("U=u;E=0;S=d."+rej+",d."+fwd+";R=0:0:3:-,1:0:0:0", false)
	if err != nil {
		return err
	}
	closed := false
	defer func() {
		if !closed {
			env.Close()
		}
	}()
	good := func(l string) {
		// an ordinary forwarded query: the keyed answer of exactly this question
		var name []byte
		for {
			name = c20ZoneName(rng, "fwd")
			if hx.KeyedClass(hx.QuestionKey(hx.BuildQuery(0, name, 1, 1, true))) != "fail" {
				break
			}
		}
		st := c20KeyedQuery(env, l, name, rng)
		o.rets = append(o.rets, l+":"+st)
		if st == "poison" || st == "bad-response" || st == "undecodable" {
			o.bad = true
		}
	}
	ls := []string{"udp", "tcp", "gnet", "http-post", "fasthttp-post", "http-get"}
	for _, l := range ls {
		for rep := 0; rep < 2; rep++ {
			id := uint16(rng.Intn(65536))
			name := c20ZoneName(rng, "fwd")
			want := dnsmsg.RCodeNotImplemented
			switch sched {
			case "refused": // no rule matches
				name = c20ZoneName(rng, "other")
				want = dnsmsg.RCodeRefused
			case "reject": // a rule with a reject rcode
				name = c20ZoneName(rng, "rej")
				want = dnsmsg.RCodeNameError
			case "servfail": // the upstream exchange fails (truncated UDP reply, then the TCP connection is closed)
				for hx.KeyedClass(hx.QuestionKey(hx.BuildQuery(0, name, 1, 1, true))) != "fail" {
					name = c20ZoneName(rng, "fwd")
				}
				want = dnsmsg.RCodeServerFailure
			}
			q := hx.BuildQuery(id, name, 1, 1, true)
			switch sched {
			case "no-rd":
				q[2] &^= 1
			case "opcode":
				q[2] |= byte(1+rng.Intn(5)) << 3
			case "qr-set":
				q[2] |= 0x80
			case "qdcount2":
				q2 := hx.BuildQuery(0, c20ZoneName(rng, "fwd"), 1, 1, true)
				q = append(q, q2[12:]...)
				q[5] = 2
			case "qdcount0":
				q = q[:12]
				q[5] = 0
			case "refused", "reject", "servfail":
			default:
				return errors.New("unknown schedule " + sched)
			}
			resps, status := env.Query(l, q, "-", 3*time.Second, 0)
			tok := "hdronly"
			if status != "ok" || len(resps) == 0 {
				tok = "noresp(" + status + ")"
			} else if hasPoison(resps[0]) {
				tok = "poison"
				o.bad = true
			} else if m, err := dnsmsg.UnpackMsg(resps[0]); err != nil {
				tok = "undecodable"
				o.bad = true
			} else {
				if m.Header.ID != id || !m.Header.Response {
					tok = "bad-response"
					o.bad = true
				} else if sched != "qdcount0" && (len(m.Questions) != 1 || !bytes.EqualFold(m.Questions[0].Name, name)) {
					tok = "bad-response" // the reply must echo the FIRST question of the query
					o.bad = true
				} else if m.Header.RCode != want || len(m.Answers) != 0 {
					tok = fmt.Sprintf("rcode%d", m.Header.RCode)
				}
				dnsmsg.ReleaseMsg(m)
			}
			o.rets = append(o.rets, l+":"+tok)
		}
		// ordinary traffic afterwards: objects released with a header-only reply must not have two owners
		for rep := 0; rep < 2; rep++ {
			good(l)
		}
	}
	time.Sleep(10 * time.Millisecond)
	env.Close()
	closed = true
	time.Sleep(10 * time.Millisecond)
	return nil
}

// ---------------------------------------------------------------- sc=prefetch
func c20Prefetch(sched string, rng *rand.Rand, o *ownOutcome) error {
	env, err := c20RouterEnvSpec("U=u;E=0;S=-;R=-:0:0:0;C=4096", false)
	if err != nil {
		return err
	}
	closed := false
	defer func() {
		if !closed {
			env.Close()
		}
	}()
	ls := []string{"udp", "tcp", "gnet", "http-post", "fasthttp-post", "http-get"}
	const reps = 2
	var names [][]byte
	allowed := map[string]bool{}
	for i := 0; i < len(ls)*reps; i++ {
		n := c20PlainName(rng)
		names = append(names, n)
		allowed[hx.QuestionKey(hx.BuildQuery(0, n, 1, 1, true))] = true
	}
	env.SetKeyedAllowed(allowed) // complete before the first query (read by the fake upstream's goroutines)
	stored, expire := -100*time.Second, 10*time.Second // 10 s of 110 s left: the last quarter
	if sched == "hit-fresh" {
		stored, expire = -time.Second, 100*time.Second
	} else if sched != "hit-last-quarter" {
		return errors.New("unknown schedule " + sched)
	}
	for i, name := range names {
		l := ls[i%len(ls)]
		if err := env.R.VerifC19StoreAt(hx.KeyedReply(hx.BuildQuery(0, name, 1, 1, true), 60), stored, expire); err != nil {
			return err
		}
		st := c20KeyedQuery(env, l, name, rng)
		o.rets = append(o.rets, l+":"+st)
		if st == "poison" || st == "bad-response" || st == "undecodable" {
			o.bad = true
		}
	}
	for i := 0; i < 400 && env.R.VerifPrefetchInflight() > 0; i++ {
		time.Sleep(5 * time.Millisecond)
	}
	time.Sleep(5 * time.Millisecond)
	o.rets = append(o.rets, fmt.Sprintf("upq:%d", env.KeyedCount.Load()))
	if n := env.KeyedForeign.Load(); n > 0 {
		// the upstream was asked something no client asked: a question read after its release (poison: the root name with
		// type 56283) or another request's question
		sample, _ := env.KeyedForeignSample.Load().(string)
		fmt.Fprintf(os.Stderr, "C20 prefetch: %d upstream queries for questions nobody asked, first: %s\n", n, sample)
		o.rets = append(o.rets, fmt.Sprintf("up:foreign-question:%d", n))
		o.bad = true
	}
	env.Close()
	closed = true
	time.Sleep(10 * time.Millisecond)
	return nil
}

// ---------------------------------------------------------------- sc=fallback

type c20FbServer struct {
	uc      *net.UDPConn
	tl      net.Listener
	udpMode string // plain | tc | silent
	tcpMode string // ok | close | short | garbage | refused
	rng     *rand.Rand
	mu      sync.Mutex
}

var (
	c20MarkUDP = [4]byte{1, 1, 20, 1}
	c20MarkTC  = [4]byte{1, 1, 20, 2}
	c20MarkTCP = [4]byte{2, 2, 20, 2}
)

func (s *c20FbServer) serveUDP() {
	buf := make([]byte, 4096)
	for {
		n, addr, err := s.uc.ReadFromUDP(buf)
		if err != nil {
			return
		}
		q := append([]byte(nil), buf[:n]...)
		switch s.udpMode {
		case "plain":
			s.uc.WriteToUDP(hx.BuildReply(q, false, 0, c20MarkUDP, 60), addr)
		case "tc":
			s.uc.WriteToUDP(hx.BuildReply(q, true, 0, c20MarkTC, 60), addr)
		}
	}
}

func (s *c20FbServer) serveTCP() {
	for {
		c, err := s.tl.Accept()
		if err != nil {
			return
		}
		go func() {
			defer c.Close()
			for {
				var h [2]byte
				if _, err := io.ReadFull(c, h[:]); err != nil {
					return
				}
				q := make([]byte, binary.BigEndian.Uint16(h[:]))
				if _, err := io.ReadFull(c, q); err != nil {
					return
				}
				r := hx.BuildReply(q, false, 0, c20MarkTCP, 60)
				switch s.tcpMode {
				case "ok":
					c.Write(c20Frame(r))
				case "close":
					return
				case "short":
					s.mu.Lock()
					cut := 2 + s.rng.Intn(len(r))
					s.mu.Unlock()
					c.Write(c20Frame(r)[:cut])
					return
				case "garbage":
					c.Write([]byte{0, 5, q[0], q[1], 0xff, 0xff, 0xff})
				}
			}
		}()
	}
}

func c20ListenPair() (*net.UDPConn, net.Listener, error) {
	for i := 0; i < 50; i++ {
		tl, err := net.Listen("tcp", "127.0.0.1:0")
		if err != nil {
			return nil, nil, err
		}
		port := tl.Addr().(*net.TCPAddr).Port
		uc, err := net.ListenUDP("udp", &net.UDPAddr{IP: net.IPv4(127, 0, 0, 1), Port: port})
		if err != nil {
			tl.Close()
			continue
		}
		return uc, tl, nil
	}
	return nil, nil, errors.New("no free udp+tcp port pair")
}

func c20Fallback(sched string, rng *rand.Rand, o *ownOutcome) error {
	modes := map[string][2]string{
		"plain": {"plain", "ok"}, "tc-tcp-ok": {"tc", "ok"}, "tc-tcp-close": {"tc", "close"},
		"tc-tcp-refused": {"tc", "refused"}, "tc-tcp-short": {"tc", "short"}, "tc-tcp-garbage": {"tc", "garbage"},
		"tc-tcp-close-overlap": {"tc", "close"}, "udp-timeout": {"silent", "ok"},
	}
	md, ok := modes[sched]
	if !ok {
		return errors.New("unknown schedule " + sched)
	}
	start := func(udpMode, tcpMode string) (*c20FbServer, upstream.Upstream, error) {
		uc, tl, err := c20ListenPair()
		if err != nil {
			return nil, nil, err
		}
		s := &c20FbServer{uc: uc, tl: tl, udpMode: udpMode, tcpMode: tcpMode, rng: rand.New(rand.NewSource(rng.Int63()))}
		port := tl.Addr().(*net.TCPAddr).Port
		go s.serveUDP()
		if tcpMode == "refused" {
			tl.Close() // nothing listens on tcp: the dial is refused
		} else {
			go s.serveTCP()
		}
		u, err := upstream.NewUpstream(fmt.Sprintf("udp://127.0.0.1:%d", port), upstream.Opt{})
		if err != nil {
			uc.Close()
			tl.Close()
			return nil, nil, err
		}
		return s, u, nil
	}
	s, u, err := start(md[0], md[1])
	if err != nil {
		return err
	}
	defer func() { u.Close(); s.uc.Close(); s.tl.Close() }()
	// a healthy second upstream = "other requests"
	s2, u2, err := start("plain", "ok")
	if err != nil {
		return err
	}
	defer func() { u2.Close(); s2.uc.Close(); s2.tl.Close() }()

	type held struct {
		m    *dnsmsg.Msg
		id   uint16
		name []byte
		mark [][4]byte
	}
	var hs []held
	check := func(h held) bool {
		if dnsmsg.VerifObjReleased(h.m) {
			return false
		}
		for _, mk := range h.mark {
			if c20ReplyOK(h.m, h.name, mk, h.id) {
				return true
			}
		}
		return false
	}
	do := func(u upstream.Upstream, marks [][4]byte, dl time.Duration) error {
		id := uint16(rng.Intn(65536))
		q, name := c20Query(rng, id)
		ctx, cancel := context.WithTimeout(context.Background(), dl)
		defer cancel()
		done := make(chan exRes, 1)
		go func() {
			m, err := u.ExchangeContext(ctx, q)
			done <- exRes{m, err}
		}()
		select {
		case r := <-done:
			if r.err != nil {
				o.rets = append(o.rets, "err")
				return nil
			}
			if r.m == nil {
				o.rets = append(o.rets, "nil-nil")
				o.bad = true
				return nil
			}
			h := held{r.m, id, name, marks}
			tok := "ok"
			if dnsmsg.VerifObjReleased(r.m) {
				tok = "returned-released"
				o.bad = true
			} else if !check(h) {
				tok = "not-own-reply"
				o.bad = true
			}
			o.rets = append(o.rets, tok)
			hs = append(hs, h)
		case <-time.After(dl + 2*time.Second):
			return errors.New("exchange did not return")
		}
		return nil
	}
	any3 := [][4]byte{c20MarkUDP, c20MarkTC, c20MarkTCP}
	dl := 2 * time.Second
	if sched == "udp-timeout" {
		dl = 60 * time.Millisecond
	}
	reps := 2
	for i := 0; i < reps; i++ {
		if err := do(u, any3, dl); err != nil {
			return err
		}
		if sched == "tc-tcp-close-overlap" || i == reps-1 {
			// other requests while the first caller still holds whatever it was given
			for j := 0; j < 3; j++ {
				if err := do(u2, [][4]byte{c20MarkUDP}, 2*time.Second); err != nil {
					return err
				}
			}
		}
	}
	// everything held must still be the reply to its own query; no object may be held twice
	for i, h := range hs {
		for j := 0; j < i; j++ {
			if hs[j].m == h.m {
				o.rets = append(o.rets, "same-object-twice")
				o.bad = true
			}
		}
		if !check(h) {
			o.bad = true
		}
	}
	for _, h := range hs {
		dnsmsg.ReleaseMsg(h.m) // the caller releases what it was given
	}
	time.Sleep(5 * time.Millisecond)
	return nil
}

// ---------------------------------------------------------------- sc=handover

func c20Handover(sched string, rng *rand.Rand, o *ownOutcome) error {
	peer := &c20Peer{newCh: make(chan *gatedConn, 64), open: true}
	rt := transport.NewReuseConnTransport(transport.ReuseConnOpts{
		DialContext: func(ctx context.Context) (net.Conn, error) { return peer.next(), nil }})
	defer rt.Close()
	mark := [4]byte{6, 6, 6, byte(rng.Intn(250))}
	type call struct {
		q    []byte
		name []byte
		id   uint16
	}
	mk := func() call {
		id := uint16(rng.Intn(65536))
		q, name := c20Query(rng, id)
		return call{q, name, id}
	}
	exchange := func(ctx context.Context, c call) chan exRes {
		ch := make(chan exRes, 1)
		go func() {
			m, err := rt.ExchangeContext(ctx, c.q)
			ch <- exRes{m, err}
		}()
		return ch
	}
	type held struct {
		m *dnsmsg.Msg
		c call
	}
	var hs []held
	get := func(ch chan exRes, c call) error {
		select {
		case r := <-ch:
			o.ret(r.err)
			if r.err == nil {
				if r.m == nil {
					o.rets = append(o.rets, "nil-nil")
					o.bad = true
					return nil
				}
				if dnsmsg.VerifObjReleased(r.m) {
					o.rets = append(o.rets, "returned-released")
					o.bad = true
				}
				hs = append(hs, held{r.m, c})
			}
			return nil
		case <-time.After(c20Wait):
			return errors.New("exchange did not return")
		}
	}
	// the connection every exchange of this scenario runs on (the first one dials it)
	var g *gatedConn
	written := func() error {
		if g == nil {
			g = peer.await()
			if g == nil {
				return errors.New("no dial")
			}
		} else {
			select {
			case g2 := <-peer.newCh:
				g = g2
			default:
			}
		}
		if !waitCh(g.wrote, c20Wait) {
			select {
			case g2 := <-peer.newCh: // the parked connection was not reused: a fresh dial
				g = g2
				if !waitCh(g.wrote, c20Wait) {
					return errors.New("no write")
				}
			default:
				return errors.New("no write")
			}
		}
		return nil
	}
	replyLast := func() {
		ws := g.wire()
		g.feed(c20Frame(hx.BuildReply(ws[len(ws)-1][2:], false, 0, mark, 60)))
	}
	settle := func() {
		// wait until the worker of the last exchange has parked the connection, then a little longer for whatever it
		// still does after that
		for i := 0; i < 400; i++ {
			if idle, _, _, _ := rt.VerifC06Stats(); idle >= 1 {
				break
			}
			time.Sleep(250 * time.Microsecond)
		}
		time.Sleep(3 * time.Millisecond)
	}
	rounds := 3
	for round := 0; round < rounds; round++ {
		c := mk()
		switch sched {
		case "reply-no-cancel":
			ch := exchange(context.Background(), c)
			if err := written(); err != nil {
				return err
			}
			replyLast()
			if err := get(ch, c); err != nil {
				return err
			}
			settle()
		case "cancel-after-reply", "deadline-after-reply":
			// contention on the transport mutex parks the worker in its epilogue (releaseConn) right after the hand-over;
			// meanwhile the caller receives the reply and its context ends (defer cancel() / the deadline)
			var ctx context.Context
			var cancel context.CancelFunc
			if sched == "cancel-after-reply" {
				ctx, cancel = context.WithCancel(context.Background())
			} else {
				ctx, cancel = context.WithTimeout(context.Background(), 25*time.Millisecond)
			}
			ch := exchange(ctx, c)
			if err := written(); err != nil {
				cancel()
				return err
			}
			var gerr error
			rt.VerifC20WithLock(func() {
				replyLast()
				gerr = get(ch, c)
				if sched == "cancel-after-reply" {
					cancel()
				} else {
					<-ctx.Done()
				}
				time.Sleep(time.Millisecond)
			})
			cancel()
			if gerr != nil {
				return gerr
			}
			settle()
		case "cancel-before-reply":
			ctx, cancel := context.WithCancel(context.Background())
			ch := exchange(ctx, c)
			if err := written(); err != nil {
				cancel()
				return err
			}
			cancel()
			if err := get(ch, c); err != nil {
				return err
			}
			replyLast() // late reply: handed over to nobody
			settle()
		default:
			return errors.New("unknown schedule " + sched)
		}
	}
	// the held replies must still be the replies to their own queries
	for i, h := range hs {
		for j := 0; j < i; j++ {
			if hs[j].m == h.m {
				o.rets = append(o.rets, "same-object-twice")
				o.bad = true
			}
		}
		if dnsmsg.VerifObjReleased(h.m) {
			o.rets = append(o.rets, "released-while-held")
			o.bad = true
		} else if !c20ReplyOK(h.m, h.c.name, mark, h.c.id) {
			o.bad = true
		}
	}
	for _, h := range hs {
		dnsmsg.ReleaseMsg(h.m)
	}
	time.Sleep(3 * time.Millisecond)
	return nil
}
