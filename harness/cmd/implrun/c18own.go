package main

// C18, kind "upown": an upstream closes EVERY transport / socket it owns.
//
// A real upstream.NewUpstream of each scheme is driven against a local, name-steered fake server so that
// every transport and socket the upstream can own exists at the moment of Close - idle and in flight
// (udp: the UDP pipeline socket AND the TCP fallback ReuseConnTransport with idle and busy connections;
// tcp/tls: idle and busy reusable connections; pipelined: shared, busy, end-of-life connections; https:
// pooled h2 / http/1.1 connections; h3, quic: QUIC connection + the UDP socket made by NewUpstream).
// Then: Close (timed), Close again, the exchanges that were in flight, a new exchange, a new exchange on each
// leg of a udp upstream, the sockets of the process that the upstream created (through Opt.Control) and the
// stream connections the fake server still sees open.
//
//   case:   <id> up=<udp|tcp|tcp+pipeline|tls|tls+pipeline|https|h3|quic> plan=<step,step,..|-> [q0=<n>] [alpn=h1]
//           step: ok  answered                          (udp: by UDP, no TC)
//                 tc  udp only: UDP answers TC=1, the TCP fallback answers
//                 mu  never answered (in flight at Close; udp: on the UDP socket)
//                 tm  udp only: UDP answers TC=1, the TCP fallback never answers (in flight on the fallback)
//           q0:   every pipelined connection starts at wire id q0 (65535: one query per connection, it is
//                 at its end of life while that query is in flight)
//   result: close=<ok> close2=<ok> pre=<udp>/<tcp> infl=<err|ok|late,..|-> after=<err|ok> legs=<err|ok,..|->
//           udp=<n> tcp=<n> srv=<n>
//           pre:  sockets of the upstream open just before Close (- when not deterministic: q0, alpn=h1)
//           infl: per in-flight exchange: err = failed within 2 s of Close, late = did not, ok = succeeded
//           legs: udp only: a new exchange on the UDP leg, on the TCP fallback leg (tc name)
//           udp/tcp: sockets created by the upstream still open after Close (1.5 s grace), srv: stream
//           connections the fake server has accepted and not yet seen closed - both counted BEFORE the
//           after / legs probes (a leg that was not closed dials again when probed)

import (
	"bytes"
	"context"
	"crypto/tls"
	"encoding/base64"
	"encoding/binary"
	"errors"
	"fmt"
	"io"
	"net"
	"net/http"
	"os"
	"os/exec"
	"runtime/debug"
	"strings"
	"sync"
	"sync/atomic"
	"syscall"
	"time"

	"github.com/IrineSistiana/mosproxy/internal/upstream"
	"github.com/IrineSistiana/mosproxy/internal/upstream/transport"
	"github.com/IrineSistiana/mosproxy/verifharness/hx"
	"github.com/quic-go/quic-go"
	"github.com/quic-go/quic-go/http3"
)

func init() {
	register("upown", 6, runUpOwnParent)
	register("upown1", 1, runUpOwnChild)
}

// parent: one child process per case (an unrecoverable crash is a result, sockets are counted per process)
func runUpOwnParent(id string, parts []string) string {
	cmd := exec.Command(os.Args[0], "upown1")
	cmd.Stdin = strings.NewReader(id + " " + strings.Join(parts, " ") + "\n")
	var out, errb bytes.Buffer
	cmd.Stdout = &out
	cmd.Stderr = &errb
	done := make(chan error, 1)
	if err := cmd.Start(); err != nil {
		return "HARNESS-ERROR " + err.Error()
	}
	go func() { done <- cmd.Wait() }()
	select {
	case <-done:
	case <-time.After(40 * time.Second):
		cmd.Process.Kill()
		return "HANG child did not finish"
	}
	for _, l := range strings.Split(out.String(), "\n") {
		if strings.HasPrefix(l, "R "+id+" ") {
			return strings.TrimPrefix(l, "R "+id+" ")
		}
	}
	return "CRASH"
}

// ------------------------------------------------------------------------------------------ fake server

type uoServer struct {
	mu       sync.Mutex
	open     map[net.Conn]struct{} // stream connections accepted and not yet seen closed
	muteSeen atomic.Int64          // mute queries that have arrived on their final transport
	stop     chan struct{}
	closers  []func()
}

func newUoServer() *uoServer {
	return &uoServer{open: map[net.Conn]struct{}{}, stop: make(chan struct{})}
}

func (s *uoServer) openCount() int {
	s.mu.Lock()
	defer s.mu.Unlock()
	return len(s.open)
}

func (s *uoServer) Close() {
	close(s.stop)
	for _, f := range s.closers {
		f()
	}
	s.mu.Lock()
	for c := range s.open {
		c.Close()
	}
	s.mu.Unlock()
}

// class of a query: the first two octets of the first label
func uoClass(q []byte) string {
	if len(q) < 15 || q[12] < 2 {
		return "ok"
	}
	return string(q[13:15])
}

func uoName(class string) []byte { return []byte("\x02" + class + "\x04test") }

// stream = true: a stream transport (tcp, tls, doq, doh); false: the UDP side of a udp upstream.
// Returns the reply, or nil for "never answer".
func (s *uoServer) answer(q []byte, stream bool) []byte {
	switch uoClass(q) {
	case "mu":
		s.muteSeen.Add(1)
		return nil
	case "tm":
		if stream {
			s.muteSeen.Add(1)
			return nil
		}
		return hx.BuildReply(q, true, 0, c17mark, 60)
	case "tc":
		if !stream {
			return hx.BuildReply(q, true, 0, c17mark, 60)
		}
	}
	return hx.BuildReply(q, false, 0, c17mark, 60)
}

func (s *uoServer) serveStreamConn(c io.ReadWriter) {
	var wmu sync.Mutex
	for {
		var h [2]byte
		if _, err := io.ReadFull(c, h[:]); err != nil {
			return
		}
		q := make([]byte, binary.BigEndian.Uint16(h[:]))
		if _, err := io.ReadFull(c, q); err != nil {
			return
		}
		r := s.answer(q, true)
		if r == nil {
			continue
		}
		out := binary.BigEndian.AppendUint16(nil, uint16(len(r)))
		wmu.Lock()
		_, err := c.Write(append(out, r...))
		wmu.Unlock()
		if err != nil {
			return
		}
	}
}

func (s *uoServer) serveTCP(l net.Listener, wrap func(net.Conn) net.Conn) {
	for {
		c, err := l.Accept()
		if err != nil {
			return
		}
		s.mu.Lock()
		s.open[c] = struct{}{}
		s.mu.Unlock()
		go func() {
			var rw net.Conn = c
			if wrap != nil {
				rw = wrap(c)
			}
			s.serveStreamConn(rw)
			// the connection counts as open until the CLIENT has closed it (a failed TLS handshake ends
			// serveStreamConn, but only the client's FIN shows that the client released its socket)
			c.SetReadDeadline(time.Now().Add(4 * time.Second))
			io.Copy(io.Discard, c)
			c.Close()
			s.mu.Lock()
			delete(s.open, c)
			s.mu.Unlock()
		}()
	}
}

func (s *uoServer) serveUDP(pc net.PacketConn) {
	buf := make([]byte, 4096)
	for {
		n, addr, err := pc.ReadFrom(buf)
		if err != nil {
			return
		}
		if r := s.answer(append([]byte(nil), buf[:n]...), false); r != nil {
			pc.WriteTo(r, addr)
		}
	}
}

func (s *uoServer) ServeHTTP(w http.ResponseWriter, r *http.Request) {
	var q []byte
	if r.Method == http.MethodGet {
		q, _ = base64.RawURLEncoding.DecodeString(r.URL.Query().Get("dns"))
	} else {
		q, _ = io.ReadAll(io.LimitReader(r.Body, 65535))
	}
	resp := s.answer(q, true)
	if resp == nil {
		select {
		case <-r.Context().Done():
		case <-s.stop:
		case <-time.After(20 * time.Second):
		}
		return
	}
	w.Header().Set("Content-Type", "application/dns-message")
	w.Write(resp)
}

// start the fake server of scheme sc on a loopback port; returns its address
func (s *uoServer) start(sc string, cert *tls.Certificate, alpn string) (string, error) {
	seen := &c17Seen{}
	switch sc {
	case "udp":
		for i := 0; i < 30; i++ {
			tl, err := net.Listen("tcp", "127.0.0.1:0")
			if err != nil {
				return "", err
			}
			pc, err := net.ListenPacket("udp", tl.Addr().String())
			if err != nil {
				tl.Close()
				continue
			}
			go s.serveTCP(tl, nil)
			go s.serveUDP(pc)
			s.closers = append(s.closers, func() { tl.Close(); pc.Close() })
			return tl.Addr().String(), nil
		}
		return "", errors.New("no udp+tcp pair")
	case "tcp", "tls":
		l, err := net.Listen("tcp", "127.0.0.1:0")
		if err != nil {
			return "", err
		}
		var wrap func(net.Conn) net.Conn
		if sc == "tls" {
			cfg := c17ServerTLS(*cert, seen, nil, nil)
			wrap = func(c net.Conn) net.Conn { return tls.Server(c, cfg) }
		}
		go s.serveTCP(l, wrap)
		s.closers = append(s.closers, func() { l.Close() })
		return l.Addr().String(), nil
	case "https":
		l, err := net.Listen("tcp", "127.0.0.1:0")
		if err != nil {
			return "", err
		}
		protos := []string{"h2", "http/1.1"}
		if alpn == "h1" {
			protos = []string{"http/1.1"}
		}
		hs := &http.Server{Handler: s, ErrorLog: nullLogger, TLSConfig: c17ServerTLS(*cert, seen, protos, nil)}
		if alpn == "h1" {
			hs.TLSNextProto = map[string]func(*http.Server, *tls.Conn, http.Handler){}
		}
		hs.ConnState = func(c net.Conn, st http.ConnState) {
			s.mu.Lock()
			switch st {
			case http.StateNew:
				s.open[c] = struct{}{}
			case http.StateClosed, http.StateHijacked:
				delete(s.open, c)
			}
			s.mu.Unlock()
		}
		go hs.ServeTLS(l, "", "")
		s.closers = append(s.closers, func() { hs.Close(); l.Close() })
		return l.Addr().String(), nil
	case "h3":
		pc, err := net.ListenPacket("udp", "127.0.0.1:0")
		if err != nil {
			return "", err
		}
		h3 := &http3.Server{
			TLSConfig:  http3.ConfigureTLSConfig(c17ServerTLS(*cert, seen, nil, nil)),
			Handler:    s,
			QuicConfig: &quic.Config{MaxIdleTimeout: 8 * time.Second},
		}
		go h3.Serve(pc)
		s.closers = append(s.closers, func() { h3.Close(); pc.Close() })
		return pc.LocalAddr().String(), nil
	case "quic":
		pc, err := net.ListenPacket("udp", "127.0.0.1:0")
		if err != nil {
			return "", err
		}
		tr := &quic.Transport{Conn: pc}
		ql, err := tr.Listen(c17ServerTLS(*cert, seen, []string{"doq"}, nil), &quic.Config{MaxIdleTimeout: 8 * time.Second})
		if err != nil {
			pc.Close()
			return "", err
		}
		go func() {
			for {
				c, err := ql.Accept(context.Background())
				if err != nil {
					return
				}
				go func() {
					for {
						st, err := c.AcceptStream(context.Background())
						if err != nil {
							return
						}
						go func() {
							defer st.Close()
							s.serveStreamConn(st)
						}()
					}
				}()
			}
		}()
		s.closers = append(s.closers, func() { ql.Close(); tr.Close(); pc.Close() })
		return pc.LocalAddr().String(), nil
	}
	return "", errors.New("unknown scheme " + sc)
}

// ------------------------------------------------------------------------------------------ the case

type uoFd struct {
	fd    int
	inode string
	udp   bool
}

type uoInfl struct {
	done chan struct{}
	ok   bool
	at   time.Time
}

func runUpOwnChild(id string, parts []string) string {
	f := hx.Fields(parts)
	up := f["up"]
	sc, urlf := upCloseScheme(up)
	if sc == "" {
		return "HARNESS-ERROR unknown upstream kind"
	}
	var plan []string
	if p := f["plan"]; p != "" && p != "-" {
		plan = strings.Split(p, ",")
	}
	q0 := -1
	if v, ok := f["q0"]; ok {
		q0 = hx.MustAtoi(v)
	}
	alpn := f["alpn"]
	pki, err := c17pki()
	if err != nil {
		return "HARNESS-ERROR " + err.Error()
	}
	// hs=<untrusted|name|expired>: the server presents a certificate that the client (which then verifies against
	// the configured ca) rejects: every handshake fails on its own, nothing cancels it
	hs := f["hs"]
	leafKind := map[string]string{"": "valid", "untrusted": "unknownca", "name": "wrongname", "expired": "expired"}[hs]
	if leafKind == "" {
		return "HARNESS-ERROR unknown hs"
	}
	clientTLS := &tls.Config{InsecureSkipVerify: true}
	if hs != "" {
		clientTLS = &tls.Config{RootCAs: pki.caPool}
	}
	// a socket that is merely unreachable would be closed by its finalizer at some later collection: that is not
	// "closed by the upstream".  No collection runs in this process.
	debug.SetGCPercent(-1)
	cert, _, _, err := pki.leaf(leafKind, "127.0.0.1")
	if err != nil {
		return "HARNESS-ERROR " + err.Error()
	}
	srv := newUoServer()
	addr, err := srv.start(sc, &cert, alpn)
	if err != nil {
		return "HARNESS-ERROR " + err.Error()
	}
	defer srv.Close()

	// every socket the upstream creates goes through Opt.Control
	var mu sync.Mutex
	var fds []uoFd
	control := func(network, address string, c syscall.RawConn) error {
		c.Control(func(fd uintptr) {
			ino, _ := os.Readlink(fmt.Sprintf("/proc/self/fd/%d", fd))
			mu.Lock()
			fds = append(fds, uoFd{int(fd), ino, strings.HasPrefix(network, "udp")})
			mu.Unlock()
		})
		return nil
	}
	openFds := func() (nu, nt int) {
		mu.Lock()
		defer mu.Unlock()
		for _, r := range fds {
			ino, err := os.Readlink(fmt.Sprintf("/proc/self/fd/%d", r.fd))
			if err == nil && ino == r.inode && strings.HasPrefix(ino, "socket:") {
				if r.udp {
					nu++
				} else {
					nt++
				}
			}
		}
		return
	}
	u, err := upstream.NewUpstream(fmt.Sprintf(urlf, addr), upstream.Opt{
		TLSConfig: clientTLS,
		Control:   control,
	})
	if err != nil {
		return "HARNESS-ERROR NewUpstream: " + err.Error()
	}
	// the legs
	var pipeLeg *transport.PipelineTransport
	var reuseLeg *transport.ReuseConnTransport
	if up == "udp" {
		pipeLeg, reuseLeg = upstream.VerifUdpParts(u)
		if pipeLeg == nil || reuseLeg == nil {
			return "HARNESS-ERROR udp upstream without legs"
		}
	} else if p, ok := u.(*transport.PipelineTransport); ok {
		pipeLeg = p
	} else if r, ok := u.(*transport.ReuseConnTransport); ok {
		reuseLeg = r
	}
	if q0 >= 0 {
		if pipeLeg == nil {
			return "HARNESS-ERROR q0 on an upstream without a pipelined transport"
		}
		pipeLeg.VerifC18PresetQid(q0)
	}

	var qid uint16 = 0x4200
	exchOn := func(t transport.Transport, class string, d time.Duration) bool {
		qid++
		q := hx.BuildQuery(qid, uoName(class), 1, 1, true)
		ctx, cancel := context.WithTimeout(context.Background(), d)
		defer cancel()
		m, err := t.ExchangeContext(ctx, q)
		return err == nil && m != nil
	}
	// wait until every connection of the reuse leg is idle or serves one of the n mute exchanges
	settleReuse := func(n int) bool {
		if reuseLeg == nil {
			return true
		}
		for i := 0; i < 400; i++ {
			idle, all := reuseLeg.VerifIdleConns()
			if all-idle == n {
				return true
			}
			time.Sleep(5 * time.Millisecond)
		}
		return false
	}

	var infl []*uoInfl
	muteReuse := 0 // mute exchanges in flight on the reuse leg
	for _, st := range plan {
		switch st {
		case "hf":
			// the TLS / QUIC handshake fails (hs=): the exchange fails, and the connection that was dialled for it
			// must not stay behind
			if exchOn(u, "ok", 3*time.Second) {
				return "HARNESS-ERROR the handshake was meant to fail"
			}
		case "ok", "tc":
			if !exchOn(u, st, 3*time.Second) {
				return "HARNESS-ERROR the exchange '" + st + "' before Close failed"
			}
		case "mu", "tm":
			want := srv.muteSeen.Load() + 1
			x := &uoInfl{done: make(chan struct{})}
			infl = append(infl, x)
			qid++
			q := hx.BuildQuery(qid, uoName(st), 1, 1, true)
			go func() {
				ctx, cancel := context.WithTimeout(context.Background(), 5*time.Second)
				defer cancel()
				m, err := u.ExchangeContext(ctx, q)
				x.ok = err == nil && m != nil
				x.at = time.Now()
				close(x.done)
			}()
			seen := false
			for i := 0; i < 600; i++ {
				if srv.muteSeen.Load() >= want {
					seen = true
					break
				}
				time.Sleep(5 * time.Millisecond)
			}
			if !seen {
				return "HARNESS-ERROR the query '" + st + "' never reached the server"
			}
			if (up == "udp" && st == "tm") || (up != "udp" && reuseLeg != nil) {
				muteReuse++
			}
		default:
			return "HARNESS-ERROR unknown plan step " + st
		}
		if !settleReuse(muteReuse) {
			return "HARNESS-ERROR the reuse transport did not settle"
		}
	}
	preU, preT := openFds()
	pre := fmt.Sprintf("%d/%d", preU, preT)
	if q0 >= 0 || alpn == "h1" || hs != "" {
		pre = "-"
	}

	cl := func() string {
		done := make(chan string, 1)
		go func() {
			defer func() {
				if r := recover(); r != nil {
					done <- "panic"
				}
			}()
			u.Close()
			done <- "ok"
		}()
		select {
		case r := <-done:
			return r
		case <-time.After(2 * time.Second):
			return "hang"
		}
	}
	c1 := cl()
	tClose := time.Now()
	c2 := cl()
	if c1 == "panic" || c2 == "panic" {
		return fmt.Sprintf("PANIC! close=%s close2=%s", c1, c2)
	}
	if c1 == "hang" || c2 == "hang" {
		return fmt.Sprintf("HANG close=%s close2=%s", c1, c2)
	}
	var inflRes []string
	for _, x := range infl {
		left := time.Until(tClose.Add(2 * time.Second))
		if left < 0 {
			left = 0
		}
		select {
		case <-x.done:
			if x.ok {
				inflRes = append(inflRes, "ok")
			} else if x.at.Sub(tClose) <= 2*time.Second {
				inflRes = append(inflRes, "err")
			} else {
				inflRes = append(inflRes, "late")
			}
		case <-time.After(left):
			inflRes = append(inflRes, "late")
		}
	}
	res := func(ok bool) string {
		if ok {
			return "ok"
		}
		return "err"
	}
	var nu, nt, ns int
	for i := 0; i < 150; i++ {
		nu, nt = openFds()
		ns = srv.openCount()
		if nu == 0 && nt == 0 && ns == 0 {
			break
		}
		time.Sleep(10 * time.Millisecond)
	}
	// only now the probes: a leg that was not closed would dial again
	after := res(exchOn(u, "ok", 2*time.Second))
	legs := "-"
	if up == "udp" {
		legs = res(exchOn(pipeLeg, "ok", 2*time.Second)) + "," + res(exchOn(reuseLeg, "tc", 2*time.Second))
	}
	is := "-"
	if len(inflRes) > 0 {
		is = strings.Join(inflRes, ",")
	}
	return fmt.Sprintf("close=%s close2=%s pre=%s infl=%s after=%s legs=%s udp=%d tcp=%d srv=%d", c1, c2, pre, is, after, legs, nu, nt, ns)
}
