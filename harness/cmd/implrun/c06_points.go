package main

// Kind "reuse_cancelpoints" (C06): the caller's context is cancelled JUST BEFORE the i-th time the code looks at it
// (ctx.Done() / ctx.Err()), for every i: a deterministic walk over the cancellation points of an exchange (on a fresh
// dial, on a reused connection), which random timing hits only by chance.
//   <id> at=<i> warm=<0|1> delayus=<server think time>
//   -> obs=<observations of the context seen> x=<outcome of the cancelled exchange>,<follow-up 1>,<follow-up 2>
//      maxout=<most queries the server saw outstanding on one connection> dirty=<0|1> idle=<n> all=<n>
// warm=1: an ordinary exchange runs first, so that the cancelled one starts on a reused (idle) connection.
// Whatever the point: the follow-up exchanges get their own replies, no connection ever carries two outstanding
// queries, nothing panics.

import (
	"bufio"
	"context"
	"encoding/binary"
	"fmt"
	"io"
	"net"
	"sync"
	"sync/atomic"
	"time"

	"github.com/IrineSistiana/mosproxy/internal/upstream/transport"
	"github.com/IrineSistiana/mosproxy/verifharness/hx"
)

func init() { register("reuse_cancelpoints", 4, runReuseCancelPoints) }

// pointCtx cancels its parent-derived context just before answering its at-th observation.
type pointCtx struct {
	context.Context
	cancel context.CancelFunc
	n      atomic.Int32
	at     int32
}

func (c *pointCtx) look() {
	if c.n.Add(1) == c.at {
		c.cancel()
	}
}
func (c *pointCtx) Done() <-chan struct{} { c.look(); return c.Context.Done() }
func (c *pointCtx) Err() error           { c.look(); return c.Context.Err() }

func runReuseCancelPoints(id string, parts []string) (res string) {
	defer func() {
		if r := recover(); r != nil {
			res = fmt.Sprintf("PANIC! %v", r)
		}
	}()
	f := hx.Fields(parts)
	at := hx.MustAtoi(f["at"])
	warm := f["warm"] == "1"
	delay := time.Duration(hx.MustAtoi(f["delayus"])) * time.Microsecond

	ln, err := net.Listen("tcp", "127.0.0.1:0")
	if err != nil {
		return "HARNESS-ERROR " + err.Error()
	}
	defer ln.Close()
	var mu sync.Mutex
	maxout, dirty := 0, false
	go func() {
		for {
			c, err := ln.Accept()
			if err != nil {
				return
			}
			go func() {
				defer c.Close()
				owed := 0
				var wmu sync.Mutex
				br := bufio.NewReader(c)
				for {
					var h [2]byte
					if _, err := io.ReadFull(br, h[:]); err != nil {
						return
					}
					q := make([]byte, binary.BigEndian.Uint16(h[:]))
					if _, err := io.ReadFull(br, q); err != nil {
						return
					}
					mu.Lock()
					if owed > 0 {
						dirty = true
					}
					owed++
					if owed > maxout {
						maxout = owed
					}
					mu.Unlock()
					go func() {
						time.Sleep(delay)
						fr := c06Reply(q)
						wmu.Lock()
						mu.Lock()
						owed--
						mu.Unlock()
						c.Write(fr)
						wmu.Unlock()
					}()
				}
			}()
		}
	}()

	t := transport.NewReuseConnTransport(transport.ReuseConnOpts{
		DialContext: func(ctx context.Context) (net.Conn, error) {
			var d net.Dialer
			return d.DialContext(ctx, "tcp", ln.Addr().String())
		},
		IdleTimeout: 5 * time.Second,
	})
	defer t.Close()
	c06Pad = 0
	mark := 0
	plain := func() string {
		m := mark
		mark++
		ctx, cancel := context.WithTimeout(context.Background(), 2*time.Second)
		defer cancel()
		r, err := t.ExchangeContext(ctx, c06Query(m))
		return c06Outcome(m, r, err)
	}
	var xs []string
	if warm {
		if o := plain(); o != "M0" {
			return "HARNESS-ERROR warm-up exchange: " + o
		}
	}
	base, cancel := context.WithTimeout(context.Background(), 2*time.Second)
	pc := &pointCtx{Context: base, cancel: cancel, at: int32(at)}
	m := mark
	mark++
	r, err := t.ExchangeContext(pc, c06Query(m))
	xs = append(xs, c06Outcome(m, r, err))
	cancel()
	// two follow-ups at once (one may reuse what the cancelled exchange left behind, the other dials), then one more
	var wg sync.WaitGroup
	outs := make([]string, 2)
	m1, m2 := mark, mark+1
	mark += 2
	for k, mm := range []int{m1, m2} {
		wg.Add(1)
		go func(k, mm int) {
			defer wg.Done()
			ctx, cancel := context.WithTimeout(context.Background(), 2*time.Second)
			defer cancel()
			r, err := t.ExchangeContext(ctx, c06Query(mm))
			outs[k] = c06Outcome(mm, r, err)
		}(k, mm)
	}
	wg.Wait()
	xs = append(xs, outs[0], outs[1], plain())
	time.Sleep(3*delay + 2*time.Millisecond)
	nIdle, nAll, _, _ := t.VerifC06Stats()
	mu.Lock()
	defer mu.Unlock()
	return fmt.Sprintf("obs=%d x=%s maxout=%d dirty=%d idle=%d all=%d", pc.n.Load(), joinComma(xs), maxout, b2i(dirty), nIdle, nAll)
}

func joinComma(l []string) string {
	out := ""
	for i, s := range l {
		if i > 0 {
			out += ","
		}
		out += s
	}
	return out
}
