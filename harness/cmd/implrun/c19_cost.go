package main

// Kind "prefetchcost" (C19 x the resource limiter): what a client is CHARGED for hits, misses and hits inside the
// refresh window, and that the background refresh costs nobody anything — measured, not paced: the running router gets
// limiter buckets with a negligible refill rate (hook VerifC19SetLimiter: 1e-4 tokens/s = 0.003 tokens in 30 s), every operation is ONE
// query through a real listener on a new connection, the harness waits until no refresh is in flight (event, not
// time) and reads the tokens left in the buckets (hook VerifC19Tokens).
//
//   case:   <id> mode=<acct|budget> up=<u|t> rf=<ok|servfail|nx|slow|fail> glob=<0|1> burst=<tokens> cl=<cl+cl..>
//                ops=<K@i,K@i,..> tag=<hex label> stagger=<ms>
//           cl = <listener>@<address|->  (DoH: the client-address header; "-" = no header = no valid address;
//                socket listeners: the client is 127.0.0.1). Every client address is in its own /24.
//           op = kind@client index; every op has its own question, prepared just before it:
//                M  miss (never asked; the upstream answers B)
//                H  hit on an entry with more than a quarter of its lifetime left (hook VerifC19StoreAt)
//                W  hit on an entry inside its last quarter: the hit starts a refresh, which the upstream answers
//                   per rf: ok (B), servfail / nx (at once), slow (B after 400 ms), fail (tcp upstream closes)
//   result: r=<answer>:<spent from the client's bucket>:<spent from the peer's bucket>:<spent from the global bucket>:<upstream queries>,..
//             answer: A = the cached answer, B = the upstream's, R<n> = rcode n, E:<why> = no DNS answer
//             client's bucket "-" = the client has no valid address; peer's bucket "=" = it is the client's bucket
//             (the peer of every connection is 127.0.0.1); global "-" = no global bucket
//           tok=<address>:<spent in total>,..   (every client address and 127.0.0.1; global)
//
// mode only tells generator and oracle apart: acct = huge burst (cost accounting), budget = burst sized exactly for
// the N hits outside the window + the same N hits inside it, against an upstream that fails every refresh at once.

import (
	"fmt"
	"math"
	"net/netip"
	"strings"
	"time"

	"github.com/IrineSistiana/mosproxy/app/router"
	"github.com/IrineSistiana/mosproxy/verifharness/hx"
)

func init() { register("prefetchcost", 16, runPrefetchCost) }

func runPrefetchCost(id string, parts []string) string {
	f := hx.Fields(parts)
	rf := f["rf"]
	burst := hx.MustAtoi(f["burst"])
	tag, err := hx.UnHex(f["tag"])
	cls, ok := c19ParseClients(f["cl"])
	if err != nil || !ok || len(cls) == 0 || len(tag) == 0 || len(tag) > 40 || burst < 1 || f["ops"] == "" ||
		(rf != "ok" && rf != "servfail" && rf != "nx" && rf != "slow" && rf != "fail") {
		return "HARNESS-ERROR bad case"
	}
	type op struct {
		kind byte
		cl   int
	}
	var ops []op
	for _, o := range strings.Split(f["ops"], ",") {
		k, i, ok := strings.Cut(o, "@")
		if !ok || len(k) != 1 || !strings.Contains("MHW", k) {
			return "HARNESS-ERROR bad op"
		}
		ci := hx.MustAtoi(i)
		if ci < 0 || ci >= len(cls) {
			return "HARNESS-ERROR bad op"
		}
		ops = append(ops, op{k[0], ci})
	}
	c19Quiet.Do(router.VerifQuiet)
	env, err := c19NewEnv("U=" + f["up"] + ";E=0;R=-:0:0:0;C=8388608;L=1:" + f["burst"])
	if err != nil {
		return "HARNESS-ERROR env: " + strings.ReplaceAll(err.Error(), " ", "_")
	}
	defer env.Close()
	gb := 0
	if f["glob"] == "1" {
		gb = burst
	}
	if st := hx.MustAtoi(f["stagger"]); st > 0 {
		time.Sleep(time.Duration(st) * time.Millisecond)
	}
	peer := netip.MustParseAddr("127.0.0.1")
	// The environment probes every stream listener with a connection when it starts; the servers may ACCEPT (and charge)
	// these a little later. Install the buckets, and again, until nothing has been charged for 30 ms.
	for try := 0; ; try++ {
		// a new bucket fills from the zero time: rate x 292 years must exceed the burst
		env.R.VerifC19SetLimiter(1e-4, burst, gb)
		time.Sleep(30 * time.Millisecond)
		c, g := env.R.VerifC19Tokens(peer)
		if math.Round(float64(burst)-c) == 0 && (gb == 0 || math.Round(float64(gb)-g) == 0) {
			break
		}
		if try == 20 {
			return "timing=bad why=buckets-never-quiet"
		}
	}
	// spent so far from the bucket of an address / from the global bucket (rounded: the refill is ~1e-3 tokens)
	spent := func(a netip.Addr) (int, int) {
		c, g := env.R.VerifC19Tokens(a)
		sc, sg := -1, -1
		if c >= 0 {
			sc = int(math.Round(float64(burst) - c))
		}
		if g >= 0 {
			sg = int(math.Round(float64(gb) - g))
		}
		return sc, sg
	}
	const life = 120
	var rs []string
	sumPeer, sumGlob := 0, 0 // what the ops themselves took from the 127.0.0.1 bucket / the global bucket
	for i, o := range ops {
		c := cls[o.cl]
		q := hx.BuildQuery(uint16(0x3000+i), c19FanName("k", i, tag), 1, 1, true)
		key := hx.QuestionKey(q)
		replyA := hx.BuildReply(q, false, 0, [4]byte{10, 0, 0, 7}, life)
		replyB := hx.Behaviour{Kind: "reply", Reply: hx.BuildReply(q, false, 0, [4]byte{10, 0, 0, 8}, life)}
		switch o.kind {
		case 'M':
			env.SetBehaviour(key, replyB)
		case 'H':
			env.SetBehaviour(key, replyB)
			err = env.R.VerifC19StoreAt(replyA, -10*time.Second, (life-10)*time.Second)
		case 'W':
			switch rf {
			case "ok":
				env.SetBehaviour(key, replyB)
			case "slow":
				b := replyB
				b.Delay = 400 * time.Millisecond
				env.SetBehaviour(key, b)
			case "servfail":
				env.SetBehaviour(key, hx.Behaviour{Kind: "reply", Reply: c19RcodeReply(q, 2)})
			case "nx":
				env.SetBehaviour(key, hx.Behaviour{Kind: "reply", Reply: c19RcodeReply(q, 3)})
			case "fail":
				env.SetBehaviour(key, hx.Behaviour{Kind: "close"})
			}
			err = env.R.VerifC19StoreAt(replyA, -(life-20)*time.Second, 20*time.Second)
		}
		if err != nil {
			return "HARNESS-ERROR store: " + strings.ReplaceAll(err.Error(), " ", "_")
		}
		ca := c.netip()
		c0, g0 := spent(ca)
		p0, _ := spent(peer)
		h := c.query(env, q, uint16(0x3000+i))
		// quiescence: the refresh this hit may have started (reserve precedes the response) has ended
		if n := c19WaitIdle(env, 9*time.Second); n != 0 {
			return fmt.Sprintf("timing=bad why=refresh-still-running-after-9s op=%d", i)
		}
		c1, g1 := spent(ca)
		p1, _ := spent(peer)
		up := len(env.PeekQueries(key))
		if o.kind == 'W' && rf == "fail" && up >= 2 && up <= 8 {
			up = 1 // ONE failing exchange, re-written by the transport on stale idle connections (C14)
		}
		sumPeer += p1 - p0
		sumGlob += g1 - g0
		dc, dp, dg := "-", "=", "-"
		if ca.IsValid() {
			dc = fmt.Sprint(c1 - c0)
		}
		if !ca.IsValid() || ca != peer {
			dp = fmt.Sprint(p1 - p0)
		}
		if gb > 0 {
			dg = fmt.Sprint(g1 - g0)
		}
		if f["mode"] != "budget" && h.status != "ok" {
			// with a huge burst nothing can be refused for want of tokens: no DNS answer at all is a transport matter
			return "timing=bad why=transport:" + strings.ReplaceAll(h.status, " ", "_")
		}
		rs = append(rs, fmt.Sprintf("%s:%s:%s:%s:%d", c19GMark(h), dc, dp, dg, up))
		env.TakeQueries(key)
	}
	// a charge outside every op's window (between "the refresh has ended" and the next op) was caused by no op of this
	// run — a late accept of a probe connection: the run cannot be judged
	if p, g := spent(peer); p != sumPeer || (gb > 0 && g != sumGlob) {
		return "timing=bad why=stray-charge"
	}
	// totals per bucket
	var tok []string
	seen := map[netip.Addr]bool{}
	for _, c := range append(append([]c19Client(nil), cls...), c19Client{"udp", "127.0.0.1"}) {
		a := c.netip()
		if !a.IsValid() || seen[a] {
			continue
		}
		seen[a] = true
		s, _ := spent(a)
		tok = append(tok, fmt.Sprintf("%s:%d", a, s))
	}
	if gb > 0 {
		_, g := spent(peer)
		tok = append(tok, fmt.Sprintf("global:%d", g))
	}
	return "r=" + strings.Join(rs, ",") + " tok=" + strings.Join(tok, ",")
}

// a response without records: header + question, QR RD RA, the rcode
func c19RcodeReply(q []byte, rcode byte) []byte {
	qe := hx.QuestionEnd(q)
	if qe < 0 {
		return nil
	}
	r := append([]byte(nil), q[:qe]...)
	r[2] = 0x81
	r[3] = 0x80 | (rcode & 0x0f)
	for i := 6; i < 12; i++ {
		r[i] = 0
	}
	return r
}
