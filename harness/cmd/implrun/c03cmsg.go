package main

// Kind "cmsg" (C03): internal/udpcmsg (the ancillary data of a multi_routes UDP listener) against Net/Cmsg.v.
//   case:   <id> op=parse oob=<hex>            -> none | 4:<hex> | 6:<hex> | ERR
//           <id> op=pack b=<hex> addr=<hex|->  -> size=<n> out=<hex|nil> src=<addr>/<ifindex>
//           <id> op=reply b=<hex> oob=<hex>    -> out=<hex|nil> src=...   (ParseLocalAddr -> CmsgSize -> CmsgPktInfo, as
//                                                 handleMsg / writeResp do, with a pool buffer holding b's octets)
// "src" is read back from the packed message with an INDEPENDENT reader of the kernel's layout (below), so that the oracle
// (the kernel would send from the query's destination address) does not depend on the model.

import (
	"encoding/binary"
	"fmt"
	"net/netip"
	"time"

	"github.com/IrineSistiana/mosproxy/internal/pool"
	"github.com/IrineSistiana/mosproxy/internal/udpcmsg"
	"github.com/IrineSistiana/mosproxy/verifharness/hx"
)

func init() { register("cmsg", 8, runCmsg) }

func cmsgAddrStr(a netip.Addr) string {
	if !a.IsValid() {
		return "none"
	}
	if a.Is4() {
		x := a.As4()
		return "4:" + hx.Hex(x[:])
	}
	x := a.As16()
	return "6:" + hx.Hex(x[:])
}

// kernelSrc: what ip_cmsg_send / ip6_datagram_send_ctl take from a buffer holding exactly one control message.
func kernelSrc(c []byte) string {
	if len(c) < 16 {
		return "?"
	}
	hl := binary.LittleEndian.Uint64(c[0:8])
	level := binary.LittleEndian.Uint32(c[8:12])
	typ := binary.LittleEndian.Uint32(c[12:16])
	if hl < 16 || hl > uint64(len(c)) || (int(hl)+7)&^7 != len(c) {
		return "?"
	}
	data := c[16:hl]
	switch {
	case level == 0 && typ == 8 && len(data) == 12:
		return fmt.Sprintf("4:%s/%d", hx.Hex(data[4:8]), binary.LittleEndian.Uint32(data[0:4]))
	case level == 41 && typ == 50 && len(data) == 20:
		return fmt.Sprintf("6:%s/%d", hx.Hex(data[0:16]), binary.LittleEndian.Uint32(data[16:20]))
	}
	return "?"
}

// dirtyBuf: a pool buffer of n octets pre-filled with b (repeated), the way a recycled buffer holds old data.
func dirtyBuf(n int, b []byte) []byte {
	buf := pool.GetBuf(n)
	for i := range buf {
		if len(b) > 0 {
			buf[i] = b[i%len(b)]
		} else {
			buf[i] = 0
		}
	}
	return buf
}

func runCmsg(id string, parts []string) string {
	f := hx.Fields(parts)
	unhex := func(k string) []byte {
		if f[k] == "-" || f[k] == "" {
			return nil
		}
		b, err := hx.UnHex(f[k])
		if err != nil {
			panic("bad hex")
		}
		return b
	}
	return guard(id, 10*time.Second, func() string {
		switch f["op"] {
		case "parse":
			oob := unhex("oob")
			// room behind the slice, so that a header cast past the slice reads harness memory (0xff: an absurd length)
			buf := make([]byte, len(oob)+32)
			for i := range buf {
				buf[i] = 0xff
			}
			copy(buf, oob)
			a, err := udpcmsg.ParseLocalAddr(buf[:len(oob)])
			if err != nil {
				return "ERR"
			}
			return cmsgAddrStr(a)
		case "pack":
			var a netip.Addr
			if ab := unhex("addr"); len(ab) == 4 || len(ab) == 16 {
				a, _ = netip.AddrFromSlice(ab)
			}
			b := unhex("b")
			size := udpcmsg.CmsgSize(a)
			var in []byte
			if len(b) > 0 {
				in = append([]byte(nil), b...)
			}
			out := udpcmsg.CmsgPktInfo(in, a)
			if out == nil {
				return fmt.Sprintf("size=%d out=nil src=-", size)
			}
			return fmt.Sprintf("size=%d out=%s src=%s", size, hx.Hex(out), kernelSrc(out))
		case "reply":
			oob := unhex("oob")
			b := unhex("b")
			a, err := udpcmsg.ParseLocalAddr(oob)
			if err != nil {
				return "out=nil src=-"
			}
			buf := dirtyBuf(udpcmsg.CmsgSize(a), b)
			defer pool.ReleaseBuf(buf)
			out := udpcmsg.CmsgPktInfo(buf, a)
			if out == nil {
				return "out=nil src=-"
			}
			return fmt.Sprintf("out=%s src=%s", hx.Hex(out), kernelSrc(out))
		}
		return "HARNESS-ERROR op"
	})
}
