package main

// Kind "prefetchfan" (C19): MANY distinct (question, group) entries, all inside the last quarter of their lifetime,
// upstream stalled (silent) or very slow — one hit per entry in quick succession and concurrently, through the real
// listeners of a private in-process router. This is the class "the number of refreshes in flight is large": the
// existing e2e kind stresses many hits on ONE key; here every hit has its own key, so every hit reserves and spawns.
// A hit must be answered from the cache at once however many refreshes are already running (any bounded-worker /
// blocking-spawn design stalls the hit path at its bound: N sweeps 1, 2, 63, 64, 65, 128, 300, ...).
//
//   case:   <id> mode=<slow|silent> up=<u|t|p> n=<entries> pace=<us between hits> delay=<ms> ls=<mixed|udp|a+b..>
//                tag=<hex label> stagger=<ms>
//   result: timing=ok ctl=<fast A>/<n> ctl_up=<upstream queries for the control entries>
//             ans=<answered A within 1 s>/<n> late=<answered after >= 1 s> lost=<not answered>
//             up_keys=<entries with >= 1 refresh query> up_max=<most refresh queries for one entry> infl_mid=<in-flight set>
//             ans2=.. late2=.. up_max2=.. infl2=..        (second hit per entry while every refresh is still in flight)
//           slow:   infl_end=<in-flight after the upstream answered> after=<answered B>/<n> renewed=<..>/<n> up_end=<queries in total>
//           silent: infl_to=<in-flight after every refresh timed out> old=<answered A>/<n> up3_keys=.. up3_max=..
//                   infl_end=.. after=<B>/<n> renewed=../<n> up_end=<queries since the upstream recovered>
//           "timing=bad why=.." when the harness could not keep its own schedule (skipped and counted, never an alarm).
//
// Entries are placed with the VerifC19StoreAt hook (real packCacheMsg/cacheKey/MemoryCache.Store): lifetime 120 s,
// stored 100 s ago, 20 s left (window entries) or stored 10 s ago (control entries: more than a quarter left).

import (
	"encoding/binary"
	"fmt"
	"strings"
	"sync"
	"time"

	"github.com/IrineSistiana/mosproxy/app/router"
	"github.com/IrineSistiana/mosproxy/verifharness/hx"
)

func init() { register("prefetchfan", 16, runPrefetchFan) }

const (
	c19FanLife     = 120 // s: TTL of every answer
	c19FanLeft     = 20  // s left for a window entry (< 120/4)
	c19FanSlow     = time.Second
	c19FanHitLimit = 7500 * time.Millisecond // a hit blocked behind a stalled refresh comes back by prefetchTimeout (6 s)
)

type c19FanEntry struct {
	q   []byte // query wire
	key string // question key of the fake upstream's log
}

func c19FanName(prefix string, i int, tag []byte) []byte {
	l := []byte(fmt.Sprintf("%s%d", prefix, i))
	out := append([]byte{byte(len(l))}, l...)
	out = append(out, byte(len(tag)))
	out = append(out, tag...)
	return append(out, 4, 't', 'e', 's', 't', 0)
}

// one hit per entry; hit i is sent i*pace after the first, each from its own goroutine (nobody waits for a
// predecessor), listeners round-robin
func c19FanBurst(env *hx.RouterEnv, ls []string, es []c19FanEntry, pace time.Duration, idBase uint16) []c19Hit {
	out := make([]c19Hit, len(es))
	var wg sync.WaitGroup
	start := time.Now()
	for i := range es {
		if pace > 0 {
			c19SleepUntil(start.Add(time.Duration(i) * pace))
		}
		wg.Add(1)
		go func(i int) {
			defer wg.Done()
			q := append([]byte(nil), es[i].q...)
			binary.BigEndian.PutUint16(q, idBase+uint16(i))
			t := time.Now()
			resps, st := env.Query(ls[i%len(ls)], q, "-", c19FanHitLimit, time.Millisecond)
			h := c19Parse(resps, st)
			h.sent = t
			h.latency = time.Since(t)
			out[i] = h
		}(i)
	}
	wg.Wait()
	return out
}

type c19FanSum struct {
	good, late, lost, firstBad int
	ttlOK                      int // answers whose TTL is >= life-2 (a renewed entry)
	max                        time.Duration
	lostIdx                    []int
}

func c19FanSummary(hits []c19Hit, mark byte) (s c19FanSum) {
	s.firstBad = -1
	for i, h := range hits {
		switch {
		case h.status != "ok":
			s.lost++
			s.lostIdx = append(s.lostIdx, i)
			if s.firstBad < 0 {
				s.firstBad = i
			}
		case h.latency >= c19FanSlow:
			s.late++
			if s.firstBad < 0 {
				s.firstBad = i
			}
		case h.rcode == 0 && h.mark == mark:
			s.good++
			if int(h.ttl) >= c19FanLife-2 {
				s.ttlOK++
			}
		}
		if h.latency > s.max {
			s.max = h.latency
		}
	}
	return
}

// upstream log: number of entries with at least one query, largest number of queries for one entry, total
func c19FanLog(env *hx.RouterEnv, es []c19FanEntry) (keys, max, total int) {
	for _, e := range es {
		n := len(env.PeekQueries(e.key))
		if n > 0 {
			keys++
		}
		if n > max {
			max = n
		}
		total += n
	}
	return
}

func runPrefetchFan(id string, parts []string) string {
	f := hx.Fields(parts)
	mode := f["mode"]
	n := hx.MustAtoi(f["n"])
	pace := time.Duration(hx.MustAtoi(f["pace"])) * time.Microsecond
	delay := time.Duration(hx.MustAtoi(f["delay"])) * time.Millisecond
	tag, err := hx.UnHex(f["tag"])
	if err != nil || len(tag) == 0 || len(tag) > 40 || n < 1 || n > 5000 || (mode != "slow" && mode != "silent") {
		return "HARNESS-ERROR bad case"
	}
	c19Quiet.Do(router.VerifQuiet)
	env, err := c19NewEnv("U=" + f["up"] + ";E=0;R=-:0:0:0;C=67108864")
	if err != nil {
		return "HARNESS-ERROR env: " + strings.ReplaceAll(err.Error(), " ", "_")
	}
	defer env.Close()
	ls := c19Listeners
	if f["ls"] != "mixed" && f["ls"] != "" {
		ls = strings.Split(f["ls"], "+")
	}
	if st := hx.MustAtoi(f["stagger"]); st > 0 {
		time.Sleep(time.Duration(st) * time.Millisecond)
	}
	mk := func(prefix string) []c19FanEntry {
		es := make([]c19FanEntry, n)
		for i := range es {
			q := hx.BuildQuery(0x1000, c19FanName(prefix, i, tag), 1, 1, true)
			es[i] = c19FanEntry{q: q, key: hx.QuestionKey(q)}
		}
		return es
	}
	win, ctl := mk("w"), mk("c")
	markA, markB := [4]byte{10, 0, 0, 7}, [4]byte{10, 0, 0, 8}
	bad := func(why string) string { return "timing=bad why=" + why }

	// ---- place the entries; the upstream is stalled for the window entries from the start
	t0 := time.Now()
	for i := range win {
		if mode == "slow" {
			env.SetBehaviour(win[i].key, hx.Behaviour{Kind: "reply", Reply: hx.BuildReply(win[i].q, false, 0, markB, c19FanLife), Delay: delay})
		} else {
			env.SetBehaviour(win[i].key, hx.Behaviour{Kind: "silent"})
		}
		if err := env.R.VerifC19StoreAt(hx.BuildReply(win[i].q, false, 0, markA, c19FanLife),
			-(c19FanLife-c19FanLeft)*time.Second, c19FanLeft*time.Second); err != nil {
			return "HARNESS-ERROR store: " + strings.ReplaceAll(err.Error(), " ", "_")
		}
		if err := env.R.VerifC19StoreAt(hx.BuildReply(ctl[i].q, false, 0, markA, c19FanLife),
			-10*time.Second, (c19FanLife-10)*time.Second); err != nil {
			return "HARNESS-ERROR store: " + strings.ReplaceAll(err.Error(), " ", "_")
		}
	}

	// ---- control burst: same shape, entries with more than a quarter left. Nothing may reach the upstream, and it
	// measures what this machine needs for n hits right now.
	c := c19FanSummary(c19FanBurst(env, ls, ctl, pace, 0x2000), 7)
	if c.late > 0 || c.lost > 0 || c.max > 400*time.Millisecond {
		return bad("control-slow")
	}
	time.Sleep(30 * time.Millisecond)
	_, _, ctlUp := c19FanLog(env, ctl)
	out := fmt.Sprintf("timing=ok ctl=%d/%d ctl_up=%d", c.good, n, ctlUp)
	if env.R.VerifPrefetchInflight() != 0 {
		return out + " ctl_infl=" + fmt.Sprint(env.R.VerifPrefetchInflight())
	}

	// ---- the burst: one hit per window entry. Every hit reserves its own key and spawns its own refresh; all the
	// refreshes stay in flight (the upstream does not answer before `delay` / at all).
	tb := time.Now()
	hits := c19FanBurst(env, ls, win, pace, 0x4000)
	b := c19FanSummary(hits, 7)
	if b.lost > 0 && b.late == 0 && b.lost <= 1+n/50 {
		// a handful of unanswered hits and none late: ask those again, one by one. Transport loss (a dropped
		// datagram) is not this property's matter; an implementation that drops the hits beyond some bound loses
		// far more than that and is reported below.
		again := 0
		for _, i := range b.lostIdx {
			h := c19One(env, "tcp", win[i].q)
			if h.status == "ok" && h.mark == 7 && h.latency < c19FanSlow {
				again++
			}
		}
		if again == b.lost {
			return bad("lost-hits")
		}
	}
	out += fmt.Sprintf(" ans=%d/%d late=%d lost=%d", b.good, n, b.late, b.lost)
	if b.late > 0 || b.lost > 0 {
		// the finding itself: report where it began (hits are numbered in send order) and stop
		time.Sleep(100 * time.Millisecond)
		keys, max, _ := c19FanLog(env, win)
		return out + fmt.Sprintf(" up_keys=%d up_max=%d infl_mid=%d first_bad=%d worst_ms=%d", keys, max,
			env.R.VerifPrefetchInflight(), b.firstBad, b.max.Milliseconds())
	}
	time.Sleep(200 * time.Millisecond)
	keys, max, _ := c19FanLog(env, win)
	inflMid := env.R.VerifPrefetchInflight()
	out += fmt.Sprintf(" up_keys=%d up_max=%d infl_mid=%d", keys, max, inflMid)

	// ---- a second hit per entry while every refresh is still in flight: answered at once, no second refresh
	hits2 := c19FanBurst(env, ls, win, pace, 0x6000)
	b2 := c19FanSummary(hits2, 7)
	time.Sleep(100 * time.Millisecond)
	_, max2, _ := c19FanLog(env, win)
	infl2 := env.R.VerifPrefetchInflight()
	stalledFor := delay
	if mode == "silent" {
		stalledFor = router.VerifPrefetchTimeout
	}
	if b2.late == 0 && b2.lost == 0 && time.Since(tb) > stalledFor-400*time.Millisecond {
		return bad("bursts-late") // the refreshes may have ended before the observations above
	}
	out += fmt.Sprintf(" ans2=%d/%d late2=%d up_max2=%d infl2=%d", b2.good, n, b2.late+b2.lost, max2, infl2)
	if b2.late > 0 || b2.lost > 0 {
		return out
	}

	if mode == "slow" {
		// ---- the upstream answers (B, fresh TTL): every entry is renewed, nothing is asked twice
		c19SleepUntil(tb.Add(delay + time.Duration(n)*pace + 150*time.Millisecond))
		inflEnd := c19WaitIdle(env, 4*time.Second)
		a := c19FanSummary(c19FanBurst(env, ls, win, pace, 0x8000), 8)
		time.Sleep(50 * time.Millisecond)
		_, _, total := c19FanLog(env, win)
		if time.Since(t0) > (c19FanLeft-5)*time.Second {
			return bad("scenario-late")
		}
		return out + fmt.Sprintf(" infl_end=%d after=%d/%d renewed=%d/%d up_end=%d", inflEnd, a.good, n, a.ttlOK, n, total)
	}

	// ---- silent: every refresh fails by prefetchTimeout; the keys are released, the old entries are still served
	c19SleepUntil(tb.Add(router.VerifPrefetchTimeout + time.Duration(n)*pace + 200*time.Millisecond))
	inflTo := c19WaitIdle(env, 4*time.Second)
	for i := range win { // the upstream recovers (SetBehaviour also restarts the per-question log)
		env.SetBehaviour(win[i].key, hx.Behaviour{Kind: "reply", Reply: hx.BuildReply(win[i].q, false, 0, markB, c19FanLife)})
	}
	if time.Since(t0) > (c19FanLeft-7)*time.Second {
		return bad("scenario-late")
	}
	o := c19FanSummary(c19FanBurst(env, ls, win, pace, 0xa000), 7)
	time.Sleep(100 * time.Millisecond)
	inflEnd := c19WaitIdle(env, 4*time.Second)
	keys3, max3, _ := c19FanLog(env, win)
	a := c19FanSummary(c19FanBurst(env, ls, win, pace, 0xc000), 8)
	time.Sleep(50 * time.Millisecond)
	_, _, total := c19FanLog(env, win)
	return out + fmt.Sprintf(" infl_to=%d old=%d/%d up3_keys=%d up3_max=%d infl_end=%d after=%d/%d renewed=%d/%d up_end=%d",
		inflTo, o.good, n, keys3, max3, inflEnd, a.good, n, a.ttlOK, n, total)
}
