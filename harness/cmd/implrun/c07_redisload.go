package main

// C07 / C04 / C20, round 4: the REDIS write path of the cache under concurrent load.
//
//   redisload: <id> mem=<0|1> names=<n> writers=<n> readers=<n> noise=<n> ms=<duration> slow=<k> slowms=<ms> seed=<n>
//              -> sets=<n> badsets=<n> [badfirst=<..>] gets=<n> wrong=<n> [first=<..>] final=<n>/<n>     (oracle only)
//
// A real cacheCtl (real initCache; redis backend = the real cache.RedisCache / rueidis client; with mem=1 also a
// memory backend) stores self-describing answers: question i is "q<i, 5 digits>.<pad>.example.test. A IN", its answer
// one A record 10.x.y.z encoding i (+ i%3 more records, so that values differ in length inside one pool size class).
// cacheKey(question) and the redis value (16 octets of instants ‖ packCacheMsg) are deterministic, so the in-process
// fake redis knows, for every key of the vocabulary, the exact octets that belong to it (computed beforehand through the
// real cacheKey / packCacheMsg, hook RedisImage).
//
// Oracle 1, AT THE FAKE REDIS, for every SET it receives: the key is a key of the vocabulary and value[16:] is, octet
// for octet, the value of that very key.  A SET under another question's key, under a key nobody stored (octets of a
// recycled buffer), or with a torn value is a violation: cached answers go only to the same question (C07 / C04), and
// a buffer handed to the set goroutine is not released / rewritten while the command is still in flight (C20).
// Oracle 2, through cacheCtl.Get (concurrently, and for every question after the load drained; with mem=1 the memory
// copy is dropped first so that the redis copy is what is read): a hit is the asking question's own answer.
//
// The fake delays the reply to every slow-th SET by slowms, so the set loop (one command at a time) falls behind the
// 128-element queue while the writers keep storing; meanwhile `noise` goroutines compute cache keys of OTHER names of the
// same length (cacheKey takes its buffer from the byte pool) and take / scribble / release pool buffers of the key's and
// the value's size classes, and `readers` look questions up (cacheCtl.Get computes a key too).

import (
	"bytes"
	"fmt"
	"math/rand"
	"net/netip"
	"strings"
	"sync"
	"sync/atomic"
	"time"

	"github.com/IrineSistiana/mosproxy/app/router"
	"github.com/IrineSistiana/mosproxy/internal/dnsmsg"
	"github.com/IrineSistiana/mosproxy/internal/pool"
	"github.com/IrineSistiana/mosproxy/verifharness/hx"
)

func init() {
	register("redisload", 1, runRedisLoad)
}

func redisloadName(i int, salt string) []byte {
	var out []byte
	for _, l := range []string{fmt.Sprintf("q%05d", i), salt, "example", "test"} {
		out = append(out, byte(len(l)))
		out = append(out, l...)
	}
	return out
}

// response to "name A IN": 1 + i%3 A records, the first one encodes i
func redisloadWire(i int, name []byte) []byte {
	n := 1 + i%3
	b := []byte{0, 7, 0x81, 0x80, 0, 1, 0, byte(n), 0, 0, 0, 0}
	b = append(b, name...)
	b = append(b, 0, 0, 1, 0, 1)
	for j := 0; j < n; j++ {
		b = append(b, name...)
		b = append(b, 0, 0, 1, 0, 1, 0, 0, 1, 44, 0, 4, 10, byte(i>>16), byte(i>>8), byte(i))
		if j > 0 {
			b[len(b)-4] = byte(200 + j)
		}
	}
	return b
}

func runRedisLoad(id string, parts []string) string {
	f := hx.Fields(parts)
	withMem := f["mem"] == "1"
	names, writers, readers, noise := hx.MustAtoi(f["names"]), hx.MustAtoi(f["writers"]), hx.MustAtoi(f["readers"]), hx.MustAtoi(f["noise"])
	dur := time.Duration(hx.MustAtoi(f["ms"])) * time.Millisecond
	slow, slowms := hx.MustAtoi(f["slow"]), hx.MustAtoi(f["slowms"])
	seed := int64(hx.MustAtoi(f["seed"]))
	if names < 1 || names > 90000 || writers < 1 {
		return "HARNESS-ERROR bad parameters"
	}
	return guard(id, dur+90*time.Second, func() string {
		router.VerifC08Quiet()
		c08KeepAlive.Do(func() { c08Cache(0) })
		fr, err := newFakeRedis()
		if err != nil {
			return "HARNESS-ERROR " + err.Error()
		}
		defer fr.close()
		memSize := 0
		if withMem {
			memSize = 1 << 24
		}
		c, err := router.VerifC08NewCacheRedis(0, memSize, fr.url())
		if err != nil {
			return "HARNESS-ERROR " + err.Error()
		}
		defer c.Close()

		// the vocabulary: question, shared (read-only) response, expected key and value octets, expected dump
		salt := fmt.Sprintf("s%x", seed&0xffff)
		qs := make([]*dnsmsg.Question, names)
		msgs := make([]*dnsmsg.Msg, names)
		dumps := make([]string, names)
		expVal := make([][]byte, names)
		keyID := make(map[string]int, names)
		t0 := time.Now()
		for i := 0; i < names; i++ {
			name := redisloadName(i, salt)
			qs[i] = c08Question(name)
			m, err := dnsmsg.UnpackMsg(redisloadWire(i, name))
			if err != nil {
				return "HARNESS-ERROR wire"
			}
			msgs[i] = m
			dumps[i] = c08Rest(m)
			k, v, err := c.RedisImage(qs[i], t0, t0.Add(time.Hour), m)
			if err != nil || len(v) < 16 {
				return "HARNESS-ERROR image"
			}
			keyID[string(k)] = i
			expVal[i] = v[16:]
		}
		keyLen := 0
		for k := range keyID {
			keyLen = len(k)
			break
		}

		var sets, badSets atomic.Int64
		var badFirst, wrongFirst atomic.Value
		onSet := func(k, v []byte, nx bool) {
			sets.Add(1)
			i, ok := keyID[string(k)]
			switch {
			case !ok:
				badSets.Add(1)
				badFirst.CompareAndSwap(nil, fmt.Sprintf("SET-under-a-key-nobody-stored:%x", k))
			case len(v) < 16 || !bytes.Equal(v[16:], expVal[i]):
				badSets.Add(1)
				what := "torn-or-recycled-value"
				for j := range expVal {
					if len(v) >= 16 && bytes.Equal(v[16:], expVal[j]) {
						what = fmt.Sprintf("the-value-of-question-%d", j)
						break
					}
				}
				badFirst.CompareAndSwap(nil, fmt.Sprintf("SET-key-of-question-%d-carries-%s", i, what))
			}
		}
		var setDelay func(n int) time.Duration
		if slow > 0 && slowms > 0 {
			setDelay = func(n int) time.Duration {
				if n%slow == slow-1 {
					return time.Duration(slowms) * time.Millisecond
				}
				return 0
			}
		}
		fr.observe(onSet, setDelay)
		dl := time.Now().Add(5 * time.Second)
		for !c.RedisConnected() && time.Now().Before(dl) {
			time.Sleep(20 * time.Millisecond)
		}
		if !c.RedisConnected() {
			return "HARNESS-ERROR redis backend never connected to the fake"
		}

		var gets, wrong atomic.Int64
		check := func(i int, got *dnsmsg.Msg) {
			gets.Add(1)
			if d := c08Rest(got); d != dumps[i] {
				wrong.Add(1)
				wrongFirst.CompareAndSwap(nil, fmt.Sprintf("get(question-%d)=%s", i, strings.ReplaceAll(d, " ", "_")))
			}
			dnsmsg.ReleaseMsg(got)
		}
		var stop atomic.Bool
		var wg sync.WaitGroup
		for w := 0; w < writers; w++ {
			wg.Add(1)
			go func(w int) {
				defer wg.Done()
				r := rand.New(rand.NewSource(seed*31 + int64(w)))
				for !stop.Load() {
					i := r.Intn(names)
					c.Store(qs[i], netip.Addr{}, msgs[i])
					if r.Intn(4) == 0 { // a look-up between two stores, as a request handler does
						if got, _, _ := c.Get(qs[r.Intn(names)]); got != nil {
							dnsmsg.ReleaseMsg(got)
						}
					}
				}
			}(w)
		}
		for rd := 0; rd < readers; rd++ {
			wg.Add(1)
			go func(rd int) {
				defer wg.Done()
				r := rand.New(rand.NewSource(seed*37 + int64(rd)))
				for !stop.Load() {
					i := r.Intn(names)
					if got, _, _ := c.Get(qs[i]); got != nil {
						check(i, got)
					}
					time.Sleep(200 * time.Microsecond)
				}
			}(rd)
		}
		for nz := 0; nz < noise; nz++ {
			wg.Add(1)
			go func(nz int) {
				defer wg.Done()
				r := rand.New(rand.NewSource(seed*41 + int64(nz)))
				other := "n" + salt[1:]
				for !stop.Load() {
					switch r.Intn(3) {
					case 0: // the key of a question outside the vocabulary, same length (cacheKey uses a pool buffer)
						_ = router.VerifCacheKey(redisloadName(r.Intn(names), other), 1, 1, "")
					case 1: // a pool buffer of the key's size class
						b := pool.GetBuf(keyLen)
						for j := range b {
							b[j] = 'X'
						}
						pool.ReleaseBuf(b)
					default: // a pool buffer of a value's size class
						b := pool.GetBuf(16 + len(expVal[r.Intn(names)]))
						for j := range b {
							b[j] = 'Y'
						}
						pool.ReleaseBuf(b)
					}
				}
			}(nz)
		}
		time.Sleep(dur)
		stop.Store(true)
		wg.Wait()
		// let the set loop drain its queue
		last, same := sets.Load(), 0
		for same < 5 {
			time.Sleep(40 * time.Millisecond)
			if n := sets.Load(); n == last {
				same++
			} else {
				last, same = n, 0
			}
		}
		// every question once more, from redis
		hits := 0
		for i := 0; i < names; i++ {
			if withMem {
				c.DropMemory(qs[i])
			}
			if got, _, _ := c.Get(qs[i]); got != nil {
				hits++
				check(i, got)
			}
		}
		s := fmt.Sprintf("sets=%d badsets=%d gets=%d wrong=%d final=%d/%d", sets.Load(), badSets.Load(), gets.Load(), wrong.Load(), hits, names)
		if b := badFirst.Load(); b != nil {
			s += " badfirst=" + b.(string)
		}
		if w := wrongFirst.Load(); w != nil {
			s += " first=" + w.(string)
		}
		return s
	})
}
