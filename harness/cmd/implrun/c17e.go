package main

// C17, round 7.
//
// kind "uphistory": SEVERAL upstream entries of one router (or of two routers alive in one process) that talk to the
//   SAME fake server under the SAME TLS server name, one after the other.  The entries differ in trust (ca / system
//   roots / insecure_skip_verify); the server presents one certificate kind and issues session tickets (crypto/tls
//   and quic-go default) and serves ONE query per connection, so that a later step of an entry needs a new handshake.
//   The router is started by run() (router.VerifC17RunRouter); steps=<i,i,...> is the order in which the entries
//   exchange.  The verdict of every step must be the verdict of that entry alone, whatever happened before.
//   case:   <id> n=<k> split=<j> srv=<tls|https|quic|h3> name=<the server name of all entries> peer=<certificate kind> steps=<i,i,...>
//                then for i in 0..k-1:  st<i>=<scheme spelling> ca<i>= ins<i>=
//   result: start=ok t0=<ok|fail> t1=.. (one per step)   |   start=err
//
// kind "resolve": dial targets that are NAMES.  The process resolves names through a resolver of the harness
//   (net.DefaultResolver = {PreferGo, Dial -> a loopback DNS server of the harness whose table the case controls}).
//   upstream.NewUpstream(url, Opt{DialAddr}) with the name as URL host (mode=url) or as dial_addr (mode=da); fake
//   servers of the scheme's protocol on 127.0.0.1:P ("a") and 127.0.0.2:P ("b", same port).
//     scen=move : name -> 127.0.0.1; exchange 1 (arrives at a); name -> 127.0.0.2, server a goes away (its connections
//                 end); exchange 2 needs a NEW connection, which must go where the name points NOW (b)
//     scen=late : the name does not resolve when the upstream is constructed (construction must still succeed); then
//                 name -> 127.0.0.1; the exchange arrives at a
//     scen=multi: name -> {127.0.0.2, 127.0.0.1}, servers on both: the exchange arrives at one of them
//   61234 in url/da = the servers' port; the name is unique per case (cases run in parallel).
//   case:   <id> url=<hex> da=<hex> srv=<udp|tcp|tls|http|https|quic|h3> scen=<move|late|multi> name=<dns name> san=<cert name|->
//   result: new=ok x1=<ok|fail> at1=<a|b|in|ab|-> [x2=<ok|fail> at2=<..>]   |   new=err

import (
	"context"
	"crypto/tls"
	"fmt"
	"net"
	"strconv"
	"strings"
	"sync"
	"time"

	"github.com/IrineSistiana/mosproxy/app/router"
	"github.com/IrineSistiana/mosproxy/internal/upstream"
	"github.com/IrineSistiana/mosproxy/verifharness/hx"
	"github.com/miekg/dns"
)

func init() {
	register("uphistory", 8, runUpHistory)
	register("resolve", 8, runResolve)
}

// ------------------------------------------------------------------ kind uphistory


func runUpHistory(id string, parts []string) string {
	f := hx.Fields(parts)
	return guard(id, 90*time.Second, func() string { return upHistoryCase(f) })
}

func upHistoryCase(f map[string]string) string {
	pki, err := c17pki()
	if err != nil {
		return "HARNESS-ERROR pki " + err.Error()
	}
	if !pki.sysRoots {
		return "HARNESS-ERROR system roots not under control"
	}
	n, err := strconv.Atoi(f["n"])
	if err != nil || n < 1 || n > 8 {
		return "HARNESS-ERROR bad n"
	}
	split, _ := strconv.Atoi(f["split"])
	srv := f["srv"]
	// one server name per case: a process-wide session cache is keyed by the server name and the cases of one
	// process run in parallel against different servers
	c17SessName := f["name"]
	if c17SessName == "" {
		return "HARNESS-ERROR no name"
	}
	cert, _, _, err := pki.leaf(f["peer"], c17SessName)
	if err != nil {
		return "HARNESS-ERROR leaf " + err.Error()
	}
	seen := &c17Seen{oneShot: true}
	addr, closeSrv, err := c17StartServer(srv, "127.0.0.1:0", &cert, seen, nil)
	if err != nil {
		return "HARNESS-ERROR listen " + err.Error()
	}
	defer closeSrv()
	_, port, _ := net.SplitHostPort(addr)
	cfgs := make([]router.UpstreamConfig, n)
	for i := 0; i < n; i++ {
		g := func(k string) string { return f[k+strconv.Itoa(i)] }
		var t router.TlsConfig
		if g("ca") == "1" {
			t.CA = pki.caFile
		}
		t.InsecureSkipVerify = g("ins") == "1"
		u := g("st") + "://" + c17SessName + ":" + port
		if srv == "https" || srv == "h3" {
			u += "/dns-query"
		}
		cfgs[i] = router.UpstreamConfig{Tag: "u" + strconv.Itoa(i), Addr: u, DialAddr: "127.0.0.1:" + port, Tls: t}
	}
	groups := [][]int{}
	if split > 0 && split < n {
		a, b := []int{}, []int{}
		for i := 0; i < n; i++ {
			if i < split {
				a = append(a, i)
			} else {
				b = append(b, i)
			}
		}
		groups = [][]int{a, b}
	} else {
		a := []int{}
		for i := 0; i < n; i++ {
			a = append(a, i)
		}
		groups = [][]int{a}
	}
	ups := make([]*router.VerifC17Upstream, n)
	for _, grp := range groups {
		cfg := &router.Config{}
		for _, i := range grp {
			cfg.Upstreams = append(cfg.Upstreams, cfgs[i])
		}
		r, err := router.VerifC17RunRouter(cfg)
		if err != nil || r == nil {
			return "start=err"
		}
		defer r.Close()
		for _, i := range grp {
			ups[i] = r.Upstream(cfgs[i].Tag)
		}
	}
	var out strings.Builder
	out.WriteString("start=ok")
	for si, s := range strings.Split(f["steps"], ",") {
		i, err := strconv.Atoi(s)
		if err != nil || i < 0 || i >= n || ups[i] == nil {
			return "HARNESS-ERROR bad step"
		}
		x := "fail"
		// the previous connection of this entry was closed by the server after its one query: a first attempt may
		// still hit the dying connection
		for attempt := 0; attempt < 3 && x == "fail"; attempt++ {
			q := hx.BuildQuery(uint16(0x1760+si), []byte("\x04c17h\x04test"), 1, 1, true)
			ctx, cancel := context.WithTimeout(context.Background(), 2500*time.Millisecond)
			na, xerr := ups[i].Exchange(ctx, q)
			cancel()
			if xerr == nil && na == 1 {
				x = "ok"
			} else {
				time.Sleep(40 * time.Millisecond)
			}
		}
		fmt.Fprintf(&out, " t%d=%s", si, x)
		time.Sleep(80 * time.Millisecond) // let the server end the connection (DoQ: 60 ms after the reply)
	}
	return out.String()
}

// ------------------------------------------------------------------ kind resolve

type c17Resolver struct {
	mu    sync.Mutex
	table map[string][]net.IP // lower-case fqdn -> addresses (absent: NXDOMAIN)
	addr  string
}

var (
	c17resOnce sync.Once
	c17res     *c17Resolver
	c17resErr  error
)

func (r *c17Resolver) set(name string, ips ...string) {
	r.mu.Lock()
	defer r.mu.Unlock()
	k := strings.ToLower(dns.Fqdn(name))
	if len(ips) == 0 {
		delete(r.table, k)
		return
	}
	var l []net.IP
	for _, s := range ips {
		l = append(l, net.ParseIP(s).To4())
	}
	r.table[k] = l
}

func (r *c17Resolver) ServeDNS(w dns.ResponseWriter, q *dns.Msg) {
	m := new(dns.Msg)
	m.SetReply(q)
	if len(q.Question) == 1 {
		k := strings.ToLower(q.Question[0].Name)
		r.mu.Lock()
		ips, ok := r.table[k]
		r.mu.Unlock()
		switch {
		case !ok:
			m.Rcode = dns.RcodeNameError
		case q.Question[0].Qtype == dns.TypeA:
			for _, ip := range ips {
				m.Answer = append(m.Answer, &dns.A{Hdr: dns.RR_Header{Name: q.Question[0].Name, Rrtype: dns.TypeA, Class: dns.ClassINET, Ttl: 0}, A: ip})
			}
		}
	}
	w.WriteMsg(m)
}

// c17Resolve installs the harness' resolver as the resolver of THIS process (kind resolve only).
func c17Resolve() (*c17Resolver, error) {
	c17resOnce.Do(func() {
		r := &c17Resolver{table: map[string][]net.IP{}}
		pc, err := net.ListenPacket("udp", "127.0.0.1:0")
		if err != nil {
			c17resErr = err
			return
		}
		r.addr = pc.LocalAddr().String()
		srv := &dns.Server{PacketConn: pc, Handler: r}
		go srv.ActivateAndServe()
		net.DefaultResolver = &net.Resolver{
			PreferGo: true,
			Dial: func(ctx context.Context, _, _ string) (net.Conn, error) {
				return (&net.Dialer{}).DialContext(ctx, "udp", r.addr)
			},
		}
		// self test: a name of the table resolves, an unknown one does not
		r.set("selftest.c17r.test", "127.0.0.9")
		ctx, cancel := context.WithTimeout(context.Background(), 3*time.Second)
		defer cancel()
		a, err := net.DefaultResolver.LookupHost(ctx, "selftest.c17r.test")
		_, err2 := net.DefaultResolver.LookupHost(ctx, "unknown.c17r.test")
		if err != nil || len(a) != 1 || a[0] != "127.0.0.9" || err2 == nil {
			c17resErr = fmt.Errorf("the resolver of this process is not under the harness' control (%v %v %v)", a, err, err2)
			return
		}
		c17res = r
	})
	return c17res, c17resErr
}

func runResolve(id string, parts []string) string {
	f := hx.Fields(parts)
	ub, e1 := hx.UnHex(f["url"])
	db, e2 := hx.UnHex(f["da"])
	if e1 != nil || e2 != nil {
		return "HARNESS-ERROR bad hex"
	}
	return guard(id, 90*time.Second, func() string { return resolveCase(f, string(ub), string(db)) })
}

func resolveCase(f map[string]string, url, da string) string {
	pki, err := c17pki()
	if err != nil {
		return "HARNESS-ERROR pki " + err.Error()
	}
	res, err := c17Resolve()
	if err != nil {
		return "HARNESS-ERROR resolver " + err.Error()
	}
	srv := f["srv"]
	name := f["name"]
	usesTLS := srv == "tls" || srv == "https" || srv == "quic" || srv == "h3"
	var cert *tls.Certificate
	if usesTLS {
		c, _, _, err := pki.leaf("valid", f["san"])
		if err != nil {
			return "HARNESS-ERROR leaf " + err.Error()
		}
		cert = &c
	}
	// two servers on the same port: 127.0.0.1:P (a) and 127.0.0.2:P (b)
	seenA, seenB := &c17Seen{oneShot: true}, &c17Seen{oneShot: true}
	var closeA, closeB func()
	port := ""
	for attempt := 0; ; attempt++ {
		addr, ca, err := c17StartServer(srv, "127.0.0.1:0", cert, seenA, nil)
		if err != nil {
			return "HARNESS-ERROR listen " + err.Error()
		}
		_, port, _ = net.SplitHostPort(addr)
		_, cb, err := c17StartServer(srv, "127.0.0.2:"+port, cert, seenB, nil)
		if err != nil {
			ca()
			if attempt < 8 {
				continue
			}
			return "HARNESS-ERROR listen b " + err.Error()
		}
		closeA, closeB = ca, cb
		break
	}
	aClosed := false
	defer func() {
		if !aClosed {
			closeA()
		}
		closeB()
	}()
	defer res.set(name)

	scen := f["scen"]
	switch scen {
	case "move":
		res.set(name, "127.0.0.1")
	case "late":
		res.set(name)
	case "multi":
		res.set(name, "127.0.0.2", "127.0.0.1")
	default:
		return "HARNESS-ERROR bad scen"
	}
	u, err := upstream.NewUpstream(strings.ReplaceAll(url, c17PortToken, port), upstream.Opt{
		DialAddr:    strings.ReplaceAll(da, c17PortToken, port),
		TLSConfig:   &tls.Config{RootCAs: pki.caPool},
		DialTimeout: 2 * time.Second,
	})
	if err != nil {
		return "new=err"
	}
	defer u.Close()
	exchange := func(k int) string {
		for attempt := 0; attempt < 4; attempt++ {
			q := hx.BuildQuery(uint16(0x1780+k), []byte("\x04c17n\x04test"), 1, 1, true)
			ctx, cancel := context.WithTimeout(context.Background(), 2*time.Second)
			resp, xerr := u.ExchangeContext(ctx, q)
			cancel()
			if xerr == nil && resp != nil && len(resp.Answers) == 1 {
				return "ok"
			}
			time.Sleep(50 * time.Millisecond)
		}
		return "fail"
	}
	at := func(a0, b0 int, multi bool) string {
		a, b := c17Touched(seenA) > a0, c17Touched(seenB) > b0
		switch {
		case multi && (a || b):
			return "in"
		case a && b:
			return "ab"
		case a:
			return "a"
		case b:
			return "b"
		}
		return "-"
	}
	if scen == "late" {
		res.set(name, "127.0.0.1")
	}
	x1 := exchange(1)
	out := "new=ok x1=" + x1 + " at1=" + at(0, 0, scen == "multi")
	if scen == "move" {
		a0, b0 := c17Touched(seenA), c17Touched(seenB)
		res.set(name, "127.0.0.2")
		time.Sleep(100 * time.Millisecond) // the one-query-per-connection servers end their quic connection 60 ms after the reply
		closeA()                           // server a goes away: its connections end
		aClosed = true
		time.Sleep(120 * time.Millisecond)
		x2 := exchange(2)
		out += " x2=" + x2 + " at2=" + at(a0, b0, false)
	}
	return out
}
