package main

// C17, round 2.
//
// kind "sockets": EVERY socket a real upstream opens.  upstream.NewUpstream(url, Opt{DialAddr, TLSConfig, Control}) is
//   driven until it has opened all the kinds of socket it has: the fake server at the configured target answers
//   every UDP query with TC=1 (a udp upstream must retry over TCP) and serves ONE query per connection (reuse /
//   pipeline / http / quic transports have to dial again for the next exchange).  Every (network, address) handed to
//   the socket Control callback is recorded; quic / h3 have no Control on their dial path and are observed as "a
//   packet arrived at the fake server listening exactly there".  A second fake server of the same protocol (the
//   "stray") listens where the URL host points when a dial_addr override is configured: nothing may reach it.
//   Ports: 61234 in url/da = the main server's port, 61235 = the stray server's port.
//   case:   <id> url=<hex> da=<hex> sch=<udp|tcp|tls|http|https|quic|h3> main=<ip> mport=<eph|priv> stray=<ip|->
//   result: new=ok socks=<net>/<addr>,... (sorted, distinct) stray=<n>   |   new=err
//
// kind "tlscfg": the REAL makeTlsConfig (router.VerifC17MakeTlsConfig), field by field.  The pools are compared as
//   SETS: RootCAs nil = system roots, exactly {configured ca} = configured, anything else = other(<n>).
//   case:   <id> ca=<0|1> ck=<0|1> ins=<0|1> vc=<0|1> rc=<0|1>
//   result: cfg=ok ins=<0|1> roots=<system|configured|other(n)> cert=<0|1> auth=<..> cas=<none|configured|other(n)> | cfg=err

import (
	"context"
	"crypto/tls"
	"crypto/x509"
	"fmt"
	"net"
	"sort"
	"strings"
	"sync"
	"syscall"
	"time"

	"github.com/IrineSistiana/mosproxy/app/router"
	"github.com/IrineSistiana/mosproxy/internal/upstream"
	"github.com/IrineSistiana/mosproxy/verifharness/hx"
)

func init() {
	register("sockets", 6, runSockets)
	register("tlscfg", 1, runTlsCfg)
}

const c17StrayToken = "61235"

func runSockets(id string, parts []string) string {
	f := hx.Fields(parts)
	ub, e1 := hx.UnHex(f["url"])
	db, e2 := hx.UnHex(f["da"])
	if e1 != nil || e2 != nil {
		return "HARNESS-ERROR bad hex"
	}
	return guard(id, 40*time.Second, func() string { return socketsCase(f, string(ub), string(db)) })
}

func c17Touched(s *c17Seen) int {
	s.mu.Lock()
	defer s.mu.Unlock()
	n := s.conns + s.queries
	if n == 0 && s.sniSet {
		n = 1
	}
	return n
}

func socketsCase(f map[string]string, url, da string) string {
	pki, err := c17pki()
	if err != nil {
		return "HARNESS-ERROR pki " + err.Error()
	}
	sc := c17BaseScheme(url)
	usesTLS := sc == "tls" || sc == "https" || sc == "quic" || sc == "h3"
	quicLike := sc == "quic" || sc == "h3"
	var cert *tls.Certificate
	if usesTLS {
		// the certificate is for every name / address a case may use as URL host: verification is not the subject here
		c, _, _, err := pki.leaf("valid", "sockets.test")
		if err != nil {
			return "HARNESS-ERROR leaf " + err.Error()
		}
		cert = &c
	}

	mainSeen := &c17Seen{udpTC: true, oneShot: true}
	straySeen := &c17Seen{udpTC: true, oneShot: true}
	mainIP := f["main"]
	mport := "0"
	if f["mport"] == "priv" {
		mport = c17DefaultPort(sc)
		unlock := c17LockPriv()
		defer unlock()
	}
	maddr, closeMain, err := c17StartServer(sc, net.JoinHostPort(mainIP, mport), cert, mainSeen, nil)
	if err != nil {
		return "HARNESS-ERROR listen " + err.Error()
	}
	defer closeMain()
	_, mainPort, _ := net.SplitHostPort(maddr)
	strayPort := ""
	if ip := f["stray"]; ip != "" && ip != "-" {
		saddr, closeStray, err := c17StartServer(sc, net.JoinHostPort(ip, "0"), cert, straySeen, nil)
		if err != nil {
			return "HARNESS-ERROR listen " + err.Error()
		}
		defer closeStray()
		_, strayPort, _ = net.SplitHostPort(saddr)
		if strayPort == mainPort || strayPort == c17DefaultPort(sc) {
			return "HARNESS-ERROR stray port collides"
		}
	}
	subst := func(s string) string {
		if f["mport"] != "priv" {
			s = strings.ReplaceAll(s, c17PortToken, mainPort)
		}
		if strayPort != "" {
			s = strings.ReplaceAll(s, c17StrayToken, strayPort)
		}
		return s
	}
	unsubst := func(a string) string {
		h, p, err := net.SplitHostPort(a)
		if err != nil {
			return a
		}
		switch {
		case f["mport"] != "priv" && p == mainPort:
			p = c17PortToken
		case strayPort != "" && p == strayPort:
			p = c17StrayToken
		}
		return net.JoinHostPort(h, p)
	}

	var cmu sync.Mutex
	socks := map[string]bool{}
	control := func(network, address string, _ syscall.RawConn) error {
		// quic/h3 open their local socket through ListenConfig: address is the (empty / wildcard) local one
		if _, p, err := net.SplitHostPort(address); network != "unix" && (err != nil || p == "0" || p == "") {
			return nil
		}
		nw := network
		switch {
		case strings.HasPrefix(network, "udp"):
			nw = "udp"
		case strings.HasPrefix(network, "tcp"):
			nw = "tcp"
		}
		cmu.Lock()
		socks[nw+"/"+unsubst(address)] = true
		cmu.Unlock()
		return nil
	}

	tcfg := &tls.Config{RootCAs: pki.caPool, ServerName: "sockets.test"}
	u, err := upstream.NewUpstream(subst(url), upstream.Opt{
		DialAddr:    subst(da),
		TLSConfig:   tcfg,
		Control:     control,
		DialTimeout: 2 * time.Second,
	})
	if err != nil {
		return "new=err"
	}
	defer u.Close()
	// three exchanges: the first opens the primary socket (and, for udp, the TCP retry after the TC=1 reply); the
	// server has closed that connection, so the following ones dial again
	for i := 0; i < 3; i++ {
		q := hx.BuildQuery(uint16(0x1720+i), []byte("\x04c17s\x04test"), 1, 1, true)
		ctx, cancel := context.WithTimeout(context.Background(), 1500*time.Millisecond)
		resp, xerr := u.ExchangeContext(ctx, q)
		cancel()
		_ = resp
		if xerr != nil {
			time.Sleep(20 * time.Millisecond)
		}
	}

	if quicLike {
		// observed at the servers
		if c17Touched(mainSeen) > 0 {
			p := c17PortToken
			if f["mport"] == "priv" {
				p = mainPort
			}
			socks["udp/"+net.JoinHostPort(mainIP, p)] = true
		}
		if strayPort != "" && c17Touched(straySeen) > 0 {
			socks["udp/"+net.JoinHostPort(f["stray"], c17StrayToken)] = true
		}
	}
	cmu.Lock()
	var l []string
	for k := range socks {
		l = append(l, k)
	}
	cmu.Unlock()
	sort.Strings(l)
	stray := 0
	if strayPort != "" {
		stray = c17Touched(straySeen)
	}
	out := "-"
	if len(l) > 0 {
		out = strings.Join(l, ",")
	}
	return fmt.Sprintf("new=ok socks=%s stray=%d", out, stray)
}

// ------------------------------------------------------------------ kind tlscfg

func runTlsCfg(id string, parts []string) string {
	f := hx.Fields(parts)
	return guard(id, 20*time.Second, func() string {
		pki, err := c17pki()
		if err != nil {
			return "HARNESS-ERROR pki " + err.Error()
		}
		if !pki.sysRoots {
			return "HARNESS-ERROR system roots not under control"
		}
		topts, err := c17TlsOpts(f, pki, "localhost")
		if err != nil {
			return "HARNESS-ERROR leaf " + err.Error()
		}
		cfg, err := router.VerifC17MakeTlsConfig(&topts, f["rc"] == "1")
		if err != nil || cfg == nil {
			return "cfg=err"
		}
		pool := func(p *x509.CertPool, nilName string) string {
			switch {
			case p == nil:
				return nilName
			case c17PoolIs(p, pki.caCert):
				return "configured"
			}
			return fmt.Sprintf("other(%d)", len(p.Subjects())) //nolint:staticcheck
		}
		auth := map[tls.ClientAuthType]string{
			tls.NoClientCert: "none", tls.RequestClientCert: "request", tls.RequireAnyClientCert: "requireany",
			tls.VerifyClientCertIfGiven: "verifyifgiven", tls.RequireAndVerifyClientCert: "requireandverify",
		}[cfg.ClientAuth]
		b := func(x bool) int {
			if x {
				return 1
			}
			return 0
		}
		return fmt.Sprintf("cfg=ok ins=%d roots=%s cert=%d auth=%s cas=%s", b(cfg.InsecureSkipVerify),
			pool(cfg.RootCAs, "system"), b(len(cfg.Certificates) > 0), auth, pool(cfg.ClientCAs, "none"))
	})
}
