package main

// C15 — rate limiting is a per-client-subnet token bucket isolating clients.
//
// Kind "limiter": a virtual-time arrival history on the REAL limiter.ClientLimiter.
//   case:   <id> rate=<n> burst=<n> v4=<n> v6=<n> clock=<virt|real> ops=<op>,<op>,...
//           op = a:<dt_ns>:<addr>:<cost>   AllowN(addr, now, cost) with now advanced by dt (dt may be negative)
//              | g:<dt_ns>                 collector run at now advanced by dt
//           addr = 4-<8 hex> | 6-<32 hex>  (v4-mapped addresses are 6-00..00ffff<8 hex>)
//           rate/burst/v4/v6 = 0 means omitted (defaults through NewClientLimiter -> setDefault)
//           clock=virt: now = fixed base + offset, collector through the VerifGcNow hook (= the real gcAt)
//           clock=real: exactly one g op; the base is chosen so that this op happens "now" on the real
//                       clock and the real gc() is called (arrival times keep clear of the 60 s threshold)
//   result: dec=<0|1 per a-op> len=<entries at the end> near=<decisions within 1e-6 token of the threshold>
//
// Kind "limdefaults": option structs with omitted fields -> effective parameters and mask results.
//   case:   <id> rate= burst= v4= v6= addrs=<addr>,<addr>,...    |   <id> consts=1
//   result: eff=<limit>/<burst>/<v4>/<v6> keys=<addr|none>,...   |   ttl=<ns> costs=<9 numbers>
//
// Kind "admit": see c15_admit.go.

import (
	"encoding/hex"
	"fmt"
	"math"
	"net/netip"
	"strconv"
	"strings"
	"time"

	"github.com/IrineSistiana/mosproxy/app/router"
	"github.com/IrineSistiana/mosproxy/internal/limiter"
	"github.com/IrineSistiana/mosproxy/verifharness/hx"
)

func init() {
	register("limiter", 8, runLimiter)
	register("limdefaults", 8, runLimDefaults)
}

func c15ParseAddr(s string) (netip.Addr, error) {
	fam, h, ok := strings.Cut(s, "-")
	if !ok {
		return netip.Addr{}, fmt.Errorf("bad addr %q", s)
	}
	b, err := hex.DecodeString(h)
	if err != nil {
		return netip.Addr{}, err
	}
	switch {
	case fam == "4" && len(b) == 4:
		return netip.AddrFrom4([4]byte(b)), nil
	case fam == "6" && len(b) == 16:
		return netip.AddrFrom16([16]byte(b)), nil
	}
	return netip.Addr{}, fmt.Errorf("bad addr %q", s)
}

func c15FmtAddr(a netip.Addr) string {
	switch {
	case !a.IsValid():
		return "none"
	case a.Is4():
		b := a.As4()
		return "4-" + hex.EncodeToString(b[:])
	default:
		b := a.As16()
		return "6-" + hex.EncodeToString(b[:])
	}
}

func c15Opts(f map[string]string) limiter.ClientLimiterOpts {
	return limiter.ClientLimiterOpts{
		Limit:  float64(hx.MustAtoi(f["rate"])),
		Burst:  hx.MustAtoi(f["burst"]),
		V4Mask: hx.MustAtoi(f["v4"]),
		V6Mask: hx.MustAtoi(f["v6"]),
	}
}

func runLimiter(id string, parts []string) string {
	f := hx.Fields(parts)
	ops := strings.Split(f["ops"], ",")
	return guard(id, 20*time.Second, func() string {
		cl := limiter.NewClientLimiter(c15Opts(f))
		defer cl.Close()
		return c15History(cl, f, ops)
	})
}

// c15History plays an ops history (see kind "limiter") on a ClientLimiter.
func c15History(cl *limiter.ClientLimiter, f map[string]string, ops []string) string {
	{
		base := time.Unix(1_800_000_000, 0)
		realClock := f["clock"] == "real"
		if realClock {
			// virtual time of the single collector run
			var t, g int64
			found := 0
			for _, op := range ops {
				p := strings.Split(op, ":")
				dt, _ := strconv.ParseInt(p[1], 10, 64)
				t += dt
				if p[0] == "g" {
					g = t
					found++
				}
			}
			if found != 1 {
				return "HARNESS-ERROR clock=real needs exactly one g op"
			}
			base = time.Now().Add(-time.Duration(g))
		}

		var dec strings.Builder
		near := 0
		var t int64
		for _, op := range ops {
			if op == "" {
				continue
			}
			p := strings.Split(op, ":")
			dt, err := strconv.ParseInt(p[1], 10, 64)
			if err != nil {
				return "HARNESS-ERROR bad dt"
			}
			t += dt
			now := base.Add(time.Duration(t))
			switch p[0] {
			case "a":
				addr, err := c15ParseAddr(p[2])
				if err != nil {
					return "HARNESS-ERROR " + err.Error()
				}
				n := hx.MustAtoi(p[3])
				if tok, _ := cl.VerifTokensAt(addr, now); math.Abs(tok-float64(n)) <= 1e-6 {
					near++
				}
				if cl.AllowN(addr, now, n) {
					dec.WriteByte('1')
				} else {
					dec.WriteByte('0')
				}
			case "g":
				if realClock {
					cl.VerifGc()
				} else {
					cl.VerifGcNow(now)
				}
			default:
				return "HARNESS-ERROR bad op"
			}
		}
		d := dec.String()
		if d == "" {
			d = "-"
		}
		return fmt.Sprintf("dec=%s len=%d near=%d", d, len(cl.VerifKeys()), near)
	}
}

func runLimDefaults(id string, parts []string) string {
	f := hx.Fields(parts)
	return guard(id, 10*time.Second, func() string {
		if f["consts"] != "" {
			c := router.VerifC15Costs()
			return fmt.Sprintf("ttl=%d costs=%d,%d,%d,%d,%d,%d,%d,%d,%d", int64(limiter.VerifEntryTtl),
				c["udp_query"], c["tcp_query"], c["http_query"], c["quic_query"], c["tcp_conn"], c["tls_conn"],
				c["quic_conn"], c["from_cache"], c["from_upstream"])
		}
		cl := limiter.NewClientLimiter(c15Opts(f))
		defer cl.Close()
		o := cl.VerifOpts()
		o2 := limiter.VerifSetDefault(c15Opts(f))
		if o != o2 {
			return "HARNESS-ERROR NewClientLimiter and setDefault disagree"
		}
		var keys []string
		for _, s := range strings.Split(f["addrs"], ",") {
			if s == "" {
				continue
			}
			a, err := c15ParseAddr(s)
			if err != nil {
				return "HARNESS-ERROR " + err.Error()
			}
			keys = append(keys, c15FmtAddr(cl.VerifMask(a)))
		}
		lim := strconv.FormatFloat(o.Limit, 'f', -1, 64)
		return fmt.Sprintf("eff=%s/%d/%d/%d keys=%s", lim, o.Burst, o.V4Mask, o.V6Mask, strings.Join(keys, ","))
	})
}
