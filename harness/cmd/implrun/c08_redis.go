package main

// C08, round 2: the redis promotion path of the REAL cacheCtl.Get (memory miss + redis hit => the value is put into
// the memory cache with its ORIGINAL storedTime / expireTime).
//
//   promote: <id> maxttl=<cfg secs> ops=<op,op,...>     real-time history on one cacheCtl with memory + redis backend
//            op = s.<at ms>.<key>.<ttl_ttl>                         cacheCtl.Store of a NOERROR response (memory + redis)
//                 r.<at ms>.<key>.<age ms>.<remain ms>.<ttl_ttl>    another instance's answer appears in redis: fetched
//                                                                   `age` ago, `remain` of its lifetime left (PX = remain)
//                 x.<at ms>.<key>                                   the memory cache loses the key (eviction / restart)
//                 g.<at ms>.<key>                                   cacheCtl.Get
//                 e.<at ms>.<key>.<rcode>.<ttl_ttl|x>               (round 4) cacheCtl.Store of an ERROR response (set-if-absent)
//            -> one token per op: s | e | r | x | M | H<source op index>:<ttl_ttl...>
//                 v.<at ms>.<ms>                                    (round 6) the redis SERVER's clock jumps ahead by ms
//   rediscmd (round 6): same driver, cmd=1 on the case line: the token of every store op carries the SET command the
//            fake server received for it: s{SET:<px ms>} | e{SETNX:<px ms>} | ..{SET:nopx} | ..{none} (no command within 120 ms)
//   redisneg: same driver and grammar, with mem=<0|1> on the case line: mem=0 is the redis-ONLY configuration
//            (cache.redis set, mem_size 0); sequences positive / error (every rcode) / get
//
// There is no redis server in the sandbox: the real cache.RedisCache (rueidis client, RESP2, no client-side cache)
// talks over loopback TCP to the in-process fake below (PING, GET, SET [NX] PX with exact millisecond expiry on the
// process clock; every other command is answered "-ERR unknown command", which rueidis accepts for its optional
// start-up commands).  One fake + one cacheCtl per case.

import (
	"bufio"
	"fmt"
	"io"
	"net"
	"net/netip"
	"strconv"
	"strings"
	"sync"
	"time"

	"github.com/IrineSistiana/mosproxy/app/router"
	"github.com/IrineSistiana/mosproxy/internal/dnsmsg"
	"github.com/IrineSistiana/mosproxy/verifharness/hx"
)

func init() {
	register("promote", 16, runPromote)
	register("redisneg", 48, runPromote)
	register("rediscmd", 64, runPromote)
}

type fakeRedis struct {
	l    net.Listener
	mu   sync.Mutex
	data map[string]fakeRedisVal
	sets int
	gets int
	// round 4: observation and pacing of the SET commands as the server receives them (both optional).
	// onSet sees the key / value octets exactly as they arrived on the wire, before the command is applied;
	// setDelay(n) is slept before the reply to the n-th SET is written (a slow server: the client's set loop lags).
	onSet    func(k, v []byte, nx bool)
	setDelay func(n int) time.Duration
	// round 6: the SET commands as received (verb flags), and a virtual clock: [skew] is added to the process clock
	// wherever the server looks at the time, so that "an hour later" costs nothing.  A key SET without PX never expires.
	cmds []fakeRedisCmd
	skew time.Duration
}

type fakeRedisCmd struct {
	nx bool
	px int64 // milliseconds; -1 = the command carried no PX
}

func (r *fakeRedis) now() time.Time {
	r.mu.Lock()
	defer r.mu.Unlock()
	return time.Now().Add(r.skew)
}

// advance moves the server's clock forward
func (r *fakeRedis) advance(d time.Duration) {
	r.mu.Lock()
	r.skew += d
	r.mu.Unlock()
}

// setCmd returns the n-th SET command received (0-based), waiting up to `wait` for it to arrive
func (r *fakeRedis) setCmd(n int, wait time.Duration) (fakeRedisCmd, bool) {
	dl := time.Now().Add(wait)
	for {
		r.mu.Lock()
		if n < len(r.cmds) {
			c := r.cmds[n]
			r.mu.Unlock()
			return c, true
		}
		r.mu.Unlock()
		if time.Now().After(dl) {
			return fakeRedisCmd{}, false
		}
		time.Sleep(5 * time.Millisecond)
	}
}

func (r *fakeRedis) setCount() int {
	r.mu.Lock()
	defer r.mu.Unlock()
	return len(r.cmds)
}

type fakeRedisVal struct {
	v        []byte
	deadline time.Time
}

func newFakeRedis() (*fakeRedis, error) {
	l, err := net.Listen("tcp", "127.0.0.1:0")
	if err != nil {
		return nil, err
	}
	r := &fakeRedis{l: l, data: map[string]fakeRedisVal{}}
	go r.serve()
	return r, nil
}

// observe installs the SET observer and the SET pacing (see the struct)
func (r *fakeRedis) observe(onSet func(k, v []byte, nx bool), setDelay func(n int) time.Duration) {
	r.mu.Lock()
	r.onSet, r.setDelay = onSet, setDelay
	r.mu.Unlock()
}

func (r *fakeRedis) url() string {
	return "redis://" + r.l.Addr().String() + "?protocol=2&client_cache=0"
}

func (r *fakeRedis) close() { r.l.Close() }

// put: what a SET k v PX ms from another client does
func (r *fakeRedis) put(k, v []byte, px time.Duration) {
	r.mu.Lock()
	r.data[string(k)] = fakeRedisVal{append([]byte(nil), v...), time.Now().Add(r.skew).Add(px)}
	r.mu.Unlock()
}

func (r *fakeRedis) serve() {
	for {
		c, err := r.l.Accept()
		if err != nil {
			return
		}
		go r.conn(c)
	}
}

func readRespCmd(br *bufio.Reader) ([][]byte, error) {
	line, err := br.ReadString('\n')
	if err != nil {
		return nil, err
	}
	line = strings.TrimRight(line, "\r\n")
	if len(line) == 0 || line[0] != '*' {
		return nil, fmt.Errorf("not an array: %q", line)
	}
	n, err := strconv.Atoi(line[1:])
	if err != nil || n < 0 || n > 64 {
		return nil, fmt.Errorf("bad array length %q", line)
	}
	args := make([][]byte, 0, n)
	for i := 0; i < n; i++ {
		h, err := br.ReadString('\n')
		if err != nil {
			return nil, err
		}
		h = strings.TrimRight(h, "\r\n")
		if len(h) == 0 || h[0] != '$' {
			return nil, fmt.Errorf("not a bulk string: %q", h)
		}
		l, err := strconv.Atoi(h[1:])
		if err != nil || l < 0 || l > 1<<24 {
			return nil, fmt.Errorf("bad bulk length %q", h)
		}
		b := make([]byte, l+2)
		if _, err := io.ReadFull(br, b); err != nil {
			return nil, err
		}
		args = append(args, b[:l])
	}
	return args, nil
}

func (r *fakeRedis) conn(c net.Conn) {
	defer c.Close()
	br := bufio.NewReader(c)
	bw := bufio.NewWriter(c)
	for {
		args, err := readRespCmd(br)
		if err != nil {
			return
		}
		if len(args) == 0 {
			continue
		}
		switch cmd := strings.ToUpper(string(args[0])); {
		case cmd == "PING":
			bw.WriteString("+PONG\r\n")
		case cmd == "GET" && len(args) == 2:
			r.mu.Lock()
			r.gets++
			e, ok := r.data[string(args[1])]
			if ok && !time.Now().Add(r.skew).Before(e.deadline) {
				delete(r.data, string(args[1]))
				ok = false
			}
			r.mu.Unlock()
			if ok {
				fmt.Fprintf(bw, "$%d\r\n", len(e.v))
				bw.Write(e.v)
				bw.WriteString("\r\n")
			} else {
				bw.WriteString("$-1\r\n")
			}
		case cmd == "SET" && len(args) >= 3:
			nx := false
			var px time.Duration = -1
			bad := false
			for i := 3; i < len(args); i++ {
				switch strings.ToUpper(string(args[i])) {
				case "NX":
					nx = true
				case "PX":
					if i+1 < len(args) {
						ms, err := strconv.ParseInt(string(args[i+1]), 10, 64)
						if err != nil || ms <= 0 {
							bad = true
						}
						px = time.Duration(ms) * time.Millisecond
						i++
					} else {
						bad = true
					}
				default:
					bad = true
				}
			}
			if bad {
				bw.WriteString("-ERR syntax error\r\n")
				break
			}
			r.mu.Lock()
			onSet, setDelay, nth := r.onSet, r.setDelay, r.sets
			r.mu.Unlock()
			if onSet != nil {
				onSet(args[1], args[2], nx)
			}
			if setDelay != nil {
				if d := setDelay(nth); d > 0 {
					bw.Flush()
					time.Sleep(d)
				}
			}
			r.mu.Lock()
			now := time.Now().Add(r.skew)
			pxms := int64(-1)
			if px >= 0 {
				pxms = px.Milliseconds()
			}
			r.cmds = append(r.cmds, fakeRedisCmd{nx: nx, px: pxms})
			r.sets++
			e, present := r.data[string(args[1])]
			if present && !now.Before(e.deadline) {
				present = false
			}
			if nx && present {
				r.mu.Unlock()
				bw.WriteString("$-1\r\n")
				break
			}
			dl := now.Add(1000 * time.Hour)
			if px >= 0 {
				dl = now.Add(px)
			}
			r.data[string(args[1])] = fakeRedisVal{append([]byte(nil), args[2]...), dl}
			r.mu.Unlock()
			bw.WriteString("+OK\r\n")
		default:
			fmt.Fprintf(bw, "-ERR unknown command '%s'\r\n", cmd)
		}
		if br.Buffered() == 0 {
			if bw.Flush() != nil {
				return
			}
		}
	}
}

type promoOp struct {
	kind   byte
	at     time.Duration
	key    int
	age    time.Duration
	remain time.Duration
	ttls   []uint32
	rcode  int
}

func promoTTLs(s string) ([]uint32, error) {
	var out []uint32
	if s == "x" {
		return nil, nil
	}
	for _, t := range strings.Split(s, "_") {
		v, err := strconv.ParseUint(t, 10, 32)
		if err != nil {
			return nil, err
		}
		out = append(out, uint32(v))
	}
	return out, nil
}

func promoParse(s string) ([]promoOp, error) {
	var ops []promoOp
	for _, tok := range strings.Split(s, ",") {
		p := strings.Split(tok, ".")
		if len(p) < 3 {
			return nil, fmt.Errorf("bad op %q", tok)
		}
		at, err1 := strconv.Atoi(p[1])
		key, err2 := strconv.Atoi(p[2])
		if err1 != nil || err2 != nil {
			return nil, fmt.Errorf("bad op %q", tok)
		}
		op := promoOp{kind: p[0][0], at: time.Duration(at) * time.Millisecond, key: key}
		var err error
		switch {
		case op.kind == 's' && len(p) == 4:
			op.ttls, err = promoTTLs(p[3])
		case op.kind == 'e' && len(p) == 5:
			op.rcode, err = strconv.Atoi(p[3])
			if err == nil {
				op.ttls, err = promoTTLs(p[4])
			}
		case op.kind == 'r' && len(p) == 6:
			var age, remain int64
			age, err = strconv.ParseInt(p[3], 10, 64)
			if err == nil {
				remain, err = strconv.ParseInt(p[4], 10, 64)
			}
			op.age, op.remain = time.Duration(age)*time.Millisecond, time.Duration(remain)*time.Millisecond
			if err == nil {
				op.ttls, err = promoTTLs(p[5])
			}
		case (op.kind == 'x' || op.kind == 'g' || op.kind == 'v') && len(p) == 3:
		default:
			err = fmt.Errorf("bad op")
		}
		if err != nil {
			return nil, fmt.Errorf("bad op %q", tok)
		}
		ops = append(ops, op)
	}
	return ops, nil
}

func runPromote(id string, parts []string) string {
	f := hx.Fields(parts)
	maxttl := hx.MustAtoi(f["maxttl"])
	ops, err := promoParse(f["ops"])
	if err != nil {
		return "HARNESS-ERROR " + err.Error()
	}
	return guard(id, 90*time.Second, func() string {
		router.VerifC08Quiet()
		// otter's clock is process-global and restarts when the last cache closes: keep one cache open
		c08KeepAlive.Do(func() { c08Cache(0) })
		res := ""
		for attempt := 0; attempt < 2; attempt++ {
			fr, err := newFakeRedis()
			if err != nil {
				return "HARNESS-ERROR " + err.Error()
			}
			memSize := 1 << 22
			if f["mem"] == "0" {
				memSize = 0 // redis-only configuration
			}
			c, err := router.VerifC08NewCacheRedis(maxttl, memSize, fr.url())
			if err != nil {
				fr.close()
				return "HARNESS-ERROR " + err.Error()
			}
			// the redis backend is used only after its ping loop (1 s ticker) has seen the server
			dl := time.Now().Add(5 * time.Second)
			for !c.RedisConnected() && time.Now().Before(dl) {
				time.Sleep(20 * time.Millisecond)
			}
			if !c.RedisConnected() {
				c.Close()
				fr.close()
				return "HARNESS-ERROR redis backend never connected to the fake"
			}
			late := false
			var out []string
			c08DrainPools()
			t0 := time.Now()
			for i, op := range ops {
				if d := time.Until(t0.Add(op.at)); d > 0 {
					time.Sleep(d)
				}
				if time.Since(t0)-op.at > c08Late {
					late = true
				}
				name := c08Name(id, attempt*1000+op.key)
				q := c08Question(name)
				switch op.kind {
				case 's', 'e':
					m, err := dnsmsg.UnpackMsg(c08Wire(uint16(i+1), name, op.rcode, false, op.ttls))
					if err != nil {
						return "HARNESS-ERROR wire"
					}
					nset := fr.setCount()
					c.Store(q, netip.Addr{}, m)
					dnsmsg.ReleaseMsg(m)
					tok := string(op.kind)
					if f["cmd"] == "1" { // the command as the server received it
						if cm, ok := fr.setCmd(nset, 120*time.Millisecond); !ok {
							tok += "{none}"
						} else {
							verb := "SET"
							if cm.nx {
								verb = "SETNX"
							}
							if cm.px < 0 {
								tok += "{" + verb + ":nopx}"
							} else {
								tok += fmt.Sprintf("{%s:%d}", verb, cm.px)
							}
						}
					}
					out = append(out, tok)
				case 'r':
					m, err := dnsmsg.UnpackMsg(c08Wire(uint16(i+1), name, 0, false, op.ttls))
					if err != nil {
						return "HARNESS-ERROR wire"
					}
					now := time.Now()
					k, v, err := c.RedisImage(q, now.Add(-op.age), now.Add(op.remain), m)
					dnsmsg.ReleaseMsg(m)
					if err != nil {
						return "HARNESS-ERROR pack"
					}
					fr.put(k, v, op.remain)
					out = append(out, "r")
				case 'v':
					fr.advance(time.Duration(op.key) * time.Millisecond)
					out = append(out, "v")
				case 'x':
					if memSize == 0 {
						return "HARNESS-ERROR op x without a memory backend"
					}
					c.DropMemory(q)
					out = append(out, "x")
				case 'g':
					got, _, _ := c.Get(q)
					if got == nil {
						out = append(out, "M")
						time.Sleep(15 * time.Millisecond)
					} else {
						var ts []string
						for _, r := range got.Answers {
							ts = append(ts, strconv.FormatUint(uint64(r.Hdr().TTL), 10))
						}
						out = append(out, fmt.Sprintf("H%d:%s", int(got.Header.ID)-1, strings.Join(ts, "_")))
						dnsmsg.ReleaseMsg(got)
					}
				}
				if time.Since(t0)-op.at > c08Late {
					late = true
				}
			}
			c.Close()
			fr.close()
			res = strings.Join(out, " ")
			if !late {
				return res
			}
		}
		return "HARNESS-ERROR late " + res
	})
}
