package main

// Kind "connlock" (C14, round 2): goroutines running the lock-protected operations of ONE real pipelineConn
// (internal/upstream/transport/pipeline_conn.go) concurrently, compared with the extracted model Net/ConnLock.v.
//
//   case:   <id> eol=<0|1> g=<op,op,..>;<op,..>;...     op = close | status | getq | reserve | add | del
//     one goroutine per ';'-separated program; all start together. eol=1: the wire ids of the connection are used up
//     (nextQid = 65536), so every deleteQueueC finds the queue empty at end-of-life and calls closeWithErr itself.
//     The connection's socket is a fake whose Read blocks until the socket is closed and then fails: the read loop
//     answers the first close of the socket with its own closeWithErr - every close of the case is followed by a
//     second one from another goroutine, as on a UDP connection whose port refuses.
//   result: done=<k>/<n> closed=<0|1> ctx=<0|1> final=<ok|BLOCKED>
//     done  : goroutines whose every call returned within 2.5 s
//     final : afterwards Status, Reserve, Status (read lock, write lock, read lock) all return within 1.5 s
//     closed: Status().Closed;  ctx: the connection context is cancelled (the waiting exchanges are woken)

import (
	"errors"
	"fmt"
	"strings"
	"sync"
	"sync/atomic"
	"time"

	"github.com/IrineSistiana/mosproxy/internal/upstream/transport"
	"github.com/IrineSistiana/mosproxy/verifharness/hx"
)

func init() { register("connlock", 8, runConnLock) }

func runConnLock(id string, parts []string) string {
	return guard(id, 30*time.Second, func() string { return connLockCase(hx.Fields(parts)) })
}

func connLockCase(f map[string]string) string {
	eol := f["eol"] == "1"
	var progs [][]string
	for _, g := range strings.Split(f["g"], ";") {
		if g == "" || g == "-" {
			progs = append(progs, nil)
			continue
		}
		progs = append(progs, strings.Split(g, ","))
	}
	sock := ogNewDeadConn(false)
	v := transport.VerifNewPipeConn(sock, false, eol)
	start := make(chan struct{})
	var done atomic.Int32
	var wg sync.WaitGroup
	for _, p := range progs {
		wg.Add(1)
		go func(p []string) {
			defer wg.Done()
			<-start
			var last uint16
			for _, op := range p {
				switch op {
				case "close":
					v.CloseWithErr(errors.New("verif: connection failed"))
				case "status":
					v.Status()
				case "getq":
					v.GetQueue(last)
				case "reserve":
					v.Reserve()
				case "add":
					if q, err := v.AddQueue(); err == nil {
						last = q
					}
				case "del":
					v.DeleteQueue(last)
				}
			}
			done.Add(1)
		}(p)
	}
	close(start)
	all := make(chan struct{})
	go func() { wg.Wait(); close(all) }()
	select {
	case <-all:
	case <-time.After(2500 * time.Millisecond):
	}
	nDone := done.Load()
	time.Sleep(30 * time.Millisecond) // the read loop reacts to the closed socket
	type probe struct{ closed bool }
	pc := make(chan probe, 1)
	go func() {
		c1, _ := v.Status()
		v.Reserve()
		v.Status()
		pc <- probe{closed: c1}
	}()
	final, closed := "ok", "?"
	select {
	case p := <-pc:
		closed = "0"
		if p.closed {
			closed = "1"
		}
	case <-time.After(1500 * time.Millisecond):
		final = "BLOCKED"
	}
	ctx := 0
	if v.CtxDone() {
		ctx = 1
	}
	go v.CloseWithErr(nil) // clean-up: stops the read loop; never waited for
	return fmt.Sprintf("done=%d/%d closed=%s ctx=%d final=%s", nDone, len(progs), closed, ctx, final)
}
