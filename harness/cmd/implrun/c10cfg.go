package main

// Kind "cfgload" (C10, strict loading): a generated YAML configuration through the REAL binary (build/mosproxy router -c f).
//   <id> yaml=<hex of the YAML text; @DIR@ is replaced by a scratch directory holding empty files set0.txt .. set9.txt> ...
//   -> started | rejected | PANIC! | HANG
// "started" = the log line "router is up and running" appeared (the process is then killed);
// "rejected" = the process exited with a non-zero status and without a Go panic trace.

import (
	"bytes"
	"fmt"
	"os"
	"os/exec"
	"path/filepath"
	"strings"
	"sync"
	"time"

	"github.com/IrineSistiana/mosproxy/verifharness/hx"
)

func init() { register("cfgload", 8, runCfgLoad) }

type lockedBuf struct {
	mu sync.Mutex
	b  bytes.Buffer
}

func (l *lockedBuf) Write(p []byte) (int, error) {
	l.mu.Lock()
	defer l.mu.Unlock()
	return l.b.Write(p)
}
func (l *lockedBuf) String() string {
	l.mu.Lock()
	defer l.mu.Unlock()
	return l.b.String()
}

func runCfgLoad(id string, parts []string) string {
	f := hx.Fields(parts)
	y, err := hx.UnHex(f["yaml"])
	if err != nil {
		return "HARNESS-ERROR bad hex"
	}
	dir, err := os.MkdirTemp("", "verifcfg")
	if err != nil {
		return "HARNESS-ERROR tmp"
	}
	defer os.RemoveAll(dir)
	for i := 0; i < 10; i++ {
		os.WriteFile(filepath.Join(dir, fmt.Sprintf("set%d.txt", i)), []byte("# empty\nexample.org\n"), 0o644)
	}
	text := strings.ReplaceAll(string(y), "@DIR@", dir)
	cp := filepath.Join(dir, "config.yaml")
	os.WriteFile(cp, []byte(text), 0o644)
	bin := os.Getenv("VERIF_MOSPROXY")
	if bin == "" {
		bin = filepath.Join(filepath.Dir(os.Args[0]), "mosproxy")
	}
	cmd := exec.Command(bin, "router", "-c", cp)
	out := &lockedBuf{}
	cmd.Stdout, cmd.Stderr = out, out
	if err := cmd.Start(); err != nil {
		return "HARNESS-ERROR start: " + strings.ReplaceAll(err.Error(), " ", "_")
	}
	done := make(chan error, 1)
	go func() { done <- cmd.Wait() }()
	trace := func() bool {
		s := out.String()
		return strings.Contains(s, "panic:") || strings.Contains(s, "goroutine ") || strings.Contains(s, "fatal error:")
	}
	deadline := time.After(10 * time.Second)
	tick := time.NewTicker(10 * time.Millisecond)
	defer tick.Stop()
	for {
		select {
		case err := <-done:
			if trace() {
				return "PANIC!"
			}
			if err == nil {
				return "exit0"
			}
			return "rejected"
		case <-tick.C:
			if strings.Contains(out.String(), "up and running") {
				cmd.Process.Kill()
				<-done
				return "started"
			}
		case <-deadline:
			cmd.Process.Kill()
			<-done
			return "HANG"
		}
	}
}
