package main

// Kinds of property C07 (cache key, client-group marker, memory cache entry protocol, value encoding).
//
//   cachekey: <id> n1=<hex> c1=<n> t1=<n> m1=<hex> n2=<hex> c2=<n> t2=<n> m2=<hex>
//             -> k1=<hex> k1r=<hex> k2=<hex>
//             k1/k1r: the key of request 1 computed twice, k2: the key of request 2.  Between the calls the
//             byte pool is dirtied (buffers of the same size class filled with 0xAA / 0x55 / a counter and
//             released) so that octets cacheKey fails to initialise show up.  The name is lower-cased first,
//             as handleReqMsg does.
//   marker:   <id> file=<hex of the marker file text> probes=<addr text,...>   (model reads lines=/pr=)
//             -> ERR | OK n=<ranges> <label hex>,...
//   cache:    <id> cap=<cost capacity, 0 = ample> ops=<op,...>
//             ops: S:<k>:<v>:<ttl ms>:<nx>  G:<k>  E:<k>  R<phase>:<k>:<k2>:<v2>  T:<ms>
//             -> r=<M|H<hex>>,...          one item per G / R op, on the REAL cache.MemoryCache
//   hitmiss:  <id> file=<hex|-> msg=<hex> n1= c1= t1= a1=<addr> n2= c2= t2= a2=<addr>
//             -> ERR | UNDECODABLE | g1=<hex> g2=<hex> MISS | g1=.. g2=.. HIT <dump, TTLs masked>
//             cacheCtl.Store(q1, a1, msg) then cacheCtl.Get(q2, a2) on a cacheCtl built by the real initCache.
//   cachestress: <id> threads=<n> keys=<n> iters=<n> seed=<n>   (no model: oracle only)
//             -> hits=<n> wrong=<n> [first wrong hit]

import (
	"bytes"
	"fmt"
	"math/rand"
	"net/netip"
	"os"
	"runtime"
	"strconv"
	"strings"
	"sync"
	"sync/atomic"
	"time"

	"github.com/IrineSistiana/mosproxy/app/router"
	"github.com/IrineSistiana/mosproxy/internal/cache"
	"github.com/IrineSistiana/mosproxy/internal/dnsmsg"
	"github.com/IrineSistiana/mosproxy/internal/pool"
	"github.com/IrineSistiana/mosproxy/verifharness/hx"
)

func init() {
	register("cachekey", 1, runCacheKey)
	register("marker", 1, runMarker)
	register("cache", 8, runCache)
	register("cachepress", 8, runCache) // same driver; small capacity, judged by the oracle only
	register("hitmiss", 8, runHitMiss)
	register("cachestress", 1, runCacheStress)
}

var oneP sync.Once
var dirtyCtr byte

// dirtyPool leaves buffers of the size class of n, filled with a pattern, in the byte pool.
func dirtyPool(n int, pat byte) {
	if n <= 0 {
		return
	}
	var bufs []pool.Buffer
	for i := 0; i < 6; i++ {
		b := pool.GetBuf(n)
		full := b[:cap(b)]
		for j := range full {
			if pat == 0 {
				dirtyCtr = dirtyCtr*31 + 7
				full[j] = dirtyCtr
			} else {
				full[j] = pat
			}
		}
		bufs = append(bufs, b)
	}
	for _, b := range bufs {
		pool.ReleaseBuf(b)
	}
}

func lowerKey(name []byte, class, typ int, mark []byte) []byte {
	n := append([]byte(nil), name...)
	dnsmsg.ToLowerName(n) // handleReqMsg: dnsmsg.ToLowerName(q.Name)
	return router.VerifCacheKey(n, uint16(class), uint16(typ), string(mark))
}

func runCacheKey(id string, parts []string) string {
	// one P: sync.Pool hands back what was just released
	oneP.Do(func() { runtime.GOMAXPROCS(1) })
	f := hx.Fields(parts)
	n1, _ := hx.UnHex(f["n1"])
	n2, _ := hx.UnHex(f["n2"])
	m1, _ := hx.UnHex(f["m1"])
	m2, _ := hx.UnHex(f["m2"])
	c1, t1, c2, t2 := hx.MustAtoi(f["c1"]), hx.MustAtoi(f["t1"]), hx.MustAtoi(f["c2"]), hx.MustAtoi(f["t2"])
	return guard(id, 10*time.Second, func() string {
		// sizes of both layouts (with and without a separator octet) are dirtied
		for d := 4; d <= 6; d++ {
			dirtyPool(len(n1)+d+len(m1), 0xAA)
		}
		k1 := lowerKey(n1, c1, t1, m1)
		for d := 4; d <= 6; d++ {
			dirtyPool(len(n1)+d+len(m1), 0x55)
		}
		k1r := lowerKey(n1, c1, t1, m1)
		for d := 4; d <= 6; d++ {
			dirtyPool(len(n2)+d+len(m2), 0)
		}
		k2 := lowerKey(n2, c2, t2, m2)
		return fmt.Sprintf("k1=%s k1r=%s k2=%s", hx.Hex(k1), hx.Hex(k1r), hx.Hex(k2))
	})
}

func c07ParseAddr(s string) netip.Addr {
	if s == "x" || s == "" {
		return netip.Addr{}
	}
	a, err := netip.ParseAddr(s)
	if err != nil {
		return netip.Addr{}
	}
	return a
}

func runMarker(id string, parts []string) string {
	f := hx.Fields(parts)
	data, _ := hx.UnHex(f["file"])
	return guard(id, 10*time.Second, func() string {
		m, err := router.VerifLoadMarker(data)
		if err != nil {
			return "ERR"
		}
		var out []string
		if f["probes"] != "" && f["probes"] != "-" {
			for _, p := range strings.Split(f["probes"], ",") {
				out = append(out, hx.Hex([]byte(m.Mark(c07ParseAddr(p)))))
			}
		}
		return fmt.Sprintf("OK n=%d %s", m.IpLen(), strings.Join(out, ","))
	})
}

func getRes(c *cache.MemoryCache, k []byte) string {
	// the key buffer handed to Get is a pool buffer in the router; do the same
	kb := pool.CopyBuf(k)
	v, _, _ := c.Get(kb)
	pool.ReleaseBuf(kb)
	if v == nil {
		return "M"
	}
	s := "H" + hx.Hex(v)
	for i := range v {
		v[i] = 0xAA
	}
	pool.ReleaseBuf(v)
	return s
}

func storeRaw(c *cache.MemoryCache, k, v []byte, ttl time.Duration, nx bool) {
	kb := pool.CopyBuf(k)
	vb := pool.CopyBuf(v)
	now := time.Now()
	c.Store(kb, now, now.Add(ttl), vb, nx)
	// Store copies; the caller's buffers are released (and reused) right away, as in cacheCtl.Store
	for i := range kb {
		kb[i] = 0x55
	}
	for i := range vb {
		vb[i] = 0x55
	}
	pool.ReleaseBuf(kb)
	pool.ReleaseBuf(vb)
}

func runCache(id string, parts []string) string {
	f := hx.Fields(parts)
	capacity := hx.MustAtoi(f["cap"])
	if capacity <= 0 {
		capacity = 1 << 22
	}
	return guard(id, 30*time.Second, func() string {
		c, err := cache.NewMemoryCache(capacity)
		if err != nil {
			return "HARNESS-ERROR " + err.Error()
		}
		defer c.Close()
		var out []string
		if f["ops"] == "" || f["ops"] == "-" {
			return "r=-"
		}
		for _, op := range strings.Split(f["ops"], ",") {
			a := strings.Split(op, ":")
			switch {
			case a[0] == "S":
				k, _ := hx.UnHex(a[1])
				v, _ := hx.UnHex(a[2])
				storeRaw(c, k, v, time.Duration(hx.MustAtoi(a[3]))*time.Millisecond, a[4] == "1")
			case a[0] == "G":
				k, _ := hx.UnHex(a[1])
				out = append(out, getRes(c, k))
			case a[0] == "E":
				k, _ := hx.UnHex(a[1])
				c.VerifDelete(k)
			case a[0] == "T":
				time.Sleep(time.Duration(hx.MustAtoi(a[1])) * time.Millisecond)
			case a[0][0] == 'R':
				k, _ := hx.UnHex(a[1])
				k2, _ := hx.UnHex(a[2])
				v2, _ := hx.UnHex(a[3])
				if getRes(c, k) == "M" { // not bound: the reader's lookup already missed
					out = append(out, "M")
					continue
				}
				// the reader obtained the entry pointer; before it locks the entry, the binding is dropped and ...
				c.VerifDelete(k)
				var unlock func()
				switch a[0] {
				case "R0": // ... releaseEntry holds the write lock
					unlock = c.VerifPlant(k, k, []byte{1}, true, true)
				case "R1": // ... the entry has been cleared
					unlock = c.VerifPlant(k, nil, nil, false, false)
				default: // ... the entry has been recycled for another key
					storeRaw(c, k2, v2, time.Hour, false)
					if bytes.Equal(k, k2) { // recycled for the very same key: nothing stale to plant
						out = append(out, getRes(c, k))
						continue
					}
					unlock = c.VerifPlant(k, k2, v2, true, false)
				}
				out = append(out, getRes(c, k))
				unlock()
				c.VerifDelete(k)
			default:
				return "HARNESS-ERROR bad op " + op
			}
		}
		if len(out) == 0 {
			return "r=-"
		}
		return "r=" + strings.Join(out, ",")
	})
}

var tmpSeq atomic.Int64

func runHitMiss(id string, parts []string) string {
	f := hx.Fields(parts)
	wire, _ := hx.UnHex(f["msg"])
	n1, _ := hx.UnHex(f["n1"])
	n2, _ := hx.UnHex(f["n2"])
	return guard(id, 20*time.Second, func() string {
		markerFile := ""
		if f["file"] != "-" && f["file"] != "" {
			data, _ := hx.UnHex(f["file"])
			markerFile = fmt.Sprintf("%s/c07-marker-%d-%d.txt", os.TempDir(), os.Getpid(), tmpSeq.Add(1))
			if err := os.WriteFile(markerFile, data, 0o600); err != nil {
				return "HARNESS-ERROR " + err.Error()
			}
			defer os.Remove(markerFile)
		}
		c, err := router.VerifNewCache(1<<22, markerFile)
		if err != nil {
			return "ERR"
		}
		defer c.Close()
		resp, err := dnsmsg.UnpackMsg(wire)
		if err != nil {
			return "UNDECODABLE"
		}
		defer dnsmsg.ReleaseMsg(resp)
		mkq := func(n []byte, cs, ts string) *dnsmsg.Question {
			nn := append([]byte(nil), n...)
			dnsmsg.ToLowerName(nn)
			return &dnsmsg.Question{Name: nn, Class: dnsmsg.Class(hx.MustAtoi(cs)), Type: dnsmsg.Type(hx.MustAtoi(ts))}
		}
		a1, a2 := c07ParseAddr(f["a1"]), c07ParseAddr(f["a2"])
		q1, q2 := mkq(n1, f["c1"], f["t1"]), mkq(n2, f["c2"], f["t2"])
		g := fmt.Sprintf("g1=%s g2=%s ", hx.Hex([]byte(c.IpMark(a1))), hx.Hex([]byte(c.IpMark(a2))))
		c.Store(q1, a1, resp)
		// the stored message must be private to the cache: scribble over the pools
		dirtyPool(len(wire), 0xAA)
		m := c.Get(q2, a2)
		if m == nil {
			return g + "MISS"
		}
		defer dnsmsg.ReleaseMsg(m)
		for _, rs := range [][]dnsmsg.Resource{m.Answers, m.Authorities, m.Additionals} {
			for _, r := range rs {
				r.Hdr().TTL = 0 // TTL ageing is C08's
			}
		}
		return g + "HIT " + dumpMsg(m)
	})
}

// cachestress: goroutines store / get / delete on one small real MemoryCache; every value carries its key,
// so a hit for k that returns a value stored under another key is a wrong hit.
func runCacheStress(id string, parts []string) string {
	f := hx.Fields(parts)
	threads, keys, iters := hx.MustAtoi(f["threads"]), hx.MustAtoi(f["keys"]), hx.MustAtoi(f["iters"])
	seed := int64(hx.MustAtoi(f["seed"]))
	return guard(id, 60*time.Second, func() string {
		c, err := cache.NewMemoryCache(hx.MustAtoi(f["cap"]))
		if err != nil {
			return "HARNESS-ERROR " + err.Error()
		}
		defer c.Close()
		var hits, wrong atomic.Int64
		var first atomic.Value
		var wg sync.WaitGroup
		for t := 0; t < threads; t++ {
			wg.Add(1)
			go func(t int) {
				defer wg.Done()
				rng := rand.New(rand.NewSource(seed*1000 + int64(t)))
				for i := 0; i < iters; i++ {
					kn := rng.Intn(keys)
					k := []byte("key-" + strconv.Itoa(kn))
					switch r := rng.Intn(10); {
					case r < 4:
						v := append(append([]byte(nil), k...), []byte(fmt.Sprintf("|%d.%d", t, i))...)
						storeRaw(c, k, v, time.Hour, rng.Intn(4) == 0)
					case r < 9:
						kb := pool.CopyBuf(k)
						v, _, _ := c.Get(kb)
						pool.ReleaseBuf(kb)
						if v != nil {
							hits.Add(1)
							if !bytes.HasPrefix(v, append(append([]byte(nil), k...), '|')) {
								wrong.Add(1)
								first.CompareAndSwap(nil, fmt.Sprintf("get(%s)=%q", k, string(v)))
							}
							pool.ReleaseBuf(v)
						}
					default:
						c.VerifDelete(k)
					}
				}
			}(t)
		}
		wg.Wait()
		s := fmt.Sprintf("wrong=%d", wrong.Load())
		if w := first.Load(); w != nil {
			s += " first=" + strings.ReplaceAll(w.(string), " ", "_")
		}
		_ = hits.Load()
		return s
	})
}

// cachesame: <id> keys=<n> g=<goroutines> rounds=<lookups per goroutine> vlen=<value octets>
//   -> n=<lookups> miss=<lookups that missed> bad=<hits whose value is not the stored one>
// A big cache (no eviction), long lifetimes: n keys are stored once; then g goroutines look the SAME keys up at the same
// time.  Every lookup must hit and return the stored value: a repeat of a question is answered from the cache however
// many lookups of that entry run beside it (the entry lock is a read lock for lookups).
func init() { register("cachesame", 1, runCacheSame) }

func runCacheSame(id string, parts []string) string {
	f := hx.Fields(parts)
	nk := hx.MustAtoi(f["keys"])
	g := hx.MustAtoi(f["g"])
	rounds := hx.MustAtoi(f["rounds"])
	vlen := hx.MustAtoi(f["vlen"])
	return guard(id, 60*time.Second, func() string {
		c, err := cache.NewMemoryCache(1 << 24)
		if err != nil {
			return "HARNESS-ERROR " + err.Error()
		}
		defer c.Close()
		keys := make([][]byte, nk)
		vals := make([][]byte, nk)
		for i := range keys {
			keys[i] = []byte(fmt.Sprintf("same-key-%04d", i))
			vals[i] = bytes.Repeat([]byte{byte(i + 1)}, vlen)
			storeRaw(c, keys[i], vals[i], time.Hour, false)
		}
		time.Sleep(20 * time.Millisecond) // otter applies writes asynchronously
		var miss, bad, n atomic.Int64
		var wg sync.WaitGroup
		start := make(chan struct{})
		for k := 0; k < g; k++ {
			wg.Add(1)
			go func(k int) {
				defer wg.Done()
				<-start
				for r := 0; r < rounds; r++ {
					i := r % nk // every goroutine walks the keys in the same order: lookups of ONE entry overlap
					kb := pool.CopyBuf(keys[i])
					v, _, _ := c.Get(kb)
					pool.ReleaseBuf(kb)
					n.Add(1)
					if v == nil {
						miss.Add(1)
						continue
					}
					if !bytes.Equal(v, vals[i]) {
						bad.Add(1)
					}
					pool.ReleaseBuf(v)
				}
			}(k)
		}
		close(start)
		wg.Wait()
		return fmt.Sprintf("n=%d miss=%d bad=%d", n.Load(), miss.Load(), bad.Load())
	})
}
