package main

// C08, round 6: a REFRESH (prefetch) answered with an error while the positive entry is still live, in both tiers.
//
//   refresherr: <id> mem=<0|1> redis=<0|1> place=<m|r|mr> rcode=<error rcode> ettl=<ttl_ttl|x> age=<ms> remain=<ms>
//                    qs=<at ms>_<at ms>_...
//               -> up=<upstream queries seen> <rcode>:<ttl_ttl> ...   one token per client query
//
// A real router (real run(): forward-all rule, real tcp upstream transport, cache with a memory backend and / or the redis
// backend against the in-process fake) gets a positive answer (A records, TTLs 60 and 300) placed into its cache with
// storedTime = now - age and expireTime = now + remain (memory: the real MemoryCache.Store through hook StoreAt; redis: the
// value another instance would have written, hook RedisImage, PX = remain), remain < (age + remain) / 4: every hit falls
// into the refresh window.  The scripted upstream answers EVERY query with the error response <rcode> (records with TTLs
// ettl).  Client queries are fed to the real handleServerReq at the given instants (all well before expireTime): the first
// one is a hit that starts the real prefetch, whose error answer goes through the real cacheCtl.Store; the later ones must
// still be served the positive answer.  150 ms are left between queries for the background refresh to finish.

import (
	"encoding/binary"
	"fmt"
	"io"
	"net"
	"net/netip"
	"strconv"
	"strings"
	"sync"
	"time"

	"github.com/IrineSistiana/mosproxy/app/router"
	"github.com/IrineSistiana/mosproxy/internal/dnsmsg"
	"github.com/IrineSistiana/mosproxy/verifharness/hx"
)

func init() {
	register("refresherr", 32, runRefreshErr)
}

// scripted upstream: every query is answered with rcode / ttls (records named as the question)
type c08ErrUpstream struct {
	l     net.Listener
	mu    sync.Mutex
	hits  int
	rcode int
	ttls  []uint32
}

func (u *c08ErrUpstream) serve() {
	for {
		c, err := u.l.Accept()
		if err != nil {
			return
		}
		go func() {
			defer c.Close()
			for {
				var h [2]byte
				if _, err := io.ReadFull(c, h[:]); err != nil {
					return
				}
				q := make([]byte, binary.BigEndian.Uint16(h[:]))
				if _, err := io.ReadFull(c, q); err != nil {
					return
				}
				u.mu.Lock()
				u.hits++
				u.mu.Unlock()
				qe := hx.QuestionEnd(q)
				if qe < 0 {
					return
				}
				r := c08Wire(uint16(q[0])<<8|uint16(q[1]), q[12:qe-5], u.rcode, false, u.ttls)
				if _, err := c.Write(append(binary.BigEndian.AppendUint16(nil, uint16(len(r))), r...)); err != nil {
					return
				}
			}
		}()
	}
}

func runRefreshErr(id string, parts []string) string {
	f := hx.Fields(parts)
	rcode := hx.MustAtoi(f["rcode"])
	ettl, err := promoTTLs(f["ettl"])
	if err != nil {
		return "HARNESS-ERROR bad ettl"
	}
	age := time.Duration(hx.MustAtoi(f["age"])) * time.Millisecond
	remain := time.Duration(hx.MustAtoi(f["remain"])) * time.Millisecond
	var ats []time.Duration
	for _, a := range strings.Split(f["qs"], "_") {
		ats = append(ats, time.Duration(hx.MustAtoi(a))*time.Millisecond)
	}
	return guard(id, 60*time.Second, func() string {
		router.VerifC08Quiet()
		c08KeepAlive.Do(func() { c08Cache(0) })
		l, err := net.Listen("tcp", "127.0.0.1:0")
		if err != nil {
			return "HARNESS-ERROR " + err.Error()
		}
		up := &c08ErrUpstream{l: l, rcode: rcode, ttls: ettl}
		go up.serve()
		defer l.Close()
		cc := router.CacheConfig{}
		if f["mem"] == "1" {
			cc.MemSize = 1 << 22
		}
		var fr *fakeRedis
		if f["redis"] == "1" {
			if fr, err = newFakeRedis(); err != nil {
				return "HARNESS-ERROR " + err.Error()
			}
			defer fr.close()
			cc.Redis = fr.url()
		}
		cfg := &router.Config{
			Upstreams: []router.UpstreamConfig{{Tag: "u", Addr: "tcp://" + l.Addr().String()}},
			Rules:     []router.RuleConfig{{Forward: "u"}},
			Cache:     cc,
		}
		r, err := router.VerifC08Run(cfg)
		if err != nil {
			return "HARNESS-ERROR " + err.Error()
		}
		defer r.Close()
		c := r.Cache()
		if fr != nil {
			dl := time.Now().Add(5 * time.Second)
			for !c.RedisConnected() && time.Now().Before(dl) {
				time.Sleep(20 * time.Millisecond)
			}
			if !c.RedisConnected() {
				return "HARNESS-ERROR redis backend never connected to the fake"
			}
		}
		res := ""
		for attempt := 0; attempt < 2; attempt++ {
			name := c08Name(id, attempt)
			q := c08Question(name)
			pm, err := dnsmsg.UnpackMsg(c08Wire(0x0101, name, 0, false, []uint32{60, 300}))
			if err != nil {
				return "HARNESS-ERROR wire"
			}
			c08DrainPools()
			up.mu.Lock()
			up.hits = 0
			up.mu.Unlock()
			t0 := time.Now()
			if strings.Contains(f["place"], "m") {
				if !c.HasMemory() {
					return "HARNESS-ERROR place=m without a memory backend"
				}
				if err := c.StoreAt(q, t0.Add(-age), t0.Add(remain), pm, false); err != nil {
					return "HARNESS-ERROR pack"
				}
			}
			if strings.Contains(f["place"], "r") {
				if fr == nil {
					return "HARNESS-ERROR place=r without a redis backend"
				}
				k, v, err := c.RedisImage(q, t0.Add(-age), t0.Add(remain), pm)
				if err != nil {
					return "HARNESS-ERROR pack"
				}
				fr.put(k, v, remain)
			}
			dnsmsg.ReleaseMsg(pm)
			late := false
			var out []string
			remote := netip.MustParseAddrPort("127.0.0.9:5353")
			for _, at := range ats {
				if d := time.Until(t0.Add(at)); d > 0 {
					time.Sleep(d)
				}
				if time.Since(t0)-at > c08Late {
					late = true
				}
				qm, err := dnsmsg.UnpackMsg(hx.BuildQuery(0x4242, name, 1, 1, true))
				if err != nil {
					return "HARNESS-ERROR query"
				}
				resp := r.Query(qm, remote)
				dnsmsg.ReleaseMsg(qm)
				if resp == nil {
					out = append(out, "NIL")
					continue
				}
				var ts []string
				for _, rr := range resp.Answers {
					ts = append(ts, strconv.FormatUint(uint64(rr.Hdr().TTL), 10))
				}
				out = append(out, fmt.Sprintf("%d:%s", resp.Header.RCode, strings.Join(ts, "_")))
				dnsmsg.ReleaseMsg(resp)
			}
			time.Sleep(100 * time.Millisecond) // the last refresh
			up.mu.Lock()
			n := up.hits
			up.mu.Unlock()
			res = fmt.Sprintf("up=%d %s", n, strings.Join(out, " "))
			if !late {
				return res
			}
		}
		return "HARNESS-ERROR late " + res
	})
}
