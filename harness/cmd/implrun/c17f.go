package main

// C17, round 8.
//
// kind "sockopts": the REAL controlSocket(opts) callback (hook router.VerifC17ControlSocket) installed as the Control
//   of a net.Dialer / net.ListenConfig for every ip network the code dials or listens on; the options are read back
//   with getsockopt right after the callback ran, on the very socket.
//   case:   <id> net=<tcp4|tcp6|udp4|udp6> role=<dial|listen> mark=<n> dev=<name|-> rp=<0|1> rcv=<n> snd=<n> ut=<ms>
//           role=rlisten: the listener socket as (*router).listen opens it (router.VerifC17Listen); role=rupstream: the
//           socket of a tcp upstream built by the real initUpstream (found among the process's fds by its peer port):
//           both carry the TCP_USER_TIMEOUT constant of the code (5000 ms), whatever ut= says
//   result: ctl=ok nw=<network the callback received> mark=<n> dev=<name|-> rp=<0|1> rcv=<n|-> snd=<n|-> ut=<ms|->  |  ctl=err
//           (rcv/snd: half of the read-back value — the kernel doubles it — when configured, "-" otherwise)

import (
	"context"
	"crypto/tls"
	"fmt"
	"net"
	"sort"
	"strconv"
	"strings"
	"syscall"
	"time"

	"github.com/IrineSistiana/mosproxy/app/router"
	"github.com/IrineSistiana/mosproxy/internal/upstream"
	"github.com/IrineSistiana/mosproxy/verifharness/hx"
	"golang.org/x/sys/unix"
)

func init() {
	register("sockopts", 4, runSockOpts)
	register("dohredir", 8, runDohRedir)
}

func runSockOpts(id string, parts []string) string {
	f := hx.Fields(parts)
	return guard(id, 20*time.Second, func() string { return sockOptsCase(f) })
}

func sockOptsCase(f map[string]string) string {
	atoi := func(k string) int { n, _ := strconv.Atoi(f[k]); return n }
	opt := router.SocketConfig{
		SO_REUSEPORT: f["rp"] == "1",
		SO_RCVBUF:    atoi("rcv"),
		SO_SNDBUF:    atoi("snd"),
		SO_MARK:      atoi("mark"),
	}
	if f["dev"] != "-" {
		opt.SO_BINDTODEVICE = f["dev"]
	}
	if f["role"] == "rlisten" || f["role"] == "rupstream" {
		return sockOptsRouterCase(f, opt)
	}
	real := router.VerifC17ControlSocket(opt, uint(atoi("ut")))
	seenNet, readback := "", ""
	var ctlErr error
	control := func(network, address string, c syscall.RawConn) error {
		if err := real(network, address, c); err != nil {
			ctlErr = err
			return err
		}
		seenNet = network
		return c.Control(func(fd uintptr) {
			mark, _ := unix.GetsockoptInt(int(fd), unix.SOL_SOCKET, unix.SO_MARK)
			dev, _ := unix.GetsockoptString(int(fd), unix.SOL_SOCKET, unix.SO_BINDTODEVICE)
			rp, _ := unix.GetsockoptInt(int(fd), unix.SOL_SOCKET, unix.SO_REUSEPORT)
			rcv, _ := unix.GetsockoptInt(int(fd), unix.SOL_SOCKET, unix.SO_RCVBUF)
			snd, _ := unix.GetsockoptInt(int(fd), unix.SOL_SOCKET, unix.SO_SNDBUF)
			dev = strings.TrimRight(dev, "\x00")
			if dev == "" {
				dev = "-"
			}
			half := func(configured, v int) string {
				if configured <= 0 {
					return "-"
				}
				return strconv.Itoa(v / 2)
			}
			ut := "-"
			if strings.HasPrefix(network, "tcp") {
				v, err := unix.GetsockoptInt(int(fd), unix.IPPROTO_TCP, unix.TCP_USER_TIMEOUT)
				if err == nil && v != 0 {
					ut = strconv.Itoa(v)
				}
			}
			readback = fmt.Sprintf("mark=%d dev=%s rp=%d rcv=%s snd=%s ut=%s", mark, dev, rp, half(opt.SO_RCVBUF, rcv), half(opt.SO_SNDBUF, snd), ut)
		})
	}
	nw := f["net"]
	base, ip := nw[:3], "127.0.0.1"
	if strings.HasSuffix(nw, "6") {
		ip = "::1"
	}
	lc := net.ListenConfig{}
	if f["role"] == "listen" {
		lc.Control = control
	}
	var target string
	if base == "tcp" {
		l, err := lc.Listen(context.Background(), "tcp", net.JoinHostPort(ip, "0"))
		if err != nil {
			if ctlErr != nil {
				return "ctl=err"
			}
			return "HARNESS-ERROR listen " + err.Error()
		}
		defer l.Close()
		target = l.Addr().String()
	} else {
		pc, err := lc.ListenPacket(context.Background(), "udp", net.JoinHostPort(ip, "0"))
		if err != nil {
			if ctlErr != nil {
				return "ctl=err"
			}
			return "HARNESS-ERROR listen " + err.Error()
		}
		defer pc.Close()
		target = pc.LocalAddr().String()
	}
	if f["role"] == "dial" {
		d := net.Dialer{Control: control, Timeout: 2 * time.Second}
		c, err := d.Dial(base, target)
		if err != nil {
			if ctlErr != nil {
				return "ctl=err"
			}
			return "HARNESS-ERROR dial " + err.Error()
		}
		c.Close()
	}
	if readback == "" {
		return "HARNESS-ERROR control callback did not run"
	}
	return "ctl=ok nw=" + seenNet + " " + readback
}

// kind "dohredir": what a DoH upstream does with the STATUS of the answer.  upstream.NewUpstream for http / https
//   (HTTP/1.1 with h1=1, else h2) / h3 with URL <srv>://doh.c17p.test:P/dns-query and dial_addr 127.0.0.1:P; the fake
//   DoH server answers the FIRST request with the case's status (and Location), every later request with a good DNS
//   answer, and records every request (Host), every TLS ClientHello (server name) and every accepted connection.
//   One exchange.  A redirect is not a DNS answer: the exchange fails and exactly ONE request was sent.
//   loc: none | othername (same scheme, other authority) | cleartext (http:// from https/h3; another name from http)
//        | selfpath (relative, another path) | otherport (same name, another port)
//   case:   <id> srv=<http|https|h3> h1=<0|1> code=<status> loc=<..>
//   result: new=ok x=<ok|fail> reqs=<n> conns=<n: TLS ClientHellos (https, h3) / accepted connections (http)>
//           extra=<n: accepted TCP connections beyond the first> hosts=<distinct Hosts, sorted> snis=<distinct server names>
func runDohRedir(id string, parts []string) string {
	f := hx.Fields(parts)
	return guard(id, 30*time.Second, func() string { return dohRedirCase(f) })
}

func dohRedirCase(f map[string]string) string {
	pki, err := c17pki()
	if err != nil {
		return "HARNESS-ERROR pki " + err.Error()
	}
	srv := f["srv"]
	const name, other = "doh.c17p.test", "other.c17p.test"
	var cert *tls.Certificate
	if srv != "http" {
		c, _, _, err := pki.leaf("valid", name)
		if err != nil {
			return "HARNESS-ERROR leaf " + err.Error()
		}
		cert = &c
	}
	code, _ := strconv.Atoi(f["code"])
	seen := &c17Seen{h1Only: f["h1"] == "1", redirCode: code}
	if code == 200 {
		seen.redirCode = 0
	}
	addr, closeSrv, err := c17StartServer(srv, "127.0.0.1:0", cert, seen, nil)
	if err != nil {
		return "HARNESS-ERROR listen " + err.Error()
	}
	defer closeSrv()
	_, port, _ := net.SplitHostPort(addr)
	scheme := srv
	if srv == "h3" {
		scheme = "https"
	}
	switch f["loc"] {
	case "othername":
		seen.redirLoc = scheme + "://" + other + ":" + port + "/dns-query"
	case "cleartext":
		if srv == "http" {
			seen.redirLoc = "http://" + other + ":" + port + "/dns-query"
		} else {
			seen.redirLoc = "http://" + name + ":" + port + "/dns-query"
		}
	case "selfpath":
		seen.redirLoc = "/elsewhere"
	case "otherport":
		seen.redirLoc = scheme + "://" + name + ":1/dns-query"
	}
	u, err := upstream.NewUpstream(srv+"://"+name+":"+port+"/dns-query", upstream.Opt{
		DialAddr:    "127.0.0.1:" + port,
		TLSConfig:   &tls.Config{RootCAs: pki.caPool},
		DialTimeout: 2 * time.Second,
	})
	if err != nil {
		return "new=err"
	}
	defer u.Close()
	q := hx.BuildQuery(0x17a0, []byte("\x04c17p\x04test"), 1, 1, true)
	ctx, cancel := context.WithTimeout(context.Background(), 3*time.Second)
	resp, xerr := u.ExchangeContext(ctx, q)
	cancel()
	x := "fail"
	if xerr == nil && resp != nil && len(resp.Answers) == 1 {
		x = "ok"
	}
	time.Sleep(30 * time.Millisecond)
	seen.mu.Lock()
	defer seen.mu.Unlock()
	distinct := func(l []string) string {
		m := map[string]bool{}
		var o []string
		for _, v := range l {
			v = strings.ReplaceAll(v, ":"+port, ":"+c17PortToken)
			if v == "" {
				v = "-"
			}
			if !m[v] {
				m[v] = true
				o = append(o, v)
			}
		}
		if len(o) == 0 {
			return "-"
		}
		sort.Strings(o)
		return strings.Join(o, ",")
	}
	conns := len(seen.snis)
	tcp := seen.conns
	if srv == "http" {
		conns = seen.conns
	}
	if srv == "h3" {
		tcp = 1
	}
	return fmt.Sprintf("new=ok x=%s reqs=%d conns=%d extra=%d hosts=%s snis=%s", x, len(seen.hosts), conns, tcp-1,
		distinct(seen.hosts), distinct(seen.snis))
}

func sockReadback(fd int, opt router.SocketConfig, tcp bool) string {
	mark, _ := unix.GetsockoptInt(fd, unix.SOL_SOCKET, unix.SO_MARK)
	dev, _ := unix.GetsockoptString(fd, unix.SOL_SOCKET, unix.SO_BINDTODEVICE)
	rp, _ := unix.GetsockoptInt(fd, unix.SOL_SOCKET, unix.SO_REUSEPORT)
	rcv, _ := unix.GetsockoptInt(fd, unix.SOL_SOCKET, unix.SO_RCVBUF)
	snd, _ := unix.GetsockoptInt(fd, unix.SOL_SOCKET, unix.SO_SNDBUF)
	dev = strings.TrimRight(dev, "\x00")
	if dev == "" {
		dev = "-"
	}
	half := func(configured, v int) string {
		if configured <= 0 {
			return "-"
		}
		return strconv.Itoa(v / 2)
	}
	ut := "-"
	if tcp {
		if v, err := unix.GetsockoptInt(fd, unix.IPPROTO_TCP, unix.TCP_USER_TIMEOUT); err == nil && v != 0 {
			ut = strconv.Itoa(v)
		}
	}
	return fmt.Sprintf("mark=%d dev=%s rp=%d rcv=%s snd=%s ut=%s", mark, dev, rp, half(opt.SO_RCVBUF, rcv), half(opt.SO_SNDBUF, snd), ut)
}

func sockOptsRouterCase(f map[string]string, opt router.SocketConfig) string {
	nw := f["net"]
	ip := "127.0.0.1"
	if strings.HasSuffix(nw, "6") {
		ip = "::1"
	}
	if f["role"] == "rlisten" {
		l, err := router.VerifC17Listen(&router.ServerConfig{Tag: "in", Protocol: "tcp", Listen: net.JoinHostPort(ip, "0"), Socket: opt})
		if err != nil {
			return "ctl=err"
		}
		defer l.Close()
		tl, ok := l.(*net.TCPListener)
		if !ok {
			return "HARNESS-ERROR not a tcp listener"
		}
		rc, err := tl.SyscallConn()
		if err != nil {
			return "HARNESS-ERROR " + err.Error()
		}
		out := ""
		rc.Control(func(fd uintptr) { out = sockReadback(int(fd), opt, true) })
		return "ctl=ok nw=" + nw + " " + out
	}
	// rupstream: a tcp upstream through the real initUpstream, one exchange, its (idle) connection stays open
	seen := &c17Seen{}
	addr, closeSrv, err := c17StartServer("tcp", net.JoinHostPort(ip, "0"), nil, seen, nil)
	if err != nil {
		return "HARNESS-ERROR listen " + err.Error()
	}
	defer closeSrv()
	_, port, _ := net.SplitHostPort(addr)
	pn, _ := strconv.Atoi(port)
	u, err := router.VerifC17InitUpstream(&router.UpstreamConfig{Tag: "u", Addr: "tcp://" + addr, Socket: opt})
	if err != nil || u == nil {
		return "ctl=err"
	}
	defer u.Close()
	q := hx.BuildQuery(0x17b0, []byte("\x04c17k\x04test"), 1, 1, true)
	ctx, cancel := context.WithTimeout(context.Background(), 3*time.Second)
	na, xerr := u.Exchange(ctx, q)
	cancel()
	if xerr != nil || na != 1 {
		return "ctl=err"
	}
	for fd := 3; fd < 4096; fd++ {
		sa, err := unix.Getpeername(fd)
		if err != nil {
			continue
		}
		p := -1
		switch a := sa.(type) {
		case *unix.SockaddrInet4:
			p = a.Port
		case *unix.SockaddrInet6:
			p = a.Port
		}
		if p == pn {
			return "ctl=ok nw=" + nw + " " + sockReadback(fd, opt, true)
		}
	}
	return "HARNESS-ERROR the upstream's socket was not found"
}
