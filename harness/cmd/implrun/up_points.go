package main

// Kind "upcancelpoints" (C05 / C14): as reuse_cancelpoints, through upstream.NewUpstream for the schemes a loopback
// UDP+TCP fake server can serve (udp, tcp, tcp+pipeline): the caller's context is cancelled just before the i-th time
// the code looks at it.
//   <id> scheme=<udp|tcp|tcp+pipeline> at=<i> warm=<0|1> delayus=<server think time>
//   -> obs=<observations seen> x=<cancelled exchange>,<3 follow-ups> el=<ms the cancelled exchange took>
// Outcome letters: M = a reply with the caller's id and question, X = a reply that is not the caller's, E = error,
// C = context error.  Whatever the point: the cancelled exchange returns at once, the follow-ups get their own replies,
// nothing panics.

import (
	"bytes"
	"context"
	"encoding/binary"
	"errors"
	"fmt"
	"io"
	"net"
	"sync"
	"time"

	"github.com/IrineSistiana/mosproxy/internal/dnsmsg"
	"github.com/IrineSistiana/mosproxy/internal/upstream"
	"github.com/IrineSistiana/mosproxy/verifharness/hx"
)

func init() { register("upcancelpoints", 4, runUpCancelPoints) }

func runUpCancelPoints(id string, parts []string) (res string) {
	defer func() {
		if r := recover(); r != nil {
			res = fmt.Sprintf("PANIC! %v", r)
		}
	}()
	f := hx.Fields(parts)
	at := hx.MustAtoi(f["at"])
	warm := f["warm"] == "1"
	delay := time.Duration(hx.MustAtoi(f["delayus"])) * time.Microsecond
	uc, tl, err := listenPair()
	if err != nil {
		return "HARNESS-ERROR " + err.Error()
	}
	defer uc.Close()
	defer tl.Close()
	go func() { // UDP: echo reply after the think time
		buf := make([]byte, 4096)
		for {
			n, addr, err := uc.ReadFromUDP(buf)
			if err != nil {
				return
			}
			q := append([]byte(nil), buf[:n]...)
			go func() {
				time.Sleep(delay)
				uc.WriteToUDP(hx.BuildReply(q, false, 0, [4]byte{1, 1, 1, 1}, 60), addr)
			}()
		}
	}()
	go func() { // TCP: framed, replies in order of arrival per connection after the think time
		for {
			c, err := tl.Accept()
			if err != nil {
				return
			}
			go func() {
				defer c.Close()
				var wmu sync.Mutex
				for {
					var h [2]byte
					if _, err := io.ReadFull(c, h[:]); err != nil {
						return
					}
					q := make([]byte, binary.BigEndian.Uint16(h[:]))
					if _, err := io.ReadFull(c, q); err != nil {
						return
					}
					go func() {
						time.Sleep(delay)
						r := hx.BuildReply(q, false, 0, [4]byte{2, 2, 2, 2}, 60)
						wmu.Lock()
						c.Write(append(binary.BigEndian.AppendUint16(nil, uint16(len(r))), r...))
						wmu.Unlock()
					}()
				}
			}()
		}
	}()
	port := tl.Addr().(*net.TCPAddr).Port
	u, err := upstream.NewUpstream(fmt.Sprintf("%s://127.0.0.1:%d", f["scheme"], port), upstream.Opt{})
	if err != nil {
		return "HARNESS-ERROR " + err.Error()
	}
	defer u.Close()
	mark := 0
	query := func() (uint16, []byte, []byte) {
		m := mark
		mark++
		name := []byte(fmt.Sprintf("\x07cp%05d\x04test", m))
		return uint16(0x5000 + m), name, hx.BuildQuery(uint16(0x5000+m), name, 1, 1, true)
	}
	outcome := func(qid uint16, name []byte, r *dnsmsg.Msg, err error) string {
		if err != nil {
			if errors.Is(err, context.Canceled) || errors.Is(err, context.DeadlineExceeded) {
				return "C"
			}
			return "E"
		}
		if r == nil {
			return "NIL"
		}
		defer dnsmsg.ReleaseMsg(r)
		if r.Header.ID != qid || len(r.Questions) != 1 || !(bytes.EqualFold(r.Questions[0].Name, name) || bytes.EqualFold(r.Questions[0].Name, append(append([]byte(nil), name...), 0))) {
			return "X"
		}
		return "M"
	}
	plain := func() string {
		qid, name, q := query()
		ctx, cancel := context.WithTimeout(context.Background(), 2*time.Second)
		defer cancel()
		r, err := u.ExchangeContext(ctx, q)
		return outcome(qid, name, r, err)
	}
	if warm {
		if o := plain(); o != "M" {
			return "HARNESS-ERROR warm-up exchange: " + o
		}
	}
	base, cancel := context.WithTimeout(context.Background(), 2*time.Second)
	pc := &pointCtx{Context: base, cancel: cancel, at: int32(at)}
	qid, name, q := query()
	t0 := time.Now()
	r, err := u.ExchangeContext(pc, q)
	el := time.Since(t0)
	xs := []string{outcome(qid, name, r, err)}
	cancel()
	var wg sync.WaitGroup
	outs := make([]string, 2)
	type qq struct {
		id   uint16
		name []byte
		q    []byte
	}
	var qs [2]qq
	for k := range qs {
		qs[k].id, qs[k].name, qs[k].q = query()
	}
	for k := range qs {
		wg.Add(1)
		go func(k int) {
			defer wg.Done()
			ctx, cancel := context.WithTimeout(context.Background(), 2*time.Second)
			defer cancel()
			r, err := u.ExchangeContext(ctx, qs[k].q)
			outs[k] = outcome(qs[k].id, qs[k].name, r, err)
		}(k)
	}
	wg.Wait()
	xs = append(xs, outs[0], outs[1], plain())
	return fmt.Sprintf("obs=%d x=%s el=%d", pc.n.Load(), joinComma(xs), el.Milliseconds())
}
