package main

// C18 — shutdown and failed start-up are orderly.
//
// Kind "closerace": a script of external events (new exchange, dial result, server reply, peer error,
// caller cancel, idle time-out, Close) is replayed against the REAL ReuseConnTransport / PipelineTransport
// with an injected, gated, counting dialer (net.Pipe connections whose other end is a scripted server).
// After every event the harness waits for quiescence, so the placement of Close relative to dial
// completion / exchange / release / idle timer is deterministic.
//   case:   <id> tr=<reuse|pipeline> dm=<honour|ignore> max=<n> it=<ms> ev=<e>,<e>,...
//   result: ev=<o|s per event> res=<ok|err|pend per exchange> open=<n> dials=<n> closed=<0|1>
//
// Kind "upclose": a real upstream.NewUpstream of each scheme against a local fake server, run in a child
// process (a stack overflow cannot be recovered): exchange, Close, Close, exchange, sockets left open.
//   case:   <id> up=<udp|tcp|tcp+pipeline|tls|tls+pipeline|https|h3|quic> x=<0|1>
//   result: close=<ok|hang> close2=<ok|hang> after=<err|ok|hang> leak=<n>
//
// Kind "upown" (c18own.go): every upstream scheme driven so that every transport / socket it owns exists at
// Close, idle and in flight; per-leg probes and socket counts (the upstream as a composite, Net/ShutdownOwn.v).
//
// Kind "startcfg" (c18start.go): configurations with one fault from the catalogue of configuration errors; the
// error must be reported and run() must leave no socket, file descriptor or goroutine (Router/StartupInit.v).
//
// Kind "startup": the real router (in-process VerifRun, or the real binary) with generated configurations
// in which one initialisation step fails.
//   case:   <id> mode=<inproc|bin> metrics=<0|1> nu=<n> nd=<n> nr=<n> srv=<proto,..> fail=<none|kind:idx> how=<..>
//   result: res=<OK|ERR> srv=<listeners released (ERR) / started and released by close (OK)>

import (
	"bufio"
	"bytes"
	"context"
	"crypto/tls"
	"encoding/binary"
	"errors"
	"fmt"
	"io"
	"net"
	"os"
	"os/exec"
	"path/filepath"
	"regexp"
	"strconv"
	"strings"
	"sync"
	"sync/atomic"
	"syscall"
	"time"

	"github.com/IrineSistiana/mosproxy/app/router"
	"github.com/IrineSistiana/mosproxy/internal/upstream"
	"github.com/IrineSistiana/mosproxy/internal/upstream/transport"
	"github.com/IrineSistiana/mosproxy/verifharness/hx"
	"gopkg.in/yaml.v3"
)

func init() {
	register("closerace", 8, runCloseRace)
	register("upclose", 6, runUpCloseParent)
	register("upclose1", 1, runUpCloseChild)
	register("startup", 4, runStartup)
}

// ------------------------------------------------------------------------------------------ closerace

type crDial struct {
	gate    chan bool
	pending bool
}

type crSrvConn struct {
	c     net.Conn
	alive bool
	wmu   sync.Mutex
}

type crQuery struct {
	sc       *crSrvConn
	wire     []byte
	answered bool
}

type crEnv struct {
	mu       sync.Mutex
	honour   bool
	dials    []*crDial
	opened   int
	closed   int
	queries  map[int]*crQuery
	results  []string
	cancels  []context.CancelFunc
	activity atomic.Int64
	// tr=quic (c18quic.go)
	fq      map[int]*fqQuery
	fqConns []*fqConn
}

type crConn struct {
	net.Conn
	env  *crEnv
	once sync.Once
}

func (c *crConn) Close() error {
	c.once.Do(func() {
		c.env.mu.Lock()
		c.env.closed++
		c.env.mu.Unlock()
		c.env.activity.Add(1)
	})
	return c.Conn.Close()
}

var errCrDial = errors.New("verif: scripted dial failure")

func (e *crEnv) dial(ctx context.Context) (net.Conn, error) {
	d := &crDial{gate: make(chan bool, 1), pending: true}
	e.mu.Lock()
	e.dials = append(e.dials, d)
	e.mu.Unlock()
	e.activity.Add(1)
	var ok bool
	if e.honour {
		select {
		case ok = <-d.gate:
		case <-ctx.Done():
			e.mu.Lock()
			was := d.pending
			d.pending = false
			e.mu.Unlock()
			e.activity.Add(1)
			if was {
				return nil, ctx.Err()
			}
			ok = <-d.gate // the script released it at the same moment
		}
	} else {
		ok = <-d.gate
	}
	defer e.activity.Add(1)
	if !ok {
		return nil, errCrDial
	}
	c1, c2 := net.Pipe()
	sc := &crSrvConn{c: c2, alive: true}
	e.mu.Lock()
	e.opened++
	e.mu.Unlock()
	go e.serve(sc)
	return &crConn{Conn: c1, env: e}, nil
}

// exchange number carried in the question name: one label "e<idx>"
func crName(i int) []byte {
	s := "e" + strconv.Itoa(i)
	return append([]byte{byte(len(s))}, s...)
}

func crIdx(q []byte) int {
	if len(q) < 14 {
		return -1
	}
	l := int(q[12])
	if l < 2 || 13+l > len(q) || q[13] != 'e' {
		return -1
	}
	n, err := strconv.Atoi(string(q[14 : 13+l]))
	if err != nil {
		return -1
	}
	return n
}

func (e *crEnv) serve(sc *crSrvConn) {
	defer func() {
		e.mu.Lock()
		sc.alive = false
		e.mu.Unlock()
		e.activity.Add(1)
		sc.c.Close()
	}()
	for {
		var h [2]byte
		if _, err := io.ReadFull(sc.c, h[:]); err != nil {
			return
		}
		q := make([]byte, binary.BigEndian.Uint16(h[:]))
		if _, err := io.ReadFull(sc.c, q); err != nil {
			return
		}
		if i := crIdx(q); i >= 0 {
			e.mu.Lock()
			e.queries[i] = &crQuery{sc: sc, wire: q}
			e.mu.Unlock()
		}
		e.activity.Add(1)
	}
}

// quiesce waits until no observable activity happened for `still`.
func (e *crEnv) quiesce() {
	const still = 14 * time.Millisecond
	deadline := time.Now().Add(2 * time.Second)
	last := e.activity.Load()
	stableSince := time.Now()
	for time.Now().Before(deadline) {
		time.Sleep(2 * time.Millisecond)
		cur := e.activity.Load()
		if cur != last {
			last = cur
			stableSince = time.Now()
			continue
		}
		if time.Since(stableSince) >= still {
			return
		}
	}
}

func runCloseRace(id string, parts []string) string {
	f := hx.Fields(parts)
	if f["tr"] == "quic" {
		return runCloseRaceQuic(id, f)
	}
	env := &crEnv{honour: f["dm"] == "honour", queries: map[int]*crQuery{}}
	it := time.Duration(hx.MustAtoi(f["it"])) * time.Millisecond
	maxs := hx.MustAtoi(f["max"])
	reuse := f["tr"] == "reuse"
	var t transport.Transport
	if reuse {
		t = transport.NewReuseConnTransport(transport.ReuseConnOpts{DialContext: env.dial, IdleTimeout: it})
	} else {
		t = transport.NewPipelineTransport(transport.PipelineOpts{DialContext: env.dial, IsTCP: true, IdleTimeout: it, MaxConcurrentQuery: maxs})
	}
	var marks strings.Builder
	closedSeen := false
	fatal := ""
	var wg sync.WaitGroup

	for _, ev := range strings.Split(f["ev"], ",") {
		if ev == "" || fatal != "" {
			continue
		}
		ok := false
		num := func(pre string) int { n, _ := strconv.Atoi(strings.TrimPrefix(ev, pre)); return n }
		switch {
		case ev == "x":
			env.mu.Lock()
			i := len(env.results)
			env.results = append(env.results, "")
			ctx, cancel := context.WithTimeout(context.Background(), 8*time.Second)
			env.cancels = append(env.cancels, cancel)
			env.mu.Unlock()
			wg.Add(1)
			go func() {
				defer wg.Done()
				res := "err"
				func() {
					defer func() {
						if r := recover(); r != nil {
							res = "panic"
						}
					}()
					q := hx.BuildQuery(uint16(0x1000+i), crName(i), 1, 1, true)
					m, err := t.ExchangeContext(ctx, q)
					if err == nil && m != nil {
						res = "ok"
						if m.Header.ID != uint16(0x1000+i) {
							res = "badid"
						}
					}
				}()
				env.mu.Lock()
				env.results[i] = res
				env.mu.Unlock()
				env.activity.Add(1)
			}()
			ok = true
		case strings.HasPrefix(ev, "dok"), strings.HasPrefix(ev, "dfail"):
			good := strings.HasPrefix(ev, "dok")
			j := num("dok")
			if !good {
				j = num("dfail")
			}
			env.mu.Lock()
			if j < len(env.dials) && env.dials[j].pending {
				env.dials[j].pending = false
				env.dials[j].gate <- good
				ok = true
			}
			env.mu.Unlock()
		case strings.HasPrefix(ev, "reply"), strings.HasPrefix(ev, "perr"):
			isReply := strings.HasPrefix(ev, "reply")
			i := num("reply")
			if !isReply {
				i = num("perr")
			}
			env.mu.Lock()
			q := env.queries[i]
			var sc *crSrvConn
			var wire []byte
			if q != nil && !q.answered && q.sc.alive && i < len(env.results) && (reuse || env.results[i] == "") {
				q.answered = true
				sc, wire = q.sc, q.wire
				ok = true
			}
			env.mu.Unlock()
			if ok {
				if isReply {
					r := hx.BuildReply(wire, false, 0, [4]byte{9, 9, 9, 9}, 60)
					out := binary.BigEndian.AppendUint16(nil, uint16(len(r)))
					out = append(out, r...)
					go func() {
						sc.wmu.Lock()
						sc.c.SetWriteDeadline(time.Now().Add(time.Second))
						sc.c.Write(out)
						sc.wmu.Unlock()
					}()
				} else {
					sc.c.Close()
				}
				env.activity.Add(1)
			}
		case strings.HasPrefix(ev, "cancel"):
			i := num("cancel")
			env.mu.Lock()
			if i < len(env.cancels) {
				env.cancels[i]()
				ok = true
			}
			env.mu.Unlock()
			env.activity.Add(1)
		case ev == "idle":
			time.Sleep(it + 70*time.Millisecond)
			ok = true
		case ev == "close":
			done := make(chan string, 1)
			go func() {
				defer func() {
					if r := recover(); r != nil {
						done <- "PANIC! Close: " + strings.ReplaceAll(fmt.Sprint(r), "\n", " ")
					}
				}()
				t.Close()
				done <- ""
			}()
			select {
			case r := <-done:
				if r != "" {
					fatal = r
				}
			case <-time.After(2 * time.Second):
				fatal = "HANG Close did not return within 2s"
			}
			closedSeen = true
			env.activity.Add(1)
			ok = true
		default:
			return "HARNESS-ERROR bad event " + ev
		}
		env.quiesce()
		if ok {
			marks.WriteByte('o')
		} else {
			marks.WriteByte('s')
		}
	}
	env.quiesce()
	env.mu.Lock()
	res := make([]string, len(env.results))
	for i, r := range env.results {
		if r == "" {
			r = "pend"
		}
		res[i] = r
	}
	open := env.opened - env.closed
	dials := len(env.dials)
	env.mu.Unlock()

	// clean up: let everything end
	env.mu.Lock()
	for _, d := range env.dials {
		if d.pending {
			d.pending = false
			d.gate <- false
		}
	}
	for _, c := range env.cancels {
		c()
	}
	env.mu.Unlock()
	go func() {
		defer func() { recover() }()
		t.Close()
	}()
	waitDone := make(chan struct{})
	go func() { wg.Wait(); close(waitDone) }()
	select {
	case <-waitDone:
	case <-time.After(3 * time.Second):
		if fatal == "" {
			fatal = "HANG an exchange did not return after cancel+close"
		}
	}
	if fatal != "" {
		return fatal
	}
	for _, r := range res {
		if r == "panic" {
			return "PANIC! in ExchangeContext"
		}
	}
	rs := "-"
	if len(res) > 0 {
		rs = strings.Join(res, ",")
	}
	c := 0
	if closedSeen {
		c = 1
	}
	return fmt.Sprintf("ev=%s res=%s open=%d dials=%d closed=%d", marks.String(), rs, open, dials, c)
}

// ------------------------------------------------------------------------------------------ upclose

// parent: run the case in a child process so that an unrecoverable crash (stack overflow) is a result
func runUpCloseParent(id string, parts []string) string {
	cmd := exec.Command(os.Args[0], "upclose1")
	cmd.Stdin = strings.NewReader(id + " " + strings.Join(parts, " ") + "\n")
	var out, errb bytes.Buffer
	cmd.Stdout = &out
	cmd.Stderr = &errb
	done := make(chan error, 1)
	if err := cmd.Start(); err != nil {
		return "HARNESS-ERROR " + err.Error()
	}
	go func() { done <- cmd.Wait() }()
	select {
	case <-done:
	case <-time.After(25 * time.Second):
		cmd.Process.Kill()
		return "HANG child did not finish"
	}
	for _, l := range strings.Split(out.String(), "\n") {
		if strings.HasPrefix(l, "R "+id+" ") {
			return strings.TrimPrefix(l, "R "+id+" ")
		}
	}
	why := "exit"
	es := errb.String()
	switch {
	case strings.Contains(es, "stack overflow"):
		why = "stack-overflow"
	case strings.Contains(es, "panic:"):
		why = "panic"
	case strings.Contains(es, "fatal error"):
		why = "fatal-error"
	}
	_ = why
	return "CRASH"
}

type fdRec struct {
	fd    int
	inode string
}

func upCloseScheme(up string) (server string, url string) {
	switch up {
	case "udp":
		return "udp", "udp://%s"
	case "tcp":
		return "tcp", "tcp://%s"
	case "tcp+pipeline":
		return "tcp", "tcp+pipeline://%s"
	case "tls":
		return "tls", "tls://%s"
	case "tls+pipeline":
		return "tls", "tls+pipeline://%s"
	case "https":
		return "https", "https://%s/dns-query"
	case "h3":
		return "h3", "h3://%s/dns-query"
	case "quic":
		return "quic", "quic://%s"
	}
	return "", ""
}

func runUpCloseChild(id string, parts []string) string {
	f := hx.Fields(parts)
	sc, urlf := upCloseScheme(f["up"])
	if sc == "" {
		return "HARNESS-ERROR unknown upstream kind"
	}
	pki, err := c17pki()
	if err != nil {
		return "HARNESS-ERROR " + err.Error()
	}
	cert, _, _, err := pki.leaf("valid", "127.0.0.1")
	if err != nil {
		return "HARNESS-ERROR " + err.Error()
	}
	seen := &c17Seen{}
	var addr string
	var stop func()
	if f["x"] == "2" {
		addr, stop, err = upSilentServer(sc)
	} else {
		addr, stop, err = c17StartServer(sc, "127.0.0.1:0", &cert, seen, nil)
	}
	if err != nil {
		return "HARNESS-ERROR " + err.Error()
	}
	defer stop()

	var mu sync.Mutex
	var fds []fdRec
	control := func(network, address string, c syscall.RawConn) error {
		c.Control(func(fd uintptr) {
			ino, _ := os.Readlink(fmt.Sprintf("/proc/self/fd/%d", fd))
			mu.Lock()
			fds = append(fds, fdRec{int(fd), ino})
			mu.Unlock()
		})
		return nil
	}
	u, err := upstream.NewUpstream(fmt.Sprintf(urlf, addr), upstream.Opt{
		TLSConfig: &tls.Config{InsecureSkipVerify: true},
		Control:   control,
	})
	if err != nil {
		return "HARNESS-ERROR NewUpstream: " + err.Error()
	}
	exch := func() string {
		ctx, cancel := context.WithTimeout(context.Background(), 2*time.Second)
		defer cancel()
		done := make(chan string, 1)
		go func() {
			defer func() {
				if r := recover(); r != nil {
					done <- "panic"
				}
			}()
			m, err := u.ExchangeContext(ctx, hx.BuildQuery(0x4242, []byte("\x07example\x03org"), 1, 1, true))
			if err != nil || m == nil {
				done <- "err"
				return
			}
			done <- "ok"
		}()
		select {
		case r := <-done:
			return r
		case <-time.After(4 * time.Second):
			return "hang"
		}
	}
	first := "-"
	if f["x"] == "1" {
		first = exch()
		if first != "ok" {
			return "HARNESS-ERROR the exchange before Close failed: " + first
		}
	}
	cl := func() string {
		done := make(chan string, 1)
		go func() {
			defer func() {
				if r := recover(); r != nil {
					done <- "panic"
				}
			}()
			u.Close()
			done <- "ok"
		}()
		select {
		case r := <-done:
			return r
		case <-time.After(2 * time.Second):
			return "hang"
		}
	}
	inflight := ""
	var infl chan string
	if f["x"] == "2" {
		// an exchange against a silent peer (3 s deadline); Close 150 ms later must make it fail promptly
		infl = make(chan string, 1)
		go func() {
			ctx, cancel := context.WithTimeout(context.Background(), 3*time.Second)
			defer cancel()
			t0 := time.Now()
			m, err := u.ExchangeContext(ctx, hx.BuildQuery(0x4243, []byte("\x07example\x03org"), 1, 1, true))
			switch {
			case err == nil && m != nil:
				infl <- "ok"
			case time.Since(t0) < 1500*time.Millisecond:
				infl <- "prompt"
			default:
				infl <- "deadline"
			}
		}()
		time.Sleep(150 * time.Millisecond)
	}
	c1 := cl()
	c2 := cl()
	if infl != nil {
		select {
		case inflight = <-infl:
		case <-time.After(5 * time.Second):
			inflight = "hang"
		}
	}
	after := exch()
	time.Sleep(300 * time.Millisecond)
	leak := 0
	mu.Lock()
	for _, r := range fds {
		ino, err := os.Readlink(fmt.Sprintf("/proc/self/fd/%d", r.fd))
		if err == nil && ino == r.inode && strings.HasPrefix(ino, "socket:") {
			leak++
		}
	}
	mu.Unlock()
	if c1 == "panic" || c2 == "panic" || after == "panic" {
		return fmt.Sprintf("PANIC! close=%s close2=%s after=%s", c1, c2, after)
	}
	if c1 == "hang" || c2 == "hang" {
		return fmt.Sprintf("HANG close=%s close2=%s", c1, c2)
	}
	if inflight != "" {
		return fmt.Sprintf("close=%s close2=%s inflight=%s leak=%d", c1, c2, inflight, leak)
	}
	return fmt.Sprintf("close=%s close2=%s after=%s leak=%d", c1, c2, after, leak)
}

// a peer that accepts (TCP) / receives (UDP) and never answers
func upSilentServer(sc string) (string, func(), error) {
	switch sc {
	case "quic", "h3":
		pc, err := net.ListenPacket("udp", "127.0.0.1:0")
		if err != nil {
			return "", nil, err
		}
		return pc.LocalAddr().String(), func() { pc.Close() }, nil
	case "udp":
		for i := 0; i < 30; i++ {
			l, err := net.Listen("tcp", "127.0.0.1:0")
			if err != nil {
				return "", nil, err
			}
			pc, err := net.ListenPacket("udp", l.Addr().String())
			if err != nil {
				l.Close()
				continue
			}
			return l.Addr().String(), func() { l.Close(); pc.Close() }, nil
		}
		return "", nil, errors.New("no udp+tcp pair")
	default:
		l, err := net.Listen("tcp", "127.0.0.1:0")
		if err != nil {
			return "", nil, err
		}
		var mu sync.Mutex
		var held []net.Conn
		go func() {
			for {
				c, err := l.Accept()
				if err != nil {
					return
				}
				mu.Lock()
				held = append(held, c)
				mu.Unlock()
			}
		}()
		return l.Addr().String(), func() {
			l.Close()
			mu.Lock()
			for _, c := range held {
				c.Close()
			}
			mu.Unlock()
		}, nil
	}
}

// ------------------------------------------------------------------------------------------ startup

type suPort struct {
	port int
	udp  bool
}

func suBind(p suPort) (io.Closer, error) {
	if p.udp {
		return net.ListenUDP("udp", &net.UDPAddr{IP: net.IPv4(127, 0, 0, 1), Port: p.port})
	}
	return net.Listen("tcp", fmt.Sprintf("127.0.0.1:%d", p.port))
}

func suIsUDP(proto string) bool { return proto == "udp" || proto == "quic" || proto == "" }

// count how many of the ports can be bound again (= have been released), retrying briefly
func suFreed(ports []suPort) int {
	n := 0
	for _, p := range ports {
		for try := 0; try < 40; try++ {
			c, err := suBind(p)
			if err == nil {
				c.Close()
				n++
				break
			}
			time.Sleep(25 * time.Millisecond)
		}
	}
	return n
}

func suBound(ports []suPort) int {
	n := 0
	for _, p := range ports {
		c, err := suBind(p)
		if err != nil {
			n++
		} else {
			c.Close()
		}
	}
	return n
}

var suBinOnce sync.Once
var suBinPath string

// A free port chosen by the harness can be taken by another process before the router binds it. Such a collision
// (an "address already in use" on a port the harness does not hold on purpose) says nothing about the property:
// the case is run again with fresh ports.
var suPortRe = regexp.MustCompile(`127\.0\.0\.1:(\d+)`)

func suCollision(text string, intended map[int]bool) bool {
	for _, line := range strings.Split(text, "\n") {
		if !strings.Contains(line, "address already in use") {
			continue
		}
		ports := suPortRe.FindAllStringSubmatch(line, -1)
		if len(ports) == 0 && len(intended) == 0 {
			return true
		}
		for _, m := range ports {
			p, _ := strconv.Atoi(m[1])
			if !intended[p] {
				return true
			}
		}
	}
	return false
}

func runStartup(id string, parts []string) string {
	res := ""
	for try := 0; try < 4; try++ {
		coll := false
		res = runStartupOnce(id, parts, &coll)
		if !coll {
			return res
		}
	}
	return "HARNESS-ERROR repeated port collisions: " + res
}

func runStartupOnce(id string, parts []string, coll *bool) string {
	f := hx.Fields(parts)
	intended := map[int]bool{}
	dir, err := os.MkdirTemp("", "verif-c18-")
	if err != nil {
		return "HARNESS-ERROR " + err.Error()
	}
	defer os.RemoveAll(dir)
	failKind, failIdx := "none", -1
	if f["fail"] != "none" {
		k, i, _ := strings.Cut(f["fail"], ":")
		failKind = k
		failIdx, _ = strconv.Atoi(i)
	}
	how := f["how"]
	cfg := &router.Config{}
	var held []io.Closer // sockets the harness keeps bound to provoke "address in use"
	defer func() {
		for _, c := range held {
			c.Close()
		}
	}()
	var before []suPort // listeners configured before the failing position (all of them when nothing fails)
	reached := func(kind string, idx int) bool {
		// is step (kind, idx) before the failing step?
		order := map[string]int{"metrics": 0, "up": 1, "set": 2, "rule": 3, "cache": 4, "srv": 5, "none": 6}
		if failKind == "none" {
			return true
		}
		if order[kind] != order[failKind] {
			return order[kind] < order[failKind]
		}
		return idx < failIdx
	}
	if f["metrics"] == "1" {
		p := hx.FreePort()
		cfg.Metrics.Addr = fmt.Sprintf("127.0.0.1:%d", p)
		if failKind == "metrics" {
			l, err := net.Listen("tcp", cfg.Metrics.Addr)
			if err != nil {
				return "HARNESS-ERROR " + err.Error()
			}
			held = append(held, l)
			intended[p] = true
		} else if reached("metrics", 0) {
			before = append(before, suPort{p, false})
		}
	}
	nu := hx.MustAtoi(f["nu"])
	upPort := hx.FreePort()
	for i := 0; i < nu; i++ {
		uc := router.UpstreamConfig{Tag: fmt.Sprintf("up%d", i), Addr: fmt.Sprintf("udp://127.0.0.1:%d", upPort)}
		if i%3 == 1 {
			uc.Addr = fmt.Sprintf("tcp://127.0.0.1:%d", upPort)
		} else if i%3 == 2 {
			uc.Addr = fmt.Sprintf("tcp+pipeline://127.0.0.1:%d", upPort)
		}
		if failKind == "up" && i == failIdx {
			switch how {
			case "scheme":
				uc.Addr = "bogus://127.0.0.1:1"
			case "duptag":
				if i > 0 {
					uc.Tag = "up0"
				} else {
					uc.Tag = ""
				}
			case "noaddr":
				uc.Addr = ""
			case "cert":
				uc.Addr = "tls://127.0.0.1:1"
				uc.Tls.CA = filepath.Join(dir, "no-such-ca.pem")
			default:
				uc.Addr = "bogus://x"
			}
		}
		cfg.Upstreams = append(cfg.Upstreams, uc)
	}
	nd := hx.MustAtoi(f["nd"])
	for i := 0; i < nd; i++ {
		fp := filepath.Join(dir, fmt.Sprintf("set%d.txt", i))
		os.WriteFile(fp, []byte("full:example.org\ndomain:example.com\n"), 0o644)
		if failKind == "set" && i == failIdx {
			fp = filepath.Join(dir, "no-such-set.txt")
		}
		cfg.DomainSets = append(cfg.DomainSets, router.DomainSetConfig{Tag: fmt.Sprintf("set%d", i), Files: []string{fp}})
	}
	nr := hx.MustAtoi(f["nr"])
	for i := 0; i < nr; i++ {
		rc := router.RuleConfig{}
		if nd > 0 {
			rc.Domain = fmt.Sprintf("set%d", i%nd)
		}
		if nu > 0 {
			rc.Forward = fmt.Sprintf("up%d", i%nu)
		} else {
			rc.Reject = 5
		}
		if failKind == "rule" && i == failIdx {
			if how == "noset" {
				rc.Domain = "no-such-set"
			} else {
				rc.Forward = "no-such-upstream"
			}
		}
		cfg.Rules = append(cfg.Rules, rc)
	}
	if failKind == "cache" {
		cfg.Cache.IpMarker = filepath.Join(dir, "no-such-marker.txt")
	} else if f["cache"] == "1" {
		cfg.Cache.MemSize = 1 << 20
	}
	protos := []string{}
	if f["srv"] != "-" && f["srv"] != "" {
		protos = strings.Split(f["srv"], ",")
	}
	for i, proto := range protos {
		p := hx.FreePort()
		sc := router.ServerConfig{Tag: fmt.Sprintf("s%d", i), Protocol: proto, Listen: fmt.Sprintf("127.0.0.1:%d", p)}
		if proto == "tls" || proto == "https" || proto == "quic" {
			sc.Tls.DebugUseTempCert = true
		}
		if failKind == "srv" && i == failIdx {
			switch how {
			case "inuse":
				c, err := suBind(suPort{p, suIsUDP(proto)})
				if err != nil {
					return "HARNESS-ERROR " + err.Error()
				}
				held = append(held, c)
				intended[p] = true
			case "proto":
				sc.Protocol = "bogus"
			case "cert":
				sc.Tls.DebugUseTempCert = false
				sc.Tls.Cert = filepath.Join(dir, "no-such-cert.pem")
				sc.Tls.Key = filepath.Join(dir, "no-such-key.pem")
			case "addr":
				sc.Listen = "256.0.0.1:1"
			}
		} else if reached("srv", i) {
			before = append(before, suPort{p, suIsUDP(proto)})
		}
		cfg.Servers = append(cfg.Servers, sc)
	}

	if f["mode"] == "bin" {
		return startupBin(dir, cfg, failKind != "none", before, intended, coll)
	}
	return guard(id, 30*time.Second, func() string {
		r, err := router.VerifRun(cfg)
		if err != nil {
			if suCollision(err.Error(), intended) {
				*coll = true
				return "port collision"
			}
			freed := suFreed(before)
			return fmt.Sprintf("res=ERR srv=%d", freed)
		}
		// started: every configured listener must be bound now
		time.Sleep(30 * time.Millisecond)
		bound := suBound(before)
		done := make(chan struct{})
		go func() { r.Close(); r.Close(); close(done) }()
		select {
		case <-done:
		case <-time.After(5 * time.Second):
			return "HANG router close did not return within 5s"
		}
		freed := suFreed(before)
		if freed != bound {
			return fmt.Sprintf("res=OK srv=%d LEAK=%d", bound, bound-freed)
		}
		return fmt.Sprintf("res=OK srv=%d", bound)
	})
}

func startupBin(dir string, cfg *router.Config, expectFail bool, before []suPort, intended map[int]bool, coll *bool) string {
	suBinOnce.Do(func() {
		suBinPath = os.Getenv("VERIF_MOSPROXY")
		if suBinPath == "" {
			suBinPath = filepath.Join(filepath.Dir(os.Args[0]), "mosproxy")
		}
	})
	b, err := yaml.Marshal(cfg)
	if err != nil {
		return "HARNESS-ERROR " + err.Error()
	}
	cp := filepath.Join(dir, "config.yaml")
	if err := os.WriteFile(cp, b, 0o644); err != nil {
		return "HARNESS-ERROR " + err.Error()
	}
	cmd := exec.Command(suBinPath, "router", "-c", cp)
	var errb, outb bytes.Buffer
	cmd.Stderr = &errb
	cmd.Stdout = &outb
	if err := cmd.Start(); err != nil {
		return "HARNESS-ERROR " + err.Error()
	}
	done := make(chan error, 1)
	go func() { done <- cmd.Wait() }()
	trace := func() bool {
		s := errb.String() + outb.String()
		return strings.Contains(s, "panic:") || strings.Contains(s, "goroutine ") || strings.Contains(s, "fatal error:")
	}
	if expectFail {
		select {
		case err := <-done:
			if trace() {
				return "PANIC! the binary printed a Go panic trace"
			}
			if err == nil {
				return "res=OK srv=0 EXIT0"
			}
			if suCollision(errb.String()+outb.String(), intended) {
				*coll = true
				return "port collision"
			}
			return fmt.Sprintf("res=ERR srv=%d", suFreed(before))
		case <-time.After(10 * time.Second):
			cmd.Process.Kill()
			return "HANG the binary neither started nor exited"
		}
	}
	// expect a running router: wait for the listeners, then SIGTERM
	up := false
	for i := 0; i < 200; i++ {
		select {
		case <-done:
			if trace() {
				return "PANIC! the binary printed a Go panic trace"
			}
			if suCollision(errb.String()+outb.String(), intended) {
				*coll = true
				return "port collision"
			}
			return "res=ERR srv=0"
		default:
		}
		if suBound(before) == len(before) && strings.Contains(errb.String()+outb.String(), "up and running") {
			up = true
			break
		}
		time.Sleep(25 * time.Millisecond)
	}
	if !up {
		cmd.Process.Kill()
		return "HANG the binary did not come up"
	}
	bound := suBound(before)
	// the signal handler is installed right after the "up and running" line
	time.Sleep(250 * time.Millisecond)
	cmd.Process.Signal(syscall.SIGTERM)
	select {
	case err := <-done:
		if trace() {
			return "PANIC! the binary printed a Go panic trace on shutdown"
		}
		if err != nil {
			return fmt.Sprintf("res=OK srv=%d EXIT=%v", bound, err)
		}
	case <-time.After(5 * time.Second):
		cmd.Process.Kill()
		return "HANG the binary did not exit within 5s of SIGTERM"
	}
	freed := suFreed(before)
	if freed != bound {
		return fmt.Sprintf("res=OK srv=%d LEAK=%d", bound, bound-freed)
	}
	return fmt.Sprintf("res=OK srv=%d", bound)
}

var _ = bufio.NewReader
