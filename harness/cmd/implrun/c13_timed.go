//go:build linux

package main

// C13, kind "streamtimed": segmentation x TIME.  The stream of a pipelining client is cut at chosen points and the
// segments are sent at chosen instants, against listeners with a SHORT idle timeout:
//
//   <id> cfg=<cfgspec, I=<s> for via=sock> l=<tcp|gnet|dot> via=<sock|feed> idle=<ms> segs=<hex>,..  gaps=<ms>,<ms>,..
//        ups=.. exp=<n> [ids=.. cls=.. : oracle / classification hints]
//     gaps[i] = time between the arrival of segment i-1 (i = 0: the moment the connection is established) and the
//     write of segment i.
//   -> the result of kind "stream" + late=<0|1>
//
//   via=feed : the real tcpServer.handleConn (plain / DoT) over net.Pipe and the real gnetServer.OnOpen/OnTraffic/OnClose
//              on the fake gnet.Conn, built with idleTimeout = idle (hook parameter).
//   via=sock : the real tcp / gnet listeners of the in-process router whose configuration says idle_timeout: idle/1000.
//
// late=1: the harness itself was late (scheduling delays of the sending goroutine): the realised schedule no longer
// keeps the distance to the idle timeout that the generator planned, so a close by the timer proves nothing; such a
// run is not compared.  What is measured (all on the client, conservatively): b[i] / a[i] = instant before / after the
// write of segment i, open = instant before the connection is made.  The server (re)arms its timer no earlier than
// open, resp. no earlier than b[j] for a segment j that it has to see first, and the data of segment i is readable
// no later than a[i].
//   per-message deadline (tcp, dot): for every segment i, a[i] - (b[j] of the last segment j < i that completes a
//       frame, or open) must stay below idle - 150 ms;
//   per-event timer (gnet): a[i] - b[i-1] (or open) must stay below idle - 150 ms.
// late=1 also when a canary goroutine (sleeping 20 ms at a time for the whole case) overslept by 250 ms or more.

import (
	"fmt"
	"strings"
	"sync"
	"time"

	"github.com/IrineSistiana/mosproxy/verifharness/hx"
)

func init() {
	register("streamtimed", 32, runStreamTimed)
}

// for every segment: does it hold the last octet of a frame of the (well-formed) stream?
func completesFrame(segs [][]byte) []bool {
	out := make([]bool, len(segs))
	need := 0 // octets still missing of the current frame; 0 = at a frame start
	var hdr []byte
	for i, s := range segs {
		for _, c := range s {
			if need == 0 {
				hdr = append(hdr, c)
				if len(hdr) == 2 {
					need = int(hdr[0])<<8 | int(hdr[1])
					hdr = hdr[:0]
					if need == 0 {
						out[i] = true
					}
				}
				continue
			}
			need--
			if need == 0 {
				out[i] = true
			}
		}
	}
	return out
}

func runStreamTimed(id string, parts []string) string {
	f := hx.Fields(parts)
	env, err := getEnv(f["cfg"])
	if err != nil {
		return "HARNESS-ERROR env: " + strings.ReplaceAll(err.Error(), " ", "_")
	}
	defer putEnv(f["cfg"])
	segs, err := parseSegs(f["segs"])
	if err != nil {
		return "HARNESS-ERROR bad hex"
	}
	var gaps []time.Duration
	for _, g := range strings.Split(f["gaps"], ",") {
		gaps = append(gaps, time.Duration(hx.MustAtoi(g))*time.Millisecond)
	}
	if len(gaps) != len(segs) {
		return "HARNESS-ERROR gaps/segs"
	}
	idleMs := hx.MustAtoi(f["idle"])
	idle := time.Duration(idleMs) * time.Millisecond
	if idle <= 0 {
		return "HARNESS-ERROR idle"
	}
	if f["via"] == "sock" && (idleMs%1000 != 0 || !strings.Contains(";"+f["cfg"]+";", fmt.Sprintf(";I=%d;", idleMs/1000))) {
		return "HARNESS-ERROR via=sock needs I=<idle/1000> in the cfgspec"
	}
	var maxDelay time.Duration
	if u := f["ups"]; u != "" && u != "-" {
		for _, e := range strings.Split(u, ",") {
			d, h, _ := strings.Cut(e, ":")
			rep, err := hx.UnHex(h)
			if err != nil {
				return "HARNESS-ERROR bad hex"
			}
			delay := time.Duration(hx.MustAtoi(d)) * time.Millisecond
			if delay > maxDelay {
				maxDelay = delay
			}
			env.SetBehaviour(hx.QuestionKey(rep), hx.Behaviour{Kind: "reply", Reply: rep, Delay: delay})
		}
	}
	exp := hx.MustAtoi(f["exp"])
	grace := 60 * time.Millisecond
	max := maxDelay + 3*time.Second
	var total time.Duration
	for _, g := range gaps {
		total += g
	}
	return guard(id, total+max+25*time.Second, func() string {
		var mu sync.Mutex
		before := make([]time.Time, len(segs))
		after := make([]time.Time, len(segs))
		hooks := segHooks{
			before: func(i int, _ *sink) {
				time.Sleep(gaps[i])
				mu.Lock()
				before[i] = time.Now()
				mu.Unlock()
			},
			after: func(i int) {
				mu.Lock()
				after[i] = time.Now()
				mu.Unlock()
			},
		}
		// canary: the router runs in this process; a stall of the Go scheduler / of the machine delays ITS timers and event
		// loops as well (the gnet idle timer closes whatever the kernel already holds), and is seen here as an overshoot
		stop := make(chan struct{})
		var stall time.Duration
		var cwg sync.WaitGroup
		cwg.Add(1)
		go func() {
			defer cwg.Done()
			for {
				t0 := time.Now()
				select {
				case <-stop:
					return
				case <-time.After(20 * time.Millisecond):
				}
				if over := time.Since(t0) - 20*time.Millisecond; over > stall {
					stall = over
				}
			}
		}()
		var raw []byte
		var closed bool
		tr := "-"
		open := time.Now()
		switch f["via"] + "/" + f["l"] {
		case "feed/gnet":
			raw, closed, tr = feedGnet(env, 0, segs, exp, "0", grace, max, hooks, idle)
		case "feed/tcp":
			raw, closed = feedTcp(env, 0, segs, exp, "0", grace, max, hooks, false, idle)
		case "feed/dot":
			raw, closed = feedTcp(env, 0, segs, exp, "0", grace, max, hooks, true, idle)
		case "sock/tcp", "sock/gnet":
			raw, closed = sockStream(env.Ports[f["l"]], segs, 0, exp, "0", grace, max, hooks)
		default:
			return "HARNESS-ERROR via/l"
		}
		_ = tr // the connCtx trace is compared by kind "stream"; here only what the client observes
		close(stop)
		cwg.Wait()
		// was the harness on time?
		mu.Lock()
		late := 0
		if stall >= 250*time.Millisecond {
			late = 1
		}
		limit := idle - 150*time.Millisecond
		perMsg := f["l"] != "gnet"
		comp := completesFrame(segs)
		armed := open
		for i := range segs {
			if before[i].IsZero() || after[i].IsZero() {
				break // not written (the connection was gone)
			}
			if after[i].Sub(armed) >= limit {
				late = 1
			}
			if !perMsg || comp[i] {
				armed = before[i]
			}
		}
		mu.Unlock()
		return streamResult(raw, closed, "-", "-") + " late=" + string(rune('0'+late))
	})
}
