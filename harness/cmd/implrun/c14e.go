package main

// C14, round 4.
//
// Kind "streams": exchanges ABANDONED at their deadline on ONE multiplexed connection whose peer allows only a few
// concurrent streams, then healthy exchanges.
//   case:   <id> tr=<doq|doh|h3> m=<stream limit of the server> k=<abandoned exchanges> fault=<lie|silent> conc=<0|1>
//                dl=<ms> after=<n> [fin=<now|never|late|reset>] [aconc=<0|1>]
//     fin (round 6): how the server ends ITS side of a stream it ANSWERED (correct, complete reply): now = FIN with the
//     reply; never = its send side stays open until the client makes it stop (STOP_SENDING / RST_STREAM); late = FIN
//     200 ms after the reply; reset = it resets the stream 50 ms after the reply.  aconc: the answered exchanges run in
//     batches of m-1 at once, 60 ms apart.
//     fault=nofin (doh, h3): the complete body is sent but the stream is never ended.
//     2 ordinary exchanges (the connection is cached), then k exchanges (deadline dl; one after the other, or - conc=1 -
//     in batches of m at once) that the server answers with a reply whose length prefix announces more octets than it
//     sends, leaving the stream unfinished (lie), or not at all (silent); 300 ms later n exchanges that the server
//     answers normally (deadline 1.5 s).
//   result: bad=<E|R|H per abandoned exchange> after=<R|E|H per exchange> late=<0|1> acc=<connections accepted in all>
//           left=<answered streams whose server side is still unfinished 350 ms after the last exchange>
//
// Kind "stall": the server accepts (and completes the TLS handshake) and then never READS; its kernel stays alive.
//   case:   <id> tr=<tcpp|tlsp|tcp|tls> n=<exchanges> pad=<octets> sndbuf=<octets> dl=<ms> srv=<one|all>
//     srv=one: the server accepts ONE connection (and never reads from it) and refuses every other; srv=all: every
//     connection is accepted and never read.
//     the upstream is built by the ROUTER's start-up code ((*router).initUpstream through the add-only hook
//     VerifC17InitUpstream) from an UpstreamConfig with socket.so_sndbuf = sndbuf; the server's sockets have a 4 KiB
//     receive buffer. n exchanges with padded queries are started 3 ms apart, each with deadline dl (the router's 6 s).
//     On a pipelined connection the buffers are full after a few queries and the next Write blocks in the kernel.
//   result: res=<ERR|REPLY|MIXED|HANG> late=<0|1> conns=<connections the server accepted>

import (
	"context"
	"crypto/tls"
	"fmt"
	"net"
	"net/http"
	"os"
	"strings"
	"sync"
	"sync/atomic"
	"syscall"
	"time"

	"github.com/IrineSistiana/mosproxy/app/router"
	"github.com/IrineSistiana/mosproxy/internal/upstream"
	"github.com/IrineSistiana/mosproxy/verifharness/hx"
	"github.com/quic-go/quic-go"
)

func init() {
	register("streams", 12, runStreams)
	register("stall", 16, runStall)
}

func runStreams(id string, parts []string) string {
	return guard(id, 120*time.Second, func() string { return streamsCase(hx.Fields(parts)) })
}

func runStall(id string, parts []string) string {
	return guard(id, 60*time.Second, func() string { return stallCase(hx.Fields(parts)) })
}

func streamsCase(f map[string]string) string {
	tr := f["tr"]
	m := hx.MustAtoi(f["m"])
	k := hx.MustAtoi(f["k"])
	fault := f["fault"]
	conc := f["conc"] == "1"
	dl := time.Duration(hx.MustAtoi(f["dl"])) * time.Millisecond
	after := hx.MustAtoi(f["after"])
	fin := f["fin"] // round 6: how the server ends ITS side of an answered stream
	if fin == "" {
		fin = "now"
	}
	aconc := f["aconc"] == "1"
	if tr != "doq" && tr != "doh" && tr != "h3" {
		return "HARNESS-ERROR unsupported transport " + tr
	}
	srv, err := ogNewServer(tr)
	if err != nil {
		return "HARNESS-ERROR " + err.Error()
	}
	defer srv.release()
	srv.maxStreams = int64(m)
	var faulty atomic.Bool
	var sopen atomic.Int32 // answered streams whose server side is not finished yet
	stop := make(chan struct{})
	defer close(stop)
	const lateFin = 200 * time.Millisecond
	srv.quicFn = func(st quic.Stream, q []byte) bool {
		if faulty.Load() {
			if fault == "lie" { // announces 200 octets, sends 10, leaves the stream unfinished
				st.Write(append([]byte{0, 200}, hx.BuildReply(q, false, 0, [4]byte{1, 4, 1, 4}, 60)[:10]...))
			}
			return true
		}
		if fin == "now" {
			return false
		}
		// a correct, complete reply ...
		sopen.Add(1)
		st.Write(c14Frame(hx.BuildReply(q, false, 0, [4]byte{1, 4, 1, 4}, 60)))
		switch fin { // ... and then
		case "never": // the send side is left open; it ends only when the client tells us to stop sending
			select {
			case <-st.Context().Done():
			case <-stop:
			}
		case "late":
			select {
			case <-time.After(lateFin):
			case <-st.Context().Done():
			}
			st.Close()
		case "reset":
			select {
			case <-time.After(50 * time.Millisecond):
			case <-st.Context().Done():
			}
			st.CancelWrite(1)
		}
		sopen.Add(-1)
		return true
	}
	srv.dohFn = func(w http.ResponseWriter, r *http.Request, q []byte) bool {
		if faulty.Load() {
			if fault == "lie" {
				w.Header().Set("Content-Type", "application/dns-message")
				w.Header().Set("Content-Length", "200")
				w.Write(hx.BuildReply(q, false, 0, [4]byte{1, 4, 1, 4}, 60)[:10])
				if fl, ok := w.(http.Flusher); ok {
					fl.Flush()
				}
			}
			if fault == "nofin" { // the complete body, but the stream is never ended: not a complete HTTP message
				reply := hx.BuildReply(q, false, 0, [4]byte{1, 4, 1, 4}, 60)
				w.Header().Set("Content-Type", "application/dns-message")
				w.Header().Set("Content-Length", fmt.Sprint(len(reply)))
				w.Write(reply)
				if fl, ok := w.(http.Flusher); ok {
					fl.Flush()
				}
			}
			select { // the stream stays open until the client gives it up
			case <-r.Context().Done():
			case <-stop:
			}
			return true
		}
		if fin == "now" {
			return false
		}
		sopen.Add(1)
		defer sopen.Add(-1)
		reply := hx.BuildReply(q, false, 0, [4]byte{1, 4, 1, 4}, 60)
		w.Header().Set("Content-Type", "application/dns-message")
		w.Header().Set("Content-Length", fmt.Sprint(len(reply)))
		w.Write(reply)
		if fl, ok := w.(http.Flusher); ok {
			fl.Flush()
		}
		switch fin { // the complete body is out; the stream is not ended (no END_STREAM / FIN) until ...
		case "never":
			select {
			case <-r.Context().Done():
			case <-stop:
			}
		case "late":
			select {
			case <-time.After(lateFin):
			case <-r.Context().Done():
			}
		case "reset":
			select {
			case <-time.After(50 * time.Millisecond):
			case <-r.Context().Done():
			}
			panic(http.ErrAbortHandler)
		}
		return true
	}
	if err := srv.up("ok"); err != nil {
		return "HARNESS-ERROR " + err.Error()
	}
	u, err := upstream.NewUpstream(ogURL(tr, srv.addr), upstream.Opt{TLSConfig: &tls.Config{InsecureSkipVerify: true}})
	if err != nil {
		return "HARNESS-ERROR " + err.Error()
	}
	defer ogCloseLater(u)
	for i := 0; i < 2; i++ {
		if c, _ := ogOne(u, uint16(0x1000+i), 3*time.Second); c != 'R' {
			return "HARNESS-ERROR warm-up exchange failed"
		}
	}
	// ---- the abandoned exchanges
	faulty.Store(true)
	bad := make([]byte, k)
	late := 0
	if conc {
		for base := 0; base < k; base += m {
			var wg sync.WaitGroup
			for i := base; i < k && i < base+m; i++ {
				wg.Add(1)
				go func(i int) {
					defer wg.Done()
					bad[i], _ = ogOne(u, uint16(0x2000+i), dl)
				}(i)
			}
			wg.Wait()
		}
	} else {
		for i := 0; i < k; i++ {
			bad[i], _ = ogOne(u, uint16(0x2000+i), dl)
		}
	}
	for _, c := range bad {
		if c == 'H' || c == 'L' {
			late = 1
		}
	}
	faulty.Store(false)
	if k > 0 {
		time.Sleep(300 * time.Millisecond)
	}
	// ---- answered exchanges: one after the other, or (aconc) in batches of m at once
	ab := make([]byte, after)
	for i := range ab {
		ab[i] = '-'
	}
	if aconc {
		// batches BELOW the limit, with a pause: stream credit comes back one round trip after a stream has ended, and
		// an exchange beyond what the peer allows at that instant fails at once by design (OpenStream does not wait)
		bsz := m - 1
		if bsz < 1 {
			bsz = 1
		}
		for base := 0; base < after && late == 0; base += bsz {
			if base > 0 {
				time.Sleep(60 * time.Millisecond)
			}
			var wg sync.WaitGroup
			for i := base; i < after && i < base+bsz; i++ {
				wg.Add(1)
				go func(i int) {
					defer wg.Done()
					ab[i], _ = ogOne(u, uint16(0x3000+i), 1500*time.Millisecond)
				}(i)
			}
			wg.Wait()
			for _, c := range ab {
				if c == 'H' || c == 'L' {
					late = 1
				}
			}
		}
	} else {
		for i := 0; i < after; i++ {
			ab[i], _ = ogOne(u, uint16(0x3000+i), 1500*time.Millisecond)
			if ab[i] == 'H' || ab[i] == 'L' {
				late = 1
				break
			}
		}
	}
	as := strings.TrimRight(string(ab), "-")
	// streams still open at the server once everything has settled (a late FIN is out by then)
	time.Sleep(lateFin + 150*time.Millisecond)
	return fmt.Sprintf("bad=%s after=%s late=%d acc=%d left=%d", string(bad), as, late, srv.acc.Load(), sopen.Load())
}

func stallCase(f map[string]string) string {
	tr := f["tr"]
	n := hx.MustAtoi(f["n"])
	pad := hx.MustAtoi(f["pad"])
	sndbuf := hx.MustAtoi(f["sndbuf"])
	dl := time.Duration(hx.MustAtoi(f["dl"])) * time.Millisecond
	onlyOne := f["srv"] == "one"
	useTLS := tr == "tls" || tr == "tlsp"
	cert, err := c14ServerCert()
	if err != nil {
		return "HARNESS-ERROR " + err.Error()
	}
	lc := net.ListenConfig{Control: func(_, _ string, c syscall.RawConn) error {
		return c.Control(func(fd uintptr) { // accepted sockets inherit the small receive buffer
			syscall.SetsockoptInt(int(fd), syscall.SOL_SOCKET, syscall.SO_RCVBUF, 4096)
		})
	}}
	ln, err := lc.Listen(context.Background(), "tcp4", "127.0.0.1:0")
	if err != nil {
		return "HARNESS-ERROR " + err.Error()
	}
	var mu sync.Mutex
	var held []net.Conn
	var conns atomic.Int32
	defer func() {
		ln.Close()
		mu.Lock()
		for _, c := range held {
			c.Close()
		}
		mu.Unlock()
	}()
	go func() {
		for {
			c, err := ln.Accept()
			if err != nil {
				return
			}
			conns.Add(1)
			mu.Lock()
			held = append(held, c)
			mu.Unlock()
			if onlyOne {
				ln.Close() // every further connection attempt is refused
			}
			if useTLS { // the handshake is completed, then the server stops reading
				go func() {
					tc := tls.Server(c, &tls.Config{Certificates: []tls.Certificate{cert}})
					c.SetDeadline(time.Now().Add(5 * time.Second))
					tc.Handshake()
					c.SetDeadline(time.Time{})
				}()
			}
		}
	}()
	var url string
	switch tr {
	case "tcpp", "tlsp", "tcp", "tls":
		url = ogURL(tr, ln.Addr().String())
	default:
		return "HARNESS-ERROR unsupported transport " + tr
	}
	u, err := router.VerifC17InitUpstream(&router.UpstreamConfig{
		Tag:    "c14",
		Addr:   url,
		Tls:    router.TlsConfig{InsecureSkipVerify: true},
		Socket: router.SocketConfig{SO_SNDBUF: sndbuf},
	})
	if err != nil {
		return "HARNESS-ERROR " + err.Error()
	}
	defer func() { // a blocked writer may hold the transport: never wait for Close
		done := make(chan struct{})
		go func() { u.Close(); close(done) }()
		select {
		case <-done:
		case <-time.After(500 * time.Millisecond):
		}
	}()
	// a query followed by pad octets of an (unparsed) OPT-like tail: the transport copies it as it is
	payload := append(hx.BuildQuery(0, []byte("\x03c14\x04test"), 1, 1, true), make([]byte, pad)...)
	type xr struct {
		ok bool
		el time.Duration
	}
	rc := make(chan xr, n)
	for i := 0; i < n; i++ {
		go func(i int) {
			q := append([]byte(nil), payload...)
			q[0], q[1] = byte(0x40+i>>8), byte(i)
			t0 := time.Now()
			ctx, cancel := context.WithTimeout(context.Background(), dl)
			defer cancel()
			ans, err := u.Exchange(ctx, q)
			rc <- xr{ok: err == nil && ans > 0, el: time.Since(t0)}
		}(i)
		time.Sleep(3 * time.Millisecond)
	}
	got, nOK, late := 0, 0, 0
	var els []string
	hung := false
	tmo := time.After(dl + ogHangAfter)
loop:
	for got < n {
		select {
		case r := <-rc:
			got++
			if r.ok {
				nOK++
			}
			if r.el > dl+c14Slack {
				late = 1
			}
			els = append(els, fmt.Sprintf("%.1f", r.el.Seconds()))
		case <-tmo:
			hung = true
			break loop
		}
	}
	res := "ERR"
	switch {
	case hung:
		res, late = "HANG", 1
	case nOK == n:
		res = "REPLY"
	case nOK > 0:
		res = "MIXED"
	}
	if ogDiag {
		fmt.Fprintf(os.Stderr, "c14 diag: stall %s: elapsed %s\n", tr, strings.Join(els, " "))
	}
	return fmt.Sprintf("res=%s back=%d/%d late=%d conns=%d", res, got, n, late, conns.Load())
}
