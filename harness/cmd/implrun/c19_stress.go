package main

// Kind "reservestress" (C19): the REAL prefetchCtl under concurrent reserve calls. g goroutines are released at once
// into reserve(k) for the same key; exactly one may win while the key is held; the winner calls done and the next
// round starts. This is the failing-schedule SEARCH for the single-flight invariant (the proof is C19_single_flight).
//   <id> g=<goroutines> rounds=<n> keys=<k>   ->   rounds=<n> multi=<rounds with more than one winner> zero=<rounds without a winner> maxwin=<n>

import (
	"fmt"
	"runtime"
	"sync"
	"sync/atomic"

	"github.com/IrineSistiana/mosproxy/app/router"
	"github.com/IrineSistiana/mosproxy/verifharness/hx"
)

func init() { register("reservestress", 1, runReserveStress) }

func runReserveStress(id string, parts []string) string {
	f := hx.Fields(parts)
	g := hx.MustAtoi(f["g"])
	rounds := hx.MustAtoi(f["rounds"])
	keys := hx.MustAtoi(f["keys"])
	ctl := router.VerifNewPrefetchCtl()
	multi, zero, maxwin := 0, 0, 0
	for r := 0; r < rounds; r++ {
		k := uint64(r%keys) * 0x9e3779b97f4a7c15
		var wins atomic.Int32
		var start, done sync.WaitGroup
		gate := make(chan struct{})
		start.Add(g)
		done.Add(g)
		for i := 0; i < g; i++ {
			go func() {
				defer done.Done()
				start.Done()
				<-gate
				if ctl.Reserve(k) {
					wins.Add(1)
				}
			}()
		}
		start.Wait()
		runtime.Gosched()
		close(gate)
		done.Wait()
		w := int(wins.Load())
		if w > 1 {
			multi++
		}
		if w == 0 {
			zero++
		}
		if w > maxwin {
			maxwin = w
		}
		for i := 0; i < w; i++ {
			ctl.Done(k)
		}
	}
	return fmt.Sprintf("rounds=%d multi=%d zero=%d maxwin=%d", rounds, multi, zero, maxwin)
}
