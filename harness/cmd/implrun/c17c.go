package main

// C17, round 3.
//
// kind "upcfg": the ROUTER's mapping  UpstreamConfig{Addr, DialAddr, Tls{CA, Cert, Key, InsecureSkipVerify}} ->
//   upstream.  The upstream is built by the REAL (*router).initUpstream (router.VerifC17InitUpstream: a router that has
//   only what initUpstream reads) and one exchange is run through it against a fake server of the scheme's own
//   protocol which presents the case's certificate kind (TLS based schemes) and, optionally, demands a client
//   certificate.  Every scheme spelling NewUpstream accepts is a case dimension (helper schemes, letter case), so is
//   the presence of dial_addr: with a dial_addr the URL host is a name that does not resolve (the server can only be
//   reached through dial_addr), without one the URL host is the server's own loopback address.
//   The process's SYSTEM trust store is the harness' own (see c17pki).
//   61234 in url/da = the fake server's port.
//   case:   <id> url=<hex> da=<hex> srv=<udp|tcp|tls|http|https|quic|h3> listen=<v4|v6> san=<name the certificate is for>
//                ca=<0|1> ck=<0|1> ins=<0|1> peer=<certificate kind|-> srvreq=<0|1>
//   result: start=ok dial=<address of the fake server when something arrived there|-> host=<r.Host of the DoH request|-> x=<ok|fail>
//           |   start=err

import (
	"context"
	"crypto/tls"
	"crypto/x509"
	"net"
	"strings"
	"time"

	"github.com/IrineSistiana/mosproxy/app/router"
	"github.com/IrineSistiana/mosproxy/verifharness/hx"
)

func init() {
	register("upcfg", 8, runUpCfg)
}

func runUpCfg(id string, parts []string) string {
	f := hx.Fields(parts)
	ub, e1 := hx.UnHex(f["url"])
	db, e2 := hx.UnHex(f["da"])
	if e1 != nil || e2 != nil {
		return "HARNESS-ERROR bad hex"
	}
	return guard(id, 40*time.Second, func() string { return upCfgCase(f, string(ub), string(db)) })
}

func upCfgCase(f map[string]string, url, da string) string {
	pki, err := c17pki()
	if err != nil {
		return "HARNESS-ERROR pki " + err.Error()
	}
	if !pki.sysRoots {
		return "HARNESS-ERROR system roots not under control"
	}
	srv := f["srv"]
	usesTLS := srv == "tls" || srv == "https" || srv == "quic" || srv == "h3"
	var cert *tls.Certificate
	if usesTLS {
		c, _, _, err := pki.leaf(f["peer"], f["san"])
		if err != nil {
			return "HARNESS-ERROR leaf " + err.Error()
		}
		cert = &c
	}
	var clientCAs *x509.CertPool
	if usesTLS && f["srvreq"] == "1" {
		clientCAs = pki.caPool
	}
	ip := "127.0.0.1"
	if f["listen"] == "v6" {
		ip = "::1"
	}
	seen := &c17Seen{h1Only: f["h1"] == "1"}
	addr, closeSrv, err := c17StartServer(srv, net.JoinHostPort(ip, "0"), cert, seen, clientCAs)
	if err != nil {
		return "HARNESS-ERROR listen " + err.Error()
	}
	defer closeSrv()
	_, port, _ := net.SplitHostPort(addr)
	topts, err := c17TlsOpts(f, pki, "client.test")
	if err != nil {
		return "HARNESS-ERROR leaf " + err.Error()
	}
	cfg := &router.UpstreamConfig{
		Tag:      "u",
		Addr:     strings.ReplaceAll(url, c17PortToken, port),
		DialAddr: strings.ReplaceAll(da, c17PortToken, port),
		Tls:      topts,
	}
	u, err := router.VerifC17InitUpstream(cfg)
	if err != nil || u == nil {
		return "start=err"
	}
	defer u.Close()
	q := hx.BuildQuery(0x1733, []byte("\x04c17u\x04test"), 1, 1, true)
	ctx, cancel := context.WithTimeout(context.Background(), 3*time.Second)
	n, xerr := u.Exchange(ctx, q)
	cancel()
	x := "fail"
	if xerr == nil && n == 1 {
		x = "ok"
	}
	dial := "-"
	if c17Touched(seen) > 0 {
		dial = net.JoinHostPort(ip, c17PortToken)
	}
	// the Host header / :authority of the DoH request as the fake server received it
	host := "-"
	if srv == "http" || srv == "https" || srv == "h3" {
		seen.mu.Lock()
		if seen.hostSet && x == "ok" {
			host = seen.host
			if strings.HasSuffix(host, ":"+port) {
				host = strings.TrimSuffix(host, port) + c17PortToken
			}
		}
		seen.mu.Unlock()
	}
	return "start=ok dial=" + dial + " host=" + host + " x=" + x
}
