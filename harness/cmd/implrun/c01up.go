package main

// Kind "upgarbage" (C01, reply path): a fake upstream server of every transport answers with malformed data; the
// exchange must FAIL (or return a decodable message) — never panic, hang past its deadline, or kill the process —
// and a following exchange against the same (now well-behaved) server must succeed.
//   <id> sc=<udp|tcp|tcp+pipeline|tls|tls+pipeline|http|https|quic|h3> mode=<garbage|empty|short|counts|ptrloop|status|hdr|bigrdlen>
//   -> first=<err|reply|PANIC!> second=<reply|err> late=<0|1>

import (
	"context"
	"crypto/tls"
	"fmt"
	"strings"
	"time"

	"github.com/IrineSistiana/mosproxy/internal/dnsmsg"
	"github.com/IrineSistiana/mosproxy/internal/upstream"
	"github.com/IrineSistiana/mosproxy/verifharness/hx"
)

func init() { register("upgarbage", 1, runUpGarbage) }

func c01Mangler(mode string) func(q, r []byte) []byte {
	return func(q, r []byte) []byte {
		switch mode {
		case "garbage":
			return append(append([]byte(nil), q[:2]...), 0x81, 0x80, 0xff, 0xff, 0xff, 0x00, 0x01)
		case "empty":
			return []byte{}
		case "short":
			return r[:len(r)-3]
		case "hdr":
			return r[:12]
		case "counts":
			x := append([]byte(nil), r...)
			x[6], x[7] = 0xff, 0xff
			return x
		case "ptrloop":
			x := append([]byte(nil), r[:12]...)
			x[4], x[5], x[6], x[7] = 0, 1, 0, 0
			return append(x, 0xc0, 0x0c, 0, 1, 0, 1)
		case "bigrdlen":
			x := append([]byte(nil), r...)
			x[len(x)-6], x[len(x)-5] = 0xff, 0xff
			return x
		case "status":
			return nil
		}
		return r
	}
}

func runUpGarbage(id string, parts []string) string {
	f := hx.Fields(parts)
	sc := f["sc"]
	base := strings.TrimSuffix(sc, "+pipeline")
	pki, err := c17pki()
	if err != nil {
		return "HARNESS-ERROR pki"
	}
	var cert *tls.Certificate
	if base == "tls" || base == "https" || base == "quic" || base == "h3" {
		c, _, _, err := pki.leaf("valid", "127.0.0.1")
		if err != nil {
			return "HARNESS-ERROR leaf"
		}
		cert = &c
	}
	seen := &c17Seen{}
	addr, closeSrv, err := c17StartServer(base, "127.0.0.1:0", cert, seen, nil)
	if err != nil {
		return "HARNESS-ERROR server: " + strings.ReplaceAll(err.Error(), " ", "_")
	}
	defer closeSrv()
	defer func() { c17Mangle = nil }()
	u, err := upstream.NewUpstream(sc+"://"+addr, upstream.Opt{
		TLSConfig:   &tls.Config{RootCAs: pki.caPool},
		DialTimeout: 2 * time.Second,
	})
	if err != nil {
		return "HARNESS-ERROR new: " + strings.ReplaceAll(err.Error(), " ", "_")
	}
	if base != "h3" { // DoHTransport.Close recursion (C18 D12) until fixed
		defer u.Close()
	}
	q := hx.BuildQuery(0x0101, []byte("\x03c01\x04test"), 1, 1, true)
	exchange := func(deadline time.Duration) (string, bool) {
		res := guard(id, deadline+8*time.Second, func() string {
			ctx, cancel := context.WithTimeout(context.Background(), deadline)
			defer cancel()
			m, err := u.ExchangeContext(ctx, q)
			if err != nil {
				return "err"
			}
			dnsmsg.ReleaseMsg(m)
			return "reply"
		})
		return res, false
	}
	if f["warm"] == "1" {
		// a well-formed exchange first: the transport's pooled read buffer now holds a complete reply to this very
		// question, so a truncated reply that is decoded beyond the octets actually received would be "completed" from it
		if w, _ := exchange(2 * time.Second); w != "reply" {
			return "HARNESS-ERROR warm-up exchange failed: " + w
		}
	}
	c17Mangle = c01Mangler(f["mode"])
	start := time.Now()
	first, _ := exchange(700 * time.Millisecond)
	late := 0
	if time.Since(start) > 700*time.Millisecond+1500*time.Millisecond {
		late = 1
	}
	if strings.HasPrefix(first, "PANIC!") {
		first = "PANIC!"
	}
	c17Mangle = nil
	second := "err"
	for try := 0; try < 3 && second != "reply"; try++ { // the first attempt may hit a connection the garbage left half-dead
		second, _ = exchange(2 * time.Second)
		if strings.HasPrefix(second, "PANIC!") {
			second = "PANIC!"
			break
		}
	}
	return fmt.Sprintf("first=%s second=%s late=%d", first, second, late)
}
