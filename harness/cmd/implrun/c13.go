//go:build linux

package main

// C13 (stream framing) and the stream clause of C01.
//
// Kinds "stream" / "streamgarbage" (same runner, different generators and comparisons):
//   <id> cfg=<cfgspec> l=<tcp|gnet|dot> via=<sock|feed>   (dot: via=feed only) segs=<hex>,<hex>,..  ups=<delayms>:<replyhex>,..|-
//        exp=<n responses expected (hint: stop waiting early)> hc=<0|1|?> (hint: the server will close)
//        gap=<ms between segments (sock)> burst=<0|1> probe=<0|1> [ids=.. rc5=.. phases=.. : oracle/model hints, ignored here]
//        pz=<i>:<n>  before segment i wait until n whole responses have been read back, then 100 ms (two-phase cases)
//   -> st=<open|closed> n=<responses> units=<sorted response bodies, hex> ans=<sorted id:rcode> bad=<0|1>
//      alive=<1|0|-> tr=<per read event  buflen:readN:hdr:inbound:action>|- ord=<ids in arrival order> raw=<hex>
//
//   via=sock : the segments are written to the REAL listener of the in-process router over loopback TCP
//              (TCP_NODELAY, gap between writes); the kernel may coalesce, so only what the property promises is compared.
//   via=feed : the segmentation is exact.  l=gnet: the real gnetServer.OnTraffic on a fake gnet.Conn that implements
//              Next/InboundBuffered/Write/AsyncWrite with gnet's semantics (single event-loop goroutine, buffers returned
//              by Next are overwritten after OnTraffic returns); the connCtx is dumped after every read event.
//              l=tcp: the real tcpServer.handleConn on one end of net.Pipe (each Write is one segment).
//              l=dot: the same handleConn as a DoT server (temporary certificate) over net.Pipe; the client is
//              crypto/tls, each segment is one Write = one TLS record (records of at most 16 KiB).

import (
	"crypto/tls"
	"encoding/binary"
	"errors"
	"fmt"
	"io"
	"net"
	"sort"
	"strconv"
	"strings"
	"sync"
	"time"

	"github.com/IrineSistiana/mosproxy/app/router"
	"github.com/IrineSistiana/mosproxy/verifharness/hx"
	"github.com/panjf2000/gnet/v2"
)

func init() {
	register("stream", 8, runStream)
	register("streamgarbage", 8, runStream)
}

// ---------------------------------------------------------------- collected output of one connection
type sink struct {
	mu     sync.Mutex
	buf    []byte
	closed bool
}

func (s *sink) add(b []byte) {
	s.mu.Lock()
	s.buf = append(s.buf, b...)
	s.mu.Unlock()
}
func (s *sink) close() {
	s.mu.Lock()
	s.closed = true
	s.mu.Unlock()
}
func (s *sink) snapshot() ([]byte, bool) {
	s.mu.Lock()
	defer s.mu.Unlock()
	return append([]byte(nil), s.buf...), s.closed
}

// whole frames in b, and whether octets are left over
func splitFrames(b []byte) (units [][]byte, leftover bool) {
	for len(b) > 0 {
		if len(b) < 2 {
			return units, true
		}
		l := int(binary.BigEndian.Uint16(b))
		if len(b) < 2+l {
			return units, true
		}
		units = append(units, b[2:2+l])
		b = b[2+l:]
	}
	return units, false
}

// wait until exp whole responses are there (then `grace` more for surplus octets), or the peer closed, or `max` elapsed.
// wantClose: keep waiting for the close (up to max) even when exp responses are there.
func waitSink(s *sink, exp int, wantClose string, grace, max time.Duration) {
	deadline := time.Now().Add(max)
	var reached time.Time
	for time.Now().Before(deadline) {
		b, closed := s.snapshot()
		if closed {
			return
		}
		u, _ := splitFrames(b)
		switch wantClose {
		case "1":
			// wait for the close
		case "?":
			// unknown: fixed window, handled by max
		default:
			if len(u) >= exp {
				if reached.IsZero() {
					reached = time.Now()
				} else if time.Since(reached) >= grace {
					return
				}
			}
		}
		time.Sleep(2 * time.Millisecond)
	}
}

// ---------------------------------------------------------------- fake gnet.Conn (gnet semantics, one event-loop goroutine)
type fakeGnetConn struct {
	gnet.Conn // nil: any method the handler calls that is not implemented below panics (and is reported)
	inb       []byte
	handed    [][]byte // slices returned by Next during the current OnTraffic
	ctx       interface{}
	out       *sink
	tasks     chan func()
	closedMu  sync.Mutex
	closed    bool
}

func newFakeGnetConn() *fakeGnetConn {
	c := &fakeGnetConn{out: &sink{}, tasks: make(chan func(), 4096)}
	go func() {
		for t := range c.tasks {
			t()
		}
	}()
	return c
}

// run fn on the event-loop goroutine and wait for it
func (c *fakeGnetConn) onLoop(fn func()) {
	done := make(chan struct{})
	c.tasks <- func() { fn(); close(done) }
	<-done
}

func (c *fakeGnetConn) isClosed() bool {
	c.closedMu.Lock()
	defer c.closedMu.Unlock()
	return c.closed
}
func (c *fakeGnetConn) markClosed() {
	c.closedMu.Lock()
	c.closed = true
	c.closedMu.Unlock()
	c.out.close()
}

func (c *fakeGnetConn) Next(n int) ([]byte, error) {
	if n > len(c.inb) {
		return nil, io.ErrShortBuffer
	} else if n <= 0 {
		n = len(c.inb)
	}
	b := c.inb[:n:n]
	c.inb = c.inb[n:]
	c.handed = append(c.handed, b)
	return b, nil
}
func (c *fakeGnetConn) InboundBuffered() int       { return len(c.inb) }
func (c *fakeGnetConn) Context() interface{}       { return c.ctx }
func (c *fakeGnetConn) SetContext(v interface{})   { c.ctx = v }
func (c *fakeGnetConn) LocalAddr() net.Addr        { return &net.TCPAddr{IP: net.IPv4(127, 0, 0, 1), Port: 53} }
func (c *fakeGnetConn) RemoteAddr() net.Addr       { return &net.TCPAddr{IP: net.IPv4(127, 0, 0, 1), Port: 40000} }
func (c *fakeGnetConn) Flush() error               { return nil }
func (c *fakeGnetConn) Close() error               { c.markClosed(); return nil }
func (c *fakeGnetConn) Write(p []byte) (int, error) { // only legal on the event loop
	if c.isClosed() {
		return 0, net.ErrClosed
	}
	c.out.add(p)
	return len(p), nil
}
func (c *fakeGnetConn) AsyncWrite(buf []byte, cb gnet.AsyncCallback) error {
	if c.isClosed() {
		return net.ErrClosed
	}
	c.tasks <- func() {
		var err error
		if c.isClosed() {
			err = net.ErrClosed
		} else {
			c.out.add(buf)
		}
		if cb != nil {
			cb(c, err)
		}
	}
	return nil
}

// one read event: the new octets follow what OnTraffic left buffered
func (c *fakeGnetConn) readEvent(g *router.VerifGnet, seg []byte) (gnet.Action, string) {
	var act gnet.Action
	var dump string
	c.onLoop(func() {
		nb := make([]byte, 0, len(c.inb)+len(seg))
		nb = append(nb, c.inb...)
		nb = append(nb, seg...)
		c.inb = nb
		c.handed = c.handed[:0]
		act = g.OnTraffic(c)
		// the buffers handed out by Next are reused by gnet after OnTraffic returns
		for _, h := range c.handed {
			for i := range h {
				h[i] = 0xAA
			}
		}
		bl, rn, hdr, _ := router.VerifConnCtx(c)
		a := "none"
		if act == gnet.Close {
			a = "close"
		}
		dump = fmt.Sprintf("%d:%d:%d:%d:%s", bl, rn, b2i(hdr), len(c.inb), a)
	})
	return act, dump
}

// ---------------------------------------------------------------- the runner
// what a feeder calls around the write of segment i (either may be nil)
type segHooks struct {
	before func(i int, out *sink)
	after  func(i int)
}

func (h segHooks) pre(i int, out *sink) {
	if h.before != nil {
		h.before(i, out)
	}
}
func (h segHooks) post(i int) {
	if h.after != nil {
		h.after(i)
	}
}

func idleOr(d time.Duration) time.Duration {
	if d <= 0 {
		return time.Hour
	}
	return d
}

func parseSegs(s string) ([][]byte, error) {
	if s == "" || s == "-" {
		return nil, nil
	}
	var out [][]byte
	for _, h := range strings.Split(s, ",") {
		b, err := hx.UnHex(h)
		if err != nil {
			return nil, err
		}
		out = append(out, b)
	}
	return out, nil
}

func runStream(id string, parts []string) string {
	f := hx.Fields(parts)
	env, err := getEnv(f["cfg"])
	if err != nil {
		return "HARNESS-ERROR env: " + strings.ReplaceAll(err.Error(), " ", "_")
	}
	defer putEnv(f["cfg"])
	segs, err := parseSegs(f["segs"])
	if err != nil {
		return "HARNESS-ERROR bad hex"
	}
	maxc := 0
	for _, p := range strings.Split(f["cfg"], ";") {
		if strings.HasPrefix(p, "M=") {
			maxc, _ = strconv.Atoi(p[2:])
		}
	}
	var maxDelay time.Duration
	var keys []string
	if u := f["ups"]; u != "" && u != "-" {
		for _, e := range strings.Split(u, ",") {
			d, h, _ := strings.Cut(e, ":")
			rep, err := hx.UnHex(h)
			if err != nil {
				return "HARNESS-ERROR bad hex"
			}
			delay := time.Duration(hx.MustAtoi(d)) * time.Millisecond
			if delay > maxDelay {
				maxDelay = delay
			}
			k := hx.QuestionKey(rep)
			keys = append(keys, k)
			env.SetBehaviour(k, hx.Behaviour{Kind: "reply", Reply: rep, Delay: delay})
		}
	}
	// the behaviours stay installed: concurrently running cases may share questions (same frames, other segmentation)
	_ = keys
	exp := hx.MustAtoi(f["exp"])
	hc := f["hc"]
	gap := time.Duration(hx.MustAtoi(f["gap"])) * time.Millisecond
	grace := 60 * time.Millisecond
	pzSeg, pzN := -1, 0
	if pz := f["pz"]; pz != "" && pz != "-" {
		a, b, _ := strings.Cut(pz, ":")
		pzSeg, pzN = hx.MustAtoi(a), hx.MustAtoi(b)
	}
	pause := func(i int, out *sink) {
		if i != pzSeg {
			return
		}
		waitSink(out, pzN, "0", 100*time.Millisecond, 6*time.Second)
	}
	max := maxDelay + 3*time.Second
	if hc == "?" {
		max = maxDelay + 700*time.Millisecond
	}
	return guard(id, max+20*time.Second, func() string {
		var raw []byte
		var closed bool
		tr := "-"
		switch f["via"] + "/" + f["l"] {
		case "feed/gnet":
			raw, closed, tr = feedGnet(env, maxc, segs, exp, hc, grace, max, segHooks{before: pause}, 0)
		case "feed/tcp":
			raw, closed = feedTcp(env, maxc, segs, exp, hc, grace, max, segHooks{before: pause}, false, 0)
		case "feed/dot":
			raw, closed = feedTcp(env, maxc, segs, exp, hc, grace, max, segHooks{before: pause}, true, 0)
		default:
			raw, closed = sockStream(env.Ports[f["l"]], segs, gap, exp, hc, grace, max, segHooks{before: pause})
		}
		alive := "-"
		if f["probe"] == "1" {
			alive = probeAlive(env, f["via"], f["l"], maxc)
		}
		return streamResult(raw, closed, alive, tr)
	})
}

// the canonical result of one connection: what was read back, parsed as frames
func streamResult(raw []byte, closed bool, alive, tr string) string {
	units, leftover := splitFrames(raw)
	var us, ans, ord []string
	for _, u := range units {
		us = append(us, hx.Hex(u))
		if len(u) >= 4 {
			ans = append(ans, fmt.Sprintf("%02x%02x:%d", u[0], u[1], u[3]&15))
			ord = append(ord, fmt.Sprintf("%02x%02x", u[0], u[1]))
		} else {
			ans = append(ans, "short")
		}
	}
	sort.Strings(us)
	sort.Strings(ans)
	st := "open"
	if closed {
		st = "closed"
	}
	return fmt.Sprintf("st=%s n=%d units=%s ans=%s bad=%d alive=%s tr=%s ord=%s raw=%s", st, len(units),
		strings.Join(orDash(us), ","), strings.Join(orDash(ans), ","), b2i(leftover), alive, tr,
		strings.Join(orDash(ord), ","), orDashS(hx.Hex(raw)))
}

func orDashS(s string) string {
	if s == "" {
		return "-"
	}
	return s
}

// idle: the listener's idle timeout (0 = one hour: the timer never matters)
func feedGnet(env *hx.RouterEnv, maxc int, segs [][]byte, exp int, hc string, grace, max time.Duration, hooks segHooks, idle time.Duration) ([]byte, bool, string) {
	g := env.R.VerifNewGnet(int32(maxc), idleOr(idle))
	c := newFakeGnetConn()
	defer close(c.tasks)
	var act gnet.Action
	c.onLoop(func() { act = g.OnOpen(c) })
	var tr []string
	closed := act == gnet.Close
	for i, s := range segs {
		if closed {
			break
		}
		if len(s) == 0 {
			continue
		}
		hooks.pre(i, c.out)
		if c.isClosed() { // closed by the idle timer (time.AfterFunc -> c.Close): no more read events
			closed = true
			break
		}
		a, d := c.readEvent(g, s)
		hooks.post(i)
		tr = append(tr, d)
		if a == gnet.Close {
			closed = true
		}
	}
	if !closed {
		waitSink(c.out, exp, "0", grace, max)
		closed = c.isClosed()
		c.onLoop(func() { c.markClosed(); g.OnClose(c, errors.New("verif: client closed")) })
	} else {
		c.onLoop(func() { c.markClosed(); g.OnClose(c, nil) })
	}
	raw, _ := c.out.snapshot()
	return raw, closed, strings.Join(orDash(tr), ";")
}

func feedTcp(env *hx.RouterEnv, maxc int, segs [][]byte, exp int, hc string, grace, max time.Duration, hooks segHooks, dot bool, idle time.Duration) ([]byte, bool) {
	pcl, sv := net.Pipe()
	var cl net.Conn = pcl
	done := make(chan struct{})
	go func() {
		if dot {
			env.R.VerifDotHandleConn(sv, int32(maxc), idleOr(idle))
		} else {
			env.R.VerifTcpHandleConn(sv, int32(maxc), idleOr(idle))
		}
		close(done)
	}()
	if dot {
		tc := tls.Client(pcl, &tls.Config{InsecureSkipVerify: true})
		pcl.SetDeadline(time.Now().Add(5 * time.Second))
		if err := tc.Handshake(); err != nil {
			pcl.Close()
			<-done
			return []byte("handshake-failed"), true
		}
		pcl.SetDeadline(time.Time{})
		cl = tc
	}
	out := &sink{}
	go func() {
		buf := make([]byte, 65536)
		for {
			n, err := cl.Read(buf)
			if n > 0 {
				out.add(buf[:n])
			}
			if err != nil {
				out.close()
				return
			}
		}
	}()
	for i, s := range segs {
		if len(s) == 0 {
			continue
		}
		hooks.pre(i, out)
		cl.SetWriteDeadline(time.Now().Add(5 * time.Second))
		_, err := cl.Write(s)
		hooks.post(i)
		if err != nil {
			break
		}
	}
	waitSink(out, exp, hc, grace, max)
	_, closed := out.snapshot()
	if dot {
		pcl.SetDeadline(time.Now().Add(2 * time.Second))
	}
	cl.Close()
	pcl.Close()
	select {
	case <-done:
	case <-time.After(5 * time.Second):
	}
	raw, _ := out.snapshot()
	return raw, closed
}

func sockStream(port int, segs [][]byte, gap time.Duration, exp int, hc string, grace, max time.Duration, hooks segHooks) ([]byte, bool) {
	c, err := net.DialTimeout("tcp", fmt.Sprintf("127.0.0.1:%d", port), 2*time.Second)
	if err != nil {
		return nil, true
	}
	defer c.Close()
	if tc, ok := c.(*net.TCPConn); ok {
		tc.SetNoDelay(true)
	}
	out := &sink{}
	go func() {
		buf := make([]byte, 65536)
		for {
			n, err := c.Read(buf)
			if n > 0 {
				out.add(buf[:n])
			}
			if err != nil {
				// EOF or reset by the server = closed by the peer; our own Close (after the snapshot) also ends here
				out.close()
				return
			}
		}
	}()
	for i, s := range segs {
		if len(s) == 0 {
			continue
		}
		if i > 0 && gap > 0 {
			time.Sleep(gap)
		}
		hooks.pre(i, out)
		c.SetWriteDeadline(time.Now().Add(5 * time.Second))
		_, err := c.Write(s)
		hooks.post(i)
		if err != nil {
			break
		}
	}
	waitSink(out, exp, hc, grace, max)
	raw, closed := out.snapshot()
	return raw, closed
}

// a fresh connection with one valid query must still be answered
func probeAlive(env *hx.RouterEnv, via, l string, maxc int) string {
	q := hx.BuildQuery(0xbeef, []byte("\x05alive\x05probe"), 1, 1, true)
	// no rule forwards "alive.probe" unless the catch-all does; give the upstream a reply in that case
	rep := hx.BuildReply(q, false, 0, [4]byte{1, 2, 3, 4}, 60)
	env.SetBehaviour(hx.QuestionKey(q), hx.Behaviour{Kind: "reply", Reply: rep})
	fr := binary.BigEndian.AppendUint16(nil, uint16(len(q)))
	fr = append(fr, q...)
	var raw []byte
	switch via + "/" + l {
	case "feed/gnet":
		raw, _, _ = feedGnet(env, maxc, [][]byte{fr}, 1, "0", 5*time.Millisecond, 3*time.Second, segHooks{}, 0)
	case "feed/tcp":
		raw, _ = feedTcp(env, maxc, [][]byte{fr}, 1, "0", 5*time.Millisecond, 3*time.Second, segHooks{}, false, 0)
	case "feed/dot":
		raw, _ = feedTcp(env, maxc, [][]byte{fr}, 1, "0", 5*time.Millisecond, 3*time.Second, segHooks{}, true, 0)
	default:
		raw, _ = sockStream(env.Ports[l], [][]byte{fr}, 0, 1, "0", 5*time.Millisecond, 3*time.Second, segHooks{})
	}
	u, left := splitFrames(raw)
	if len(u) == 1 && !left && len(u[0]) >= 2 && u[0][0] == 0xbe && u[0][1] == 0xef {
		return "1"
	}
	return "0"
}
