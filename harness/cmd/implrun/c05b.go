package main

// Kind "pipeline_burst" (C05, end-of-life boundary under concurrency; judged by the oracle only).
//
//   case:   <id> net=<tcp|udp> k=<ids left on every connection: it starts at nextQid = 65536-k>
//           n=<burst size> rounds=<r> warm=<0|1> stale=<0|1> seed=<int>
//   result: ok=<messages returned> err=<errors> conns=<dials> maxids=<most ids seen on one connection>
//           viol=<none|first violation, no spaces>
//
// Every connection of the real PipelineTransport is dialled through the preset hook with nextQid = 65536-k,
// so it is k ids away from its end of life.  Each round releases n exchanges TOGETHER through
// PipelineTransport.ExchangeContext: several callers are handed the same connection while fewer ids than
// callers are left (connpool: Status still says available, Reserve does not count the last slot, the idle
// pick never reserves).  warm=1 runs one sequential exchange first, so the burst goes through the pool's
// idle/busy picks instead of the shared dial call.  The scripted server answers every query it reads with
// a unique mark and (stale=1) first emits replies for wire ids 0 and 1 with marks of their own — what late
// answers to the connection's first, long abandoned exchanges look like.  Ids 0 and 1 are below 65536-k, so
// on a connection that never wraps nobody can be waiting for them.
//
// Oracle (independent of the model): per connection no wire id is seen in the queries of two exchanges and
// every id lies in [65536-k, 65535] (below = wrapped); every returned message carries the caller's id and the
// mark the server generated for that very exchange's query on a connection/id the query was seen with; a
// stale mark is never returned; no mark is returned twice.

import (
	"bufio"
	"context"
	"fmt"
	"math/rand"
	"net"
	"sort"
	"strings"
	"sync"
	"sync/atomic"
	"time"

	"github.com/IrineSistiana/mosproxy/internal/upstream/transport"
	"github.com/IrineSistiana/mosproxy/verifharness/hx"
)

func init() {
	register("pipeline_burst", 4, func(id string, p []string) string {
		return c05Guard(90*time.Second, func() string { return c05RunBurst(p) })
	})
}

type c05bSent struct {
	conn  int
	wid   uint16
	exch  int
	stale bool
}

type c05bState struct {
	netw      string
	q0        int
	stale     bool
	dialDelay time.Duration

	mu      sync.Mutex
	nconn   int
	ids     [][]uint16          // per connection: wire ids in the order the server read them
	idOwner []map[uint16]int    // per connection: wire id -> exchange whose query carried it
	seen    map[int][][2]int    // exchange -> (conn, wid) pairs its query was seen with
	sent    map[uint32]c05bSent // mark -> what it was sent for
	viol    []string
	closers []func()
	nmark   atomic.Uint32
}

// violate keeps the first violation of each class (class = text before the first ':').
func (st *c05bState) violate(s string) {
	cls, _, _ := strings.Cut(s, ":")
	for _, v := range st.viol {
		if c, _, _ := strings.Cut(v, ":"); c == cls {
			return
		}
	}
	st.viol = append(st.viol, s)
}

// onQuery records a query read on connection ci and returns the messages to send back (stale first).
func (st *c05bState) onQuery(ci int, q []byte) [][]byte {
	wid, k, ok := c05ParseQuery(q)
	if !ok {
		return nil
	}
	st.mu.Lock()
	defer st.mu.Unlock()
	st.ids[ci] = append(st.ids[ci], wid)
	if int(wid) < st.q0 {
		st.violate(fmt.Sprintf("id-wrapped:conn%d:wid%d:exch%d", ci, wid, k))
	}
	if o, dup := st.idOwner[ci][wid]; dup && o != k {
		st.violate(fmt.Sprintf("id-reused:conn%d:wid%d:exch%d+%d", ci, wid, o, k))
	}
	st.idOwner[ci][wid] = k
	st.seen[k] = append(st.seen[k], [2]int{ci, int(wid)})
	var out [][]byte
	if st.stale {
		for id := uint16(0); id < 2 && int(id) < st.q0; id++ {
			m := st.nmark.Add(1)
			st.sent[m] = c05bSent{conn: ci, wid: id, exch: -1, stale: true}
			out = append(out, c05AbsReply(id, m))
		}
	}
	m := st.nmark.Add(1)
	st.sent[m] = c05bSent{conn: ci, wid: wid, exch: k}
	out = append(out, hx.BuildReply(q, false, 0, c05Mark(m), 60))
	return out
}

func (st *c05bState) dial(ctx context.Context) (net.Conn, error) {
	if st.dialDelay > 0 {
		// hold the dial until the whole burst has queued on it: connpool then releases all of them at once
		time.Sleep(st.dialDelay)
	}
	st.mu.Lock()
	ci := st.nconn
	st.nconn++
	st.ids = append(st.ids, nil)
	st.idOwner = append(st.idOwner, map[uint16]int{})
	st.mu.Unlock()
	if st.netw == "tcp" {
		c, s := net.Pipe()
		st.mu.Lock()
		st.closers = append(st.closers, func() { s.Close() })
		st.mu.Unlock()
		go func() {
			br := bufio.NewReader(s)
			for {
				q, err := c05ReadFrame(br)
				if err != nil {
					return
				}
				for _, r := range st.onQuery(ci, q) {
					s.SetWriteDeadline(time.Now().Add(3 * time.Second))
					if _, err := s.Write(c05Frame(r)); err != nil {
						return
					}
				}
			}
		}()
		return c, nil
	}
	srv, cli, err := c05UDPPair()
	if err != nil {
		return nil, err
	}
	st.mu.Lock()
	st.closers = append(st.closers, func() { srv.Close() })
	st.mu.Unlock()
	go func() {
		buf := make([]byte, 4096)
		for {
			n, addr, err := srv.ReadFromUDP(buf)
			if err != nil {
				return
			}
			q := append([]byte(nil), buf[:n]...)
			for _, r := range st.onQuery(ci, q) {
				srv.WriteToUDP(r, addr)
			}
		}
	}()
	return cli, nil
}

type c05bRes struct {
	cid  uint16
	hid  uint16
	mark uint32
	has  bool
	msg  bool
}

func c05RunBurst(parts []string) string {
	f := hx.Fields(parts)
	k := hx.MustAtoi(f["k"])
	n := hx.MustAtoi(f["n"])
	rounds := hx.MustAtoi(f["rounds"])
	warm := f["warm"] == "1"
	seed := int64(hx.MustAtoi(f["seed"]))
	st := &c05bState{netw: f["net"], q0: 65536 - k, stale: f["stale"] == "1",
		seen: map[int][][2]int{}, sent: map[uint32]c05bSent{}}
	st.nmark.Store(1000)
	if d, ok := f["dd"]; ok {
		st.dialDelay = time.Duration(hx.MustAtoi(d)) * time.Microsecond
	}
	t := transport.VerifNewPipelineTransportPreset(transport.PipelineOpts{
		DialContext:        st.dial,
		IsTCP:              st.netw == "tcp",
		IdleTimeout:        60 * time.Second,
		DialTimeout:        2 * time.Second,
		MaxConcurrentQuery: 4096,
	}, st.q0)
	defer func() {
		t.Close()
		st.mu.Lock()
		cl := st.closers
		st.mu.Unlock()
		for _, c := range cl {
			c()
		}
	}()

	rng := rand.New(rand.NewSource(seed))
	var results []c05bRes
	var rmu sync.Mutex
	next := 0
	one := func(j int, cid uint16) {
		ctx, cancel := context.WithTimeout(context.Background(), 2*time.Second)
		defer cancel()
		resp, err := t.ExchangeContext(ctx, hx.BuildQuery(cid, c05Name(j), 1, 1, true))
		r := c05bRes{cid: cid}
		if err == nil && resp != nil {
			r.msg = true
			r.hid, r.mark, r.has = c05MsgInfo(resp)
		}
		rmu.Lock()
		results[j] = r
		rmu.Unlock()
	}
	total := rounds * n
	if warm {
		total++
	}
	results = make([]c05bRes, total)
	if warm {
		one(next, uint16(rng.Intn(65536)))
		next++
	}
	for r := 0; r < rounds; r++ {
		start := make(chan struct{})
		var wg sync.WaitGroup
		for i := 0; i < n; i++ {
			j := next
			next++
			cid := uint16(rng.Intn(65536))
			if rng.Intn(3) == 0 {
				cid = uint16(rng.Intn(2)) // the caller's own id is one of the stale ids
			}
			wg.Add(1)
			go func() {
				defer wg.Done()
				<-start
				one(j, cid)
			}()
		}
		close(start)
		wg.Wait()
	}

	st.mu.Lock()
	defer st.mu.Unlock()
	ok, errs, maxids := 0, 0, 0
	for _, ids := range st.ids {
		if len(ids) > maxids {
			maxids = len(ids)
		}
		for _, w := range ids {
			if int(w) > 65535 {
				st.violate("id-above-65535")
			}
		}
	}
	used := map[uint32]int{}
	for j, r := range results {
		if !r.msg {
			errs++
			continue
		}
		ok++
		if r.hid != r.cid {
			st.violate(fmt.Sprintf("id-not-restored:exch%d", j))
			continue
		}
		s, known := st.sent[r.mark]
		if !r.has || !known {
			st.violate(fmt.Sprintf("unknown-mark:exch%d", j))
			continue
		}
		if s.stale {
			st.violate(fmt.Sprintf("stale-reply-accepted:exch%d:conn%d:wid%d:mark%d", j, s.conn, s.wid, r.mark))
			continue
		}
		mine := false
		for _, p := range st.seen[j] {
			if p[0] == s.conn && p[1] == int(s.wid) {
				mine = true
			}
		}
		if !mine || s.exch != j {
			st.violate(fmt.Sprintf("foreign-reply:exch%d:mark%d:sent-for-exch%d:conn%d:wid%d", j, r.mark, s.exch, s.conn, s.wid))
			continue
		}
		if o, dup := used[r.mark]; dup {
			st.violate(fmt.Sprintf("double-delivery:mark%d:exch%d+%d", r.mark, o, j))
		}
		used[r.mark] = j
	}
	v := "none"
	if len(st.viol) > 0 {
		sort.Strings(st.viol)
		v = strings.Join(st.viol, "|")
	}
	return fmt.Sprintf("ok=%d err=%d conns=%d maxids=%d viol=%s", ok, errs, st.nconn, maxids, v)
}
