package main

// Kind "owndecode" (C20): the decoder's own release discipline. Every message — valid, lying about an RDLENGTH, cut
// short, mutated — is decoded from a pool buffer with BOTH hooks on (pool buffers: poison/quarantine; dnsmsg objects:
// ownership tracking), dumped after the input buffer was overwritten and released, and released. The decoder's error
// paths release what they had built so far: a name / RDATA buffer or a Question / resource struct released twice, or
// written after its release, is a hook event.
//
//   case:   <id> msg=<hex>
//   result: ev=<hook events|-> <OK dump | ERR>        (the part after ev=.. is compared with the model's decode)

import (
	"time"

	"github.com/IrineSistiana/mosproxy/internal/dnsmsg"
	"github.com/IrineSistiana/mosproxy/internal/pool"
	"github.com/IrineSistiana/mosproxy/verifharness/hx"
)

func init() { register("owndecode", 1, runOwnDecode) }

func runOwnDecode(id string, parts []string) string {
	f := hx.Fields(parts)
	b, err := hx.UnHex(f["msg"])
	if err != nil {
		return "HARNESS-ERROR bad hex"
	}
	return guard(id, 10*time.Second, func() string {
		pool.VerifPoison(true)
		dnsmsg.VerifObjTrack(true)
		buf := pool.GetBuf(len(b))
		copy(buf, b)
		m, err := dnsmsg.UnpackMsg(buf)
		for i := range buf {
			buf[i] = 0xAA
		}
		pool.ReleaseBuf(buf)
		s := "ERR"
		if err == nil {
			s = "OK " + dumpMsg(m)
			dnsmsg.ReleaseMsg(m)
		}
		ev, _ := c20Events()
		return "ev=" + ev + " " + s
	})
}
