package main

// Kind "pipeline_retry" (C05, oracle only): the pooled connection dies while an exchange waits, the transport
// retries on a fresh connection.
//
//   case:   <id> net=<tcp|udp> q0=<first wire id of every connection> warm=<w> cid=<caller id of the victim> seed=<n>
//   result: ok=<messages with the caller's id> bad=<messages with another id> err=<errors> conns=<dials> retried=<0|1>
//           viol=<none|...>
//
// w exchanges are answered on connection #0 (so the victim's wire id there is q0+w); the next exchange reuses
// connection #0, the server READS its query and the connection dies without an answer (tcp: the peer closes; udp: the
// socket is closed under the read loop).  PipelineTransport.ExchangeContext retries (the connection was a reused one);
// the retry is dialled afresh, gets another wire id there, and is answered.  Property: the message it returns carries
// the CALLER's id (not the wire id of the dead connection, not the one of the new connection) and answers its question.

import (
	"bufio"
	"context"
	"fmt"
	"math/rand"
	"net"
	"strings"
	"sync"
	"time"

	"github.com/IrineSistiana/mosproxy/verifharness/hx"
)

func init() {
	register("pipeline_retry", 4, func(id string, p []string) string {
		return c05Guard(60*time.Second, func() string { return c05RunRetry(p) })
	})
}

func c05RunRetry(parts []string) string {
	f := hx.Fields(parts)
	netw := f["net"]
	if netw != "tcp" && netw != "udp" {
		return "HARNESS-ERROR bad net"
	}
	q0 := hx.MustAtoi(f["q0"])
	warm := hx.MustAtoi(f["warm"])
	victimCid := uint16(hx.MustAtoi(f["cid"]))
	rng := rand.New(rand.NewSource(int64(hx.MustAtoi(f["seed"]))))

	var mu sync.Mutex
	nconn := 0
	victimSeen := 0 // connections on which the victim's query was read
	var closers []func()
	sent := map[uint32]int{} // mark -> exchange it answers
	nmark := uint32(500)

	// handle returns the reply, or nil when the connection has to die instead
	handle := func(ci int, q []byte) []byte {
		_, k, ok := c05ParseQuery(q)
		if !ok {
			return nil
		}
		mu.Lock()
		defer mu.Unlock()
		if k == warm {
			victimSeen++
			if ci == 0 {
				return nil
			}
		}
		nmark++
		sent[nmark] = k
		return hx.BuildReply(q, false, 0, c05Mark(nmark), 60)
	}
	dial := func(ctx context.Context) (net.Conn, error) {
		mu.Lock()
		ci := nconn
		nconn++
		mu.Unlock()
		if netw == "tcp" {
			c, s := net.Pipe()
			mu.Lock()
			closers = append(closers, func() { s.Close() })
			mu.Unlock()
			go func() {
				br := bufio.NewReader(s)
				for {
					q, err := c05ReadFrame(br)
					if err != nil {
						return
					}
					r := handle(ci, q)
					if r == nil {
						s.Close() // the server read the query and closes
						return
					}
					s.SetWriteDeadline(time.Now().Add(3 * time.Second))
					if _, err := s.Write(c05Frame(r)); err != nil {
						return
					}
				}
			}()
			return c, nil
		}
		srv, cli, err := c05UDPPair()
		if err != nil {
			return nil, err
		}
		mu.Lock()
		closers = append(closers, func() { srv.Close() })
		mu.Unlock()
		go func() {
			buf := make([]byte, 4096)
			for {
				n, addr, err := srv.ReadFromUDP(buf)
				if err != nil {
					return
				}
				r := handle(ci, append([]byte(nil), buf[:n]...))
				if r == nil {
					cli.Close() // the socket fails under the read loop
					return
				}
				srv.WriteToUDP(r, addr)
			}
		}()
		return cli, nil
	}
	t := c05NewTransport(netw, q0, 4096, dial)
	defer func() {
		t.Close()
		mu.Lock()
		cl := closers
		mu.Unlock()
		for _, c := range cl {
			c()
		}
	}()

	var viol []string
	ok, bad, errs := 0, 0, 0
	total := warm + 2 // warm, the victim, one more afterwards
	for k := 0; k < total; k++ {
		cid := uint16(256 + rng.Intn(65536-256))
		if k == warm {
			cid = victimCid
		}
		ctx, cancel := context.WithTimeout(context.Background(), 3*time.Second)
		resp, err := t.ExchangeContext(ctx, hx.BuildQuery(cid, c05Name(k), 1, 1, true))
		cancel()
		if err != nil || resp == nil {
			errs++
			viol = append(viol, fmt.Sprintf("no-reply:exch%d", k))
			continue
		}
		hid, mark, has := c05MsgInfo(resp)
		if hid != cid {
			bad++
			viol = append(viol, fmt.Sprintf("id-not-restored:exch%d:got%d:want%d", k, hid, cid))
		} else {
			ok++
		}
		mu.Lock()
		kk, known := sent[mark]
		mu.Unlock()
		if !has || !known || kk != k {
			viol = append(viol, fmt.Sprintf("foreign-reply:exch%d", k))
		}
	}
	mu.Lock()
	defer mu.Unlock()
	retried := 0
	if victimSeen >= 2 {
		retried = 1
	}
	v := "none"
	if len(viol) > 0 {
		v = strings.Join(viol, "|")
	}
	return fmt.Sprintf("ok=%d bad=%d err=%d conns=%d retried=%d viol=%s", ok, bad, errs, nconn, retried, v)
}
