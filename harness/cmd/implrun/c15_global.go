package main

// C15, round 4.
//
// Kind "limglobal": the COMPOSED limiter (global bucket + per-subnet buckets) exactly as the router builds and calls it:
// initResourceLimiter through VerifC15Init, then resourceLimiter.AllowN (which reads the real clock) through the hook's
// AllowN.  A case is a list of phases; a phase sleeps and then fires its calls back to back (a few microseconds).
//   case:   <id> global=<n> rate=<n> burst=<n> v4=<n> v6=<n> ph=<sleep_ms>/<addr>:<cost>+<addr>:<cost>...,<sleep_ms>/...
//   result: t=<a0>:<b0>,<a1>:<b1>,... res=<r..>,<r..>,...
//           a_p / b_p = nanoseconds since the limiter was built, measured right before the first / right after the last
//           call of phase p;  r = o (admitted) | g (errGlobalResLimit) | c (errClientResLimit), one letter per call.
// The model replays the case with the measured instants (kind "limglobalspec", through respec) and compares decision
// by decision; decisions closer to their threshold than the measurement uncertainty are not compared.

import (
	"fmt"
	"net/netip"
	"strconv"
	"strings"
	"time"

	"github.com/IrineSistiana/mosproxy/app/router"
	"github.com/IrineSistiana/mosproxy/verifharness/hx"
)

func init() { register("limglobal", 16, runLimGlobal) }

type callArg struct {
	addr netip.Addr
	n    int
}

func runLimGlobal(id string, parts []string) string {
	f := hx.Fields(parts)
	type call struct {
		addr string
		cost int
	}
	type phase struct {
		sleep time.Duration
		calls []call
	}
	var phases []phase
	for _, ps := range strings.Split(f["ph"], ",") {
		if ps == "" {
			continue
		}
		ms, cs, ok := strings.Cut(ps, "/")
		if !ok {
			return "HARNESS-ERROR bad phase " + ps
		}
		p := phase{sleep: time.Duration(hx.MustAtoi(ms)) * time.Millisecond}
		for _, c := range strings.Split(cs, "+") {
			if c == "" {
				continue
			}
			a, n, ok := strings.Cut(c, ":")
			if !ok {
				return "HARNESS-ERROR bad call " + c
			}
			p.calls = append(p.calls, call{a, hx.MustAtoi(n)})
		}
		phases = append(phases, p)
	}
	return guard(id, 60*time.Second, func() string {
		rl := router.VerifC15Init(c15RouterCfg(f))
		defer rl.Close()
		t0 := time.Now()
		var ts, rs []string
		for _, p := range phases {
			// parse before the clock is read: the phase itself is only the calls
			as := make([]callArg, len(p.calls))
			for i, c := range p.calls {
				a, err := c15ParseAddr(c.addr)
				if err != nil {
					return "HARNESS-ERROR " + err.Error()
				}
				as[i] = callArg{a, c.cost}
			}
			time.Sleep(p.sleep)
			res := make([]byte, len(as))
			a0 := time.Since(t0)
			for i := range as {
				switch rl.AllowN(as[i].addr, as[i].n) {
				case "ok":
					res[i] = 'o'
				case "global":
					res[i] = 'g'
				case "client":
					res[i] = 'c'
				default:
					res[i] = 'x'
				}
			}
			b0 := time.Since(t0)
			ts = append(ts, strconv.FormatInt(a0.Nanoseconds(), 10)+":"+strconv.FormatInt(b0.Nanoseconds(), 10))
			r := string(res)
			if r == "" {
				r = "-"
			}
			rs = append(rs, r)
		}
		return fmt.Sprintf("t=%s res=%s", strings.Join(ts, ","), strings.Join(rs, ","))
	})
}
