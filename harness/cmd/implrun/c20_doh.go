package main

// Kind "ownership", scenarios sc=doh (HTTP/1.1, plain) and sc=doh2 (HTTP/2 over TLS): the real DoHTransport against a
// local fake server, with a GATED dialer: the TCP dial completes only when the harness opens the gate, which is how a
// slow dial / TLS handshake looks to the transport.  net/http reads req.URL.RawQuery — an unsafe string over the
// transport's rawQuery buffer — when it writes the request, i.e. after the connection is ready, possibly long after
// ExchangeContext returned (the round-trip goroutine runs under its own 6 s context).
//
//   sched=reply-first | cancel-during-dial | deadline-during-dial | cancel-during-dial-overlap | cancel-during-read
//   wire tokens (one per request the server received): own (decodes to exactly the caller's query, id 0),
//   own2 (the second request of the overlap schedule), poison, foreign, other; none = no request at all.

import (
	"bufio"
	"bytes"
	"context"
	"crypto/tls"
	"encoding/base64"
	"errors"
	"fmt"
	"math/rand"
	"net"
	"net/http"
	"net/http/httptest"
	"sort"
	"strings"
	"sync"
	"time"

	"github.com/IrineSistiana/mosproxy/internal/dnsmsg"
	"github.com/IrineSistiana/mosproxy/internal/pool"
	"github.com/IrineSistiana/mosproxy/internal/upstream/transport"
	"github.com/IrineSistiana/mosproxy/verifharness/hx"
)

type dohServer struct {
	mu       sync.Mutex
	targets  []string // raw request targets / raw query strings, as received
	got      chan struct{}
	replyOK  *gate // replies are sent only when open
	mark     [4]byte
	addr     string // host:port
	closeFns []func()
}

func (s *dohServer) record(rawQuery string) {
	s.mu.Lock()
	s.targets = append(s.targets, rawQuery)
	s.mu.Unlock()
	s.got <- struct{}{}
}

// the DNS message carried by a raw query string ("dns=<base64url>"), or nil
func dohDecode(rawQuery string) []byte {
	for _, kv := range strings.Split(rawQuery, "&") {
		if strings.HasPrefix(kv, "dns=") {
			b, err := base64.RawURLEncoding.DecodeString(kv[4:])
			if err == nil {
				return b
			}
		}
	}
	return nil
}

func (s *dohServer) replyBody(rawQuery string) []byte {
	q := dohDecode(rawQuery)
	if q == nil || hx.QuestionEnd(q) < 0 {
		return nil
	}
	return hx.BuildReply(q, false, 0, s.mark, 60)
}

// HTTP/1.1 on a raw TCP listener: the request target is recorded byte for byte, whatever it contains
func (s *dohServer) serveH1(l net.Listener) {
	for {
		c, err := l.Accept()
		if err != nil {
			return
		}
		go func() {
			defer c.Close()
			br := bufio.NewReader(c)
			for {
				line, err := br.ReadString('\n')
				if err != nil {
					return
				}
				for { // headers
					h, err := br.ReadString('\n')
					if err != nil {
						return
					}
					if h == "\r\n" || h == "\n" {
						break
					}
				}
				parts := strings.SplitN(strings.TrimRight(line, "\r\n"), " ", 3)
				target := ""
				if len(parts) >= 2 {
					target = parts[1]
				}
				rq := ""
				if i := strings.IndexByte(target, '?'); i >= 0 {
					rq = target[i+1:]
				}
				s.record(rq)
				select {
				case <-s.replyOK.ch:
				case <-time.After(5 * time.Second):
					return
				}
				body := s.replyBody(rq)
				if body == nil {
					fmt.Fprintf(c, "HTTP/1.1 400 Bad Request\r\nContent-Length: 0\r\n\r\n")
					continue
				}
				fmt.Fprintf(c, "HTTP/1.1 200 OK\r\nContent-Type: application/dns-message\r\nContent-Length: %d\r\n\r\n", len(body))
				c.Write(body)
			}
		}()
	}
}

func (s *dohServer) ServeHTTP(w http.ResponseWriter, r *http.Request) {
	s.record(r.URL.RawQuery)
	select {
	case <-s.replyOK.ch:
	case <-time.After(5 * time.Second):
		return
	}
	body := s.replyBody(r.URL.RawQuery)
	if body == nil {
		w.WriteHeader(400)
		return
	}
	w.Header().Set("Content-Type", "application/dns-message")
	w.Write(body)
}

type dohDialer struct {
	gate    *gate
	entered chan struct{}
	addr    string
}

func (d *dohDialer) DialContext(ctx context.Context, network, _ string) (net.Conn, error) {
	select {
	case d.entered <- struct{}{}:
	default:
	}
	select {
	case <-d.gate.ch:
	case <-ctx.Done():
		return nil, ctx.Err()
	}
	var nd net.Dialer
	return nd.DialContext(ctx, "tcp", d.addr)
}

func dohClassify(rawQuery string, own, own2 []byte) string {
	m := dohDecode(rawQuery)
	if m != nil && bytes.Equal(m, own) {
		return "own"
	}
	if m != nil && own2 != nil && bytes.Equal(m, own2) {
		return "own2"
	}
	b := []byte(rawQuery)
	if bytes.Contains(b, []byte{c20Poison, c20Poison, c20Poison}) {
		return "poison"
	}
	if len(b) > 0 && bytes.Count(b, []byte{c20Foreign}) == len(b) {
		return "foreign"
	}
	return "other"
}

func c20DoH(sc, sched, mode string, rng *rand.Rand, o *ownOutcome) error {
	srv := &dohServer{got: make(chan struct{}, 16), replyOK: newGate(sched != "cancel-during-read"),
		mark: [4]byte{7, 7, 7, byte(rng.Intn(250))}}
	var rt *http.Transport
	dialer := &dohDialer{gate: newGate(sched == "reply-first" || sched == "cancel-during-read"), entered: make(chan struct{}, 4)}
	scheme := "http"
	if sc == "doh2" {
		ts := httptest.NewUnstartedServer(srv)
		ts.EnableHTTP2 = true
		ts.StartTLS()
		defer ts.Close()
		srv.addr = ts.Listener.Addr().String()
		scheme = "https"
		rt = &http.Transport{DialContext: dialer.DialContext, ForceAttemptHTTP2: true,
			TLSClientConfig: &tls.Config{InsecureSkipVerify: true}}
	} else {
		l, err := net.Listen("tcp", "127.0.0.1:0")
		if err != nil {
			return err
		}
		defer l.Close()
		srv.addr = l.Addr().String()
		go srv.serveH1(l)
		rt = &http.Transport{DialContext: dialer.DialContext}
	}
	dialer.addr = srv.addr
	defer rt.CloseIdleConnections()
	tr, err := transport.NewDoHTransport(transport.DoHTransportOpts{
		EndPointUrl: fmt.Sprintf("%s://%s/dns-query", scheme, srv.addr), RoundTripper: rt})
	if err != nil {
		return err
	}
	defer tr.Close()

	qid := uint16(1 + rng.Intn(65535))
	q, name := c20Query(rng, qid)
	own := append([]byte(nil), q...)
	own[0], own[1] = 0, 0 // RFC 8484: id 0 on the wire
	rawLen := 4 + base64.RawURLEncoding.EncodedLen(len(q))

	exchange := func(ctx context.Context, q []byte) chan exRes {
		ch := make(chan exRes, 1)
		go func() {
			m, err := tr.ExchangeContext(ctx, q)
			ch <- exRes{m, err}
		}()
		return ch
	}
	finish := func(ch chan exRes, name []byte, id uint16) error {
		select {
		case r := <-ch:
			o.ret(r.err)
			if r.err == nil {
				if !c20ReplyOK(r.m, name, srv.mark, id) {
					o.bad = true
				}
				dnsmsg.ReleaseMsg(r.m)
			}
		case <-time.After(c20Wait):
			return errors.New("exchange did not return")
		}
		return nil
	}
	waitGot := func(n int, d time.Duration) {
		dl := time.After(d)
		for i := 0; i < n; i++ {
			select {
			case <-srv.got:
			case <-dl:
				return
			}
		}
	}
	var own2 []byte
	classifyAll := func() {
		srv.mu.Lock()
		ts := append([]string(nil), srv.targets...)
		srv.mu.Unlock()
		var toks []string
		seen2 := 0
		for _, t := range ts {
			k := dohClassify(t, own, own2)
			if k == "own2" {
				seen2++
				if seen2 > 1 {
					k = "foreign" // the second request's query went out twice: once in the first request's place
				}
			}
			toks = append(toks, k)
		}
		sort.Strings(toks)
		if len(toks) == 0 {
			toks = []string{"none"}
		}
		o.wires = append(o.wires, toks...)
	}

	switch sched {
	case "reply-first":
		ch := exchange(context.Background(), q)
		if err := finish(ch, name, qid); err != nil {
			return err
		}
		classifyAll()

	case "cancel-during-dial", "deadline-during-dial", "cancel-during-dial-overlap":
		var ctx context.Context
		var cancel context.CancelFunc
		if sched == "deadline-during-dial" {
			ctx, cancel = context.WithTimeout(context.Background(), 40*time.Millisecond)
		} else {
			ctx, cancel = context.WithCancel(context.Background())
		}
		defer cancel()
		ch := exchange(ctx, q)
		if !waitCh(dialer.entered, c20Wait) {
			return errors.New("the transport never dialled")
		}
		if sched != "deadline-during-dial" {
			cancel()
		}
		if err := finish(ch, name, qid); err != nil { // the caller returns: its deferred releases have run
			return err
		}
		// "another request": same-size pool buffers are taken and dirtied (with one P and the hook off the pool hands
		// back exactly the array that was just released)
		var scr []pool.Buffer
		nreq := 1
		var ch2 chan exRes
		var name2 []byte
		var qid2 uint16
		if sched == "cancel-during-dial-overlap" {
			// a real second request of the same length through the same transport
			q2 := append([]byte(nil), q...)
			for i := 12; i < len(q2)-5; i++ {
				if q2[i] >= 'a' && q2[i] <= 'z' {
					q2[i] = 'z' - (q2[i] - 'a')
				}
			}
			qid2 = qid ^ 0x5555
			q2[0], q2[1] = byte(qid2>>8), byte(qid2)
			name2 = q2[12 : 12+len(name)]
			own2 = append([]byte(nil), q2...)
			own2[0], own2[1] = 0, 0
			ch2 = exchange(context.Background(), q2)
			time.Sleep(15 * time.Millisecond) // its rawQuery is built before the dial is waited for
			nreq = 2
		} else {
			scr = c20Scribble(rawLen)
		}
		dialer.gate.open()
		waitGot(nreq, 700*time.Millisecond)
		if ch2 != nil {
			if err := finish(ch2, name2, qid2); err != nil {
				return err
			}
		}
		time.Sleep(20 * time.Millisecond)
		classifyAll()
		for _, b := range scr {
			pool.ReleaseBuf(b)
		}

	case "cancel-during-read":
		// the request is written, the context ends while the reply is awaited, the reply comes late; a second
		// exchange then reuses the connection
		ctx, cancel := context.WithCancel(context.Background())
		defer cancel()
		ch := exchange(ctx, q)
		waitGot(1, c20Wait)
		cancel()
		if err := finish(ch, name, qid); err != nil {
			return err
		}
		scr := c20Scribble(rawLen)
		srv.replyOK.open()
		time.Sleep(20 * time.Millisecond)
		ch2 := exchange(context.Background(), q)
		if err := finish(ch2, name, qid); err != nil {
			return err
		}
		classifyAll()
		for _, b := range scr {
			pool.ReleaseBuf(b)
		}

	default:
		return errors.New("unknown schedule " + sched)
	}
	return nil
}
