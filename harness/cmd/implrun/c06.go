package main

// C06 — one-at-a-time upstream connections are reused only when clean.
//
// Kind "reuse": a quiescent history replayed against the REAL transport.ReuseConnTransport talking
// to a scripted TCP server on loopback; every query carries a unique mark (DNS id + qname), every
// reply carries the mark of the query it answers (A record + echoed id/question).
//   case:   <id> idle=<ms|0> resp=<ms|0> h=<ev,ev,...>
//           ev: S (start exchange, marks are 0,1,2,... in start order)  SC (start with a ctx that is
//               already cancelled)  C<e> (cancel)  R<e> (whole reply)  H<e> (first half of the frame)
//               T<e> (rest of the frame)  A<e> (server closes the conn on which it owes e a reply)
//               AI (server closes every conn on which it owes nothing)  IT (wait until the idle
//               timers of all idle conns fired)  DL (wait until the I/O deadline of every blocked
//               read expired)  CL (transport.Close)
//           idle/resp: IdleTimeout / response deadline in ms (0: 30 s / 5 s, i.e. never in a history)
//   result: x=<M<mark>|E|C|X>,... dials=<n> idle=<n> conns=<n> maxout=<n> dirty=<0|1>
//           M<mark>: returned message carries <mark> (suffix /BADID when the header id is not the
//           caller's); E error; C context.Canceled; X = E or C of an exchange started with SC.  dials = connections the server accepted;
//           idle/conns = sizes of idleConns / conns (hook); maxout = max queries owed at once on one
//           connection as seen by the server; dirty = a query arrived on a half-replied connection.
//
// Kind "reuse_stress": concurrent, non-quiescent runs (random ctx deadlines, delays, split and
// aborted replies, short idle time-outs racing reuse) checked against the oracle only. Each case
// runs in a child process so that a panic of the transport is a result (PANIC!), not a dead runner.
//   case:   <id> via=<transport|tcp|udpfb> n=<exchanges> conc=<n> idleus=<us|0> slowclose=<ms>
//           cancel=<pct> split=<pct> abort=<pct> delayus=<max> seed=<n>
//   result: badown=<n> maxout=<n> dirty=<0|1> ok=<n> err=<n>

import (
	"bufio"
	"context"
	"encoding/binary"
	"errors"
	"fmt"
	"io"
	"math/rand"
	"net"
	"os"
	"os/exec"
	"strings"
	"sync"
	"sync/atomic"
	"time"

	"github.com/IrineSistiana/mosproxy/internal/dnsmsg"
	"github.com/IrineSistiana/mosproxy/internal/upstream"
	"github.com/IrineSistiana/mosproxy/internal/upstream/transport"
	"github.com/IrineSistiana/mosproxy/verifharness/hx"
)

func init() {
	// one history at a time per process (bin/propdefs/c06.py shards the cases over several implrun
	// processes): the payload-buffer race D14 (C20) lets an abandoned worker write bytes recycled by
	// ANOTHER goroutine of the process; with a single history in flight nobody recycles them.
	register("reuse", 1, runReuse)
	register("reuse_stress", 4, runReuseStressParent)
	register("reuse_stress_child", 1, runReuseStress)
}

// ---------- wire helpers ----------

// c06Pad > 0: every query carries an OPT record with an EDNS0 padding option of that many octets, so that the
// framed query is longer than 255 (and, for the larger values, 511 / 1023) octets: both octets of the length
// prefix matter.  Set once per case (the reuse kinds run one case at a time per process).
var c06Pad int

func c06Query(mark int) []byte {
	name := []byte(fmt.Sprintf("\x09m%08d\x04test", mark))
	q := hx.BuildQuery(uint16(0x4000+mark), name, 1, 1, true)
	if c06Pad > 0 {
		q[11] = 1 // ARCOUNT
		q = append(q, 0, 0, 41, 0x10, 0, 0, 0, 0, 0)
		q = binary.BigEndian.AppendUint16(q, uint16(4+c06Pad))
		q = binary.BigEndian.AppendUint16(q, 12) // padding
		q = binary.BigEndian.AppendUint16(q, uint16(c06Pad))
		q = append(q, make([]byte, c06Pad)...)
	}
	return q
}

// mark carried by a query wire (-1 when it is not one of ours)
func c06QueryMark(q []byte) int {
	if len(q) < 12+10 || q[12] != 9 || q[13] != 'm' {
		return -1
	}
	m := 0
	for _, b := range q[14:22] {
		if b < '0' || b > '9' {
			return -1
		}
		m = m*10 + int(b-'0')
	}
	return m
}

func c06Reply(q []byte) []byte {
	m := c06QueryMark(q)
	r := hx.BuildReply(q, false, 0, [4]byte{10, byte(m >> 16), byte(m >> 8), byte(m)}, 60)
	out := binary.BigEndian.AppendUint16(nil, uint16(len(r)))
	return append(out, r...)
}

func c06Outcome(mark int, resp *dnsmsg.Msg, err error) string {
	if err != nil {
		if errors.Is(err, context.Canceled) || errors.Is(err, context.DeadlineExceeded) {
			return "C"
		}
		return "E"
	}
	if resp == nil || len(resp.Answers) != 1 {
		return "M?"
	}
	a, ok := resp.Answers[0].(*dnsmsg.A)
	if !ok || a.A[0] != 10 {
		return "M?"
	}
	got := int(a.A[1])<<16 | int(a.A[2])<<8 | int(a.A[3])
	s := fmt.Sprintf("M%d", got)
	if resp.Header.ID != uint16(0x4000+mark) {
		s += "/BADID"
	}
	return s
}

// ---------- scripted server ----------

type c06SConn struct {
	c       net.Conn
	owed    []int          // marks received, reply not started
	wires   map[int][]byte // mark -> query wire
	mid     int            // mark whose reply is half sent, -1
	midRest []byte
	aborted bool
	eof     bool // the client closed (or reset) the connection
}

func (sc *c06SConn) live() bool  { return !sc.aborted && !sc.eof }
func (sc *c06SConn) owing() bool { return len(sc.owed) > 0 || sc.mid >= 0 }

type c06Server struct {
	ln     net.Listener
	mu     sync.Mutex
	conns  []*c06SConn
	maxout int
	dirty  bool
	// attribute: maps the mark found on the wire to the exchange the harness should book it under
	attribute func(mark int) int
}

func newC06Server() (*c06Server, error) {
	ln, err := net.Listen("tcp", "127.0.0.1:0")
	if err != nil {
		return nil, err
	}
	s := &c06Server{ln: ln}
	go s.accept()
	return s, nil
}

func (s *c06Server) accept() {
	for {
		c, err := s.ln.Accept()
		if err != nil {
			return
		}
		sc := &c06SConn{c: c, mid: -1, wires: map[int][]byte{}}
		s.mu.Lock()
		s.conns = append(s.conns, sc)
		s.mu.Unlock()
		go s.serve(sc)
	}
}

func (s *c06Server) serve(sc *c06SConn) {
	br := bufio.NewReader(sc.c)
	for {
		var h [2]byte
		if _, err := io.ReadFull(br, h[:]); err != nil {
			break
		}
		q := make([]byte, binary.BigEndian.Uint16(h[:]))
		if _, err := io.ReadFull(br, q); err != nil {
			break
		}
		m := c06QueryMark(q)
		s.mu.Lock()
		if s.attribute != nil {
			m = s.attribute(m)
		}
		if sc.mid >= 0 {
			s.dirty = true
		}
		sc.owed = append(sc.owed, m)
		sc.wires[m] = q
		out := len(sc.owed)
		if sc.mid >= 0 {
			out++
		}
		if out > s.maxout {
			s.maxout = out
		}
		s.mu.Unlock()
	}
	s.mu.Lock()
	sc.eof = true
	s.mu.Unlock()
	sc.c.Close()
}

// find the live conn owing a reply to mark e (not yet started)
func (s *c06Server) findOwed(e int) *c06SConn {
	for _, sc := range s.conns {
		if sc.live() && sc.mid < 0 {
			for _, m := range sc.owed {
				if m == e {
					return sc
				}
			}
		}
	}
	return nil
}

func (sc *c06SConn) take(e int) []byte {
	for i, m := range sc.owed {
		if m == e {
			sc.owed = append(sc.owed[:i:i], sc.owed[i+1:]...)
			break
		}
	}
	return c06Reply(sc.wires[e])
}

func (s *c06Server) close() {
	s.ln.Close()
	s.mu.Lock()
	for _, sc := range s.conns {
		sc.c.Close()
	}
	s.mu.Unlock()
}

// ---------- kind reuse ----------

type c06Ex struct {
	mark   int
	cancel context.CancelFunc
	done   chan struct{}
	res    string
	sc     bool // started with a cancelled ctx
	booked bool // a query was booked under its mark
}

func (x *c06Ex) returned() bool {
	select {
	case <-x.done:
		return true
	default:
		return false
	}
}

type c06SlowConn struct {
	net.Conn
	d time.Duration
}

func (c *c06SlowConn) Close() error { time.Sleep(c.d); return c.Conn.Close() }

func runReuse(id string, parts []string) (res string) {
	defer func() {
		if r := recover(); r != nil {
			res = fmt.Sprintf("PANIC! %v", r)
		}
	}()
	f := hx.Fields(parts)
	evs := strings.Split(f["h"], ",")
	c06Pad = 0
	if f["pad"] != "" {
		c06Pad = hx.MustAtoi(f["pad"])
	}
	scale := 1
	for attempt := 0; ; attempt++ {
		r, slow := c06Replay(f, evs, scale)
		if !slow || attempt >= 2 || strings.HasPrefix(r, "HARNESS-ERROR") {
			return r
		}
		scale *= 3
	}
}

func c06Replay(f map[string]string, evs []string, scale int) (string, bool) {
	idleMs := hx.MustAtoi(f["idle"])
	respMs := hx.MustAtoi(f["resp"])
	idle := 30 * time.Second
	resp := 5 * time.Second
	budget := time.Second // longest tolerated duration of a non-waiting event
	if idleMs > 0 {
		idle = time.Duration(idleMs*scale) * time.Millisecond
		budget = idle / 3
	}
	if respMs > 0 {
		resp = time.Duration(respMs*scale) * time.Millisecond
		if resp/3 < budget {
			budget = resp / 3
		}
	}

	srv, err := newC06Server()
	if err != nil {
		return "HARNESS-ERROR " + err.Error(), false
	}
	defer srv.close()
	addr := srv.ln.Addr().String()
	var dialsStarted, dialsSettled atomic.Int32
	t := transport.NewReuseConnTransport(transport.ReuseConnOpts{
		DialContext: func(ctx context.Context) (net.Conn, error) {
			dialsStarted.Add(1)
			var d net.Dialer
			c, err := d.DialContext(ctx, "tcp", addr)
			// the transport registers the conn right after we return; count the dial as settled a
			// little later so that "settled" implies "registered"
			go func() { time.Sleep(2 * time.Millisecond); dialsSettled.Add(1) }()
			return c, err
		},
		IdleTimeout: idle,
	})
	t.VerifC06SetRespTimeout(resp)
	defer t.Close()

	var exs []*c06Ex
	closed := false
	// D14 guard: an exchange whose caller returned before its worker wrote may put foreign bytes
	// (a recycled payload buffer) on the wire; book such a frame under the one exchange of this
	// history that is still expected to write.
	srv.attribute = func(m int) int {
		parked := func(e int) bool {
			for _, sc := range srv.conns {
				if !sc.live() {
					continue
				}
				if sc.mid == e {
					return true
				}
				for _, o := range sc.owed {
					if o == e {
						return true
					}
				}
			}
			return false
		}
		// A caller that has not returned may write (first attempt or retry); so may the worker of an
		// exchange that was cancelled at start and has not written yet.  Anything else is a
		// recycled buffer (D14): book it under the latest cancelled-at-start exchange that has not
		// written yet (at quiescence an earlier one has either written already or never will).
		pick := m
		ok := m >= 0 && m < len(exs) && (!exs[m].returned() || (exs[m].sc && !exs[m].booked))
		if !ok {
			for i := len(exs) - 1; i >= 0; i-- {
				if exs[i].sc && !exs[i].booked && !parked(i) {
					pick = i
					break
				}
			}
		}
		if pick >= 0 && pick < len(exs) {
			exs[pick].booked = true
		}
		return pick
	}

	quiescent := func() bool {
		if dialsStarted.Load() != dialsSettled.Load() {
			return false
		}
		srv.mu.Lock()
		defer srv.mu.Unlock()
		if closed {
			for _, x := range exs {
				if !x.returned() {
					return false
				}
			}
			for _, sc := range srv.conns {
				if sc.live() {
					return false
				}
			}
			return true
		}
		liveOut := 0
		parked := map[int]bool{}
		for _, sc := range srv.conns {
			if sc.live() && sc.owing() {
				liveOut++
				for _, m := range sc.owed {
					parked[m] = true
				}
				if sc.mid >= 0 {
					parked[sc.mid] = true
				}
			}
		}
		for _, x := range exs {
			if !x.returned() && !parked[x.mark] {
				return false
			}
		}
		nIdle, nAll, _, _ := t.VerifC06Stats()
		return nAll-nIdle == liveOut
	}
	waitQ := func(limit time.Duration) bool {
		deadline := time.Now().Add(limit)
		okCount := 0
		for time.Now().Before(deadline) {
			if quiescent() {
				okCount++
				if okCount >= 3 {
					return true
				}
			} else {
				okCount = 0
			}
			time.Sleep(700 * time.Microsecond)
		}
		return false
	}
	waitEOF := func(pick func(sc *c06SConn) bool, limit time.Duration) bool {
		srv.mu.Lock()
		var set []*c06SConn
		for _, sc := range srv.conns {
			if sc.live() && pick(sc) {
				set = append(set, sc)
			}
		}
		srv.mu.Unlock()
		deadline := time.Now().Add(limit)
		for time.Now().Before(deadline) {
			all := true
			srv.mu.Lock()
			for _, sc := range set {
				if !sc.eof {
					all = false
				}
			}
			srv.mu.Unlock()
			if all {
				return true
			}
			time.Sleep(time.Millisecond)
		}
		return false
	}

	slow := false
	stuck := ""
	for i, ev := range evs {
		if ev == "" {
			continue
		}
		t0 := time.Now()
		waiting := false
		arg := -1
		if len(ev) > 1 && ev[1] >= '0' && ev[1] <= '9' {
			arg = hx.MustAtoi(ev[1:])
			ev = ev[:1]
		}
		switch ev {
		case "S", "SC":
			ctx, cancel := context.WithCancel(context.Background())
			x := &c06Ex{mark: len(exs), cancel: cancel, done: make(chan struct{}), sc: ev == "SC"}
			if x.sc {
				cancel()
			}
			srv.mu.Lock()
			exs = append(exs, x)
			srv.mu.Unlock()
			go func() {
				defer func() {
					if r := recover(); r != nil {
						x.res = "PANIC!"
					}
					close(x.done)
				}()
				r, err := t.ExchangeContext(ctx, c06Query(x.mark))
				x.res = c06Outcome(x.mark, r, err)
			}()
		case "C":
			if arg < len(exs) {
				exs[arg].cancel()
			}
		case "R", "H":
			srv.mu.Lock()
			if sc := srv.findOwed(arg); sc != nil {
				fr := sc.take(arg)
				if ev == "R" {
					sc.c.Write(fr)
				} else {
					cut := len(fr) / 2
					if arg%3 == 0 {
						cut = 1 // inside the length prefix
					}
					sc.mid = arg
					sc.midRest = fr[cut:]
					sc.c.Write(fr[:cut])
				}
			}
			srv.mu.Unlock()
		case "T":
			srv.mu.Lock()
			for _, sc := range srv.conns {
				if sc.live() && sc.mid == arg {
					sc.mid = -1
					sc.c.Write(sc.midRest)
					break
				}
			}
			srv.mu.Unlock()
		case "G":
			// the server answers exchange <arg> with a frame that is no DNS message: a length below the 12-octet header
			// (with or without that many octets behind it), or 20 octets whose section counts lie.  The exchange fails
			// and the connection - whose stream position nobody knows any more - must never be used again
			// (the model's abort: for the transport both are a failed read).
			srv.mu.Lock()
			for _, sc := range srv.conns {
				hit := false
				for _, m := range sc.owed {
					hit = hit || m == arg
				}
				if sc.live() && hit && sc.mid < 0 {
					sc.aborted = true
					switch arg % 3 {
					case 0:
						sc.c.Write([]byte{0, 2, 0, 0})
					case 1:
						sc.c.Write(append([]byte{0, 20, byte(0x40 + arg>>8), byte(arg), 0x81, 0x80, 0xff, 0xff, 0xff, 0xff}, make([]byte, 12)...))
					default:
						sc.c.Write([]byte{0, 11, byte(0x40 + arg>>8), byte(arg), 0x81, 0x80, 0, 1, 0, 0, 0, 0, 0})
					}
					break
				}
			}
			srv.mu.Unlock()
		case "A", "AI":
			if ev == "A" {
				srv.mu.Lock()
				for _, sc := range srv.conns {
					hit := sc.mid == arg
					for _, m := range sc.owed {
						hit = hit || m == arg
					}
					if sc.live() && hit {
						sc.aborted = true
						sc.c.Close()
						break
					}
				}
				srv.mu.Unlock()
			} else { // AI
				srv.mu.Lock()
				for _, sc := range srv.conns {
					if sc.live() && !sc.owing() {
						sc.aborted = true
						sc.c.Close()
					}
				}
				srv.mu.Unlock()
			}
		case "IT":
			waiting = true
			// every idle connection's timer fires: wait until the idle set holds only closed
			// connections, and until the server has seen the client close the ones it still had open
			dl := time.Now().Add(idle + 4*time.Second)
			for t.VerifC06IdleOpen() > 0 && time.Now().Before(dl) {
				time.Sleep(time.Millisecond)
			}
			if t.VerifC06IdleOpen() > 0 || !waitEOF(func(sc *c06SConn) bool { return !sc.owing() }, 4*time.Second) {
				stuck = fmt.Sprintf("STUCK ev=%d(IT)", i)
			}
		case "DL":
			waiting = true
			if !waitEOF(func(sc *c06SConn) bool { return sc.owing() }, resp+4*time.Second) {
				stuck = fmt.Sprintf("STUCK ev=%d(DL)", i)
			}
		case "CL":
			t.Close()
			closed = true
		default:
			return "HARNESS-ERROR bad event " + ev, false
		}
		// not quiescent in time: remember the first such event but play the rest of the history
		// (with short waits), so that the oracle sees what the callers got in the end
		limit := 4 * time.Second
		if stuck != "" {
			limit = 250 * time.Millisecond
		}
		if !waitQ(limit) && stuck == "" {
			stuck = fmt.Sprintf("STUCK ev=%d(%s)", i, ev)
		}
		if !waiting && time.Since(t0) > budget {
			slow = true
		}
		if os.Getenv("C06_DEBUG") != "" {
			nI, nA, nS, nC := t.VerifC06Stats()
			srv.mu.Lock()
			fmt.Fprintf(os.Stderr, "ev %d %s%d: %v idle=%d all=%d serving=%d closed=%d accepted=%d dials=%d/%d\n", i, ev, arg,
				time.Since(t0), nI, nA, nS, nC, len(srv.conns), dialsStarted.Load(), dialsSettled.Load())
			srv.mu.Unlock()
		}
	}

	var xs []string
	for _, x := range exs {
		if x.returned() {
			r := x.res
			// an exchange started with a dead ctx on a connection that fails at once may see the
			// worker's error before its select looks at ctx.Done (both arms ready: Go picks at random)
			if x.sc && (r == "C" || r == "E") {
				r = "X"
			}
			xs = append(xs, r)
		} else {
			xs = append(xs, "P")
		}
	}
	nIdle, nAll, _, _ := t.VerifC06Stats()
	srv.mu.Lock()
	out := fmt.Sprintf("x=%s dials=%d idle=%d conns=%d maxout=%d dirty=%d", strings.Join(xs, ","),
		len(srv.conns), nIdle, nAll, srv.maxout, b2i(srv.dirty))
	srv.mu.Unlock()
	if stuck != "" {
		return stuck + " " + out, true
	}
	return out, slow
}

// ---------- kind reuse_stress ----------

func runReuseStressParent(id string, parts []string) string {
	cmd := exec.Command(os.Args[0], "reuse_stress_child")
	cmd.Stdin = strings.NewReader(id + " " + strings.Join(parts, " ") + "\n")
	var so, se strings.Builder
	cmd.Stdout = &so
	cmd.Stderr = &se
	done := make(chan error, 1)
	if err := cmd.Start(); err != nil {
		return "HARNESS-ERROR " + err.Error()
	}
	go func() { done <- cmd.Wait() }()
	select {
	case <-done:
	case <-time.After(120 * time.Second):
		cmd.Process.Kill()
		return "HANG"
	}
	for _, l := range strings.Split(so.String(), "\n") {
		if strings.HasPrefix(l, "R "+id+" ") {
			return strings.TrimPrefix(l, "R "+id+" ")
		}
	}
	msg := se.String()
	if i := strings.Index(msg, "panic: "); i >= 0 {
		line := msg[i:]
		if j := strings.IndexByte(line, '\n'); j >= 0 {
			line = line[:j]
		}
		return "PANIC! " + strings.ReplaceAll(line, " ", "_")
	}
	return "CRASH"
}

type c06StressConn struct {
	owed  int
	mid   bool
	wmu   sync.Mutex
	c     net.Conn
	alive bool
}

func runReuseStress(id string, parts []string) string {
	f := hx.Fields(parts)
	n := hx.MustAtoi(f["n"])
	conc := hx.MustAtoi(f["conc"])
	idleUs := hx.MustAtoi(f["idleus"])
	slowClose := hx.MustAtoi(f["slowclose"])
	cancelPct := hx.MustAtoi(f["cancel"])
	splitPct := hx.MustAtoi(f["split"])
	abortPct := hx.MustAtoi(f["abort"])
	delayUs := hx.MustAtoi(f["delayus"])
	seed := int64(hx.MustAtoi(f["seed"]))
	via := f["via"]
	c06Pad = 0
	if f["pad"] != "" {
		c06Pad = hx.MustAtoi(f["pad"])
	}

	ln, err := net.Listen("tcp", "127.0.0.1:0")
	if err != nil {
		return "HARNESS-ERROR " + err.Error()
	}
	defer ln.Close()
	port := ln.Addr().(*net.TCPAddr).Port
	var mu sync.Mutex
	maxout := 0
	dirty := false
	var srvRng = rand.New(rand.NewSource(seed))
	rnd := func(k int) int {
		mu.Lock()
		defer mu.Unlock()
		if k <= 0 {
			return 0
		}
		return srvRng.Intn(k)
	}
	go func() {
		for {
			c, err := ln.Accept()
			if err != nil {
				return
			}
			go func() {
				defer c.Close()
				sc := &c06StressConn{c: c}
				br := bufio.NewReader(c)
				for {
					var h [2]byte
					if _, err := io.ReadFull(br, h[:]); err != nil {
						return
					}
					q := make([]byte, binary.BigEndian.Uint16(h[:]))
					if _, err := io.ReadFull(br, q); err != nil {
						return
					}
					mu.Lock()
					if sc.mid || sc.owed > 0 {
						dirty = true
					}
					sc.owed++
					if sc.owed > maxout {
						maxout = sc.owed
					}
					mu.Unlock()
					// reply asynchronously so that a second query on the same conn would be seen
					go func() {
						if d := rnd(delayUs + 1); d > 0 {
							time.Sleep(time.Duration(d) * time.Microsecond)
						}
						fr := c06Reply(q)
						sc.wmu.Lock()
						defer sc.wmu.Unlock()
						switch r := rnd(100); {
						case r < abortPct:
							if rnd(2) == 0 {
								c.Write(fr[:len(fr)/2])
							}
							c.Close()
						case r < abortPct+splitPct:
							mu.Lock()
							sc.mid = true
							mu.Unlock()
							cut := 1 + rnd(len(fr)-1)
							c.Write(fr[:cut])
							time.Sleep(time.Duration(rnd(delayUs+1)) * time.Microsecond)
							// the query stops being owed just before the last byte leaves: a correct
							// client cannot have the complete reply earlier
							mu.Lock()
							sc.mid = false
							sc.owed--
							mu.Unlock()
							c.Write(fr[cut:])
						default:
							mu.Lock()
							sc.owed--
							mu.Unlock()
							c.Write(fr)
						}
					}()
				}
			}()
		}
	}()

	var exchange func(ctx context.Context, q []byte) (*dnsmsg.Msg, error)
	idle := time.Duration(idleUs) * time.Microsecond
	switch via {
	case "transport":
		dialUs := 0
		if f["dialus"] != "" {
			dialUs = hx.MustAtoi(f["dialus"])
		}
		t := transport.NewReuseConnTransport(transport.ReuseConnOpts{
			DialContext: func(ctx context.Context) (net.Conn, error) {
				var d net.Dialer
				c, err := d.DialContext(ctx, "tcp", ln.Addr().String())
				if dialUs > 0 {
					// a dial that takes as long as the callers' patience: cancellations land around the moment the
					// new connection is handed over
					time.Sleep(time.Duration(rnd(dialUs)) * time.Microsecond)
				}
				if err == nil && slowClose > 0 {
					return &c06SlowConn{c, time.Duration(slowClose) * time.Millisecond}, nil
				}
				return c, err
			},
			IdleTimeout: idle,
		})
		t.VerifC06SetRespTimeout(300 * time.Millisecond)
		defer t.Close()
		exchange = t.ExchangeContext
	case "tcp":
		u, err := upstream.NewUpstream(fmt.Sprintf("tcp://127.0.0.1:%d", port), upstream.Opt{IdleTimeout: idle})
		if err != nil {
			return "HARNESS-ERROR " + err.Error()
		}
		defer u.Close()
		exchange = u.ExchangeContext
	case "udpfb":
		// a UDP responder on the same port that answers everything with TC: every exchange takes the TCP leg
		uc, err := net.ListenUDP("udp", &net.UDPAddr{IP: net.IPv4(127, 0, 0, 1), Port: port})
		if err != nil {
			return "HARNESS-ERROR " + err.Error()
		}
		defer uc.Close()
		go func() {
			buf := make([]byte, 4096)
			for {
				k, a, err := uc.ReadFromUDP(buf)
				if err != nil {
					return
				}
				q := append([]byte(nil), buf[:k]...)
				uc.WriteToUDP(hx.BuildReply(q, true, 0, [4]byte{9, 9, 9, 9}, 60), a)
			}
		}()
		u, err := upstream.NewUpstream(fmt.Sprintf("udp://127.0.0.1:%d", port), upstream.Opt{})
		if err != nil {
			return "HARNESS-ERROR " + err.Error()
		}
		defer u.Close()
		exchange = u.ExchangeContext
	default:
		return "HARNESS-ERROR bad via"
	}

	var badown, okN, errN atomic.Int32
	var next atomic.Int32
	var wg sync.WaitGroup
	for g := 0; g < conc; g++ {
		wg.Add(1)
		rng := rand.New(rand.NewSource(seed*131 + int64(g)))
		go func() {
			defer wg.Done()
			for {
				m := int(next.Add(1)) - 1
				if m >= n {
					return
				}
				dl := 400 * time.Millisecond
				if rng.Intn(100) < cancelPct {
					dl = time.Duration(rng.Intn(2*delayUs+200)) * time.Microsecond
				}
				ctx, cancel := context.WithTimeout(context.Background(), dl)
				r, err := exchange(ctx, c06Query(m))
				cancel()
				o := c06Outcome(m, r, err)
				switch {
				case o == "E" || o == "C":
					errN.Add(1)
				case o == fmt.Sprintf("M%d", m):
					okN.Add(1)
				default:
					badown.Add(1)
				}
			}
		}()
	}
	wg.Wait()
	time.Sleep(20 * time.Millisecond)
	mu.Lock()
	defer mu.Unlock()
	return fmt.Sprintf("badown=%d maxout=%d dirty=%d ok=%d err=%d", badown.Load(), maxout, b2i(dirty), okN.Load(), errN.Load())
}
