package main

// Kind "slowreader" (C03 / C13): a client that pipelines many queries on ONE stream connection, does not read for a
// while and then reads everything.
//   <id> cfg=<cfgspec> l=<tcp|tls|gnet> n=<queries> hold=<ms without reading> q=<hex> up=reply:<hex>
//   -> sent=<n> got=<responses read> ids=<distinct ids among them> err=<- | how the stream ended>
// Every query is answered exactly once (answered from the upstream or REFUSED when the in-flight cap is exceeded)
// while the client keeps its transport open — however slowly it reads: the responses wait in the socket buffers.

import (
	"crypto/tls"
	"encoding/binary"
	"fmt"
	"io"
	"net"
	"strings"
	"time"

	"github.com/IrineSistiana/mosproxy/verifharness/hx"
)

func init() { register("slowreader", 3, runSlowReader) }

func runSlowReader(id string, parts []string) string {
	f := hx.Fields(parts)
	env, err := getEnv(f["cfg"])
	if err != nil {
		return "HARNESS-ERROR env: " + strings.ReplaceAll(err.Error(), " ", "_")
	}
	defer putEnv(f["cfg"])
	q, err := hx.UnHex(f["q"])
	if err != nil {
		return "HARNESS-ERROR bad hex"
	}
	n := hx.MustAtoi(f["n"])
	hold := time.Duration(hx.MustAtoi(f["hold"])) * time.Millisecond
	key := hx.QuestionKey(q)
	env.SetBehaviour(key, parseBehaviour(f["up"]))
	defer env.TakeQueries(key)
	l := f["l"]
	var c net.Conn
	d := &net.Dialer{Timeout: time.Second}
	if l == "tls" {
		c, err = tls.DialWithDialer(d, "tcp", fmt.Sprintf("127.0.0.1:%d", env.Ports[l]), &tls.Config{InsecureSkipVerify: true})
	} else {
		c, err = d.Dial("tcp", fmt.Sprintf("127.0.0.1:%d", env.Ports[l]))
	}
	if err != nil {
		return "HARNESS-ERROR dial: " + strings.ReplaceAll(err.Error(), " ", "_")
	}
	defer c.Close()
	// the writer runs beside the sleeping reader: with large responses the server may stop reading queries while its
	// own writes are blocked, and the client's writes then block too until the reader starts
	wdone := make(chan error, 1)
	go func() {
		for i := 0; i < n; i++ {
			w := append([]byte(nil), q...)
			binary.BigEndian.PutUint16(w, uint16(i+1))
			fr := binary.BigEndian.AppendUint16(nil, uint16(len(w)))
			c.SetWriteDeadline(time.Now().Add(hold + 10*time.Second))
			if _, err := c.Write(append(fr, w...)); err != nil {
				wdone <- err
				return
			}
		}
		wdone <- nil
	}()
	time.Sleep(hold)
	got := 0
	ids := map[uint16]bool{}
	endErr := "-"
	for got < n {
		c.SetReadDeadline(time.Now().Add(5 * time.Second))
		var h [2]byte
		if _, err := io.ReadFull(c, h[:]); err != nil {
			endErr = strings.ReplaceAll(err.Error(), " ", "_")
			break
		}
		b := make([]byte, binary.BigEndian.Uint16(h[:]))
		if _, err := io.ReadFull(c, b); err != nil {
			endErr = "short-frame:" + strings.ReplaceAll(err.Error(), " ", "_")
			break
		}
		got++
		if len(b) >= 2 {
			ids[binary.BigEndian.Uint16(b)] = true
		}
	}
	select {
	case werr := <-wdone:
		if werr != nil && endErr == "-" {
			endErr = "write:" + strings.ReplaceAll(werr.Error(), " ", "_")
		}
	case <-time.After(2 * time.Second):
		if endErr == "-" {
			endErr = "writer-still-blocked"
		}
	}
	return fmt.Sprintf("sent=%d got=%d ids=%d err=%s", n, got, len(ids), endErr)
}
