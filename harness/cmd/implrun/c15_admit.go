package main

// Kind "admit" (C15): the admission paths of the listeners, end to end.  A real router is started in-process
// (router.run through the VerifC15Start hook) with a UDP, a TCP, an HTTP (client_addr_header) and a QUIC
// listener on loopback, a client limiter with rate 1/s, and a scripted fake UDP upstream run by the harness.
// A script of client actions is played sequentially; the whole script takes far less than the 1 s a token
// needs to refill (otherwise the case reports SLOW and is not judged).
//
//   case:   <id> rate=1 burst=<n> v4=<n> v6=<n> global=0 steps=<step>,<step>,...
//           step = uq:<a>   UDP query from source address a (a = 4-7fxxxxxx, bound on loopback)
//                | tq:<a>   TCP query on a's connection (opened on first use: connection cost, then query cost)
//                | qq:<a>   QUIC query on a's connection (opened on first use)
//                | hc:<a>   open the HTTP client's TCP connection from source a
//                | hq:<a>   HTTP POST over that connection, client address a (any v4/v6/v4-mapped) in the header
//                | hx:<i>   HTTP POST whose client address header is the i-th unparsable value of admitBadHeaders
//                | hc:none / tq:none  (unix=1) a connection over the listener's abstract unix socket: the peer has no IP address
//                | sl:<ms>  pause (kind admitglobal: the global bucket refills); reported as SL
//   result: out=<o>,<o>,... [SLOW]     o = ANS | REFUSED | 503 | CLOSED | SCLOSED | ACCEPT | other diagnostic text,
//           with "+fwd" appended when a query that was not answered reached the upstream, "-nofwd" when an
//           answered one did not.

import (
	"bytes"
	"context"
	"crypto/tls"
	"encoding/binary"
	"fmt"
	"io"
	"net"
	"net/http"
	"net/netip"
	"os"
	"runtime"
	"strings"
	"sync"
	"sync/atomic"
	"time"

	"github.com/IrineSistiana/mosproxy/app/router"
	"github.com/IrineSistiana/mosproxy/internal/mlog"
	"github.com/IrineSistiana/mosproxy/verifharness/hx"
	"github.com/quic-go/quic-go"
	"github.com/rs/zerolog"
)

func init() {
	register("admit", 2, runAdmit)
	// round 4: the same scripts with a global limit and a pause (step sl:<ms>); judged by the property oracle only
	register("admitglobal", 4, runAdmit)
}

type admitUpstream struct {
	uc   *net.UDPConn
	mu   sync.Mutex
	seen map[string]int
}

func (u *admitUpstream) serve() {
	buf := make([]byte, 4096)
	for {
		n, addr, err := u.uc.ReadFromUDP(buf)
		if err != nil {
			return
		}
		q := append([]byte(nil), buf[:n]...)
		if qe := hx.QuestionEnd(q); qe > 0 {
			u.mu.Lock()
			u.seen[string(q[12:qe-4])]++
			u.mu.Unlock()
		}
		u.uc.WriteToUDP(hx.BuildReply(q, false, 0, [4]byte{9, 9, 9, 9}, 60), addr)
	}
}

func (u *admitUpstream) count(name []byte) int {
	u.mu.Lock()
	defer u.mu.Unlock()
	return u.seen[string(append(append([]byte(nil), name...), 0))]
}

func c15FreePort(udp bool) (int, error) {
	if udp {
		c, err := net.ListenUDP("udp", &net.UDPAddr{IP: net.IPv4(127, 0, 0, 1)})
		if err != nil {
			return 0, err
		}
		defer c.Close()
		return c.LocalAddr().(*net.UDPAddr).Port, nil
	}
	l, err := net.Listen("tcp", "127.0.0.1:0")
	if err != nil {
		return 0, err
	}
	defer l.Close()
	return l.Addr().(*net.TCPAddr).Port, nil
}

func c15Rcode(resp []byte, id uint16) string {
	if len(resp) < 12 {
		return "SHORT"
	}
	if binary.BigEndian.Uint16(resp) != id {
		return "BADID"
	}
	switch resp[3] & 0x0F {
	case 0:
		if binary.BigEndian.Uint16(resp[6:]) >= 1 {
			return "ANS"
		}
		return "EMPTY"
	case 5:
		return "REFUSED"
	default:
		return fmt.Sprintf("RCODE%d", resp[3]&0x0F)
	}
}

type admitEnv struct {
	udpPort, tcpPort, httpPort, quicPort int
	// round 6: unix=1: the http and the tcp listener are on abstract unix sockets (the peer has no IP address)
	httpUnix, tcpUnix string
	tcpConns                             map[string]net.Conn
	quicConns                            map[string]quic.Connection
	quicTrs                              []*quic.Transport
	httpConn                             net.Conn
	httpClient                           *http.Client
}

func (e *admitEnv) close() {
	for _, c := range e.tcpConns {
		c.Close()
	}
	for _, c := range e.quicConns {
		c.CloseWithError(0, "")
	}
	for _, t := range e.quicTrs {
		t.Close()
		t.Conn.Close()
	}
	if e.httpClient != nil {
		e.httpClient.CloseIdleConnections()
	}
	if e.httpConn != nil {
		e.httpConn.Close()
	}
}

const admitIOTimeout = 700 * time.Millisecond

func (e *admitEnv) udpQuery(src netip.Addr, q []byte) string {
	c, err := net.DialUDP("udp", &net.UDPAddr{IP: src.AsSlice()}, &net.UDPAddr{IP: net.IPv4(127, 0, 0, 1), Port: e.udpPort})
	if err != nil {
		return "HARNESS-ERROR " + err.Error()
	}
	defer c.Close()
	c.SetDeadline(time.Now().Add(admitIOTimeout))
	if _, err := c.Write(q); err != nil {
		return "WRITEERR"
	}
	buf := make([]byte, 4096)
	n, err := c.Read(buf)
	if err != nil {
		return "TIMEOUT"
	}
	return c15Rcode(buf[:n], binary.BigEndian.Uint16(q))
}

func (e *admitEnv) tcpQuery(key string, src netip.Addr, q []byte) string {
	c := e.tcpConns[key]
	if c == nil {
		var err error
		if e.tcpUnix != "" {
			c, err = net.DialTimeout("unix", e.tcpUnix, admitIOTimeout)
		} else {
			d := net.Dialer{LocalAddr: &net.TCPAddr{IP: src.AsSlice()}, Timeout: admitIOTimeout}
			c, err = d.Dial("tcp", fmt.Sprintf("127.0.0.1:%d", e.tcpPort))
		}
		if err != nil {
			return "HARNESS-ERROR " + err.Error()
		}
		e.tcpConns[key] = c
	}
	c.SetDeadline(time.Now().Add(admitIOTimeout))
	out := binary.BigEndian.AppendUint16(nil, uint16(len(q)))
	c.Write(append(out, q...))
	var h [2]byte
	if _, err := io.ReadFull(c, h[:]); err != nil {
		c.Close()
		delete(e.tcpConns, key)
		if ne, ok := err.(net.Error); ok && ne.Timeout() {
			return "TIMEOUT"
		}
		return "CLOSED"
	}
	resp := make([]byte, binary.BigEndian.Uint16(h[:]))
	if _, err := io.ReadFull(c, resp); err != nil {
		return "SHORT"
	}
	return c15Rcode(resp, binary.BigEndian.Uint16(q))
}

func (e *admitEnv) quicQuery(key string, src netip.Addr, q []byte) string {
	ctx, cancel := context.WithTimeout(context.Background(), admitIOTimeout)
	defer cancel()
	c := e.quicConns[key]
	if c == nil {
		uc, err := net.ListenUDP("udp", &net.UDPAddr{IP: src.AsSlice()})
		if err != nil {
			return "HARNESS-ERROR " + err.Error()
		}
		tr := &quic.Transport{Conn: uc}
		e.quicTrs = append(e.quicTrs, tr)
		c, err = tr.Dial(ctx, &net.UDPAddr{IP: net.IPv4(127, 0, 0, 1), Port: e.quicPort},
			&tls.Config{InsecureSkipVerify: true, NextProtos: []string{"doq"}}, &quic.Config{})
		if err != nil {
			return "CLOSED"
		}
		e.quicConns[key] = c
	}
	connGone := func() bool {
		select {
		case <-c.Context().Done():
			return true
		case <-time.After(60 * time.Millisecond):
			return false
		}
	}
	fail := func() string {
		if connGone() {
			delete(e.quicConns, key)
			return "CLOSED"
		}
		return "SCLOSED"
	}
	st, err := c.OpenStreamSync(ctx)
	if err != nil {
		return fail()
	}
	st.SetDeadline(time.Now().Add(admitIOTimeout))
	out := binary.BigEndian.AppendUint16(nil, uint16(len(q)))
	if _, err := st.Write(append(out, q...)); err != nil {
		return fail()
	}
	st.Close()
	var h [2]byte
	if _, err := io.ReadFull(st, h[:]); err != nil {
		if ne, ok := err.(net.Error); ok && ne.Timeout() {
			return "TIMEOUT"
		}
		return fail()
	}
	resp := make([]byte, binary.BigEndian.Uint16(h[:]))
	if _, err := io.ReadFull(st, resp); err != nil {
		return "SHORT"
	}
	return c15Rcode(resp, binary.BigEndian.Uint16(q))
}

func (e *admitEnv) httpConnect(src netip.Addr) string {
	// a new connection replaces the previous one
	if e.httpClient != nil {
		e.httpClient.CloseIdleConnections()
		e.httpClient = nil
	}
	if e.httpConn != nil {
		e.httpConn.Close()
		e.httpConn = nil
	}
	var c net.Conn
	var err error
	if e.httpUnix != "" {
		c, err = net.DialTimeout("unix", e.httpUnix, admitIOTimeout)
	} else {
		d := net.Dialer{LocalAddr: &net.TCPAddr{IP: src.AsSlice()}, Timeout: admitIOTimeout}
		c, err = d.Dial("tcp", fmt.Sprintf("127.0.0.1:%d", e.httpPort))
	}
	if err != nil {
		return "HARNESS-ERROR " + err.Error()
	}
	// a connection refused by listener.Accept is closed at once
	c.SetReadDeadline(time.Now().Add(80 * time.Millisecond))
	var b [1]byte
	_, err = c.Read(b[:])
	if ne, ok := err.(net.Error); !(ok && ne.Timeout()) {
		c.Close()
		return "CLOSED"
	}
	c.SetReadDeadline(time.Time{})
	e.httpConn = c
	used := false
	e.httpClient = &http.Client{Timeout: admitIOTimeout, Transport: &http.Transport{
		DialContext: func(ctx context.Context, network, addr string) (net.Conn, error) {
			if used {
				return nil, fmt.Errorf("connection already used")
			}
			used = true
			return c, nil
		}}}
	return "ACCEPT"
}

// header values that do not parse as a client address (step hx:<index>)
var admitBadHeaders = []string{"203.0.113.7:4711", "unknown, 203.0.113.7", "[2001:db8::1]", "x", "10.1.2.3/24", "10.1.2", " ,10.1.2.3",
	"300.1.1.1", "2001:db8::g", "1.2.3.4.5"}

func (e *admitEnv) httpQuery(client netip.Addr, q []byte) string {
	return e.httpQueryHdr(client.String(), q)
}

func (e *admitEnv) httpQueryHdr(hdr string, q []byte) string {
	if e.httpClient == nil {
		return "NOCONN"
	}
	req, _ := http.NewRequest("POST", fmt.Sprintf("http://127.0.0.1:%d/", e.httpPort), bytes.NewReader(q))
	req.Header.Set("Content-Type", "application/dns-message")
	req.Header.Set("X-Client", hdr)
	resp, err := e.httpClient.Do(req)
	if err != nil {
		return "HTTPERR"
	}
	defer resp.Body.Close()
	body, _ := io.ReadAll(resp.Body)
	if resp.StatusCode == 200 {
		return c15Rcode(body, binary.BigEndian.Uint16(q))
	}
	return fmt.Sprintf("%d", resp.StatusCode)
}

var admitStartMu sync.Mutex
var admitUnixSeq atomic.Int64

// admitGuard: like guard, but a script that does not finish (every step has its own 0.7 s deadline, so this
// can only be the harness' own plumbing) is reported as a harness error for that case instead of ending the run.
func admitGuard(id string, limit time.Duration, fn func() string) string {
	done := make(chan string, 1)
	go func() {
		defer func() {
			if r := recover(); r != nil {
				done <- "PANIC! " + strings.ReplaceAll(fmt.Sprint(r), "\n", " ")
			}
		}()
		done <- fn()
	}()
	select {
	case r := <-done:
		return r
	case <-time.After(limit):
		buf := make([]byte, 1<<20)
		n := runtime.Stack(buf, true)
		fmt.Fprintf(os.Stderr, "admit %s: script still running after %v (left behind)\n%s\n", id, limit, buf[:n])
		return "HARNESS-ERROR script did not finish"
	}
}

var admitOnce sync.Once

func runAdmit(id string, parts []string) string {
	// the in-process router logs to stdout (zerolog console writer); stdout carries the result lines
	admitOnce.Do(func() { mlog.SetLvl(zerolog.Disabled) })
	f := hx.Fields(parts)
	return admitGuard(id, 20*time.Second, func() string {
		uc, err := net.ListenUDP("udp", &net.UDPAddr{IP: net.IPv4(127, 0, 0, 1)})
		if err != nil {
			return "HARNESS-ERROR " + err.Error()
		}
		up := &admitUpstream{uc: uc, seen: map[string]int{}}
		go up.serve()

		env := &admitEnv{tcpConns: map[string]net.Conn{}, quicConns: map[string]quic.Connection{}}
		var stop func()
		// teardown must not decide the case: bounded wait, a teardown that is still running is left behind
		defer func() {
			done := make(chan struct{})
			go func() {
				env.close()
				if stop != nil {
					stop()
				}
				uc.Close()
				close(done)
			}()
			select {
			case <-done:
			case <-time.After(3 * time.Second):
				buf := make([]byte, 1<<20)
				n := runtime.Stack(buf, true)
				fmt.Fprintf(os.Stderr, "admit %s: teardown still running after 3 s (left behind)\n%s\n", id, buf[:n])
			}
		}()
		func() {
			admitStartMu.Lock()
			defer admitStartMu.Unlock()
			for try := 0; try < 5; try++ {
				env.udpPort, _ = c15FreePort(true)
				env.tcpPort, _ = c15FreePort(false)
				env.httpPort, _ = c15FreePort(false)
				env.quicPort, _ = c15FreePort(true)
				tcpListen, httpListen := fmt.Sprintf("127.0.0.1:%d", env.tcpPort), fmt.Sprintf("127.0.0.1:%d", env.httpPort)
				if f["unix"] == "1" {
					n := admitUnixSeq.Add(1)
					env.tcpUnix = fmt.Sprintf("@verif-c15-t-%d-%d", os.Getpid(), n)
					env.httpUnix = fmt.Sprintf("@verif-c15-h-%d-%d", os.Getpid(), n)
					tcpListen, httpListen = env.tcpUnix, env.httpUnix
				}
				cfg := &router.Config{
					Servers: []router.ServerConfig{
						{Tag: "u", Protocol: "udp", Listen: fmt.Sprintf("127.0.0.1:%d", env.udpPort)},
						{Tag: "t", Protocol: "tcp", Listen: tcpListen},
						{Tag: "h", Protocol: "http", Listen: httpListen,
							Http: router.HttpConfig{ClientAddrHeader: "x-CLIENT"}}, // non-canonical spelling in the configuration; the clients send "X-Client"
						{Tag: "q", Protocol: "quic", Listen: fmt.Sprintf("127.0.0.1:%d", env.quicPort),
							Tls: router.TlsConfig{DebugUseTempCert: true}},
					},
					Upstreams: []router.UpstreamConfig{{Tag: "up", Addr: fmt.Sprintf("udp://127.0.0.1:%d", uc.LocalAddr().(*net.UDPAddr).Port)}},
					Rules:     []router.RuleConfig{{Forward: "up"}},
					Limiter: router.LimiterConfig{
						GlobalLimit: hx.MustAtoi(f["global"]),
						Client: router.ClientLimiterConfig{Limit: hx.MustAtoi(f["rate"]), Burst: hx.MustAtoi(f["burst"]),
							V4Mask: hx.MustAtoi(f["v4"]), V6Mask: hx.MustAtoi(f["v6"])},
					},
				}
				// a listener that fails to start (port taken meanwhile) makes run() return an error -- or panic
				// in its clean-up (nil server closer, defect D13 of C18): either way try other ports
				stop, err = func() (st func(), e error) {
					defer func() {
						if r := recover(); r != nil {
							e = fmt.Errorf("router start panicked: %v", r)
						}
					}()
					return router.VerifC15Start(cfg)
				}()
				if err == nil {
					break
				}
			}
		}()
		if err != nil {
			return "HARNESS-ERROR router start: " + err.Error()
		}

		var outs []string
		var slept time.Duration
		t0 := time.Now()
		for i, st := range strings.Split(f["steps"], ",") {
			if st == "" {
				continue
			}
			kind, as, _ := strings.Cut(st, ":")
			if kind == "sl" {
				// a pause (the global bucket refills); not part of the script's running time
				d := time.Duration(hx.MustAtoi(as)) * time.Millisecond
				time.Sleep(d)
				slept += d
				outs = append(outs, "SL")
				continue
			}
			var a netip.Addr
			if kind != "hx" && !strings.HasPrefix(as, "none") {
				var err error
				a, err = c15ParseAddr(as)
				if err != nil {
					return "HARNESS-ERROR " + err.Error()
				}
			}
			name := []byte(fmt.Sprintf("\x03s%02d\x05%5.5s\x04test", i%100, strings.ReplaceAll(id+"xxxxx", ".", "x")))
			q := hx.BuildQuery(uint16(0x4000+i), name, 1, 1, true)
			var o string
			isQuery := true
			switch kind {
			case "uq":
				o = env.udpQuery(a, q)
			case "tq":
				o = env.tcpQuery(as, a, q)
			case "qq":
				o = env.quicQuery(as, a, q)
			case "hc":
				o = env.httpConnect(a)
				isQuery = false
			case "hq":
				o = env.httpQuery(a, q)
			case "hx":
				o = env.httpQueryHdr(admitBadHeaders[hx.MustAtoi(as)%len(admitBadHeaders)], q)
			default:
				return "HARNESS-ERROR bad step " + st
			}
			if strings.HasPrefix(o, "HARNESS-ERROR") {
				return o
			}
			if isQuery {
				n := up.count(name)
				if o == "ANS" && n != 1 {
					o += fmt.Sprintf("-nofwd%d", n)
				} else if o != "ANS" && n != 0 {
					o += "+fwd"
				}
			}
			outs = append(outs, o)
		}
		el := time.Since(t0) - slept
		res := "out=" + strings.Join(outs, ",")
		if el > 800*time.Millisecond {
			fmt.Fprintf(os.Stderr, "admit %s: script took %v\n", id, el)
			return "HARNESS-ERROR SLOW " + res
		}
		return res
	})
}
