package main

// C14, round 9: kind "streamwait" - the peer's stream limit is used up by UNANSWERED exchanges with long deadlines;
// one more exchange with a SHORT deadline must still return by its own deadline.
//   case:   <id> m=<stream limit> long=<ms> short=<ms>
//     quic:// upstream against the loopback DoQ server (limit m); one ordinary exchange, then the server goes silent;
//     m exchanges with deadline <long> are started (they hold all m streams), 100 ms later one exchange with deadline
//     <short>.
//   result: short=<E|R|H> late=<0|1> rest=<returned long exchanges>/<m>
//     late: the short exchange was not back <short> + 400 ms after its start (H: not even 2.5 s after its deadline)

import (
	"context"
	"crypto/tls"
	"fmt"
	"sync/atomic"
	"time"

	"github.com/IrineSistiana/mosproxy/internal/upstream"
	"github.com/IrineSistiana/mosproxy/verifharness/hx"
	"github.com/quic-go/quic-go"
)

func init() { register("streamwait", 12, runStreamWait) }

func runStreamWait(id string, parts []string) string {
	return guard(id, 60*time.Second, func() string { return streamWaitCase(hx.Fields(parts)) })
}

func streamWaitCase(f map[string]string) string {
	m := hx.MustAtoi(f["m"])
	long := time.Duration(hx.MustAtoi(f["long"])) * time.Millisecond
	short := time.Duration(hx.MustAtoi(f["short"])) * time.Millisecond
	srv, err := ogNewServer("doq")
	if err != nil {
		return "HARNESS-ERROR " + err.Error()
	}
	defer srv.release()
	srv.maxStreams = int64(m)
	var silent atomic.Bool
	srv.quicFn = func(st quic.Stream, q []byte) bool { return silent.Load() } // silent: the stream is left as it is
	if err := srv.up("ok"); err != nil {
		return "HARNESS-ERROR " + err.Error()
	}
	u, err := upstream.NewUpstream("quic://"+srv.addr, upstream.Opt{TLSConfig: &tls.Config{InsecureSkipVerify: true}})
	if err != nil {
		return "HARNESS-ERROR " + err.Error()
	}
	defer ogCloseLater(u)
	if c, _ := ogOne(u, 0x1000, 3*time.Second); c != 'R' {
		return "HARNESS-ERROR warm-up exchange failed"
	}
	silent.Store(true)
	name := []byte("\x03c14\x04test")
	var back atomic.Int32
	for i := 0; i < m; i++ {
		go func(i int) {
			ctx, cancel := context.WithTimeout(context.Background(), long)
			defer cancel()
			u.ExchangeContext(ctx, hx.BuildQuery(uint16(0x2000+i), name, 1, 1, true))
			back.Add(1)
		}(i)
	}
	time.Sleep(100 * time.Millisecond)
	type xr struct {
		ok bool
		el time.Duration
	}
	rc := make(chan xr, 1)
	go func() {
		t0 := time.Now()
		ctx, cancel := context.WithTimeout(context.Background(), short)
		defer cancel()
		r, err := u.ExchangeContext(ctx, hx.BuildQuery(0x3000, name, 1, 1, true))
		rc <- xr{ok: err == nil && r != nil, el: time.Since(t0)}
	}()
	res, late := "H", 1
	select {
	case r := <-rc:
		res, late = "E", 0
		if r.ok {
			res = "R"
		}
		if r.el > short+400*time.Millisecond {
			late = 1
		}
	case <-time.After(short + ogHangAfter):
	}
	// let the long exchanges end at their deadlines before the upstream is closed
	for t0 := time.Now(); int(back.Load()) < m && time.Since(t0) < long+time.Second; time.Sleep(20 * time.Millisecond) {
	}
	return fmt.Sprintf("short=%s late=%d rest=%d/%d", res, late, back.Load(), m)
}

// Kind "uptimeouts": the idle time-out of an upstream built by NewUpstream, per scheme, option unset / set.
//   case:   <id> scheme=<udp|tcp|tcp+pipeline|tls|tls+pipeline|https> opt=<ms, 0 = unset>
//   result: kind=<pipeline|reuse|http> idle=<ms>        (add-only hook upstream.VerifIdleTimeout; nothing is dialled)
func init() { register("uptimeouts", 1, runUpTimeouts) }

func runUpTimeouts(id string, parts []string) string {
	return guard(id, 20*time.Second, func() string {
		f := hx.Fields(parts)
		url := f["scheme"] + "://127.0.0.1:1"
		if f["scheme"] == "https" {
			url += "/dns-query"
		}
		u, err := upstream.NewUpstream(url, upstream.Opt{IdleTimeout: time.Duration(hx.MustAtoi(f["opt"])) * time.Millisecond})
		if err != nil {
			return "HARNESS-ERROR " + err.Error()
		}
		defer ogCloseLater(u)
		kind, d := upstream.VerifIdleTimeout(u)
		if kind == "" {
			return "HARNESS-ERROR idle time-out not observable"
		}
		return fmt.Sprintf("kind=%s idle=%d", kind, d.Milliseconds())
	})
}
