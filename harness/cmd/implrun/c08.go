package main

// C08 — cache lifetime policy, TTL ageing, expiry. All kinds drive the REAL cacheCtl (built by the real
// initCache through the verif hook app/router/verif_c08.go) on a real MemoryCache (otter), no redis.
//
//   policy:    <id> maxttl=<cfg secs> pre=<none|pos|neg> nil=<0|1> msg=<hex>
//              -> stored=<new|old|none> L=<expire-stored ns> ttls=<ttl,ttl,...>      (read back with cacheCtl.Get)
//   ttl:       <id> mode=sub delta=<u32> msg=<hex>   -> ttls=<an>|<ns>|<ar> rest=<same|CHANGED>   (dnsutils.SubtractTTL)
//              <id> mode=min msg=<hex>               -> min=<u> ok=<0|1>                          (dnsutils.GetMinimalTTL)
//              <id> mode=age age=<ms> msg=<hex>      -> ttls=... rest=...   (entry stored `age` ago, real cacheCtl.Get)
//   cachehist: <id> maxttl=<cfg secs> ops=<op,op,...>   real-time quiescent history on one cacheCtl
//              op = s.<at ms>.<key>.<rcode>.<tc>.<ttl_ttl|x>   Store of a response with these A-record TTLs
//                   n.<at ms>.<key>                            Store(nil)
//                   g.<at ms>.<key>                            Get
//                   a.<at ms>.<key>.<age ms>.<remain ms>.<nx>.<ttl_ttl|x>   (round 2, kind storeat) MemoryCache.Store called
//                        directly with storedTime = now - age, expireTime = now + remain: what cacheCtl.Get does when it
//                        promotes a redis hit into the memory cache (there with setNX = true)
//              -> one token per op: s | n | a | M | H<store op index>:<ttl_ttl...>

import (
	"encoding/binary"
	"fmt"
	"io"
	"net"
	"net/netip"
	"runtime"
	"strconv"
	"strings"
	"sync"
	"time"

	"github.com/IrineSistiana/mosproxy/app/router"
	"github.com/IrineSistiana/mosproxy/internal/dnsmsg"
	"github.com/IrineSistiana/mosproxy/internal/dnsutils"
	"github.com/IrineSistiana/mosproxy/verifharness/hx"
)

func init() {
	register("policy", 8, runPolicy)
	register("ttl", 8, runTTL)
	register("cachehist", 64, runCacheHist)
	register("storeat", 64, runCacheHist) // same driver; histories with direct MemoryCache.Store calls (op a)
	register("routerhist", 64, runRouterHist)
}

var (
	c08Mu     sync.Mutex
	c08Caches = map[int]*router.VerifC08Cache{}
)

// one cacheCtl per configured maximum, kept for the life of the process (otter's clock is process-global
// and restarts when the last cache closes)
func c08Cache(maxttl int) (*router.VerifC08Cache, error) {
	c08Mu.Lock()
	defer c08Mu.Unlock()
	if c, ok := c08Caches[maxttl]; ok {
		return c, nil
	}
	c, err := router.VerifC08NewCache(maxttl, 1<<26)
	if err != nil {
		return nil, err
	}
	c08Caches[maxttl] = c
	return c, nil
}

func c08Name(id string, salt int) []byte {
	s := fmt.Sprintf("%s-%d", id, salt)
	var out []byte
	for len(s) > 0 {
		n := len(s)
		if n > 60 {
			n = 60
		}
		out = append(out, byte(n))
		out = append(out, strings.ToLower(s[:n])...)
		s = s[n:]
	}
	out = append(out, 4, 't', 'e', 's', 't')
	return out
}

// a plain (not pooled, never released) question
func c08Question(name []byte) *dnsmsg.Question {
	return &dnsmsg.Question{Name: dnsmsg.Name(append([]byte(nil), name...)), Type: 1, Class: 1}
}

// response with question `name A IN` and one A record per TTL (owner = name)
func c08Wire(id uint16, name []byte, rcode int, tc bool, ttls []uint32) []byte {
	b := make([]byte, 12)
	binary.BigEndian.PutUint16(b[0:], id)
	bits := uint16(0x8180) | uint16(rcode&15)
	if tc {
		bits |= 0x0200
	}
	binary.BigEndian.PutUint16(b[2:], bits)
	binary.BigEndian.PutUint16(b[4:], 1)
	binary.BigEndian.PutUint16(b[6:], uint16(len(ttls)))
	b = append(b, name...)
	b = append(b, 0, 0, 1, 0, 1)
	for i, t := range ttls {
		b = append(b, name...)
		b = append(b, 0, 0, 1, 0, 1)
		b = binary.BigEndian.AppendUint32(b, t)
		b = append(b, 0, 4, 10, 0, 0, byte(i))
	}
	return b
}

func c08TTLs(m *dnsmsg.Msg) string {
	var sb strings.Builder
	for si, rs := range [][]dnsmsg.Resource{m.Answers, m.Authorities, m.Additionals} {
		if si > 0 {
			sb.WriteByte('|')
		}
		for i, r := range rs {
			if i > 0 {
				sb.WriteByte(',')
			}
			h := r.Hdr()
			fmt.Fprintf(&sb, "%d:%d", h.Type, h.TTL)
		}
	}
	return sb.String()
}

// dump with every TTL zeroed: "everything except the TTLs"
func c08Rest(m *dnsmsg.Msg) string {
	var saved []uint32
	for _, rs := range [][]dnsmsg.Resource{m.Answers, m.Authorities, m.Additionals} {
		for _, r := range rs {
			saved = append(saved, r.Hdr().TTL)
			r.Hdr().TTL = 0
		}
	}
	s := dumpMsg(m)
	i := 0
	for _, rs := range [][]dnsmsg.Resource{m.Answers, m.Authorities, m.Additionals} {
		for _, r := range rs {
			r.Hdr().TTL = saved[i]
			i++
		}
	}
	return s
}

// ---------------------------------------------------------------- policy
func runPolicy(id string, parts []string) string {
	f := hx.Fields(parts)
	maxttl := hx.MustAtoi(f["maxttl"])
	wire, err := hx.UnHex(f["msg"])
	if err != nil {
		return "HARNESS-ERROR bad hex"
	}
	return guard(id, 20*time.Second, func() string {
		c, err := c08Cache(maxttl)
		if err != nil {
			return "HARNESS-ERROR " + err.Error()
		}
		res := ""
		// an entry with a 1 s lifetime can expire between Store and the read-back (otter's clock ticks once a
		// second): a miss is re-tried on a fresh key before it is reported
		for attempt := 0; attempt < 4; attempt++ {
			name := c08Name(id, attempt)
			q := c08Question(name)
			switch f["pre"] {
			case "pos":
				pm, err := dnsmsg.UnpackMsg(c08Wire(0xAAAA, name, 0, false, []uint32{100}))
				if err != nil {
					return "HARNESS-ERROR pre"
				}
				c.Store(q, netip.Addr{}, pm)
				dnsmsg.ReleaseMsg(pm)
			case "neg":
				pm, err := dnsmsg.UnpackMsg(c08Wire(0xAAAA, name, 3, false, nil))
				if err != nil {
					return "HARNESS-ERROR pre"
				}
				c.Store(q, netip.Addr{}, pm)
				dnsmsg.ReleaseMsg(pm)
			}
			if f["nil"] == "1" {
				c.Store(q, netip.Addr{}, nil)
			} else {
				m, err := dnsmsg.UnpackMsg(wire)
				if err != nil {
					return "UNDECODABLE"
				}
				m.Header.ID = 0x5555
				c.Store(q, netip.Addr{}, m)
				dnsmsg.ReleaseMsg(m)
			}
			got, stored, expire := c.Get(q)
			if got == nil {
				res = "stored=none L=0 ttls="
				continue
			}
			which := "new"
			if got.Header.ID == 0xAAAA {
				which = "old"
			}
			res = fmt.Sprintf("stored=%s L=%d ttls=%s", which, int64(expire.Sub(stored)), c08TTLs(got))
			dnsmsg.ReleaseMsg(got)
			break
		}
		return res
	})
}

// ---------------------------------------------------------------- ttl
var c08AgeSeq struct {
	sync.Mutex
	n int
}

func runTTL(id string, parts []string) string {
	f := hx.Fields(parts)
	wire, err := hx.UnHex(f["msg"])
	if err != nil {
		return "HARNESS-ERROR bad hex"
	}
	return guard(id, 20*time.Second, func() string {
		m, err := dnsmsg.UnpackMsg(wire)
		if err != nil {
			return "UNDECODABLE"
		}
		defer dnsmsg.ReleaseMsg(m)
		switch f["mode"] {
		case "min":
			u, ok := dnsutils.GetMinimalTTL(m)
			return fmt.Sprintf("min=%d ok=%d", u, b2i(ok))
		case "sub":
			d, err := strconv.ParseUint(f["delta"], 10, 32)
			if err != nil {
				return "HARNESS-ERROR bad delta"
			}
			before := c08Rest(m)
			dnsutils.SubtractTTL(m, uint32(d))
			rest := "same"
			if c08Rest(m) != before {
				rest = "CHANGED"
			}
			return fmt.Sprintf("ttls=%s rest=%s", c08TTLs(m), rest)
		case "age":
			ageMs, err := strconv.ParseInt(f["age"], 10, 64)
			if err != nil {
				return "HARNESS-ERROR bad age"
			}
			age := time.Duration(ageMs) * time.Millisecond
			c, err := c08Cache(0)
			if err != nil {
				return "HARNESS-ERROR " + err.Error()
			}
			before := c08Rest(m)
			for attempt := 0; attempt < 3; attempt++ {
				name := c08Name(id, attempt)
				q := c08Question(name)
				t0 := time.Now()
				if err := c.StoreAt(q, t0.Add(-age), t0.Add(time.Hour), m, false); err != nil {
					return "PACKERR"
				}
				got, _, _ := c.Get(q)
				took := time.Since(t0)
				if got == nil {
					return "MISS"
				}
				if took > 200*time.Millisecond { // the case line's age is only valid to +-200 ms
					dnsmsg.ReleaseMsg(got)
					continue
				}
				rest := "same"
				if c08Rest(got) != before {
					rest = "CHANGED"
				}
				s := fmt.Sprintf("ttls=%s rest=%s", c08TTLs(got), rest)
				dnsmsg.ReleaseMsg(got)
				return s
			}
			return "HARNESS-ERROR slow"
		}
		return "HARNESS-ERROR bad mode"
	})
}

// ---------------------------------------------------------------- cachehist
type c08Op struct {
	kind   byte
	at     time.Duration
	key    int
	rcode  int
	tc     bool
	ttls   []uint32
	age    time.Duration // op a: storedTime = now - age
	remain time.Duration // op a: expireTime = now + remain
	nx     bool          // op a: setNX
}

func c08ParseOps(s string) ([]c08Op, error) {
	var ops []c08Op
	for _, tok := range strings.Split(s, ",") {
		p := strings.Split(tok, ".")
		if len(p) < 3 {
			return nil, fmt.Errorf("bad op %q", tok)
		}
		at, err1 := strconv.Atoi(p[1])
		key, err2 := strconv.Atoi(p[2])
		if err1 != nil || err2 != nil {
			return nil, fmt.Errorf("bad op %q", tok)
		}
		op := c08Op{kind: p[0][0], at: time.Duration(at) * time.Millisecond, key: key}
		if op.kind == 'a' {
			if len(p) != 7 {
				return nil, fmt.Errorf("bad op %q", tok)
			}
			age, err1 := strconv.ParseInt(p[3], 10, 64)
			remain, err2 := strconv.ParseInt(p[4], 10, 64)
			if err1 != nil || err2 != nil {
				return nil, fmt.Errorf("bad op %q", tok)
			}
			op.age, op.remain, op.nx = time.Duration(age)*time.Millisecond, time.Duration(remain)*time.Millisecond, p[5] == "1"
			if p[6] != "x" {
				for _, t := range strings.Split(p[6], "_") {
					v, err := strconv.ParseUint(t, 10, 32)
					if err != nil {
						return nil, fmt.Errorf("bad ttl %q", tok)
					}
					op.ttls = append(op.ttls, uint32(v))
				}
			}
		}
		if op.kind == 's' {
			if len(p) != 6 {
				return nil, fmt.Errorf("bad op %q", tok)
			}
			op.rcode, _ = strconv.Atoi(p[3])
			op.tc = p[4] == "1"
			if p[5] != "x" {
				for _, t := range strings.Split(p[5], "_") {
					v, err := strconv.ParseUint(t, 10, 32)
					if err != nil {
						return nil, fmt.Errorf("bad ttl %q", tok)
					}
					op.ttls = append(op.ttls, uint32(v))
				}
			}
		}
		ops = append(ops, op)
	}
	return ops, nil
}

const c08Late = 150 * time.Millisecond

// c08DrainPools empties the process-wide sync.Pools (two GC cycles: primary + victim cache).
// Reason: on the pinned tree an expired entry that is looked up and then overwritten is released twice
// (otter fires the deletion listener for the expired-Get delete task and again for the replacement), so
// internal/cache's cacheEntryPool can hold the same *cacheEntry twice and two later Stores then share one
// entry object (the second wipes the first: a spurious miss for an unrelated key, see docs/notes/C08.md).
// Misses are always allowed by C08, but they make real-clock histories of unrelated parallel cases differ
// from the model; draining the pools between cases keeps the cases independent.
func c08DrainPools() {
	runtime.GC()
	runtime.GC()
}

func runCacheHist(id string, parts []string) string {
	f := hx.Fields(parts)
	maxttl := hx.MustAtoi(f["maxttl"])
	ops, err := c08ParseOps(f["ops"])
	if err != nil {
		return "HARNESS-ERROR " + err.Error()
	}
	return guard(id, 60*time.Second, func() string {
		c, err := c08Cache(maxttl)
		if err != nil {
			return "HARNESS-ERROR " + err.Error()
		}
		res := ""
		for attempt := 0; attempt < 2; attempt++ {
			late := false
			var out []string
			c08DrainPools()
			t0 := time.Now()
			for i, op := range ops {
				if d := time.Until(t0.Add(op.at)); d > 0 {
					time.Sleep(d)
				}
				if time.Since(t0)-op.at > c08Late {
					late = true
				}
				name := c08Name(id, attempt*1000+op.key)
				q := c08Question(name)
				switch op.kind {
				case 's':
					m, err := dnsmsg.UnpackMsg(c08Wire(uint16(i+1), name, op.rcode, op.tc, op.ttls))
					if err != nil {
						return "HARNESS-ERROR wire"
					}
					c.Store(q, netip.Addr{}, m)
					dnsmsg.ReleaseMsg(m)
					out = append(out, "s")
				case 'a':
					m, err := dnsmsg.UnpackMsg(c08Wire(uint16(i+1), name, 0, false, op.ttls))
					if err != nil {
						return "HARNESS-ERROR wire"
					}
					now := time.Now()
					err = c.StoreAt(q, now.Add(-op.age), now.Add(op.remain), m, op.nx)
					dnsmsg.ReleaseMsg(m)
					if err != nil {
						return "HARNESS-ERROR pack"
					}
					out = append(out, "a")
				case 'n':
					c.Store(q, netip.Addr{}, nil)
					out = append(out, "n")
				case 'g':
					got, _, _ := c.Get(q)
					if got == nil {
						out = append(out, "M")
						// the expired node's delete task is asynchronous: let it land before the next op
						time.Sleep(15 * time.Millisecond)
					} else {
						var ts []string
						for _, r := range got.Answers {
							ts = append(ts, strconv.FormatUint(uint64(r.Hdr().TTL), 10))
						}
						out = append(out, fmt.Sprintf("H%d:%s", int(got.Header.ID)-1, strings.Join(ts, "_")))
						dnsmsg.ReleaseMsg(got)
					}
				}
				if time.Since(t0)-op.at > c08Late {
					late = true
				}
			}
			res = strings.Join(out, " ")
			if !late {
				return res
			}
		}
		return "HARNESS-ERROR late " + res
	})
}

// ---------------------------------------------------------------- routerhist
//   routerhist: <id> maxttl=<cfg secs> ops=q.<at ms>.<key>.<beh>,...
//     a real router (real run(): real upstream "tcp://127.0.0.1:port", forward-all rule, memory cache) is fed client
//     queries through handleServerReq; the scripted upstream answers the query of op i with <beh>:
//       p<ttl> NOERROR, A records with TTL ttl and ttl+5 | nx NXDOMAIN | nd NOERROR without records | sf SERVFAIL |
//       rf REFUSED | tc truncated NOERROR (TTL 60) | fail (connection closed without a reply)
//     -> one token per query: <U|C><rcode>[t]:<ttl_ttl>   U = the upstream was contacted during this query
type c08Upstream struct {
	l    net.Listener
	mu   sync.Mutex
	beh  string
	hits int
}

func (u *c08Upstream) serve() {
	for {
		c, err := u.l.Accept()
		if err != nil {
			return
		}
		go func() {
			defer c.Close()
			for {
				var h [2]byte
				if _, err := io.ReadFull(c, h[:]); err != nil {
					return
				}
				q := make([]byte, binary.BigEndian.Uint16(h[:]))
				if _, err := io.ReadFull(c, q); err != nil {
					return
				}
				u.mu.Lock()
				u.hits++
				beh := u.beh
				u.mu.Unlock()
				qe := hx.QuestionEnd(q)
				if qe < 0 || beh == "fail" {
					return
				}
				name := q[12 : qe-5]
				var r []byte
				id := binary.BigEndian.Uint16(q)
				switch {
				case beh == "nx":
					r = c08Wire(id, name, 3, false, nil)
				case beh == "nd":
					r = c08Wire(id, name, 0, false, nil)
				case beh == "sf":
					r = c08Wire(id, name, 2, false, nil)
				case beh == "rf":
					r = c08Wire(id, name, 5, false, nil)
				case beh == "tc":
					r = c08Wire(id, name, 0, true, []uint32{60})
				case strings.HasPrefix(beh, "p"):
					t, _ := strconv.ParseUint(beh[1:], 10, 32)
					r = c08Wire(id, name, 0, false, []uint32{uint32(t), uint32(t) + 5})
				default:
					return
				}
				out := binary.BigEndian.AppendUint16(nil, uint16(len(r)))
				if _, err := c.Write(append(out, r...)); err != nil {
					return
				}
			}
		}()
	}
}

type c08QOp struct {
	at  time.Duration
	key int
	beh string
}

var c08KeepAlive sync.Once

func runRouterHist(id string, parts []string) string {
	f := hx.Fields(parts)
	maxttl := hx.MustAtoi(f["maxttl"])
	var ops []c08QOp
	for _, tok := range strings.Split(f["ops"], ",") {
		p := strings.Split(tok, ".")
		if len(p) != 4 || p[0] != "q" {
			return "HARNESS-ERROR bad op " + tok
		}
		at, _ := strconv.Atoi(p[1])
		key, _ := strconv.Atoi(p[2])
		ops = append(ops, c08QOp{time.Duration(at) * time.Millisecond, key, p[3]})
	}
	return guard(id, 90*time.Second, func() string {
		router.VerifC08Quiet()
		// otter's clock is process-global and restarts when the last cache closes: keep one cache open
		c08KeepAlive.Do(func() { c08Cache(0) })
		l, err := net.Listen("tcp", "127.0.0.1:0")
		if err != nil {
			return "HARNESS-ERROR " + err.Error()
		}
		up := &c08Upstream{l: l}
		go up.serve()
		defer l.Close()
		cfg := &router.Config{
			Upstreams: []router.UpstreamConfig{{Tag: "u", Addr: "tcp://" + l.Addr().String()}},
			Rules:     []router.RuleConfig{{Forward: "u"}},
			Cache:     router.CacheConfig{MemSize: 1 << 22, MaximumTTL: maxttl},
		}
		r, err := router.VerifC08Run(cfg)
		if err != nil {
			return "HARNESS-ERROR " + err.Error()
		}
		defer r.Close()
		remote := netip.MustParseAddrPort("127.0.0.9:5353")
		res := ""
		for attempt := 0; attempt < 2; attempt++ {
			late := false
			var out []string
			c08DrainPools()
			t0 := time.Now()
			for _, op := range ops {
				if d := time.Until(t0.Add(op.at)); d > 0 {
					time.Sleep(d)
				}
				if time.Since(t0)-op.at > c08Late {
					late = true
				}
				up.mu.Lock()
				up.beh = op.beh
				before := up.hits
				up.mu.Unlock()
				name := c08Name(id, attempt*1000+op.key)
				qm, err := dnsmsg.UnpackMsg(hx.BuildQuery(0x4242, name, 1, 1, true))
				if err != nil {
					return "HARNESS-ERROR query"
				}
				resp := r.Query(qm, remote)
				dnsmsg.ReleaseMsg(qm)
				if time.Since(t0)-op.at > c08Late {
					late = true
				}
				up.mu.Lock()
				fetched := up.hits > before
				up.mu.Unlock()
				if resp == nil {
					out = append(out, "NIL")
					continue
				}
				var ts []string
				for _, rr := range resp.Answers {
					ts = append(ts, strconv.FormatUint(uint64(rr.Hdr().TTL), 10))
				}
				tok := "C"
				if fetched {
					tok = "U"
				}
				tok += strconv.Itoa(int(resp.Header.RCode))
				if resp.Header.Truncated {
					tok += "t"
				}
				if resp.Header.ID != 0x4242 {
					tok += "!id"
				}
				out = append(out, tok+":"+strings.Join(ts, "_"))
				dnsmsg.ReleaseMsg(resp)
			}
			res = strings.Join(out, " ")
			if !late {
				return res
			}
		}
		return "HARNESS-ERROR late " + res
	})
}
