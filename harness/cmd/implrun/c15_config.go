package main

// C15, round 2.
//
// Kind "limconfig": the limiter as the ROUTER builds it from its configuration (initResourceLimiter through the
// VerifC15Init hook: LimiterConfig -> ClientLimiterOpts -> NewClientLimiter/setDefault), then a virtual-time
// history on that ClientLimiter.
//   case:   <id> global=<n> rate=<n> burst=<n> v4=<n> v6=<n> clock=virt addrs=<addr>,... ops=<op>,...   (ops as in "limiter")
//   result: cl=0 glob=<limit>/<burst>|-
//         | cl=1 glob=<..> eff=<limit>/<burst>/<v4>/<v6> keys=<subnet key of each addr> dec=<..> len=<..> near=<..>
//
// Kind "limrace": concurrent FIRST arrivals.  The limiter is built through VerifC15Init.  Each round takes a subnet
// nobody has used yet; G goroutines are released together and each calls AllowN `calls` times with cost `cost`
// for an address of that subnet; one more goroutine calls once for the control subnet.
//   case:   <id> rate= burst= v4= v6= fam=<4|6> g=<G> calls=<n> cost=<n> rounds=<R> mode=<fresh|gc> clock=<virt|real>
//     clock=virt mode=fresh: every call of the case carries the same timestamp T0 (no refill at all); the control
//                            subnet is drained to min(burst,3) tokens beforehand, its caller asks for cost 1.
//     clock=virt mode=gc:    round r: phase 1 at T(2r), collector (gc hook, virtual clock) at T(2r+1) = T(2r) + 61 s,
//                            phase 2 at T(2r+1) on the SAME subnet (its entry has just been collected); the control
//                            caller asks for cost = burst at each instant.
//     clock=real:            resourceLimiter.AllowN (time.Now() per call) on fresh subnets; the elapsed time of the
//                            round is measured around it.
//   result: virt/fresh: r=<R> adm=<min>..<max> ctl=<cost admitted for the control subnet after the drain>
//           virt/gc:    r=<R> adm=<min>..<max> adm2=<min>..<max> coll=<rounds whose entry was gone after gc> ctl=<..>
//           real:       r=<R> adm=<min>..<max> worst=<admitted>:<elapsed ns of that round> ctl=-
//     adm = total cost admitted for the round's subnet (min and max over the rounds).

import (
	"fmt"
	"net/netip"
	"runtime"
	"strconv"
	"strings"
	"sync"
	"sync/atomic"
	"time"

	"github.com/IrineSistiana/mosproxy/app/router"
	"github.com/IrineSistiana/mosproxy/verifharness/hx"
)

func init() {
	register("limconfig", 8, runLimConfig)
	register("limrace", 1, runLimRace)
}

func c15RouterCfg(f map[string]string) router.LimiterConfig {
	g := 0
	if f["global"] != "" {
		g = hx.MustAtoi(f["global"])
	}
	return router.LimiterConfig{
		GlobalLimit: g,
		Client: router.ClientLimiterConfig{Limit: hx.MustAtoi(f["rate"]), Burst: hx.MustAtoi(f["burst"]),
			V4Mask: hx.MustAtoi(f["v4"]), V6Mask: hx.MustAtoi(f["v6"])},
	}
}

func runLimConfig(id string, parts []string) string {
	f := hx.Fields(parts)
	return guard(id, 20*time.Second, func() string {
		rl := router.VerifC15Init(c15RouterCfg(f))
		defer rl.Close()
		glob := "-"
		if l, b, ok := rl.Global(); ok {
			glob = strconv.FormatFloat(l, 'f', -1, 64) + "/" + strconv.Itoa(b)
		}
		cl := rl.Client()
		if cl == nil {
			return "cl=0 glob=" + glob
		}
		o := cl.VerifOpts()
		var keys []string
		for _, s := range strings.Split(f["addrs"], ",") {
			if s == "" {
				continue
			}
			a, err := c15ParseAddr(s)
			if err != nil {
				return "HARNESS-ERROR " + err.Error()
			}
			keys = append(keys, c15FmtAddr(cl.VerifMask(a)))
		}
		if f["clock"] != "virt" {
			return "HARNESS-ERROR limconfig is virtual-time only"
		}
		h := c15History(cl, f, strings.Split(f["ops"], ","))
		if strings.HasPrefix(h, "HARNESS-ERROR") {
			return h
		}
		return fmt.Sprintf("cl=1 glob=%s eff=%s/%d/%d/%d keys=%s %s", glob, strconv.FormatFloat(o.Limit, 'f', -1, 64),
			o.Burst, o.V4Mask, o.V6Mask, strings.Join(keys, ","), h)
	})
}

// c15RaceAddr: address number host of subnet number sub (sub 0 = the control subnet) under prefix length m.
func c15RaceAddr(fam string, m int, sub, host int) netip.Addr {
	if fam == "4" {
		sh := 32 - m
		x := uint32(0x0A000000) + uint32(sub)<<sh
		if sh > 0 {
			x |= uint32(host) & (1<<sh - 1) & 0xFF
		}
		return netip.AddrFrom4([4]byte{byte(x >> 24), byte(x >> 16), byte(x >> 8), byte(x)})
	}
	// 2001:db8::/32 + sub << (128-m), m in 44..64 (the harness refuses other masks)
	hi := uint64(0x20010db8)<<32 + uint64(sub)<<(64-m)
	var b [16]byte
	for i := 0; i < 8; i++ {
		b[i] = byte(hi >> (56 - 8*i))
	}
	b[15] = byte(host)
	b[14] = byte(host >> 8)
	return netip.AddrFrom16(b)
}

func runLimRace(id string, parts []string) string {
	f := hx.Fields(parts)
	G, calls, cost, R := hx.MustAtoi(f["g"]), hx.MustAtoi(f["calls"]), hx.MustAtoi(f["cost"]), hx.MustAtoi(f["rounds"])
	mode, clock, fam := f["mode"], f["clock"], f["fam"]
	return guard(id, 60*time.Second, func() string {
		rl := router.VerifC15Init(c15RouterCfg(f))
		defer rl.Close()
		cl := rl.Client()
		if cl == nil {
			return "HARNESS-ERROR no client limiter"
		}
		o := cl.VerifOpts()
		m := o.V4Mask
		if fam == "6" {
			m = o.V6Mask
			if m < 44 || m > 64 {
				return "HARNESS-ERROR limrace needs a v6 mask in 44..64"
			}
		} else if m < 16 {
			return "HARNESS-ERROR limrace needs a v4 mask >= 16"
		}
		if R < 1 || R > 4000 || G < 1 || G > 64 {
			return "HARNESS-ERROR limrace: rounds 1..4000, g 1..64"
		}
		base := time.Unix(1_800_000_000, 0)
		instant := func(j int) time.Time { return base.Add(time.Duration(j) * 61 * time.Second) }
		ctlAddr := c15RaceAddr(fam, m, 0, 1)

		// one burst of G goroutines on subnet sub at virtual time now (or on the real clock)
		burstOn := func(sub int, now time.Time, ctlCost int) (adm int64, ctl int64, el time.Duration) {
			var ready, done sync.WaitGroup
			var start uint32
			per := make([]int64, G+1)
			ready.Add(G + 1)
			done.Add(G + 1)
			for i := 0; i <= G; i++ {
				go func(i int) {
					defer done.Done()
					addr, n, k := c15RaceAddr(fam, m, sub, i+1), cost, calls
					if i == G {
						addr, n, k = ctlAddr, ctlCost, 1
					}
					ready.Done()
					for atomic.LoadUint32(&start) == 0 {
						runtime.Gosched()
					}
					for c := 0; c < k; c++ {
						ok := false
						if clock == "real" {
							ok = rl.AllowN(addr, n) == "ok"
						} else {
							ok = cl.AllowN(addr, now, n)
						}
						if ok {
							per[i] += int64(n)
						}
					}
				}(i)
			}
			ready.Wait()
			t0 := time.Now()
			atomic.StoreUint32(&start, 1)
			done.Wait()
			el = time.Since(t0)
			for i := 0; i < G; i++ {
				adm += per[i]
			}
			return adm, per[G], el
		}
		upd := func(lo, hi *int64, v int64, first bool) {
			if first || v < *lo {
				*lo = v
			}
			if first || v > *hi {
				*hi = v
			}
		}

		var lo, hi, lo2, hi2, ctl int64
		switch {
		case clock == "real":
			var worstA int64
			var worstEl time.Duration
			worstEx := -1e300
			for r := 0; r < R; r++ {
				a, _, el := burstOn(r+1, time.Time{}, 1)
				upd(&lo, &hi, a, r == 0)
				if ex := float64(a) - o.Limit*el.Seconds(); ex > worstEx {
					worstEx, worstA, worstEl = ex, a, el
				}
			}
			return fmt.Sprintf("r=%d adm=%d..%d worst=%d:%d ctl=-", R, lo, hi, worstA, worstEl.Nanoseconds())
		case mode == "fresh":
			left := o.Burst
			if left > 3 {
				left = 3
			}
			if o.Burst > left && !cl.AllowN(ctlAddr, instant(0), o.Burst-left) {
				return "HARNESS-ERROR control drain refused"
			}
			for r := 0; r < R; r++ {
				a, c, _ := burstOn(r+1, instant(0), 1)
				upd(&lo, &hi, a, r == 0)
				ctl += c
			}
			return fmt.Sprintf("r=%d adm=%d..%d ctl=%d", R, lo, hi, ctl)
		case mode == "gc":
			coll := 0
			for r := 0; r < R; r++ {
				a, c, _ := burstOn(r+1, instant(2*r), o.Burst)
				upd(&lo, &hi, a, r == 0)
				ctl += c
				cl.VerifGcNow(instant(2*r + 1))
				key := cl.VerifMask(c15RaceAddr(fam, m, r+1, 1))
				gone := true
				for _, k := range cl.VerifKeys() {
					if k == key {
						gone = false
					}
				}
				if gone {
					coll++
				}
				a, c, _ = burstOn(r+1, instant(2*r+1), o.Burst)
				upd(&lo2, &hi2, a, r == 0)
				ctl += c
			}
			return fmt.Sprintf("r=%d adm=%d..%d adm2=%d..%d coll=%d ctl=%d", R, lo, hi, lo2, hi2, coll, ctl)
		}
		return "HARNESS-ERROR bad mode"
	})
}
