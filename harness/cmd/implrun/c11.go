package main

// Kinds "matcher" and "readable" (C11): the real domain_matcher.MixMatcher / loader and the real
// dnsmsg text-form functions. Everything used is exported; no hook is needed.
//
//   matcher:  <id> mode=add  rules=<hex,hex,...|none> probes=<hex,...|none> lower=<0|1>
//             <id> mode=load text=<hex>               probes=<hex,...|none> lower=<0|1>
//        ->   A=<one 1/0 per rule: accepted?> M=<one 1/0 per probe: matched?>        (mode add)
//             L=<ok|err> M=<...>                                                      (mode load)
//        mode add calls MixMatcher.Add once per rule and goes on after a rejected rule;
//        mode load feeds the text to LoadMixMatcherFromReader (stops at the first rejected rule).
//        lower=1 applies dnsmsg.ToLowerName to (a copy of) each probe first, as the router does.
//   readable: <id> op=readable name=<hex> -> OK <hex text> | ERR
//             <id> op=parse s=<hex>       -> OK <hex name> | ERR
//             <id> op=lower name=<hex>    -> OK <hex> | ERR <hex>   (bytes after the in-place lower-casing)

import (
	"bytes"
	"fmt"
	"runtime"
	"strings"
	"sync"
	"sync/atomic"
	"time"

	"github.com/IrineSistiana/mosproxy/internal/dnsmsg"
	domainmatcher "github.com/IrineSistiana/mosproxy/internal/domain_matcher"
	"github.com/IrineSistiana/mosproxy/internal/pool"
	"github.com/IrineSistiana/mosproxy/verifharness/hx"
)

func init() {
	register("matcher", 1, runMatcher)
	register("readable", 1, runReadable)
}

func hexList(s string) ([][]byte, error) {
	if s == "none" || s == "" {
		return nil, nil
	}
	var out [][]byte
	for _, p := range strings.Split(s, ",") {
		b, err := hx.UnHex(p)
		if err != nil {
			return nil, err
		}
		out = append(out, b)
	}
	return out, nil
}

func runMatcher(id string, parts []string) string {
	f := hx.Fields(parts)
	probes, err := hexList(f["probes"])
	if err != nil {
		return "HARNESS-ERROR bad hex"
	}
	lower := f["lower"] == "1"
	return guard(id, 20*time.Second, func() string {
		var sb strings.Builder
		m := domainmatcher.NewMixMatcher()
		switch f["mode"] {
		case "load":
			text, err := hx.UnHex(f["text"])
			if err != nil {
				return "HARNESS-ERROR bad hex"
			}
			if err := domainmatcher.LoadMixMatcherFromReader(m, bytes.NewReader(text)); err != nil {
				sb.WriteString("L=err")
			} else {
				sb.WriteString("L=ok")
			}
		default:
			rules, err := hexList(f["rules"])
			if err != nil {
				return "HARNESS-ERROR bad hex"
			}
			sb.WriteString("A=")
			for _, r := range rules {
				rule := append([]byte(nil), r...)
				if err := m.Add(rule); err != nil {
					sb.WriteByte('0')
				} else {
					sb.WriteByte('1')
				}
			}
		}
		sb.WriteString(" M=")
		for _, p := range probes {
			n := append([]byte(nil), p...)
			if lower {
				dnsmsg.ToLowerName(n)
			}
			if m.Match(n) {
				sb.WriteByte('1')
			} else {
				sb.WriteByte('0')
			}
		}
		return sb.String()
	})
}

func runReadable(id string, parts []string) string {
	f := hx.Fields(parts)
	return guard(id, 10*time.Second, func() string {
		switch f["op"] {
		case "readable":
			n, err := hx.UnHex(f["name"])
			if err != nil {
				return "HARNESS-ERROR bad hex"
			}
			b, err := dnsmsg.ToReadable(n)
			if err != nil {
				return "ERR"
			}
			s := "OK " + hx.Hex(b)
			pool.ReleaseBuf(b)
			return s
		case "parse":
			s, err := hx.UnHex(f["s"])
			if err != nil {
				return "HARNESS-ERROR bad hex"
			}
			var nb dnsmsg.NameBuilder
			if err := nb.ParseReadable(s); err != nil {
				return "ERR"
			}
			return "OK " + hx.Hex(nb.Data())
		case "lower":
			n, err := hx.UnHex(f["name"])
			if err != nil {
				return "HARNESS-ERROR bad hex"
			}
			c := append([]byte(nil), n...)
			if err := dnsmsg.ToLowerName(c); err != nil {
				return "ERR " + hx.Hex(c)
			}
			return "OK " + hx.Hex(c)
		}
		return "HARNESS-ERROR bad op"
	})
}

// matchconc: <id> rules=<hex,..> probes=<hex,..> g=<goroutines> ms=<duration>
//   -> seq=<one 1/0 per probe> n=<concurrent Match calls> bad=<calls whose result differs from the sequential one>
// The matcher is built once; its sequential answers are the reference; then g goroutines call Match on the probes
// (each on a private copy of the name) for ms milliseconds on TWO processors (more goroutines than processors: the
// scheduler preempts a Match in the middle).  Match must be a pure function of the name whatever runs beside it.
func init() { register("matchconc", 1, runMatchConc) }

func runMatchConc(id string, parts []string) string {
	f := hx.Fields(parts)
	probes, err := hexList(f["probes"])
	if err != nil || len(probes) == 0 {
		return "HARNESS-ERROR bad probes"
	}
	rules, err := hexList(f["rules"])
	if err != nil {
		return "HARNESS-ERROR bad hex"
	}
	g := hx.MustAtoi(f["g"])
	dur := time.Duration(hx.MustAtoi(f["ms"])) * time.Millisecond
	return guard(id, 30*time.Second, func() string {
		m := domainmatcher.NewMixMatcher()
		for _, r := range rules {
			m.Add(append([]byte(nil), r...))
		}
		want := make([]bool, len(probes))
		var sb strings.Builder
		for i, p := range probes {
			want[i] = m.Match(append([]byte(nil), p...))
			if want[i] {
				sb.WriteByte('1')
			} else {
				sb.WriteByte('0')
			}
		}
		old := runtime.GOMAXPROCS(2)
		defer runtime.GOMAXPROCS(old)
		var calls, bad atomic.Int64
		var wg sync.WaitGroup
		stop := time.Now().Add(dur)
		for k := 0; k < g; k++ {
			wg.Add(1)
			k := k
			go func() {
				defer wg.Done()
				buf := make([]byte, 0, 300)
				for i := k; time.Now().Before(stop); i++ {
					for j := range probes {
						idx := (i + j*7 + k) % len(probes)
						buf = append(buf[:0], probes[idx]...)
						if m.Match(buf) != want[idx] {
							bad.Add(1)
						}
						calls.Add(1)
					}
				}
			}()
		}
		wg.Wait()
		return fmt.Sprintf("seq=%s n=%d bad=%d", sb.String(), calls.Load(), bad.Load())
	})
}
