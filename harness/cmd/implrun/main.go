// implrun drives the real mosproxy code (built from /repo's working tree, tag verif) on case lines
// read from stdin and prints one canonical result line per case:
//   B <id>            (announced before the case runs, so a crash is attributable)
//   R <id> <result>
package main

import (
	"bufio"
	"fmt"
	"os"
	"strings"
	"sync"
)

type caseFn func(id string, f []string) string

var kinds = map[string]struct {
	fn       caseFn
	parallel int
}{}

func register(kind string, parallel int, fn caseFn) {
	kinds[kind] = struct {
		fn       caseFn
		parallel int
	}{fn, parallel}
}

var outMu sync.Mutex
var out = bufio.NewWriterSize(os.Stdout, 1<<16)

func emit(s string) {
	outMu.Lock()
	out.WriteString(s)
	out.WriteByte('\n')
	out.Flush()
	outMu.Unlock()
}

func main() {
	// A proxy configured in the ENVIRONMENT of the process must never matter: the proxy's upstreams and listeners are
	// defined by its configuration alone.  The variables point at a port nobody listens on, so anything that honours
	// them (http.ProxyFromEnvironment) fails or shows up as a stray connection.  (Loopback hosts are never proxied by
	// net/http: the harness' own clients are unaffected.)
	for _, k := range []string{"HTTP_PROXY", "HTTPS_PROXY", "http_proxy", "https_proxy"} {
		os.Setenv(k, "http://127.0.0.1:9")
	}
	os.Unsetenv("NO_PROXY")
	os.Unsetenv("no_proxy")
	if len(os.Args) < 2 {
		fmt.Fprintln(os.Stderr, "usage: implrun <kind>")
		os.Exit(2)
	}
	k, ok := kinds[os.Args[1]]
	if !ok {
		fmt.Fprintln(os.Stderr, "unknown kind", os.Args[1])
		os.Exit(2)
	}
	sc := bufio.NewScanner(os.Stdin)
	sc.Buffer(make([]byte, 1<<20), 1<<26)
	par := k.parallel
	if par < 1 {
		par = 1
	}
	sem := make(chan struct{}, par)
	var wg sync.WaitGroup
	for sc.Scan() {
		line := strings.TrimSpace(sc.Text())
		if line == "" || line[0] == '#' {
			continue
		}
		f := strings.Fields(line)
		id := f[0]
		if par == 1 {
			emit("B " + id)
			emit("R " + id + " " + k.fn(id, f[1:]))
			continue
		}
		sem <- struct{}{}
		wg.Add(1)
		go func() {
			defer wg.Done()
			defer func() { <-sem }()
			emit("B " + id)
			emit("R " + id + " " + k.fn(id, f[1:]))
		}()
	}
	wg.Wait()
}
