package main

// C17 — peers are reached and authenticated exactly as configured.
//
// kind "addr": the unexported helpers of internal/upstream (through verif_c17.go hooks) on arbitrary byte strings.
//   case:   <id> fn=<trim|dial|rmport|split|net> a=<hex> [b=<hex> c=<hex>] [exp=<hex>]
//   result: r=<hex> | h=<hex> p=<hex> | r=tcp|unix          (PANIC! when the helper panics)
//
// kind "endpoint": the REAL upstream.NewUpstream(url, Opt{DialAddr, TLSConfig, Control}); the (network, address)
//   handed to the socket Control callback is captured (and the dial aborted there when no fake server is wanted);
//   a fake server of the scheme's protocol (DNS over udp/tcp/tls/http/https/quic/h3) on loopback records the
//   TLS SNI and the HTTP Host it sees.  The literal port 61234 in url/da stands for "the fake server's port".
//   case:   <id> url=<hex> da=<hex> listen=<none|v4|v6|unix|priv4|priv6> san=<text|-> snivis=<0|1> loop=<0|1>
//   result: new=ok net=<udp|tcp|unix> dial=<text|-> sni=<text|-> hs=<ok|fail|-> host=<text|-> hv=<1|2|3|-> x=<ok|fail>  |  new=err
//           host = r.Host of the first request the fake DoH server received (HTTP/1.1: the Host header; h2 / h3: the
//           :authority pseudo header), hv = its protocol major; h1=1 in the case makes the https server offer http/1.1 only
//
// kind "tls": a REAL router started in-process (router.VerifC17Run) from a Config whose TLS options are the case's:
//   role=up: listener tcp on an abstract unix socket, one upstream (tls/https/quic) towards a fake server that
//            presents the case's certificate kind; observable: did the client's query get the upstream's answer.
//   role=ls: a tls/https/quic listener with the case's options; a client presenting the case's certificate kind
//            (or none); observable: was the query served.
//   The process's SYSTEM trust store is the harness' own (c17pki sets SSL_CERT_FILE / SSL_CERT_DIR before crypto/x509
//   first loads it): peer kinds sysroot / sysrootwrongname chain to it and not to the configured ca.
//   case:   <id> role=<up|ls> proto=<tls|https|quic|h3(up only)> ca=<0|1> ck=<0|1> ins=<0|1> vc=<0|1> peer=<kind|absent> srvreq=<0|1>
//   result: start=<ok|err> x=<ok|fail>       (role=up)
//           start=<ok|err> served=<0|1>      (role=ls)

import (
	"bytes"
	"context"
	"crypto/ecdsa"
	"crypto/elliptic"
	"crypto/rand"
	"crypto/tls"
	"crypto/x509"
	"crypto/x509/pkix"
	"encoding/base64"
	"encoding/binary"
	"encoding/pem"
	"errors"
	"fmt"
	"io"
	"log"
	"math/big"
	"net"
	"net/http"
	"os"
	"path/filepath"
	"strconv"
	"strings"
	"sync"
	"sync/atomic"
	"syscall"
	"time"

	"github.com/IrineSistiana/mosproxy/app/router"
	"github.com/IrineSistiana/mosproxy/internal/upstream"
	"github.com/IrineSistiana/mosproxy/verifharness/hx"
	"github.com/quic-go/quic-go"
	"github.com/quic-go/quic-go/http3"
)

func init() {
	register("addr", 1, runAddr)
	register("endpoint", 8, runEndpoint)
	register("tls", 8, runTls)
}

// ------------------------------------------------------------------ kind addr

func runAddr(id string, parts []string) string {
	f := hx.Fields(parts)
	a, e1 := hx.UnHex(f["a"])
	b, e2 := hx.UnHex(f["b"])
	c, e3 := hx.UnHex(f["c"])
	if e1 != nil || e2 != nil || e3 != nil {
		return "HARNESS-ERROR bad hex"
	}
	return guard(id, 10*time.Second, func() string {
		switch f["fn"] {
		case "trim":
			return "r=" + hx.Hex([]byte(upstream.VerifTryTrimIpv6Brackets(string(a))))
		case "dial":
			return "r=" + hx.Hex([]byte(upstream.VerifGetDialAddr(string(a), string(b), string(c))))
		case "rmport":
			return "r=" + hx.Hex([]byte(upstream.VerifTryRemovePort(string(a))))
		case "split":
			h, p := upstream.VerifTrySplitHostPort(string(a))
			return "h=" + hx.Hex([]byte(h)) + " p=" + hx.Hex([]byte(p))
		case "net":
			return "r=" + upstream.VerifDialNetworkTcpOrUnix(string(a))
		}
		return "HARNESS-ERROR unknown fn"
	})
}

// ------------------------------------------------------------------ PKI of the harness

type c17PKI struct {
	dir                string
	caCert, otherCert  *x509.Certificate
	caKey, otherKey    *ecdsa.PrivateKey
	caFile             string
	caPool             *x509.CertPool
	seq                atomic.Int64
	// the process's SYSTEM trust store, under the harness' control (kinds tls / tlscfg): one "system" CA
	sysCert  *x509.Certificate
	sysKey   *ecdsa.PrivateKey
	sysPool  *x509.CertPool
	sysRoots bool // SSL_CERT_FILE / SSL_CERT_DIR point at the harness' store and crypto/x509 loaded exactly it
}

var (
	c17pkiOnce sync.Once
	c17pkiVal  *c17PKI
	c17pkiErr  error
)

func c17newCA(cn string) (*x509.Certificate, *ecdsa.PrivateKey, []byte, error) {
	key, err := ecdsa.GenerateKey(elliptic.P256(), rand.Reader)
	if err != nil {
		return nil, nil, nil, err
	}
	tmpl := &x509.Certificate{
		SerialNumber:          big.NewInt(time.Now().UnixNano()),
		Subject:               pkix.Name{CommonName: cn},
		NotBefore:             time.Now().Add(-time.Hour),
		NotAfter:              time.Now().Add(24 * time.Hour),
		KeyUsage:              x509.KeyUsageCertSign | x509.KeyUsageDigitalSignature,
		BasicConstraintsValid: true,
		IsCA:                  true,
	}
	der, err := x509.CreateCertificate(rand.Reader, tmpl, tmpl, &key.PublicKey, key)
	if err != nil {
		return nil, nil, nil, err
	}
	c, err := x509.ParseCertificate(der)
	return c, key, pem.EncodeToMemory(&pem.Block{Type: "CERTIFICATE", Bytes: der}), err
}

// c17WorkDir makes a private directory for this process under the build directory (next to the implrun binary) and
// removes the directories left by processes that no longer exist.
func c17WorkDir() (string, error) {
	exe, err := os.Executable()
	if err != nil {
		return "", err
	}
	base := filepath.Join(filepath.Dir(exe), "c17pki")
	if err := os.MkdirAll(base, 0o755); err != nil {
		return "", err
	}
	if ents, err := os.ReadDir(base); err == nil {
		for _, e := range ents {
			if pid, err := strconv.Atoi(e.Name()); err == nil && pid != os.Getpid() {
				if _, err := os.Stat(filepath.Join("/proc", e.Name())); err != nil {
					os.RemoveAll(filepath.Join(base, e.Name()))
				}
			}
		}
	}
	dir := filepath.Join(base, strconv.Itoa(os.Getpid()))
	os.RemoveAll(dir)
	return dir, os.MkdirAll(dir, 0o755)
}

// c17SysRootsKind: the kinds whose cases depend on what the process's system trust store contains.
func c17SysRootsKind() bool {
	return len(os.Args) > 1 && (os.Args[1] == "tls" || os.Args[1] == "tlscfg" || os.Args[1] == "upcfg" || os.Args[1] == "uprouter" || os.Args[1] == "uphistory")
}

// c17PoolIs: pool holds exactly the given certificates (compared by raw subject; every harness CA has its own).
func c17PoolIs(pool *x509.CertPool, certs ...*x509.Certificate) bool {
	if pool == nil {
		return false
	}
	subj := pool.Subjects() //nolint:staticcheck // harness pools are never lazily loaded system pools
	if len(subj) != len(certs) {
		return false
	}
	for _, c := range certs {
		found := false
		for _, s := range subj {
			if bytes.Equal(s, c.RawSubject) {
				found = true
			}
		}
		if !found {
			return false
		}
	}
	return true
}

func c17pki() (*c17PKI, error) {
	c17pkiOnce.Do(func() {
		p := &c17PKI{}
		dir, err := c17WorkDir()
		if err != nil {
			c17pkiErr = err
			return
		}
		p.dir = dir
		// The system trust store of THIS process: crypto/x509 loads it once, on first use, from SSL_CERT_FILE and
		// SSL_CERT_DIR.  Point both at the harness' own store before anything can have asked for it.
		var sysPEM []byte
		p.sysCert, p.sysKey, sysPEM, err = c17newCA("verif C17 system root CA")
		if err != nil {
			c17pkiErr = err
			return
		}
		p.sysPool = x509.NewCertPool()
		p.sysPool.AddCert(p.sysCert)
		if c17SysRootsKind() {
			sysFile := filepath.Join(dir, "system-roots.pem")
			sysDir := filepath.Join(dir, "system-roots.d")
			if err := os.WriteFile(sysFile, sysPEM, 0o600); err != nil {
				c17pkiErr = err
				return
			}
			if err := os.MkdirAll(sysDir, 0o755); err != nil {
				c17pkiErr = err
				return
			}
			os.Setenv("SSL_CERT_FILE", sysFile)
			os.Setenv("SSL_CERT_DIR", sysDir)
			sp, err := x509.SystemCertPool()
			if err != nil || !c17PoolIs(sp, p.sysCert) {
				c17pkiErr = fmt.Errorf("the system trust store of this process is not under the harness' control (%v)", err)
				return
			}
			p.sysRoots = true
		}
		var caPEM []byte
		p.caCert, p.caKey, caPEM, err = c17newCA("verif C17 configured CA")
		if err != nil {
			c17pkiErr = err
			return
		}
		p.otherCert, p.otherKey, _, err = c17newCA("verif C17 unknown CA")
		if err != nil {
			c17pkiErr = err
			return
		}
		p.caFile = filepath.Join(dir, "ca.pem")
		if err := os.WriteFile(p.caFile, caPEM, 0o600); err != nil {
			c17pkiErr = err
			return
		}
		p.caPool = x509.NewCertPool()
		p.caPool.AddCert(p.caCert)
		c17pkiVal = p
	})
	return c17pkiVal, c17pkiErr
}

// leaf makes a certificate of the given kind for the given name (DNS name or IP literal text).
// kinds: valid | wrongname | unknownca | expired | selfsigned | sysroot | sysrootwrongname
// (sysroot*: issued by the CA of the harness-controlled SYSTEM store, which is never the configured ca)
func (p *c17PKI) leaf(kind, name string) (tls.Certificate, []byte, []byte, error) {
	key, err := ecdsa.GenerateKey(elliptic.P256(), rand.Reader)
	if err != nil {
		return tls.Certificate{}, nil, nil, err
	}
	tmpl := &x509.Certificate{
		SerialNumber:          big.NewInt(time.Now().UnixNano() + p.seq.Add(1)),
		Subject:               pkix.Name{CommonName: "verif C17 leaf " + kind},
		NotBefore:             time.Now().Add(-time.Hour),
		NotAfter:              time.Now().Add(12 * time.Hour),
		KeyUsage:              x509.KeyUsageDigitalSignature,
		ExtKeyUsage:           []x509.ExtKeyUsage{x509.ExtKeyUsageServerAuth, x509.ExtKeyUsageClientAuth},
		BasicConstraintsValid: true,
	}
	if kind == "wrongname" || kind == "sysrootwrongname" {
		name = "wrong.invalid"
	}
	if ip := net.ParseIP(name); ip != nil {
		tmpl.IPAddresses = []net.IP{ip}
	} else {
		tmpl.DNSNames = []string{name}
	}
	parent, pkey := p.caCert, p.caKey
	switch kind {
	case "unknownca":
		parent, pkey = p.otherCert, p.otherKey
	case "sysroot", "sysrootwrongname":
		parent, pkey = p.sysCert, p.sysKey
	case "expired":
		tmpl.NotBefore = time.Now().Add(-48 * time.Hour)
		tmpl.NotAfter = time.Now().Add(-24 * time.Hour)
	case "selfsigned":
		parent, pkey = tmpl, key
	}
	der, err := x509.CreateCertificate(rand.Reader, tmpl, parent, &key.PublicKey, pkey)
	if err != nil {
		return tls.Certificate{}, nil, nil, err
	}
	kb, err := x509.MarshalPKCS8PrivateKey(key)
	if err != nil {
		return tls.Certificate{}, nil, nil, err
	}
	certPEM := pem.EncodeToMemory(&pem.Block{Type: "CERTIFICATE", Bytes: der})
	keyPEM := pem.EncodeToMemory(&pem.Block{Type: "PRIVATE KEY", Bytes: kb})
	c, err := tls.X509KeyPair(certPEM, keyPEM)
	return c, certPEM, keyPEM, err
}

// leafFiles writes the pair to files (makeTlsConfig takes paths).
func (p *c17PKI) leafFiles(kind, name string) (tls.Certificate, string, string, error) {
	c, cp, kp, err := p.leaf(kind, name)
	if err != nil {
		return c, "", "", err
	}
	n := p.seq.Add(1)
	cf := filepath.Join(p.dir, fmt.Sprintf("leaf%d.crt", n))
	kf := filepath.Join(p.dir, fmt.Sprintf("leaf%d.key", n))
	if err := os.WriteFile(cf, cp, 0o600); err != nil {
		return c, "", "", err
	}
	if err := os.WriteFile(kf, kp, 0o600); err != nil {
		return c, "", "", err
	}
	return c, cf, kf, nil
}

// ------------------------------------------------------------------ fake DNS servers of every transport

var c17mark = [4]byte{9, 9, 9, 9}

// c17Mangle, when set, rewrites every reply of the fake servers (used by the C01 "upgarbage" kind);
// returning nil means: no DNS payload (stream: close; udp: drop; http: status 500).
var c17Mangle func(q, r []byte) []byte

func c17Reply(q []byte) []byte {
	r := hx.BuildReply(q, false, 0, c17mark, 60)
	if m := c17Mangle; m != nil && r != nil {
		return m(q, r)
	}
	return r
}

var nullLogger = log.New(io.Discard, "", 0)

type c17Seen struct {
	mu      sync.Mutex
	sni     string
	sniSet  bool
	host    string
	hostSet bool
	queries int
	conns   int
	// behaviour switches of the fake servers (kind sockets)
	udpTC   bool // every UDP reply is truncated (TC=1, no answer): a udp upstream must retry over TCP
	oneShot bool // a connection serves ONE query and is closed: the next exchange has to dial again
	h1Only  bool // the https server offers http/1.1 only (no h2): the Host HEADER is observed instead of :authority
	// round 4: the HTTP request the fake DoH server received first
	httpMajor int // r.ProtoMajor (1, 2, 3)
	// round 8: EVERY request / TLS ClientHello the fake server sees, and an optional non-200 first answer
	hosts     []string // r.Host of every HTTP request, in order
	snis      []string // server name of every ClientHello, in order
	redirCode int      // when != 0: the FIRST HTTP request is answered with this status ...
	redirLoc  string   // ... and this Location header (when not empty)
}

func (s *c17Seen) noteSNI(n string) {
	s.mu.Lock()
	s.snis = append(s.snis, n)
	if !s.sniSet || s.sni == "" {
		s.sni, s.sniSet = n, true
	}
	s.mu.Unlock()
}
func (s *c17Seen) noteHost(h string) {
	s.mu.Lock()
	if !s.hostSet {
		s.host, s.hostSet = h, true
	}
	s.mu.Unlock()
}
func (s *c17Seen) noteRequest(r *http.Request) {
	s.mu.Lock()
	if !s.hostSet {
		s.host, s.hostSet = r.Host, true
		s.httpMajor = r.ProtoMajor
	}
	s.mu.Unlock()
}
func (s *c17Seen) noteQuery() { s.mu.Lock(); s.queries++; s.mu.Unlock() }
func (s *c17Seen) noteConn()  { s.mu.Lock(); s.conns++; s.mu.Unlock() }

func c17ServeStream(c io.ReadWriter, seen *c17Seen) {
	for {
		var h [2]byte
		if _, err := io.ReadFull(c, h[:]); err != nil {
			return
		}
		q := make([]byte, binary.BigEndian.Uint16(h[:]))
		if _, err := io.ReadFull(c, q); err != nil {
			return
		}
		seen.noteQuery()
		r := c17Reply(q)
		if r == nil {
			return
		}
		out := binary.BigEndian.AppendUint16(nil, uint16(len(r)))
		if _, err := c.Write(append(out, r...)); err != nil {
			return
		}
		if seen.oneShot {
			return
		}
	}
}

func c17ServeTCP(l net.Listener, seen *c17Seen) {
	for {
		c, err := l.Accept()
		if err != nil {
			return
		}
		seen.noteConn()
		go func() {
			defer c.Close()
			c.SetDeadline(time.Now().Add(5 * time.Second))
			c17ServeStream(c, seen)
		}()
	}
}

func c17ServeUDP(pc net.PacketConn, seen *c17Seen) {
	buf := make([]byte, 4096)
	for {
		n, addr, err := pc.ReadFrom(buf)
		if err != nil {
			return
		}
		seen.noteConn()
		seen.noteQuery()
		if seen.udpTC {
			if r := hx.BuildReply(append([]byte(nil), buf[:n]...), true, 0, c17mark, 60); r != nil {
				if qe := hx.QuestionEnd(r); qe > 0 && qe <= len(r) {
					r = r[:qe] // header + question only
					r[6], r[7] = 0, 0
				}
				pc.WriteTo(r, addr)
			}
			continue
		}
		if r := c17Reply(append([]byte(nil), buf[:n]...)); r != nil {
			pc.WriteTo(r, addr)
		}
	}
}

// c17CountListener counts the accepted connections (seen.conns)
type c17CountListener struct {
	net.Listener
	seen *c17Seen
}

func (l c17CountListener) Accept() (net.Conn, error) {
	c, err := l.Listener.Accept()
	if err == nil {
		l.seen.noteConn()
	}
	return c, err
}

type c17DoH struct{ seen *c17Seen }

func (h c17DoH) ServeHTTP(w http.ResponseWriter, r *http.Request) {
	h.seen.mu.Lock()
	first := len(h.seen.hosts) == 0
	h.seen.hosts = append(h.seen.hosts, r.Host)
	code, loc := h.seen.redirCode, h.seen.redirLoc
	h.seen.mu.Unlock()
	h.seen.noteRequest(r)
	if code != 0 && first {
		h.seen.noteQuery()
		if loc != "" {
			w.Header().Set("Location", loc)
		}
		w.WriteHeader(code)
		return
	}
	var q []byte
	if r.Method == http.MethodGet {
		q, _ = base64.RawURLEncoding.DecodeString(r.URL.Query().Get("dns"))
	} else {
		q, _ = io.ReadAll(io.LimitReader(r.Body, 65535))
	}
	h.seen.noteQuery()
	resp := c17Reply(q)
	if resp == nil {
		w.WriteHeader(500)
		return
	}
	w.Header().Set("Content-Type", "application/dns-message")
	w.Write(resp)
	if h.seen.oneShot && r.ProtoMajor == 3 {
		// http3.Server has no per-request way to end the connection: drop the whole QUIC connection after the reply has
		// drained (as c17ServeDoQ does), so that the next exchange has to dial again
		if hj, ok := w.(http3.Hijacker); ok {
			if c, ok := hj.StreamCreator().(interface {
				CloseWithError(quic.ApplicationErrorCode, string) error
			}); ok {
				time.AfterFunc(60*time.Millisecond, func() { c.CloseWithError(0, "") })
			}
		}
	}
}

func c17ServeDoQ(l *quic.Listener, seen *c17Seen) {
	for {
		c, err := l.Accept(context.Background())
		if err != nil {
			return
		}
		seen.noteConn()
		go func() {
			for {
				s, err := c.AcceptStream(context.Background())
				if err != nil {
					return
				}
				go func() {
					c17ServeStream(s, seen)
					s.Close()
					if seen.oneShot {
						// let the reply drain, then drop the whole connection
						time.AfterFunc(60*time.Millisecond, func() { c.CloseWithError(0, "") })
					}
				}()
			}
		}()
	}
}

// serverTLS builds the fake server's tls.Config: presents cert, records SNI, optionally demands a client cert.
func c17ServerTLS(cert tls.Certificate, seen *c17Seen, protos []string, clientCAs *x509.CertPool) *tls.Config {
	base := &tls.Config{Certificates: []tls.Certificate{cert}, NextProtos: protos}
	if clientCAs != nil {
		base.ClientAuth = tls.RequireAndVerifyClientCert
		base.ClientCAs = clientCAs
	}
	outer := base.Clone()
	outer.GetConfigForClient = func(chi *tls.ClientHelloInfo) (*tls.Config, error) {
		seen.noteSNI(chi.ServerName)
		return nil, nil
	}
	return outer
}

// c17StartServer starts the fake server for scheme sc ("udp","tcp","tls","http","https","quic","h3") on laddr
// (network "tcp"/"udp"/"unix" decided from sc and laddr). Returns the bound address text and a closer.
func c17StartServer(sc, laddr string, cert *tls.Certificate, seen *c17Seen, clientCAs *x509.CertPool) (string, func(), error) {
	netw := "tcp"
	if strings.HasPrefix(laddr, "@") {
		netw = "unix"
	}
	switch sc {
	case "udp":
		// the udp scheme falls back to tcp on the same address: serve both (C16)
		for i := 0; i < 30; i++ {
			tl, err := net.Listen("tcp", laddr)
			if err != nil {
				return "", nil, err
			}
			pc, err := net.ListenPacket("udp", tl.Addr().String())
			if err != nil {
				tl.Close()
				continue
			}
			go c17ServeTCP(tl, seen)
			go c17ServeUDP(pc, seen)
			return tl.Addr().String(), func() { tl.Close(); pc.Close() }, nil
		}
		return "", nil, errors.New("no udp+tcp pair")
	case "tcp":
		l, err := net.Listen(netw, laddr)
		if err != nil {
			return "", nil, err
		}
		go c17ServeTCP(l, seen)
		return l.Addr().String(), func() { l.Close() }, nil
	case "tls":
		l, err := net.Listen(netw, laddr)
		if err != nil {
			return "", nil, err
		}
		tl := tls.NewListener(l, c17ServerTLS(*cert, seen, nil, clientCAs))
		go c17ServeTCP(tl, seen)
		return l.Addr().String(), func() { l.Close() }, nil
	case "http", "https":
		l, err := net.Listen(netw, laddr)
		if err != nil {
			return "", nil, err
		}
		l = c17CountListener{l, seen}
		hs := &http.Server{Handler: c17DoH{seen}, ReadTimeout: 5 * time.Second, ErrorLog: nullLogger}
		if seen.oneShot {
			hs.SetKeepAlivesEnabled(false)
		}
		if sc == "https" {
			protos := []string{"h2", "http/1.1"}
			if seen.h1Only {
				protos = []string{"http/1.1"}
			}
			hs.TLSConfig = c17ServerTLS(*cert, seen, protos, clientCAs)
			go hs.ServeTLS(l, "", "")
		} else {
			go hs.Serve(l)
		}
		return l.Addr().String(), func() { hs.Close(); l.Close() }, nil
	case "quic":
		pc, err := net.ListenPacket("udp", laddr)
		if err != nil {
			return "", nil, err
		}
		tr := &quic.Transport{Conn: pc}
		ql, err := tr.Listen(c17ServerTLS(*cert, seen, []string{"doq"}, clientCAs), &quic.Config{MaxIdleTimeout: 5 * time.Second})
		if err != nil {
			pc.Close()
			return "", nil, err
		}
		go c17ServeDoQ(ql, seen)
		return pc.LocalAddr().String(), func() { ql.Close(); tr.Close(); pc.Close() }, nil
	case "h3":
		pc, err := net.ListenPacket("udp", laddr)
		if err != nil {
			return "", nil, err
		}
		h3 := &http3.Server{
			TLSConfig:  http3.ConfigureTLSConfig(c17ServerTLS(*cert, seen, nil, clientCAs)),
			Handler:    c17DoH{seen},
			QuicConfig: &quic.Config{MaxIdleTimeout: 5 * time.Second},
		}
		go h3.Serve(pc)
		return pc.LocalAddr().String(), func() { h3.Close(); pc.Close() }, nil
	}
	return "", nil, errors.New("unknown scheme " + sc)
}

// privileged (default) ports are shared by every process on the machine: serialise
var c17privMu sync.Mutex

func c17LockPriv() func() {
	c17privMu.Lock()
	f, err := os.OpenFile(filepath.Join(os.TempDir(), "verif-c17-privport.lock"), os.O_CREATE|os.O_RDWR, 0o666)
	if err == nil {
		syscall.Flock(int(f.Fd()), syscall.LOCK_EX)
	}
	return func() {
		if err == nil {
			syscall.Flock(int(f.Fd()), syscall.LOCK_UN)
			f.Close()
		}
		c17privMu.Unlock()
	}
}

// ------------------------------------------------------------------ kind endpoint

const c17PortToken = "61234"

var c17unixSeq atomic.Int64

var errC17Abort = errors.New("verif: dial aborted by the harness after recording it")

func c17BaseScheme(url string) string {
	i := strings.Index(url, "://")
	if i < 0 {
		return "udp"
	}
	s := strings.ToLower(url[:i])
	s = strings.TrimSuffix(s, "+pipeline")
	if s == "doq" {
		s = "quic"
	}
	return s
}

func c17DefaultPort(sc string) string {
	switch sc {
	case "udp", "tcp":
		return "53"
	case "tls", "quic":
		return "853"
	case "http":
		return "80"
	}
	return "443"
}

func runEndpoint(id string, parts []string) string {
	f := hx.Fields(parts)
	ub, e1 := hx.UnHex(f["url"])
	db, e2 := hx.UnHex(f["da"])
	if e1 != nil || e2 != nil {
		return "HARNESS-ERROR bad hex"
	}
	return guard(id, 30*time.Second, func() string { return endpointCase(f, string(ub), string(db)) })
}

func endpointCase(f map[string]string, url, da string) string {
	pki, err := c17pki()
	if err != nil {
		return "HARNESS-ERROR pki " + err.Error()
	}
	sc := c17BaseScheme(url)
	listen := f["listen"]
	seen := &c17Seen{h1Only: f["h1"] == "1"}
	var cert *tls.Certificate
	usesTLS := sc == "tls" || sc == "https" || sc == "quic" || sc == "h3"
	if usesTLS && listen != "none" {
		c, _, _, err := pki.leaf("valid", f["san"])
		if err != nil {
			return "HARNESS-ERROR leaf " + err.Error()
		}
		cert = &c
	}
	port := ""
	unixName := ""
	var closeSrv func()
	switch listen {
	case "none":
	case "v4", "v6", "priv4", "priv6":
		ip := "127.0.0.1"
		if strings.HasSuffix(listen, "6") {
			ip = "::1"
		}
		p := "0"
		if strings.HasPrefix(listen, "priv") {
			p = c17DefaultPort(sc)
			unlock := c17LockPriv()
			defer unlock()
		}
		addr, cl, err := c17StartServer(sc, net.JoinHostPort(ip, p), cert, seen, nil)
		if err != nil {
			return "HARNESS-ERROR listen " + err.Error()
		}
		closeSrv = cl
		_, port, _ = net.SplitHostPort(addr)
	case "unix":
		unixName = fmt.Sprintf("@verif-c17-%d-%d", os.Getpid(), c17unixSeq.Add(1))
		_, cl, err := c17StartServer(sc, unixName, cert, seen, nil)
		if err != nil {
			return "HARNESS-ERROR listen " + err.Error()
		}
		closeSrv = cl
	default:
		return "HARNESS-ERROR bad listen"
	}
	if closeSrv != nil {
		defer closeSrv()
	}
	subst := func(s string) string {
		if port != "" && !strings.HasPrefix(listen, "priv") {
			s = strings.ReplaceAll(s, c17PortToken, port)
		}
		if unixName != "" {
			s = strings.ReplaceAll(s, "@U", unixName)
		}
		return s
	}
	unsubst := func(s string) string {
		if port != "" && !strings.HasPrefix(listen, "priv") && strings.HasSuffix(s, ":"+port) {
			s = strings.TrimSuffix(s, port) + c17PortToken
		}
		if unixName != "" {
			s = strings.ReplaceAll(s, unixName, "@U")
		}
		return s
	}

	var cmu sync.Mutex
	type dialRec struct{ network, address string }
	var dials []dialRec
	control := func(network, address string, _ syscall.RawConn) error {
		// quic/h3 open their local socket through ListenConfig: address is the (empty / wildcard) local one
		if _, p, err := net.SplitHostPort(address); network != "unix" && (err != nil || p == "0" || p == "") {
			return nil
		}
		cmu.Lock()
		dials = append(dials, dialRec{network, address})
		cmu.Unlock()
		if listen == "none" {
			return errC17Abort
		}
		return nil
	}

	u, err := upstream.NewUpstream(subst(url), upstream.Opt{
		DialAddr:    subst(da),
		TLSConfig:   &tls.Config{RootCAs: pki.caPool},
		Control:     control,
		DialTimeout: 2 * time.Second,
	})
	if err != nil {
		return "new=err"
	}
	if sc != "h3" { // DoHTransport.Close recurses for ever when an extra closer exists (C18 D12): never call it for h3
		defer u.Close()
	}
	q := hx.BuildQuery(0x1717, []byte("\x04c17q\x04test"), 1, 1, true)
	ctx, cancel := context.WithTimeout(context.Background(), 2500*time.Millisecond)
	resp, xerr := u.ExchangeContext(ctx, q)
	cancel()
	x := "fail"
	if xerr == nil && resp != nil && len(resp.Answers) == 1 {
		x = "ok"
	}

	quicLike := sc == "quic" || sc == "h3"
	cmu.Lock()
	netwOut, dialOut := "-", "-"
	if len(dials) > 0 {
		d := dials[0]
		switch {
		case strings.HasPrefix(d.network, "udp"):
			netwOut = "udp"
		case strings.HasPrefix(d.network, "tcp"):
			netwOut = "tcp"
		default:
			netwOut = d.network
		}
		dialOut = unsubst(d.address)
		if f["loop"] == "1" {
			// a name was dialled: every attempt must be to a loopback address with one port
			_, p0, _ := net.SplitHostPort(d.address)
			okLoop := true
			for _, dd := range dials {
				h, p, err := net.SplitHostPort(dd.address)
				ip := net.ParseIP(h)
				if err != nil || ip == nil || !ip.IsLoopback() || p != p0 {
					okLoop = false
				}
			}
			if okLoop {
				dialOut = unsubst("localhost:" + p0)
			}
		}
	}
	cmu.Unlock()
	seen.mu.Lock()
	defer seen.mu.Unlock()
	if quicLike {
		// no Control callback on the quic dial path: the target is observed as "a connection arrived at the
		// fake server listening exactly there"
		netwOut = "udp"
		if listen != "none" && (seen.conns > 0 || seen.queries > 0 || seen.sniSet) {
			ip := "127.0.0.1"
			if strings.HasSuffix(listen, "6") {
				ip = "::1"
			}
			p := c17PortToken
			if strings.HasPrefix(listen, "priv") {
				p = c17DefaultPort(sc)
			}
			dialOut = net.JoinHostPort(ip, p)
			if f["loop"] == "1" {
				dialOut = "localhost:" + p
			}
		}
	}
	sni, hs, host := "-", "-", "-"
	if listen != "none" && usesTLS {
		hs = "fail"
		if x == "ok" {
			hs = "ok"
		}
		if f["snivis"] == "1" && seen.sniSet && seen.sni != "" {
			sni = seen.sni
		}
	}
	hv := "-"
	if listen != "none" && (sc == "http" || sc == "https" || sc == "h3") && seen.hostSet {
		host = unsubst(seen.host)
		hv = strconv.Itoa(seen.httpMajor)
	}
	return fmt.Sprintf("new=ok net=%s dial=%s sni=%s hs=%s host=%s hv=%s x=%s", netwOut, dialOut, sni, hs, host, hv, x)
}

// ------------------------------------------------------------------ kind tls

func c17FreePort(network string) (int, error) {
	if network == "udp" {
		pc, err := net.ListenPacket("udp", "127.0.0.1:0")
		if err != nil {
			return 0, err
		}
		defer pc.Close()
		return pc.LocalAddr().(*net.UDPAddr).Port, nil
	}
	l, err := net.Listen("tcp", "127.0.0.1:0")
	if err != nil {
		return 0, err
	}
	defer l.Close()
	return l.Addr().(*net.TCPAddr).Port, nil
}

func c17StreamQuery(c net.Conn) bool {
	q := hx.BuildQuery(0x1718, []byte("\x04c17t\x04test"), 1, 1, true)
	out := binary.BigEndian.AppendUint16(nil, uint16(len(q)))
	c.SetDeadline(time.Now().Add(3 * time.Second))
	if _, err := c.Write(append(out, q...)); err != nil {
		return false
	}
	var h [2]byte
	if _, err := io.ReadFull(c, h[:]); err != nil {
		return false
	}
	r := make([]byte, binary.BigEndian.Uint16(h[:]))
	if _, err := io.ReadFull(c, r); err != nil {
		return false
	}
	// the fake upstream's answer carries the mark
	return len(r) >= 12 && r[0] == 0x17 && r[1] == 0x18 && r[2]&0x80 != 0 && bytes.Contains(r, c17mark[:]) && r[3]&0x0f == 0
}

func runTls(id string, parts []string) string {
	f := hx.Fields(parts)
	return guard(id, 40*time.Second, func() string {
		if f["role"] == "up" {
			return tlsUpstreamCase(f)
		}
		return tlsListenerCase(f)
	})
}

func c17TlsOpts(f map[string]string, pki *c17PKI, certName string) (router.TlsConfig, error) {
	var t router.TlsConfig
	if f["ca"] == "1" {
		t.CA = pki.caFile
	}
	if f["ck"] == "1" {
		_, cf, kf, err := pki.leafFiles("valid", certName)
		if err != nil {
			return t, err
		}
		t.Cert, t.Key = cf, kf
	}
	t.InsecureSkipVerify = f["ins"] == "1"
	t.VerifyClientCert = f["vc"] == "1"
	return t, nil
}

// c17RunRouter starts the real router. On the pinned tree a listener that fails to start makes run() call a nil
// closer (C18 / D13): for C17 that is "the listener did not start", so a panic during start-up is folded into err.
func c17RunRouter(cfg *router.Config) (closer func(), err error) {
	defer func() {
		if r := recover(); r != nil {
			closer, err = nil, fmt.Errorf("panic during start-up: %v", r)
		}
	}()
	return router.VerifC17Run(cfg)
}

func tlsUpstreamCase(f map[string]string) string {
	pki, err := c17pki()
	if err != nil {
		return "HARNESS-ERROR pki " + err.Error()
	}
	proto := f["proto"]
	seen := &c17Seen{}
	cert, _, _, err := pki.leaf(f["peer"], "localhost")
	if err != nil {
		return "HARNESS-ERROR leaf " + err.Error()
	}
	var clientCAs *x509.CertPool
	if f["srvreq"] == "1" {
		clientCAs = pki.caPool
	}
	addr, closeSrv, err := c17StartServer(proto, "127.0.0.1:0", &cert, seen, clientCAs)
	if err != nil {
		return "HARNESS-ERROR listen " + err.Error()
	}
	defer closeSrv()
	_, port, _ := net.SplitHostPort(addr)
	topts, err := c17TlsOpts(f, pki, "client.test")
	if err != nil {
		return "HARNESS-ERROR leaf " + err.Error()
	}
	uurl := proto + "://localhost:" + port
	if proto == "https" || proto == "h3" {
		uurl += "/dns-query"
	}
	lname := fmt.Sprintf("@verif-c17-%d-%d", os.Getpid(), c17unixSeq.Add(1))
	cfg := &router.Config{
		Servers:   []router.ServerConfig{{Tag: "in", Protocol: "tcp", Listen: lname}},
		Upstreams: []router.UpstreamConfig{{Tag: "u", Addr: uurl, DialAddr: "127.0.0.1:" + port, Tls: topts}},
		Rules:     []router.RuleConfig{{Forward: "u"}},
	}
	closeRouter, err := c17RunRouter(cfg)
	if err != nil {
		return "start=err x=fail"
	}
	defer closeRouter()
	c, err := net.DialTimeout("unix", lname, 2*time.Second)
	if err != nil {
		return "HARNESS-ERROR dial router " + err.Error()
	}
	defer c.Close()
	if c17StreamQuery(c) {
		return "start=ok x=ok"
	}
	return "start=ok x=fail"
}

// c17ProbeListener sends one query to a listener of the router (tls / https on an abstract unix socket, quic on a
// loopback udp port) with the client credentials of ccfg; served = the marked answer came back.
func c17ProbeListener(proto, lname string, ccfg *tls.Config) (served bool, herr string) {
	switch proto {
	case "tls":
		raw, err := net.DialTimeout("unix", lname, 2*time.Second)
		if err != nil {
			return false, "HARNESS-ERROR dial router " + err.Error()
		}
		tc := tls.Client(raw, ccfg)
		defer tc.Close()
		tc.SetDeadline(time.Now().Add(3 * time.Second))
		if err := tc.Handshake(); err == nil {
			served = c17StreamQuery(tc)
		}
	case "https":
		ccfg.NextProtos = []string{"h2", "http/1.1"}
		tr := &http.Transport{
			DialContext: func(ctx context.Context, _, _ string) (net.Conn, error) {
				return (&net.Dialer{}).DialContext(ctx, "unix", lname)
			},
			TLSClientConfig:   ccfg,
			ForceAttemptHTTP2: true,
		}
		defer tr.CloseIdleConnections()
		q := hx.BuildQuery(0, []byte("\x04c17t\x04test"), 1, 1, true)
		ctx, cancel := context.WithTimeout(context.Background(), 3*time.Second)
		req, _ := http.NewRequestWithContext(ctx, http.MethodGet,
			"https://localhost/dns-query?dns="+base64.RawURLEncoding.EncodeToString(q), nil)
		req.Header.Set("Accept", "application/dns-message")
		resp, err := tr.RoundTrip(req)
		if err == nil {
			body, _ := io.ReadAll(io.LimitReader(resp.Body, 65535))
			resp.Body.Close()
			served = resp.StatusCode == 200 && bytes.Contains(body, c17mark[:])
		}
		cancel()
	case "quic":
		ccfg.NextProtos = []string{"doq"}
		ctx, cancel := context.WithTimeout(context.Background(), 3*time.Second)
		qc, err := quic.DialAddr(ctx, lname, ccfg, &quic.Config{HandshakeIdleTimeout: 2 * time.Second})
		if err == nil {
			s, err := qc.OpenStreamSync(ctx)
			if err == nil {
				q := hx.BuildQuery(0, []byte("\x04c17t\x04test"), 1, 1, true)
				out := binary.BigEndian.AppendUint16(nil, uint16(len(q)))
				s.SetDeadline(time.Now().Add(3 * time.Second))
				if _, err := s.Write(append(out, q...)); err == nil {
					s.Close()
					r, _ := io.ReadAll(io.LimitReader(s, 65535))
					served = bytes.Contains(r, c17mark[:])
				}
			}
			qc.CloseWithError(0, "")
		}
		cancel()
	default:
		return false, "HARNESS-ERROR bad proto"
	}
	return served, ""
}

func tlsListenerCase(f map[string]string) string {
	pki, err := c17pki()
	if err != nil {
		return "HARNESS-ERROR pki " + err.Error()
	}
	proto := f["proto"]
	// fake plain upstream the router forwards to
	useen := &c17Seen{}
	uaddr, closeUp, err := c17StartServer("udp", "127.0.0.1:0", nil, useen, nil)
	if err != nil {
		return "HARNESS-ERROR listen " + err.Error()
	}
	defer closeUp()
	topts, err := c17TlsOpts(f, pki, "localhost")
	if err != nil {
		return "HARNESS-ERROR leaf " + err.Error()
	}
	// client credentials
	ccfg := &tls.Config{RootCAs: pki.caPool, ServerName: "localhost"}
	if f["peer"] != "absent" {
		cc, _, _, err := pki.leaf(f["peer"], "client.test")
		if err != nil {
			return "HARNESS-ERROR leaf " + err.Error()
		}
		// present it even when the server's CA list would not select it
		ccfg.GetClientCertificate = func(*tls.CertificateRequestInfo) (*tls.Certificate, error) { return &cc, nil }
	}
	var lname string
	var closeRouter func()
	for attempt := 0; ; attempt++ {
		if proto == "quic" {
			p, err := c17FreePort("udp")
			if err != nil {
				return "HARNESS-ERROR port " + err.Error()
			}
			lname = "127.0.0.1:" + strconv.Itoa(p)
		} else {
			lname = fmt.Sprintf("@verif-c17-%d-%d", os.Getpid(), c17unixSeq.Add(1))
		}
		cfg := &router.Config{
			Servers:   []router.ServerConfig{{Tag: "in", Protocol: proto, Listen: lname, Tls: topts}},
			Upstreams: []router.UpstreamConfig{{Tag: "u", Addr: "udp://" + uaddr}},
			Rules:     []router.RuleConfig{{Forward: "u"}},
		}
		closeRouter, err = c17RunRouter(cfg)
		if err != nil {
			if proto == "quic" && attempt < 5 && strings.Contains(err.Error(), "address already in use") {
				continue
			}
			return "start=err served=0"
		}
		break
	}
	defer closeRouter()

	served, herr := c17ProbeListener(proto, lname, ccfg)
	if herr != "" {
		return herr
	}
	// a query that reached the fake upstream was served even if the answer got lost
	useen.mu.Lock()
	if useen.queries > 0 {
		served = true
	}
	useen.mu.Unlock()
	if served {
		return "start=ok served=1"
	}
	return "start=ok served=0"
}
