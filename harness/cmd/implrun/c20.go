package main

// Kind "ownership" (C20): deterministic replays of the release/use orderings of the transports that hand a
// pooled buffer to a second goroutine, with the pool's poison/quarantine hook enabled.
//
//   case:   <id> sc=<reuse|quic|pipeline> sched=<name> mode=<poison|onep> seed=<n> [race=1]
//   result: viol=<0|1> wire=<own|poison|foreign|other|none>[,..] ret=<ok|err>[,..] ev=<event kinds|-> [race=<n>]
//
// The peers are fake connections whose Write blocks on a gate the harness controls (a real socket write can
// block exactly like that when the send buffer is full) and that record a COPY of what Write was given at
// the moment the gate opens, i.e. the octets that would go on the wire.
//
//   mode=poison : pool.VerifPoison(true): a released buffer is filled with 0xDB and quarantined.
//   mode=onep   : hook off, GOMAXPROCS(1): after the caller returned, the harness (playing "another request")
//                 takes a buffer of the same size class from the pool and fills it with 0x5A; with one P the
//                 sync.Pool hands back the array that was just released.
//
// The hook and the race detector are the SEARCH for a failing schedule; the proof is coq/Props/C20.v.

import (
	"bytes"
	"context"
	"encoding/binary"
	"errors"
	"fmt"
	"io"
	"math/rand"
	"net"
	"os"
	"os/exec"
	"path/filepath"
	"runtime"
	"sort"
	"strings"
	"sync"
	"time"

	"github.com/IrineSistiana/mosproxy/internal/dnsmsg"
	"github.com/IrineSistiana/mosproxy/internal/pool"
	"github.com/IrineSistiana/mosproxy/internal/upstream/transport"
	"github.com/IrineSistiana/mosproxy/verifharness/hx"
	"github.com/quic-go/quic-go"
)

func init() {
	register("ownership", 1, runOwnership)
}

const (
	c20Poison  = pool.VerifPoisonByte
	c20Foreign = 0x5A
)

// ---------------------------------------------------------------- gated fake peers

type gate struct {
	once sync.Once
	ch   chan struct{}
}

func newGate(open bool) *gate {
	g := &gate{ch: make(chan struct{})}
	if open {
		g.open()
	}
	return g
}
func (g *gate) open() { g.once.Do(func() { close(g.ch) }) }

// gatedConn is a net.Conn (and, wrapped, a quic.Stream) driven by the harness.
type gatedConn struct {
	mu       sync.Mutex
	wgate    *gate         // Write waits for it
	entered  chan struct{} // closed when the first Write has been entered
	enterOne sync.Once
	closeOne sync.Once
	written  [][]byte      // copies of what each Write saw when it was allowed to proceed
	wrote    chan struct{} // one token per completed Write
	failW    bool          // Write returns an error (after the gate)
	rbuf     bytes.Buffer
	rcond    *sync.Cond
	closed   bool
	rerr     error // Read fails with this error once the buffered octets are consumed (reset inside a frame)
	closedCh chan struct{}
	wcancel  *gate // QUIC CancelWrite: a blocked or later Write fails without touching its argument
}

func newGatedConn(gateOpen bool) *gatedConn {
	c := &gatedConn{wgate: newGate(gateOpen), entered: make(chan struct{}), wrote: make(chan struct{}, 64),
		closedCh: make(chan struct{}), wcancel: newGate(false)}
	c.rcond = sync.NewCond(&c.mu)
	return c
}

func (c *gatedConn) Write(p []byte) (int, error) {
	c.enterOne.Do(func() { close(c.entered) })
	select {
	case <-c.wcancel.ch:
		return 0, errors.New("gatedConn: write cancelled")
	default:
	}
	select {
	case <-c.wgate.ch:
	case <-c.closedCh:
		return 0, net.ErrClosed
	case <-c.wcancel.ch:
		return 0, errors.New("gatedConn: write cancelled")
	}
	c.mu.Lock()
	if c.failW {
		c.mu.Unlock()
		return 0, errors.New("gatedConn: scripted write error")
	}
	c.written = append(c.written, append([]byte(nil), p...)) // <- the read of the caller's slice
	c.mu.Unlock()
	c.wrote <- struct{}{}
	return len(p), nil
}

func (c *gatedConn) Read(p []byte) (int, error) {
	c.mu.Lock()
	defer c.mu.Unlock()
	for c.rbuf.Len() == 0 && !c.closed && c.rerr == nil {
		c.rcond.Wait()
	}
	if c.rbuf.Len() == 0 {
		if c.rerr != nil {
			return 0, c.rerr
		}
		return 0, io.EOF
	}
	return c.rbuf.Read(p)
}

// feed makes bytes readable (a reply from the peer).
func (c *gatedConn) feed(b []byte) {
	c.mu.Lock()
	c.rbuf.Write(b)
	c.mu.Unlock()
	c.rcond.Broadcast()
}

// failRead makes Read return err as soon as the octets fed so far are consumed.
func (c *gatedConn) failRead(err error) {
	c.mu.Lock()
	c.rerr = err
	c.mu.Unlock()
	c.rcond.Broadcast()
}

func (c *gatedConn) Close() error {
	c.mu.Lock()
	c.closed = true
	c.mu.Unlock()
	c.closeOne.Do(func() { close(c.closedCh) })
	c.rcond.Broadcast()
	return nil
}

func (c *gatedConn) wire() [][]byte {
	c.mu.Lock()
	defer c.mu.Unlock()
	return append([][]byte(nil), c.written...)
}

type fakeAddr struct{}

func (fakeAddr) Network() string { return "fake" }
func (fakeAddr) String() string  { return "fake:0" }

func (c *gatedConn) LocalAddr() net.Addr                { return fakeAddr{} }
func (c *gatedConn) RemoteAddr() net.Addr               { return fakeAddr{} }
func (c *gatedConn) SetDeadline(t time.Time) error      { return nil }
func (c *gatedConn) SetReadDeadline(t time.Time) error  { return nil }
func (c *gatedConn) SetWriteDeadline(t time.Time) error { return nil }

// fake QUIC stream / connection around a gatedConn
type fakeQStream struct {
	*gatedConn
	ctx context.Context
}

func (s *fakeQStream) StreamID() quic.StreamID { return 0 }

// quic-go: CancelRead unblocks Read; CancelWrite makes a blocked Write return an error, and (all under the
// stream mutex) nothing reads the argument of Write afterwards. The fake keeps exactly that contract.
func (s *fakeQStream) CancelRead(quic.StreamErrorCode) {
	s.gatedConn.mu.Lock()
	s.gatedConn.closed = true
	s.gatedConn.mu.Unlock()
	s.gatedConn.rcond.Broadcast()
}
func (s *fakeQStream) CancelWrite(quic.StreamErrorCode) { s.gatedConn.wcancel.open() }
func (s *fakeQStream) Context() context.Context         { return s.ctx }
func (s *fakeQStream) Close() error                     { return nil } // STREAM FIN: reading stays possible

type fakeQConn struct {
	quic.Connection // nil: every method the transport does not use panics
	ctx             context.Context
	cancel          context.CancelFunc
	mu              sync.Mutex
	next            func() *gatedConn
	streams         []*gatedConn
}

func (c *fakeQConn) OpenStream() (quic.Stream, error) {
	g := c.next()
	c.mu.Lock()
	c.streams = append(c.streams, g)
	c.mu.Unlock()
	return &fakeQStream{gatedConn: g, ctx: c.ctx}, nil
}
func (c *fakeQConn) Context() context.Context { return c.ctx }
func (c *fakeQConn) CloseWithError(quic.ApplicationErrorCode, string) error {
	c.cancel()
	return nil
}
func (c *fakeQConn) LocalAddr() net.Addr  { return fakeAddr{} }
func (c *fakeQConn) RemoteAddr() net.Addr { return fakeAddr{} }

// ---------------------------------------------------------------- helpers

func c20Query(rng *rand.Rand, id uint16) ([]byte, []byte) {
	nl := 1 + rng.Intn(4)
	var name []byte
	for i := 0; i < nl; i++ {
		l := 1 + rng.Intn(20)
		name = append(name, byte(l))
		for j := 0; j < l; j++ {
			name = append(name, byte('a'+rng.Intn(26)))
		}
	}
	return hx.BuildQuery(id, name, uint16(1+rng.Intn(40)), 1, true), name
}

// frame = 2-octet length + msg
func c20Frame(m []byte) []byte {
	return append(binary.BigEndian.AppendUint16(nil, uint16(len(m))), m...)
}

// classify what went on the wire against the caller's own query (framed, ids as the transport sends them)
func c20Classify(w []byte, ownFramed []byte, idOff int) string {
	if len(w) == 0 {
		return "none"
	}
	all := func(v byte) bool {
		for _, c := range w {
			if c != v {
				return false
			}
		}
		return true
	}
	if all(c20Poison) {
		return "poison"
	}
	if all(c20Foreign) {
		return "foreign"
	}
	if len(w) == len(ownFramed) {
		a := append([]byte(nil), w...)
		b := append([]byte(nil), ownFramed...)
		if idOff >= 0 && idOff+2 <= len(a) { // the transport rewrites the id (pipeline qid, DoQ zero id)
			a[idOff], a[idOff+1], b[idOff], b[idOff+1] = 0, 0, 0, 0
		}
		if bytes.Equal(a, b) {
			return "own"
		}
	}
	if bytes.IndexByte(w, c20Poison) >= 0 && bytes.Count(w, []byte{c20Poison, c20Poison}) > 0 {
		return "poison"
	}
	return "other"
}

func sameButID(a, b []byte, idOff int) bool {
	if len(a) != len(b) {
		return false
	}
	a = append([]byte(nil), a...)
	b = append([]byte(nil), b...)
	for _, off := range []int{2, idOff} {
		if off >= 0 && off+2 <= len(a) {
			a[off], a[off+1], b[off], b[off+1] = 0, 0, 0, 0
		}
	}
	return bytes.Equal(a, b)
}

func waitCh(ch <-chan struct{}, d time.Duration) bool {
	select {
	case <-ch:
		return true
	case <-time.After(d):
		return false
	}
}

type exRes struct {
	m   *dnsmsg.Msg
	err error
}

// answer mark of a reply produced by hx.BuildReply, or "" if the reply is damaged
func c20ReplyOK(m *dnsmsg.Msg, name []byte, mark [4]byte, id uint16) bool {
	if m == nil || m.Header.ID != id || len(m.Questions) != 1 || len(m.Answers) != 1 {
		return false
	}
	if !bytes.Equal(m.Questions[0].Name, name) {
		return false
	}
	a, ok := m.Answers[0].(*dnsmsg.A)
	return ok && a.A == mark && bytes.Equal(a.Name, name)
}

// the "other request" of mode=onep: grab buffers of the same size class and scribble on them
func c20Scribble(size int) []pool.Buffer {
	var bs []pool.Buffer
	for i := 0; i < 4; i++ {
		b := pool.GetBuf(size)
		full := b[:cap(b)]
		for j := range full {
			full[j] = c20Foreign
		}
		bs = append(bs, b)
	}
	return bs
}

func c20Events() (string, int) {
	pool.VerifFlush()
	evs, cnt := pool.VerifEvents()
	var ks []string
	n := 0
	for k, c := range cnt {
		ks = append(ks, fmt.Sprintf("%s:%d", k, c))
		n += c
	}
	if len(evs) > 0 {
		fmt.Fprintf(os.Stderr, "C20 hook events: %d (first: %s)\n", n, evs[0].String())
	}
	// the pooled OBJECTS of internal/dnsmsg (Msg, Question, resource structs): double release, write after release,
	// one object handed to two owners
	dnsmsg.VerifObjFlush()
	oevs, ocnt := dnsmsg.VerifObjEvents()
	on := 0
	for k, c := range ocnt {
		ks = append(ks, fmt.Sprintf("obj-%s:%d", k, c))
		on += c
	}
	if len(oevs) > 0 {
		fmt.Fprintf(os.Stderr, "C20 object hook events: %d (first: %s)\n", on, oevs[0].String())
	}
	n += on
	sort.Strings(ks)
	if len(ks) == 0 {
		return "-", 0
	}
	return strings.Join(ks, ","), n
}

// ---------------------------------------------------------------- the scenarios

type ownOutcome struct {
	wires []string
	rets  []string
	bad   bool // a delivered reply was damaged
}

func (o *ownOutcome) ret(err error) {
	if err != nil {
		o.rets = append(o.rets, "err")
	} else {
		o.rets = append(o.rets, "ok")
	}
}

const c20Wait = 3 * time.Second

// exchanger abstracts the reuse and the QUIC transports: one fresh gated peer per dial / per stream.
type c20Peer struct {
	mu    sync.Mutex
	conns []*gatedConn
	open  bool // gate state of the NEXT peer
	fail  bool // next peer fails its Write
	newCh chan *gatedConn
}

func (p *c20Peer) next() *gatedConn {
	p.mu.Lock()
	g := newGatedConn(p.open)
	g.failW = p.fail
	p.conns = append(p.conns, g)
	p.mu.Unlock()
	p.newCh <- g
	return g
}

func (p *c20Peer) await() *gatedConn {
	select {
	case g := <-p.newCh:
		return g
	case <-time.After(c20Wait):
		return nil
	}
}

func runOwnership(id string, parts []string) string {
	f := hx.Fields(parts)
	if f["race"] == "1" && !raceEnabled {
		return c20RunUnderRace("ownership", id, parts)
	}
	return guard(id, 60*time.Second, func() string {
		mode := f["mode"]
		pool.VerifPoison(true) // tracking of get/release pairs starts with the first enable and stays on
		if mode == "onep" {
			pool.VerifPoison(false)
			old := runtime.GOMAXPROCS(1)
			defer runtime.GOMAXPROCS(old)
		} else {
			pool.VerifPoison(true)
		}
		pool.VerifEvents()
		dnsmsg.VerifObjTrack(true) // ownership tracking of the pooled objects (stays on)
		dnsmsg.VerifObjEvents()
		rng := rand.New(rand.NewSource(int64(hx.MustAtoi(f["seed"]))))
		var o ownOutcome
		var err error
		switch f["sc"] {
		case "reuse", "quic":
			err = c20Stream(f["sc"], f["sched"], mode, rng, &o)
		case "pipeline":
			err = c20Pipeline(f["sched"], rng, &o)
		case "doh", "doh2":
			err = c20DoH(f["sc"], f["sched"], mode, rng, &o)
		case "rdfault":
			err = c20RdFault(f["tr"], f["sched"], rng, &o)
		case "listen":
			err = c20Listen(f["sched"], rng, &o)
		case "fallback":
			err = c20Fallback(f["sched"], rng, &o)
		case "handover":
			err = c20Handover(f["sched"], rng, &o)
		case "emptyresp":
			err = c20EmptyResp(f["sched"], rng, &o)
		case "prefetch":
			err = c20Prefetch(f["sched"], rng, &o)
		default:
			return "HARNESS-ERROR unknown scenario"
		}
		if err != nil {
			return "HARNESS-ERROR " + strings.ReplaceAll(err.Error(), " ", "_")
		}
		ev, nev := "-", 0
		if mode != "onep" {
			ev, nev = c20Events()
		}
		viol := 0
		for _, w := range o.wires {
			if w != "own" && w != "own2" && w != "none" && w != "-" {
				viol = 1
			}
		}
		if nev > 0 || o.bad {
			viol = 1
		}
		if o.bad {
			o.rets = append(o.rets, "damaged-reply")
		}
		return fmt.Sprintf("viol=%d wire=%s ret=%s ev=%s", viol, strings.Join(orDash(o.wires), ","),
			strings.Join(orDash(o.rets), ","), ev)
	})
}

// c20Stream drives ReuseConnTransport ("reuse") or QuicTransport ("quic").
func c20Stream(sc, sched, mode string, rng *rand.Rand, o *ownOutcome) error {
	peer := &c20Peer{newCh: make(chan *gatedConn, 16)}
	var tr transport.Transport
	idOff := -1
	if sc == "reuse" {
		tr = transport.NewReuseConnTransport(transport.ReuseConnOpts{
			DialContext: func(ctx context.Context) (net.Conn, error) { return peer.next(), nil }})
	} else {
		idOff = 2 // DoQ sends id 0
		tr = transport.NewQuicTransport(transport.QuicTransportOpts{
			DialContext: func(ctx context.Context) (quic.Connection, error) {
				cctx, cancel := context.WithCancel(context.Background())
				return &fakeQConn{ctx: cctx, cancel: cancel, next: peer.next}, nil
			}})
	}
	defer tr.Close()

	exchange := func(ctx context.Context, q []byte) chan exRes {
		ch := make(chan exRes, 1)
		go func() {
			m, err := tr.ExchangeContext(ctx, q)
			ch <- exRes{m, err}
		}()
		return ch
	}
	mark := [4]byte{9, 9, 9, byte(rng.Intn(250))}
	qid := uint16(rng.Intn(65536))
	q, name := c20Query(rng, qid)
	own := c20Frame(q)
	reply := func(g *gatedConn, q []byte) {
		r := hx.BuildReply(q, false, 0, mark, 60)
		if sc == "quic" {
			r[0], r[1] = 0, 0
		}
		g.feed(c20Frame(r))
	}
	classify := func(g *gatedConn) {
		ws := g.wire()
		if len(ws) == 0 {
			o.wires = append(o.wires, "none")
		}
		for _, w := range ws {
			o.wires = append(o.wires, c20Classify(w, own, idOff))
		}
	}
	finish := func(ch chan exRes, wantOK bool) error {
		select {
		case r := <-ch:
			o.ret(r.err)
			if r.err == nil {
				if !c20ReplyOK(r.m, name, mark, qid) {
					o.bad = true
				}
				dnsmsg.ReleaseMsg(r.m)
			}
		case <-time.After(c20Wait):
			return errors.New("exchange did not return")
		}
		return nil
	}

	switch sched {
	case "reply-first":
		// gate open: Write proceeds at once, the peer answers, the caller gets the reply and only then releases
		peer.open = true
		ch := exchange(context.Background(), q)
		g := peer.await()
		if g == nil || !waitCh(g.wrote, c20Wait) {
			return errors.New("no write")
		}
		reply(g, q)
		if err := finish(ch, true); err != nil {
			return err
		}
		classify(g)

	case "cancel-before-write", "deadline-before-write":
		// the worker is inside Write (blocked); the caller's context ends; the caller returns and its deferred
		// ReleaseBuf(payload) runs; only then may Write proceed
		var ctx context.Context
		var cancel context.CancelFunc
		if sched == "cancel-before-write" {
			ctx, cancel = context.WithCancel(context.Background())
		} else {
			ctx, cancel = context.WithTimeout(context.Background(), 40*time.Millisecond)
		}
		defer cancel()
		ch := exchange(ctx, q)
		g := peer.await()
		if g == nil || !waitCh(g.entered, c20Wait) {
			return errors.New("worker never entered Write")
		}
		if sched == "cancel-before-write" {
			cancel()
		}
		if err := finish(ch, false); err != nil {
			return err
		}
		var scr []pool.Buffer
		if mode == "onep" {
			scr = c20Scribble(len(own))
		}
		g.wgate.open()
		waitCh(g.wrote, 300*time.Millisecond) // a Write that refused to proceed (stream cancelled) puts nothing on the wire
		classify(g)
		for _, b := range scr {
			pool.ReleaseBuf(b)
		}
		g.Close()

	case "cancel-during-read":
		// Write completes, the caller's context ends while the worker waits for the reply; the reply arrives late;
		// a second exchange then reuses the connection (reuse) / opens the next stream (quic)
		peer.open = true
		ctx, cancel := context.WithCancel(context.Background())
		defer cancel()
		ch := exchange(ctx, q)
		g := peer.await()
		if g == nil || !waitCh(g.wrote, c20Wait) {
			return errors.New("no write")
		}
		cancel()
		if err := finish(ch, false); err != nil {
			return err
		}
		reply(g, q)
		time.Sleep(20 * time.Millisecond) // let the worker consume the late reply and park the connection
		classify(g)
		ch2 := exchange(context.Background(), q)
		var g2 *gatedConn
		if sc == "reuse" {
			g2 = g
			select {
			case g2 = <-peer.newCh: // the late reply was not consumed in time: a fresh dial
			case <-g.wrote:
			case <-time.After(c20Wait):
				return errors.New("no second write")
			}
			if g2 != g && !waitCh(g2.wrote, c20Wait) {
				return errors.New("no second write (new conn)")
			}
		} else {
			g2 = peer.await()
			if g2 == nil || !waitCh(g2.wrote, c20Wait) {
				return errors.New("no second write")
			}
		}
		reply(g2, q)
		if err := finish(ch2, true); err != nil {
			return err
		}
		if g2 != g {
			classify(g2)
		} else {
			ws := g.wire()
			o.wires = append(o.wires, c20Classify(ws[len(ws)-1], own, idOff))
		}

	case "retry-after-write-error":
		// exchange 1 succeeds and parks its connection; the peer then breaks it; exchange 2 fails on the reused
		// connection (write error) and retries the SAME payload on a fresh one
		peer.open = true
		ch := exchange(context.Background(), q)
		g := peer.await()
		if g == nil || !waitCh(g.wrote, c20Wait) {
			return errors.New("no write")
		}
		reply(g, q)
		if err := finish(ch, true); err != nil {
			return err
		}
		classify(g)
		time.Sleep(10 * time.Millisecond)
		g.mu.Lock()
		g.failW = true
		g.mu.Unlock()
		ch2 := exchange(context.Background(), q)
		g2 := peer.await()
		if g2 == nil || !waitCh(g2.wrote, c20Wait) {
			return errors.New("no retry write")
		}
		reply(g2, q)
		if err := finish(ch2, true); err != nil {
			return err
		}
		classify(g2)

	case "cancel-before-write-overlap":
		// as cancel-before-write, but a second exchange (another request) starts between the caller's release and
		// the worker's Write, so its payload competes for the recycled array
		ctx, cancel := context.WithCancel(context.Background())
		defer cancel()
		ch := exchange(ctx, q)
		g := peer.await()
		if g == nil || !waitCh(g.entered, c20Wait) {
			return errors.New("worker never entered Write")
		}
		cancel()
		if err := finish(ch, false); err != nil {
			return err
		}
		peer.mu.Lock()
		peer.open = true
		peer.mu.Unlock()
		q2 := append([]byte(nil), q...)
		for i := 12; i < len(q2)-5; i++ { // same length, different name octets: "another request"
			if q2[i] >= 'a' && q2[i] <= 'z' {
				q2[i] = 'z' - (q2[i] - 'a')
			}
		}
		q2[0] ^= 0xFF
		ch2 := exchange(context.Background(), q2)
		g2 := peer.await()
		if g2 == nil || !waitCh(g2.wrote, c20Wait) {
			return errors.New("no second write")
		}
		g.wgate.open()
		waitCh(g.wrote, 300*time.Millisecond)
		classify(g) // must be the FIRST request's own octets, not the second's
		if ws := g.wire(); len(ws) > 0 && sameButID(ws[0], c20Frame(q2), idOff) {
			o.wires[len(o.wires)-1] = "foreign" // the other request's query went out on this connection
		}
		r2 := hx.BuildReply(q2, false, 0, mark, 60)
		if sc == "quic" {
			r2[0], r2[1] = 0, 0
		}
		g2.feed(c20Frame(r2))
		select {
		case r := <-ch2:
			o.ret(r.err)
			if r.err == nil {
				dnsmsg.ReleaseMsg(r.m)
			}
		case <-time.After(c20Wait):
			return errors.New("second exchange did not return")
		}
		ws := g2.wire()
		if len(ws) > 0 {
			o.wires = append(o.wires, c20Classify(ws[0], c20Frame(q2), idOff))
		}
		g.Close()

	default:
		return errors.New("unknown schedule " + sched)
	}
	return nil
}

// c20Pipeline: the reply message crosses the 1-buffered channel from the read loop to the exchange.
func c20Pipeline(sched string, rng *rand.Rand, o *ownOutcome) error {
	peer := &c20Peer{newCh: make(chan *gatedConn, 16), open: true}
	tr := transport.NewPipelineTransport(transport.PipelineOpts{IsTCP: true,
		DialContext: func(ctx context.Context) (net.Conn, error) { return peer.next(), nil }})
	defer tr.Close()
	mark := [4]byte{8, 8, 8, byte(rng.Intn(250))}
	qid := uint16(rng.Intn(65536))
	q, name := c20Query(rng, qid)
	own := c20Frame(q)
	exchange := func(ctx context.Context) chan exRes {
		ch := make(chan exRes, 1)
		go func() {
			m, err := tr.ExchangeContext(ctx, q)
			ch <- exRes{m, err}
		}()
		return ch
	}
	// reply to the k-th frame written on g (the wire id is the connection's qid)
	replyTo := func(g *gatedConn, k int, times int) {
		w := g.wire()[k]
		r := hx.BuildReply(w[2:], false, 0, mark, 60)
		var fr []byte
		for i := 0; i < times; i++ {
			fr = append(fr, c20Frame(r)...)
		}
		g.feed(fr)
	}
	check := func(r exRes) {
		o.ret(r.err)
		if r.err == nil {
			// give the read loop time to process (and release) whatever else the peer sent, then look at OUR reply
			time.Sleep(15 * time.Millisecond)
			pool.VerifFlush()
			if !c20ReplyOK(r.m, name, mark, qid) {
				o.bad = true
			}
			dnsmsg.ReleaseMsg(r.m)
		}
	}
	get := func(ch chan exRes) (exRes, error) {
		select {
		case r := <-ch:
			return r, nil
		case <-time.After(c20Wait):
			return exRes{}, errors.New("exchange did not return")
		}
	}
	ch := exchange(context.Background())
	g := peer.await()
	if g == nil || !waitCh(g.wrote, c20Wait) {
		return errors.New("no write")
	}
	switch sched {
	case "reply":
		replyTo(g, 0, 1)
		r, err := get(ch)
		if err != nil {
			return err
		}
		check(r)
	case "dup-reply":
		// the peer answers the same id twice back to back: one is delivered, the other is dropped and released by
		// the read loop; the delivered one must stay intact
		replyTo(g, 0, 3)
		r, err := get(ch)
		if err != nil {
			return err
		}
		check(r)
	case "late-reply":
		// the caller's context ends first; the reply arrives afterwards and is dropped and released by the read loop;
		// the next exchange on the same connection gets its own reply
		ctx, cancel := context.WithCancel(context.Background())
		ch1 := exchange(ctx)
		if !waitCh(g.wrote, c20Wait) {
			return errors.New("no second write")
		}
		cancel()
		r1, err := get(ch1)
		if err != nil {
			return err
		}
		o.ret(r1.err)
		replyTo(g, 1, 2)
		time.Sleep(10 * time.Millisecond)
		replyTo(g, 0, 1)
		r, err := get(ch)
		if err != nil {
			return err
		}
		check(r)
	default:
		return errors.New("unknown schedule " + sched)
	}
	for _, w := range g.wire() {
		o.wires = append(o.wires, c20Classify(w, own, 2))
	}
	return nil
}

// ---------------------------------------------------------------- thorough tier: the same case under -race

// c20RunUnderRace re-runs one case in the sibling binary build/implrun-race and reports the number of
// "DATA RACE" reports; the first report is kept next to the binary for the replay.
func c20RunUnderRace(kind, id string, parts []string) string {
	self, err := os.Executable()
	if err != nil {
		return "HARNESS-ERROR no executable path"
	}
	bin := filepath.Join(filepath.Dir(self), "implrun-race")
	if _, err := os.Stat(bin); err != nil {
		return "HARNESS-ERROR build/implrun-race missing (thorough tier builds it)"
	}
	dir, err := os.MkdirTemp("", "c20race")
	if err != nil {
		return "HARNESS-ERROR " + err.Error()
	}
	defer os.RemoveAll(dir)
	cmd := exec.Command(bin, kind)
	cmd.Stdin = strings.NewReader(id + " " + strings.Join(parts, " ") + "\n")
	cmd.Env = append(os.Environ(), "GORACE=halt_on_error=0 log_path="+filepath.Join(dir, "race"))
	var outb bytes.Buffer
	cmd.Stdout = &outb
	cmd.Stderr = os.Stderr
	runErr := cmd.Run()
	res := ""
	for _, l := range strings.Split(outb.String(), "\n") {
		if strings.HasPrefix(l, "R "+id+" ") {
			res = strings.TrimPrefix(l, "R "+id+" ")
		}
	}
	if res == "" {
		return fmt.Sprintf("CRASH under -race (%v)", runErr)
	}
	nrace := 0
	first := ""
	files, _ := filepath.Glob(filepath.Join(dir, "race*"))
	for _, fn := range files {
		b, _ := os.ReadFile(fn)
		n := bytes.Count(b, []byte("WARNING: DATA RACE"))
		nrace += n
		if n > 0 && first == "" {
			first = string(b)
		}
	}
	if nrace > 0 {
		keep := filepath.Join(filepath.Dir(self), "replay", "C20-race-"+id+".txt")
		os.MkdirAll(filepath.Dir(keep), 0755)
		if len(first) > 20000 {
			first = first[:20000]
		}
		os.WriteFile(keep, []byte(first), 0644)
		fmt.Fprintf(os.Stderr, "C20: %d DATA RACE report(s) for case %s, first kept in %s\n", nrace, id, keep)
	}
	sig := "-"
	if nrace > 0 {
		// signature of the first report: the first mosproxy frame of each side
		var fr []string
		want := false
		for _, l := range strings.Split(first, "\n") {
			t := strings.TrimSpace(l)
			if strings.HasPrefix(t, "Write at") || strings.HasPrefix(t, "Read at") || strings.HasPrefix(t, "Previous") {
				want = true
				continue
			}
			if want && strings.Contains(t, "IrineSistiana/mosproxy/") && !strings.Contains(t, "verifharness") && strings.HasSuffix(t, ")") {
				t = t[strings.LastIndex(t, "/")+1:]
				fr = append(fr, strings.TrimSuffix(t, "()"))
				want = false
			}
		}
		if len(fr) > 0 {
			sig = strings.Join(fr, "|")
		}
	}
	return fmt.Sprintf("%s race=%d racesig=%s", res, nrace, sig)
}
