package main

// C14, round 3.
//
// Kind "aged": a healthy pooled connection AGES between exchanges.
//   case:   <id> tr=<udp|tcp|tcpp|tls|tlsp|doh|doq> age=<ms> tick=<ms|0> n=<k> [dl=<ms>] [delay=<ms>]
//     delay (udp): after the first exchange the server holds every reply back for <delay> ms (an exchange in flight
//     while the connection's silence reaches an idle time-out); dl: deadline of the later exchanges (default 1.5 s).
//     upstream.NewUpstream with its DEFAULT time-outs against a healthy loopback server that never closes a connection.
//     One exchange (dials; the connection is pooled), then the connection ages for <age> ms - silently (tick=0) or with
//     an exchange every <tick> ms - then n exchanges back to back (deadline 1.5 s each).
//   result: res=<R|E|H per exchange after the first> late=<0|1> acc=<connections the server accepted after the first
//           exchange; udp: new client sockets> [qs=<query datagrams the udp server received after the first exchange>]
//
// Kind "dup": the server answers every query, but sends each reply k times.
//   case:   <id> tr=<udp|tcpp|tlsp> k=<copies> mode=<b2b|inter> conc=<n> after=<m> dl=<ms>
//     one ordinary warm-up exchange (single reply; the connection is pooled), then n concurrent exchanges whose replies
//     are sent k times each - b2b: r1 r1 r1 r2 r2 r2 .., inter: r1 r2 .. r1 r2 .. - in ONE write (TCP/TLS) or one burst
//     of datagrams (UDP), then m sequential exchanges (each reply again k times, back to back), deadline dl each.
//   result: first=<REPLY|ERR|MIXED|HANG> after=<R|E|H per exchange> when=<early|dl> late=<0|1>
//     when: early = every follow-up returned before its deadline

import (
	"context"
	"crypto/tls"
	"encoding/binary"
	"fmt"
	"io"
	"net"
	"os"
	"strings"
	"sync"
	"syscall"
	"time"

	"github.com/IrineSistiana/mosproxy/internal/upstream"
	"github.com/IrineSistiana/mosproxy/verifharness/hx"
	"github.com/rs/zerolog"
)

var ogDiag = os.Getenv("C14_DIAG") != ""

func init() {
	register("aged", 40, runAged)
	register("dup", 10, runDup)
}

func runAged(id string, parts []string) string {
	return guard(id, 120*time.Second, func() string { return agedCase(hx.Fields(parts)) })
}

func runDup(id string, parts []string) string {
	return guard(id, 90*time.Second, func() string { return dupCase(hx.Fields(parts)) })
}

func ogURL(tr, addr string) string {
	switch tr {
	case "udp":
		return "udp://" + addr
	case "tcp":
		return "tcp://" + addr
	case "tcpp":
		return "tcp+pipeline://" + addr
	case "tls":
		return "tls://" + addr
	case "tlsp":
		return "tls+pipeline://" + addr
	case "doh":
		return "https://" + addr + "/dns-query"
	case "doq":
		return "quic://" + addr
	case "h3":
		return "h3://" + addr + "/dns-query"
	}
	return ""
}

// one watchdogged exchange: 'R' reply, 'E' error, 'L' later than deadline + slack, 'H' not back after deadline + 2.5 s
func ogOne(u upstream.Upstream, id uint16, d time.Duration) (byte, time.Duration) {
	type xr struct {
		ok  bool
		el  time.Duration
		err error
	}
	rc := make(chan xr, 1)
	go func() {
		t0 := time.Now()
		ctx, cancel := context.WithTimeout(context.Background(), d)
		defer cancel()
		r, err := u.ExchangeContext(ctx, hx.BuildQuery(id, []byte("\x03c14\x04test"), 1, 1, true))
		rc <- xr{ok: err == nil && r != nil && r.Header.ID == id && len(r.Answers) == 1, el: time.Since(t0), err: err}
	}()
	select {
	case r := <-rc:
		switch {
		case r.el > d+c14Slack:
			return 'L', r.el
		case r.ok:
			return 'R', r.el
		}
		if ogDiag {
			fmt.Fprintf(os.Stderr, "c14 diag: exchange %#x failed after %v (deadline %v): %v\n", id, r.el, d, r.err)
		}
		return 'E', r.el
	case <-time.After(d + ogHangAfter):
		return 'H', d + ogHangAfter
	}
}

func ogCloseLater(u upstream.Upstream) {
	done := make(chan struct{})
	go func() { u.Close(); close(done) }()
	select {
	case <-done:
	case <-time.After(time.Second):
	}
}

func agedCase(f map[string]string) string {
	tr := f["tr"]
	age := time.Duration(hx.MustAtoi(f["age"])) * time.Millisecond
	tick := time.Duration(hx.MustAtoi(f["tick"])) * time.Millisecond
	n := hx.MustAtoi(f["n"])
	srv, err := ogNewServer(tr)
	if err != nil {
		return "HARNESS-ERROR " + err.Error()
	}
	defer srv.release()
	if err := srv.up("ok"); err != nil {
		return "HARNESS-ERROR " + err.Error()
	}
	url := ogURL(tr, srv.addr)
	if url == "" {
		return "HARNESS-ERROR unknown transport " + tr
	}
	opt := upstream.Opt{TLSConfig: &tls.Config{InsecureSkipVerify: true}}
	if ogDiag {
		lg := zerolog.New(os.Stderr).With().Str("case", f["tr"]+"/"+f["age"]).Timestamp().Logger().Level(zerolog.DebugLevel)
		opt.Logger = &lg
	}
	u, err := upstream.NewUpstream(url, opt)
	if err != nil {
		return "HARNESS-ERROR " + err.Error()
	}
	defer ogCloseLater(u)
	dl := 1500 * time.Millisecond
	if f["dl"] != "" {
		dl = time.Duration(hx.MustAtoi(f["dl"])) * time.Millisecond
	}
	if c, _ := ogOne(u, 0x1000, 3*time.Second); c != 'R' {
		return "HARNESS-ERROR the first exchange failed"
	}
	srv.acc.Store(0)
	srv.qcount.Store(0)
	if f["delay"] != "" {
		srv.replyDelay.Store(int64(time.Duration(hx.MustAtoi(f["delay"])) * time.Millisecond))
	}
	var res strings.Builder
	late := 0
	note := func(c byte) {
		if c == 'L' || c == 'H' {
			late = 1
		}
		res.WriteByte(c)
	}
	t0 := time.Now()
	if tick > 0 {
		for i := 0; time.Since(t0)+tick <= age; i++ {
			time.Sleep(tick)
			c, _ := ogOne(u, uint16(0x2000+i), dl)
			note(c)
			if c == 'H' {
				break
			}
		}
	}
	if rest := age - time.Since(t0); rest > 0 {
		time.Sleep(rest)
	}
	for i := 0; i < n && late == 0; i++ {
		c, _ := ogOne(u, uint16(0x3000+i), dl)
		note(c)
	}
	if tr == "udp" {
		time.Sleep(50 * time.Millisecond)
		return fmt.Sprintf("res=%s late=%d acc=%d qs=%d", res.String(), late, srv.acc.Load(), srv.qcount.Load())
	}
	return fmt.Sprintf("res=%s late=%d acc=%d", res.String(), late, srv.acc.Load())
}

// ---------------------------------------------------------------- dup

type dupCfg struct {
	k     int
	inter bool
	conc  int

	mu    sync.Mutex
	seenQ int // queries seen so far (the first one is the warm-up)
}

// order in which the replies of a batch are emitted
func (d *dupCfg) emitOrder(batch [][]byte) [][]byte {
	var out [][]byte
	if d.inter {
		for c := 0; c < d.k; c++ {
			out = append(out, batch...)
		}
		return out
	}
	for _, r := range batch {
		for c := 0; c < d.k; c++ {
			out = append(out, r)
		}
	}
	return out
}

// how many queries the next batch waits for: 1 for the warm-up and the follow-ups, conc for the concurrent phase
func (d *dupCfg) batchSize() (size int, warm bool) {
	d.mu.Lock()
	defer d.mu.Unlock()
	switch {
	case d.seenQ == 0:
		return 1, true
	case d.seenQ < 1+d.conc:
		return 1 + d.conc - d.seenQ, false
	}
	return 1, false
}

func (d *dupCfg) took(n int) {
	d.mu.Lock()
	d.seenQ += n
	d.mu.Unlock()
}

func (d *dupCfg) serveStream(c net.Conn) {
	readQ := func() ([]byte, error) {
		var h [2]byte
		if _, err := io.ReadFull(c, h[:]); err != nil {
			return nil, err
		}
		q := make([]byte, binary.BigEndian.Uint16(h[:]))
		if _, err := io.ReadFull(c, q); err != nil {
			return nil, err
		}
		if len(q) < 12 {
			return nil, io.ErrUnexpectedEOF
		}
		return q, nil
	}
	for {
		size, warm := d.batchSize()
		var batch [][]byte
		for len(batch) < size {
			if len(batch) > 0 {
				c.SetReadDeadline(time.Now().Add(300 * time.Millisecond)) // do not wait for ever for a full batch
			} else {
				c.SetReadDeadline(time.Time{})
			}
			q, err := readQ()
			if err != nil {
				if ne, ok := err.(net.Error); ok && ne.Timeout() && len(batch) > 0 {
					break
				}
				return
			}
			batch = append(batch, c14Frame(hx.BuildReply(q, false, 0, [4]byte{1, 4, 1, 4}, 60)))
		}
		d.took(len(batch))
		var wire []byte
		if warm {
			wire = batch[0]
		} else {
			for _, r := range d.emitOrder(batch) {
				wire = append(wire, r...)
			}
		}
		if _, err := c.Write(wire); err != nil { // ONE write: the copies arrive together
			return
		}
	}
}

func (d *dupCfg) serveUDP(pc net.PacketConn) {
	buf := make([]byte, 4096)
	for {
		size, warm := d.batchSize()
		var batch [][]byte
		var addrs []net.Addr
		for len(batch) < size {
			if len(batch) > 0 {
				pc.SetReadDeadline(time.Now().Add(300 * time.Millisecond))
			} else {
				pc.SetReadDeadline(time.Time{})
			}
			n, a, err := pc.ReadFrom(buf)
			if err != nil {
				if ne, ok := err.(net.Error); ok && ne.Timeout() && len(batch) > 0 {
					break
				}
				return
			}
			if n < 12 {
				continue
			}
			batch = append(batch, hx.BuildReply(append([]byte(nil), buf[:n]...), false, 0, [4]byte{1, 4, 1, 4}, 60))
			addrs = append(addrs, a)
		}
		d.took(len(batch))
		if warm {
			pc.WriteTo(batch[0], addrs[0])
			continue
		}
		// all queries of a batch come from the one pooled client socket
		for _, r := range d.emitOrder(batch) {
			pc.WriteTo(r, addrs[0])
		}
	}
}

func dupCase(f map[string]string) string {
	tr := f["tr"]
	d := &dupCfg{k: hx.MustAtoi(f["k"]), inter: f["mode"] == "inter", conc: hx.MustAtoi(f["conc"])}
	after := hx.MustAtoi(f["after"])
	dl := time.Duration(hx.MustAtoi(f["dl"])) * time.Millisecond
	srv, err := ogNewServer(tr)
	if err != nil {
		return "HARNESS-ERROR " + err.Error()
	}
	defer srv.release()
	srv.streamFn, srv.udpFn = d.serveStream, d.serveUDP
	if err := srv.up("ok"); err != nil {
		return "HARNESS-ERROR " + err.Error()
	}
	url := ogURL(tr, srv.addr)
	if url == "" || tr == "doh" || tr == "doq" {
		return "HARNESS-ERROR unsupported transport " + tr
	}
	u, err := upstream.NewUpstream(url, upstream.Opt{TLSConfig: &tls.Config{InsecureSkipVerify: true},
		Control: func(network, address string, c syscall.RawConn) error { return nil }})
	if err != nil {
		return "HARNESS-ERROR " + err.Error()
	}
	defer ogCloseLater(u)
	if c, _ := ogOne(u, 0x1000, 3*time.Second); c != 'R' {
		return "HARNESS-ERROR the warm-up exchange failed"
	}
	time.Sleep(30 * time.Millisecond) // the connection is back in the pool
	// ---- the concurrent exchanges whose replies are duplicated
	rc := make(chan byte, d.conc)
	for i := 0; i < d.conc; i++ {
		go func(i int) {
			c, _ := ogOne(u, uint16(0x2000+i), dl)
			rc <- c
		}(i)
	}
	nR, nH, late := 0, 0, 0
	for i := 0; i < d.conc; i++ {
		switch <-rc {
		case 'R':
			nR++
		case 'H':
			nH++
			late = 1
		case 'L':
			late = 1
		}
	}
	first := "ERR"
	switch {
	case nH > 0:
		first = "HANG"
	case nR == d.conc:
		first = "REPLY"
	case nR > 0:
		first = "MIXED"
	}
	// ---- follow-ups on the same upstream
	var ab strings.Builder
	when := "early"
	for i := 0; i < after; i++ {
		c, el := ogOne(u, uint16(0x3000+i), dl)
		ab.WriteByte(c)
		if c == 'H' || c == 'L' {
			late = 1
		}
		if el >= dl {
			when = "dl"
		}
		time.Sleep(10 * time.Millisecond)
	}
	if after == 0 {
		ab.WriteByte('-')
	}
	return fmt.Sprintf("first=%s after=%s when=%s late=%d", first, ab.String(), when, late)
}
