package main

// Kind "pipeline_shared" (C05): concurrent exchanges that were handed ONE payload slice.
//
// The Transport contract says ExchangeContext "MUST NOT keep or modify m", so a caller may pass the same slice to
// any number of concurrent exchanges (a query fanned out to several upstreams, racing duplicates).  The property
// then demands what it demands for private slices: every exchange is assigned a fresh wire id that goes out in
// front of the tail of ITS payload, every exchange that returns a message returns a reply carrying the caller's
// original id, and the caller's octets are what they were.
//
//   case:   <id> net=<tcp|udp> q0=<first wire id> warm=<w> hold=<0|1> bufs=<hex>,<hex>,... ex=<i>,<i>,...
//           bufs: the callers' slices (valid one-question queries, pairwise different after the id)
//           ex:   the burst — exchange j is called with slice bufs[ex[j]] (the SAME slice for equal indices)
//           warm: before the burst, w sequential exchanges with the slices ex[0..w-1] (sequential reuse of a slice)
//           hold: 1 = net.Conn.Write of the dialled connection does not start before every exchange of the burst
//                 is inside write (a slow wire: the schedule in which all writers overlap); 0 = free running
//   result: n=<exchanges> ok=<returned a message with the caller's id> bad=<returned a message with another id>
//           err=<returned an error> ids=<sorted transaction ids the server read, runs as a-b>
//           per=<per slice: datagrams whose octets after the id are that slice's tail> other=<datagrams matching no slice>
//           pay=<per slice: 1 = octets unchanged (when all writers were inside write, and at the end)> conns=<dials>
//           viol=<none|first violation of each class>
//
// Everything before viol= is predicted by the model (Net/PipelineBuf.v, plb_shared_run) and compared exactly: it does
// not depend on which exchange wins which id.  viol= is the property's oracle on the run (see c05RunShared).

import (
	"bufio"
	"bytes"
	"context"
	"encoding/binary"
	"fmt"
	"net"
	"sort"
	"strconv"
	"strings"
	"sync"
	"sync/atomic"
	"time"

	"github.com/IrineSistiana/mosproxy/verifharness/hx"
)

func init() {
	register("pipeline_shared", 4, func(id string, p []string) string {
		return c05Guard(90*time.Second, func() string { return c05RunShared(p) })
	})
}

// c05cGate holds the writers of a burst until all of them are inside net.Conn.Write (or a fallback delay passed).
type c05cGate struct {
	mu      sync.Mutex
	expect  int
	arrived int
	open    chan struct{}
	opened  bool
	onOpen  func()
}

func (g *c05cGate) release() {
	g.mu.Lock()
	if !g.opened {
		g.opened = true
		if g.onOpen != nil {
			g.onOpen() // every writer that arrived is parked below: nobody is between "entered write" and "Write done"
		}
		close(g.open)
	}
	g.mu.Unlock()
}

func (g *c05cGate) pass() {
	g.mu.Lock()
	g.arrived++
	full := g.arrived >= g.expect
	g.mu.Unlock()
	if full {
		g.release()
	}
	<-g.open
}

type c05cConn struct {
	net.Conn
	gate *atomic.Pointer[c05cGate]
}

func (c *c05cConn) Write(b []byte) (int, error) {
	if g := c.gate.Load(); g != nil {
		g.pass()
	}
	return c.Conn.Write(b)
}

type c05cDgram struct {
	conn int
	raw  []byte // the message as the server read it (after de-framing on tcp)
}

type c05cState struct {
	netw string
	gate atomic.Pointer[c05cGate]

	mu      sync.Mutex
	nconn   int
	dgs     []c05cDgram
	sentFor map[uint32]int // mark -> index into dgs
	closers []func()
	nmark   atomic.Uint32
}

func (st *c05cState) onQuery(ci int, q []byte) []byte {
	st.mu.Lock()
	defer st.mu.Unlock()
	st.dgs = append(st.dgs, c05cDgram{conn: ci, raw: q})
	m := st.nmark.Add(1)
	r := hx.BuildReply(q, false, 0, c05Mark(m), 60)
	if r == nil {
		return nil
	}
	st.sentFor[m] = len(st.dgs) - 1
	return r
}

func (st *c05cState) dial(ctx context.Context) (net.Conn, error) {
	st.mu.Lock()
	ci := st.nconn
	st.nconn++
	st.mu.Unlock()
	if st.netw == "tcp" {
		c, s := net.Pipe()
		st.mu.Lock()
		st.closers = append(st.closers, func() { s.Close() })
		st.mu.Unlock()
		go func() {
			br := bufio.NewReader(s)
			for {
				q, err := c05ReadFrame(br)
				if err != nil {
					return
				}
				if r := st.onQuery(ci, q); r != nil {
					s.SetWriteDeadline(time.Now().Add(3 * time.Second))
					if _, err := s.Write(c05Frame(r)); err != nil {
						return
					}
				}
			}
		}()
		return &c05cConn{Conn: c, gate: &st.gate}, nil
	}
	srv, cli, err := c05UDPPair()
	if err != nil {
		return nil, err
	}
	srv.SetReadBuffer(4 << 20)
	cli.SetReadBuffer(4 << 20)
	st.mu.Lock()
	st.closers = append(st.closers, func() { srv.Close() })
	st.mu.Unlock()
	go func() {
		buf := make([]byte, 4096)
		for {
			n, addr, err := srv.ReadFromUDP(buf)
			if err != nil {
				return
			}
			if r := st.onQuery(ci, append([]byte(nil), buf[:n]...)); r != nil {
				srv.WriteToUDP(r, addr)
			}
		}
	}()
	return &c05cConn{Conn: cli, gate: &st.gate}, nil
}

// c05Runs formats a sorted multiset of ids: maximal runs of consecutive distinct values as a-b.
func c05Runs(ids []int) string {
	if len(ids) == 0 {
		return "-"
	}
	sort.Ints(ids)
	var out []string
	a, b := ids[0], ids[0]
	flush := func() {
		if a == b {
			out = append(out, strconv.Itoa(a))
		} else {
			out = append(out, fmt.Sprintf("%d-%d", a, b))
		}
	}
	for _, x := range ids[1:] {
		if x == b+1 {
			b = x
			continue
		}
		flush()
		a, b = x, x
	}
	flush()
	return strings.Join(out, ",")
}

func c05RunShared(parts []string) string {
	f := hx.Fields(parts)
	netw := f["net"]
	if netw != "tcp" && netw != "udp" {
		return "HARNESS-ERROR bad net"
	}
	q0 := hx.MustAtoi(f["q0"])
	warm := hx.MustAtoi(f["warm"])
	hold := f["hold"] == "1"
	var bufs, orig [][]byte
	for _, h := range strings.Split(f["bufs"], ",") {
		b, err := hx.UnHex(h)
		if err != nil || len(b) < 12 {
			return "HARNESS-ERROR bad buffer"
		}
		bufs = append(bufs, b)
		orig = append(orig, append([]byte(nil), b...))
	}
	var ex []int
	for _, s := range strings.Split(f["ex"], ",") {
		i := hx.MustAtoi(s)
		if i < 0 || i >= len(bufs) {
			return "HARNESS-ERROR bad buffer index"
		}
		ex = append(ex, i)
	}
	if warm > len(ex) {
		return "HARNESS-ERROR warm > burst"
	}

	st := &c05cState{netw: netw, sentFor: map[uint32]int{}}
	st.nmark.Store(100)
	t := c05NewTransport(netw, q0, 4096, st.dial)
	defer func() {
		t.Close()
		st.mu.Lock()
		cl := st.closers
		st.mu.Unlock()
		for _, c := range cl {
			c()
		}
	}()

	type res struct {
		buf  int
		msg  bool
		hid  uint16
		mark uint32
		has  bool
	}
	total := warm + len(ex)
	results := make([]res, total)
	one := func(k, bi int) {
		d := 3 * time.Second
		if c05Timeouts.Load() >= 4 {
			d = 250 * time.Millisecond // a broken implementation loses queries: do not let the run crawl
		}
		ctx, cancel := context.WithTimeout(context.Background(), d)
		defer cancel()
		resp, err := t.ExchangeContext(ctx, bufs[bi]) // the caller's slice itself, shared between exchanges
		r := res{buf: bi}
		if err == nil && resp != nil {
			r.msg = true
			r.hid, r.mark, r.has = c05MsgInfo(resp)
		} else if ctx.Err() != nil {
			c05Timeouts.Add(1)
		}
		results[k] = r
	}
	for j := 0; j < warm; j++ {
		one(j, ex[j])
	}

	midSame := make([]bool, len(bufs))
	for i := range midSame {
		midSame[i] = true
	}
	if hold {
		g := &c05cGate{expect: len(ex), open: make(chan struct{})}
		g.onOpen = func() {
			for i := range bufs {
				if !bytes.Equal(bufs[i], orig[i]) {
					midSame[i] = false
				}
			}
		}
		st.gate.Store(g)
		tm := time.AfterFunc(400*time.Millisecond, g.release) // fallback: never wedge a run
		defer tm.Stop()
	}
	start := make(chan struct{})
	var wg sync.WaitGroup
	for j := range ex {
		wg.Add(1)
		go func(j int) {
			defer wg.Done()
			<-start
			one(warm+j, ex[j])
		}(j)
	}
	close(start)
	wg.Wait()
	if g := st.gate.Load(); g != nil {
		g.release()
		st.gate.Store(nil)
	}

	st.mu.Lock()
	defer st.mu.Unlock()
	var viol []string
	violate := func(s string) {
		cls, _, _ := strings.Cut(s, ":")
		for _, v := range viol {
			if c, _, _ := strings.Cut(v, ":"); c == cls {
				return
			}
		}
		viol = append(viol, s)
	}

	// what the server read
	var ids []int
	per := make([]int, len(bufs))
	other := 0
	dgBuf := make([]int, len(st.dgs)) // slice whose tail the datagram carries, or -1
	seenID := map[[2]int]bool{}
	for i, d := range st.dgs {
		dgBuf[i] = -1
		if len(d.raw) < 2 {
			other++
			violate("wire-octets:short")
			continue
		}
		id := int(binary.BigEndian.Uint16(d.raw))
		ids = append(ids, id)
		if seenID[[2]int{d.conn, id}] {
			violate(fmt.Sprintf("wire-id-twice:conn%d:id%d", d.conn, id))
		}
		seenID[[2]int{d.conn, id}] = true
		for b := range orig {
			if bytes.Equal(d.raw[2:], orig[b][2:]) {
				dgBuf[i] = b
				break
			}
		}
		if dgBuf[i] < 0 {
			other++
			violate("wire-octets:" + hx.Hex(d.raw))
		} else {
			per[dgBuf[i]]++
		}
	}

	ok, bad, errs := 0, 0, 0
	used := map[uint32]int{}
	for k, r := range results {
		if !r.msg {
			errs++
			violate(fmt.Sprintf("no-reply:exch%d", k)) // the server answered every query it read
			continue
		}
		want := binary.BigEndian.Uint16(orig[r.buf])
		if r.hid == want {
			ok++
		} else {
			bad++
			violate(fmt.Sprintf("id-not-restored:exch%d:got%d:want%d", k, r.hid, want))
		}
		di, known := st.sentFor[r.mark]
		if !r.has || !known {
			violate(fmt.Sprintf("unknown-mark:exch%d", k))
			continue
		}
		if dgBuf[di] >= 0 && dgBuf[di] != r.buf {
			violate(fmt.Sprintf("foreign-reply:exch%d:slice%d:reply-to-slice%d", k, r.buf, dgBuf[di]))
		}
		if o, dup := used[r.mark]; dup {
			violate(fmt.Sprintf("double-delivery:mark%d:exch%d+%d", r.mark, o, k))
		}
		used[r.mark] = k
	}
	pay := make([]string, len(bufs))
	for i := range bufs {
		if midSame[i] && bytes.Equal(bufs[i], orig[i]) {
			pay[i] = "1"
		} else {
			pay[i] = "0"
			violate(fmt.Sprintf("payload-modified:slice%d:%s", i, hx.Hex(bufs[i][:2])))
		}
	}
	pers := make([]string, len(per))
	for i, c := range per {
		pers[i] = strconv.Itoa(c)
	}
	v := "none"
	if len(viol) > 0 {
		sort.Strings(viol)
		v = strings.Join(viol, "|")
	}
	return fmt.Sprintf("n=%d ok=%d bad=%d err=%d ids=%s per=%s other=%d pay=%s conns=%d viol=%s",
		total, ok, bad, errs, c05Runs(ids), strings.Join(pers, ","), other, strings.Join(pay, ","), st.nconn, v)
}
