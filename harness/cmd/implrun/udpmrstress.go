package main

// Kind "udpmrstress" (C03 / C20): a wildcard UDP listener with udp.multi_routes and several reader threads; g clients, each
// with its own CONNECTED socket to one of several local addresses (127.0.0.2 .. 127.0.0.5), ask one query at a time.
//   <id> cfg=<cfgspec with W=1;D=<threads>> g=<clients> n=<queries per client> q=<hex> up=reply:<hex>
//   -> sent=<n> got=<answered> bad=<responses with a wrong id> retried=<queries that needed their second attempt>
// A connected socket only accepts a datagram coming from exactly the address it talks to: a response that leaves from
// another local address (a control message built for another response) never arrives.  At most g queries are in flight.

import (
	"encoding/binary"
	"fmt"
	"net"
	"strings"
	"sync"
	"sync/atomic"
	"time"

	"github.com/IrineSistiana/mosproxy/verifharness/hx"
)

func init() { register("udpmrstress", 2, runUdpMrStress) }

func runUdpMrStress(id string, parts []string) string {
	f := hx.Fields(parts)
	env, err := getEnv(f["cfg"])
	if err != nil {
		return "HARNESS-ERROR env: " + strings.ReplaceAll(err.Error(), " ", "_")
	}
	defer putEnv(f["cfg"])
	q, err := hx.UnHex(f["q"])
	if err != nil {
		return "HARNESS-ERROR bad hex"
	}
	g, n := hx.MustAtoi(f["g"]), hx.MustAtoi(f["n"])
	key := hx.QuestionKey(q)
	env.SetBehaviour(key, parseBehaviour(f["up"]))
	defer env.TakeQueries(key)
	var sent, got, bad, retried atomic.Int64
	var wg sync.WaitGroup
	for k := 0; k < g; k++ {
		wg.Add(1)
		go func(k int) {
			defer wg.Done()
			c, err := net.DialUDP("udp", nil, &net.UDPAddr{IP: net.IPv4(127, 0, 0, byte(2+k%4)), Port: env.Ports["udpmr"]})
			if err != nil {
				return
			}
			defer c.Close()
			buf := make([]byte, 4096)
			for i := 0; i < n; i++ {
				w := append([]byte(nil), q...)
				qid := uint16(k*1000 + i + 1)
				binary.BigEndian.PutUint16(w, qid)
				sent.Add(1)
				ok := false
				for attempt := 0; attempt < 2 && !ok; attempt++ { // one retry: a datagram may be lost on a busy machine
					if attempt == 1 {
						retried.Add(1)
					}
					c.Write(w)
					c.SetReadDeadline(time.Now().Add(700 * time.Millisecond))
					for {
						m, err := c.Read(buf)
						if err != nil {
							break
						}
						if m >= 2 && binary.BigEndian.Uint16(buf) == qid {
							ok = true
							break
						}
						bad.Add(1)
					}
				}
				if ok {
					got.Add(1)
				}
			}
		}(k)
	}
	wg.Wait()
	return fmt.Sprintf("sent=%d got=%d bad=%d retried=%d", sent.Load(), got.Load(), bad.Load(), retried.Load())
}
