package main

// Kind "handle" (C03/C10/C12/C09-limits): one query through a REAL listener of the in-process router.
//   <id> cfg=<cfgspec> l=<udp|tcp|gnet|http-get|http-post|fasthttp-get|fasthttp-post> client=<addr|-> q=<hex>
//        up=<reply:<hex>|silent|close|garbage>
//   -> st=<ok|no-response|http-NNN|...> n=<responses> resp=<hex> upq=<idx>:<hex from offset 2>[,..] slow=<0|1>
// Kinds "packreq" / "ecs": pure helpers through the hook.

import (
	"fmt"
	"net/netip"
	"sort"
	"strings"
	"sync"
	"time"

	"github.com/IrineSistiana/mosproxy/app/router"
	"github.com/IrineSistiana/mosproxy/verifharness/hx"
)

var (
	envMu    sync.Mutex
	envs     = map[string]*hx.RouterEnv{}
	envUsers = map[string]int{}
	envOrder []string
)

// getEnv returns the (shared) router environment of a configuration and marks it in use; the caller calls putEnv when
// its case is over.  An environment is only evicted while no case is using it (a case waiting 6 s for its SERVFAIL
// must not lose its router because eight other configurations were started meanwhile).
func getEnv(spec string) (*hx.RouterEnv, error) {
	envMu.Lock()
	defer envMu.Unlock()
	if e, ok := envs[spec]; ok {
		envUsers[spec]++
		return e, nil
	}
	// the routers of these kinds log EVERYTHING into io.Discard: the log-formatting code (readable names, request
	// context marshalers) is part of what must never panic
	router.VerifLogDiscard()
	if len(envOrder) >= 6 {
		for i, old := range envOrder {
			if envUsers[old] == 0 {
				envOrder = append(envOrder[:i:i], envOrder[i+1:]...)
				envs[old].Close()
				delete(envs, old)
				delete(envUsers, old)
				break
			}
		}
	}
	e, err := hx.NewRouterEnv(spec)
	if err != nil {
		return nil, err
	}
	envs[spec] = e
	envUsers[spec] = 1
	envOrder = append(envOrder, spec)
	return e, nil
}

func putEnv(spec string) {
	envMu.Lock()
	defer envMu.Unlock()
	if envUsers[spec] > 0 {
		envUsers[spec]--
	}
}

func init() {
	register("handle", 8, runHandle)
	register("packreq", 1, runPackReq)
}

func parseBehaviour(s string) hx.Behaviour {
	k, v, _ := strings.Cut(s, ":")
	b := hx.Behaviour{Kind: k}
	if k == "reply" {
		b.Reply, _ = hx.UnHex(v)
	}
	return b
}

func runHandle(id string, parts []string) string {
	f := hx.Fields(parts)
	env, err := getEnv(f["cfg"])
	if err != nil {
		return "HARNESS-ERROR env: " + strings.ReplaceAll(err.Error(), " ", "_")
	}
	defer putEnv(f["cfg"])
	q, err := hx.UnHex(f["q"])
	if err != nil {
		return "HARNESS-ERROR bad hex"
	}
	key := hx.QuestionKey(q)
	beh := parseBehaviour(f["up"])
	if d := f["dl"]; d != "" {
		beh.Delay = time.Duration(hx.MustAtoi(d)) * time.Millisecond
	}
	env.SetBehaviour(key, beh)
	timeout := 9 * time.Second
	start := time.Now()
	var resps [][]byte
	var st string
	if f["raw"] != "" {
		// kind dohget: the dns parameter is sent as the given raw text; q= is the message it is expected to decode to
		// (only used to script the fake upstream)
		raw, err := hx.UnHex(f["raw"])
		if err != nil {
			return "HARNESS-ERROR bad hex"
		}
		resps, st = env.QueryRawGet(f["l"], raw, f["client"], timeout)
	} else if f["ka"] == "1" {
		// the query travels on a persistent client connection (second and later query on a connection / session)
		resps, st = env.QueryKA(f["l"], q, f["client"], timeout, 25*time.Millisecond)
	} else {
		resps, st = env.Query(f["l"], q, f["client"], timeout, 60*time.Millisecond)
	}
	el := time.Since(start)
	ups := env.TakeQueries(key)
	var us []string
	for _, u := range ups {
		w := u.Wire
		if len(w) >= 2 {
			w = w[2:]
		}
		us = append(us, fmt.Sprintf("%d:%s", u.Upstream, hx.Hex(w)))
	}
	sort.Strings(us)
	resp := "-"
	if len(resps) > 0 {
		resp = hx.Hex(resps[0])
	}
	slow := 0
	if el > 3*time.Second {
		slow = 1
	}
	late := 0
	if el > 7500*time.Millisecond {
		late = 1
	}
	return fmt.Sprintf("st=%s n=%d resp=%s upq=%s slow=%d late=%d", st, len(resps), resp, strings.Join(orDash(us), ","), slow, late)
}

func orDash(l []string) []string {
	if len(l) == 0 {
		return []string{"-"}
	}
	return l
}

func parseAddr(s string) netip.Addr {
	if s == "" || s == "-" {
		return netip.Addr{}
	}
	a, err := netip.ParseAddr(s)
	if err != nil {
		return netip.Addr{}
	}
	return a
}

// packreq: <id> ecs=<0|1> name=<hex> type=<n> class=<n> client=<addr|->  -> OK <hex> | ERR
func runPackReq(id string, parts []string) string {
	f := hx.Fields(parts)
	name, err := hx.UnHex(f["name"])
	if err != nil {
		return "HARNESS-ERROR bad hex"
	}
	return guard(id, 10*time.Second, func() string {
		b, err := router.VerifPackReq(f["ecs"] == "1", name, uint16(hx.MustAtoi(f["type"])), uint16(hx.MustAtoi(f["class"])), parseAddr(f["client"]))
		if err != nil {
			return "ERR"
		}
		return "OK " + hx.Hex(b)
	})
}

// wedge (C01 end-to-end): arbitrary bytes on a listener, then a valid query on the same listener must be answered.
//   <id> cfg=<cfgspec> l=<listener> mode=<frame|raw> bad=<hex> q=<hex valid query> up=reply:<hex>
//   -> bad=<status of the malformed exchange> st=<status of the valid query> n=<responses>
func init() { register("wedge", 4, runWedge) }

func runWedge(id string, parts []string) string {
	f := hx.Fields(parts)
	env, err := getEnv(f["cfg"])
	if err != nil {
		return "HARNESS-ERROR env: " + strings.ReplaceAll(err.Error(), " ", "_")
	}
	defer putEnv(f["cfg"])
	bad, _ := hx.UnHex(f["bad"])
	q, _ := hx.UnHex(f["q"])
	l := f["l"]
	badSt := "sent"
	switch {
	case l == "udp" && f["mode"] == "port0":
		// a valid, answerable query (the same question as the follow-up, already scripted at the fake upstream) from
		// UDP source port 0: the response is there within milliseconds and cannot be sent
		env.SetBehaviour(hx.QuestionKey(q), parseBehaviour(f["up"]))
		if !env.SendRawUDPFromPort0(q) {
			badSt = "noraw"
		}
		time.Sleep(80 * time.Millisecond)
	case l == "udp":
		env.SendRawUDP(bad)
	case l == "tcp" || l == "gnet":
		badSt = env.SendRawTCP(l, bad, f["mode"] == "frame")
	case f["mode"] == "tlsraw":
		// raw octets (no TLS handshake, or a broken one) on the socket of a TLS-based stream listener (tls, https)
		badSt = env.SendRawTCP(strings.Split(l, "-")[0], bad, false)
	case f["mode"] == "httpraw":
		// [bad] is a raw (possibly malformed) HTTP request written to the DoH listener's socket as it is
		if f["expect"] == "reply" {
			// a complete, well-framed request: the listener must answer it (whatever the status) - a handler that
			// never returns leaves the connection open and silent
			badSt = env.SendRawTCPWait(strings.Split(l, "-")[0], bad, false, 3*time.Second)
		} else {
			badSt = env.SendRawTCP(strings.Split(l, "-")[0], bad, false)
		}
	default:
		_, badSt = env.Query(l, bad, "-", 2*time.Second, 0)
	}
	key := hx.QuestionKey(q)
	env.SetBehaviour(key, parseBehaviour(f["up"]))
	lq := l
	if i := strings.IndexByte(lq, '@'); i >= 0 {
		lq = lq[:i] // the decoration of the URL belongs to the malformed exchange only
	}
	resps, st := env.Query(lq, q, "-", 8*time.Second, 20*time.Millisecond)
	env.TakeQueries(key)
	return fmt.Sprintf("bad=%s st=%s n=%d", badSt, st, len(resps))
}

// cachedseq: <id> cfg=<cfgspec with C=..> steps=<l>/<client>/<qhex>/<gap_ms>[;..] up=reply:<hex>
//   All steps ask the SAME question (ids, EDNS and clients may differ).  The steps run in order, each after its gap;
//   the first is a cache miss, later ones are hits (and trigger a prefetch when they fall into the last quarter of
//   the entry's lifetime).  Result: n=<steps> r1=<hex|-> .. upq=<idx>:<hex from offset 2>|.. in ARRIVAL order (the
//   prefetch's query included), so that the C12 oracles (OPT of every response, OPT/ECS of every upstream query) can be
//   evaluated by the model runner on a cached / prefetching proxy.
func init() { register("cachedseq", 8, runCachedSeq) }

func runCachedSeq(id string, parts []string) string {
	f := hx.Fields(parts)
	env, err := getEnv(f["cfg"])
	if err != nil {
		return "HARNESS-ERROR env: " + strings.ReplaceAll(err.Error(), " ", "_")
	}
	defer putEnv(f["cfg"])
	steps := strings.Split(f["steps"], ";")
	var key string
	var out []string
	for i, s := range steps {
		p := strings.Split(s, "/")
		if len(p) != 4 {
			return "HARNESS-ERROR bad step"
		}
		q, err := hx.UnHex(p[2])
		if err != nil {
			return "HARNESS-ERROR bad hex"
		}
		if i == 0 {
			key = hx.QuestionKey(q)
			env.SetBehaviour(key, parseBehaviour(f["up"]))
		}
		time.Sleep(time.Duration(hx.MustAtoi(p[3])) * time.Millisecond)
		resps, st := env.Query(p[0], q, p[1], 9*time.Second, 40*time.Millisecond)
		r := "-"
		if st == "ok" && len(resps) == 1 {
			r = hx.Hex(resps[0])
		} else if st != "ok" {
			r = "!" + st
		} else {
			r = fmt.Sprintf("!n%d", len(resps))
		}
		out = append(out, fmt.Sprintf("r%d=%s", i+1, r))
	}
	time.Sleep(400 * time.Millisecond) // let a prefetch reach the upstream
	ups := env.TakeQueries(key)
	var us []string
	for _, u := range ups {
		w := u.Wire
		if len(w) >= 2 {
			w = w[2:]
		}
		us = append(us, fmt.Sprintf("%d:%s", u.Upstream, hx.Hex(w)))
	}
	return fmt.Sprintf("n=%d %s upq=%s", len(steps), strings.Join(out, " "), strings.Join(orDash(us), "|"))
}

// refusal: <id> cfg=<cfgspec with L=<limit>:<burst> and a unique X=..> l=<listener> qs=<hex>;<hex>;.. up=reply:<hex of a reply to the FIRST query>
//   The queries are sent back to back from one client (one connection on stream listeners), so that the client limiter
//   refuses the later ones.  Result: n=<k> r1=<st>:<hex|-> .. upn=<number of upstream queries seen for the first question>
func init() {
	register("dohget", 8, runHandle)
	register("recover", 4, runRefusal)
	register("refusal", 8, runRefusal)
}

func runRefusal(id string, parts []string) string {
	f := hx.Fields(parts)
	env, err := getEnv(f["cfg"])
	if err != nil {
		return "HARNESS-ERROR env: " + strings.ReplaceAll(err.Error(), " ", "_")
	}
	defer putEnv(f["cfg"])
	var out []string
	var key string
	for i, qh := range strings.Split(f["qs"], ";") {
		q, err := hx.UnHex(qh)
		if err != nil {
			return "HARNESS-ERROR bad hex"
		}
		if i == 0 {
			key = hx.QuestionKey(q)
			env.SetBehaviour(key, parseBehaviour(f["up"]))
		}
		resps, st := env.Query(f["l"], q, "-", 3*time.Second, 30*time.Millisecond)
		r := "-"
		if len(resps) == 1 {
			r = hx.Hex(resps[0])
		} else if len(resps) > 1 {
			st = fmt.Sprintf("n%d", len(resps))
		}
		out = append(out, fmt.Sprintf("r%d=%s:%s", i+1, st, r))
	}
	// "recover" cases: after the burst the client pauses until its bucket is full again (pause=<ms>) and asks once
	// more (final=<hex>): the listener must still be there and answer
	fin := ""
	if f["final"] != "" {
		q, err := hx.UnHex(f["final"])
		if err != nil {
			return "HARNESS-ERROR bad hex"
		}
		time.Sleep(time.Duration(hx.MustAtoi(f["pause"])) * time.Millisecond)
		resps, st := env.Query(f["l"], q, "-", 3*time.Second, 30*time.Millisecond)
		r := "-"
		if len(resps) == 1 {
			r = hx.Hex(resps[0])
		} else if len(resps) > 1 {
			st = fmt.Sprintf("n%d", len(resps))
		}
		fin = fmt.Sprintf(" rf=%s:%s", st, r)
	}
	ups := env.TakeQueries(key)
	return fmt.Sprintf("n=%d %s%s upn=%d", len(out), strings.Join(out, " "), fin, len(ups))
}
