package main

// C07, round 2: concurrency stress of the REAL cache.MemoryCache with self-identifying values.
//
//   cachechurn: <id> writers=<n> readers=<n> procs=<GOMAXPROCS, 0 = leave> keys=<n> cap=<cost capacity, 0 = ample>
//                    lo=<shortest value> hi=<longest value> vers=<versions per key> ms=<duration> seed=<n>
//               -> hits=<n> wrong=<n> [first=<description of the first wrong hit>]       (no model: oracle only)
//
// The clause under test: "a cached answer is only ever served for the question and client group it was stored
// for, unchanged ... this holds under concurrent stores, lookups and evictions".  At the MemoryCache level: a
// Get(k) that returns a value returns, octet for octet, a value that some Store(k, .) supplied.
//
// Every key has `vers` precomputed values (templates) of different lengths lo..hi, all inside ONE size class of
// the byte pool, so that a buffer freed by one entry is what the next Store (of any key) and the next reader's copy
// get back.  A template is: key number (2 octets) | version (1) | length (2) | octets drawn from a PRNG seeded by
// (key, version).  Any hit is therefore checked by one bytes.Equal against the template its own header names;
// a value stored under another key ("foreign"), a mixture of two values ("torn"), the pool's poison octet, a
// wrong length - everything except an exact stored value of the looked-up key - is a wrong hit.
//
// Writers keep overwriting (Set), storing set-if-absent, storing with a 1 s lifetime (so entries also expire during
// the run) and deleting; with a small capacity otter evicts constantly.  Readers look up and verify.  Every buffer
// handed out by Get is scribbled over before it is released (a later reader must not depend on it).
//
// (Measured while building this kind: switching the byte pool's poison/quarantine hook on makes every Get/Release
// take a global mutex; throughput drops 50-fold and the stress finds less, not more.  It is therefore not used here.)

import (
	"bytes"
	"encoding/binary"
	"fmt"
	"math/rand"
	"runtime"
	"strings"
	"sync"
	"sync/atomic"
	"time"

	"github.com/IrineSistiana/mosproxy/internal/cache"
	"github.com/IrineSistiana/mosproxy/internal/pool"
	"github.com/IrineSistiana/mosproxy/verifharness/hx"
)

func init() {
	register("cachechurn", 1, runCacheChurn)
}

func churnTemplate(key, ver, n int) []byte {
	b := make([]byte, n)
	binary.BigEndian.PutUint16(b[0:], uint16(key))
	b[2] = byte(ver)
	binary.BigEndian.PutUint16(b[3:], uint16(n))
	r := rand.New(rand.NewSource(int64(key)*1009 + int64(ver) + 1))
	r.Read(b[5:])
	return b
}

func churnKey(k int) []byte { return []byte(fmt.Sprintf("churn-key-%04d", k)) }

// describe a wrong hit without spaces
func churnDescribe(key int, v []byte, tmpl [][][]byte) string {
	if len(v) < 5 {
		return fmt.Sprintf("get(key%d)=short:%x", key, v)
	}
	hk, hv, hl := int(binary.BigEndian.Uint16(v)), int(v[2]), int(binary.BigEndian.Uint16(v[3:]))
	what := "torn"
	if hk < len(tmpl) && hv < len(tmpl[hk]) && bytes.Equal(v, tmpl[hk][hv]) {
		what = "foreign-exact" // exactly the value stored under another key
	} else if hk != key {
		what = "foreign-torn"
	}
	// first offset where v differs from the template its header names (if that exists)
	off := -1
	if hk < len(tmpl) && hv < len(tmpl[hk]) {
		t := tmpl[hk][hv]
		for i := 0; i < len(v) && i < len(t); i++ {
			if v[i] != t[i] {
				off = i
				break
			}
		}
		if off < 0 && len(v) != len(t) {
			off = min(len(v), len(t))
		}
	}
	return fmt.Sprintf("get(key%d)=%s:len=%d,header(key=%d,ver=%d,len=%d),first-diff-at=%d", key, what, len(v), hk, hv, hl, off)
}

func runCacheChurn(id string, parts []string) string {
	f := hx.Fields(parts)
	writers, readers := hx.MustAtoi(f["writers"]), hx.MustAtoi(f["readers"])
	procs, keys, capacity := hx.MustAtoi(f["procs"]), hx.MustAtoi(f["keys"]), hx.MustAtoi(f["cap"])
	lo, hi, vers := hx.MustAtoi(f["lo"]), hx.MustAtoi(f["hi"]), hx.MustAtoi(f["vers"])
	dur := time.Duration(hx.MustAtoi(f["ms"])) * time.Millisecond
	seed := int64(hx.MustAtoi(f["seed"]))
	ncpu := runtime.NumCPU()
	if writers <= 0 {
		writers = max(2, ncpu/2)
	}
	if readers <= 0 {
		readers = max(4, ncpu+ncpu/2)
	}
	if lo < 8 || hi < lo || hi > 65535 || keys < 1 || keys > 65535 || vers < 1 || vers > 255 {
		return "HARNESS-ERROR bad parameters"
	}
	return guard(id, dur+60*time.Second, func() string {
		if procs > 0 {
			defer runtime.GOMAXPROCS(runtime.GOMAXPROCS(procs))
		}
		if capacity <= 0 {
			capacity = 1 << 28
		}
		c, err := cache.NewMemoryCache(capacity)
		if err != nil {
			return "HARNESS-ERROR " + err.Error()
		}
		defer c.Close()

		rng := rand.New(rand.NewSource(seed))
		tmpl := make([][][]byte, keys)
		kb := make([][]byte, keys)
		for k := range tmpl {
			kb[k] = churnKey(k)
			tmpl[k] = make([][]byte, vers)
			for v := range tmpl[k] {
				tmpl[k][v] = churnTemplate(k, v, lo+rng.Intn(hi-lo+1))
			}
		}

		var hits, wrong, stores atomic.Int64
		var first atomic.Value
		var stop atomic.Bool
		var wg sync.WaitGroup
		for w := 0; w < writers; w++ {
			wg.Add(1)
			go func(w int) {
				defer wg.Done()
				r := rand.New(rand.NewSource(seed*7919 + int64(w)))
				n := int64(0)
				for !stop.Load() {
					k := r.Intn(keys)
					now := time.Now()
					switch x := r.Intn(100); {
					case x < 80: // overwrite (the old entry and its value buffer are released)
						c.Store(kb[k], now, now.Add(time.Hour), tmpl[k][r.Intn(vers)], false)
					case x < 88: // set-if-absent (negative answers are stored this way)
						c.Store(kb[k], now, now.Add(time.Hour), tmpl[k][r.Intn(vers)], true)
					case x < 95: // short lifetime: expires during the run
						c.Store(kb[k], now, now.Add(time.Second), tmpl[k][r.Intn(vers)], false)
					default:
						c.VerifDelete(kb[k])
					}
					n++
				}
				stores.Add(n)
			}(w)
		}
		for rd := 0; rd < readers; rd++ {
			wg.Add(1)
			go func(rd int) {
				defer wg.Done()
				r := rand.New(rand.NewSource(seed*104729 + int64(rd)))
				h := int64(0)
				for !stop.Load() {
					k := r.Intn(keys)
					v, _, _ := c.Get(kb[k])
					if v == nil {
						continue
					}
					h++
					ok := len(v) >= 5 && int(binary.BigEndian.Uint16(v)) == k && int(v[2]) < vers && bytes.Equal(v, tmpl[k][v[2]])
					if !ok {
						wrong.Add(1)
						first.CompareAndSwap(nil, churnDescribe(k, v, tmpl))
					}
					// the copy belongs to the caller: scribble, then give it back to the pool (cacheCtl.Get releases it too)
					v[0], v[len(v)-1] = 0xEE, 0xEE
					pool.ReleaseBuf(v)
				}
				hits.Add(h)
			}(rd)
		}
		time.Sleep(dur)
		stop.Store(true)
		wg.Wait()
		s := fmt.Sprintf("hits=%d stores=%d wrong=%d", hits.Load(), stores.Load(), wrong.Load())
		if w := first.Load(); w != nil {
			s += " first=" + strings.ReplaceAll(w.(string), " ", "_")
		}
		return s
	})
}
