package main

// C19 — prefetch is single-flight and never delays a cache hit.
//
// kind "needprefetch": the REAL needPrefetch(stored, expire) through the hook, instants given as ns offsets
//   relative to the call instant (needPrefetch reads the clock itself).
//   case:   <id> so=<ns> eo=<ns>
//   result: r=<0|1> lo=<ns> hi=<ns>      ([lo,hi] brackets the clock reading inside needPrefetch)
//
// kind "prefetchctl": reserve/done op sequences on a REAL prefetchCtl; keys are raw uint64 values
//   (r<k>/d<k>) or the REAL keyForPrefetch of a question seen from a client group (R<i>/D<i>).
//   case:   <id> qs=<hexname>:<type>:<class>:<group>,... ops=<op>,<op>,...     group: - | a | a2 | b
//   result: res=<one 0/1 per reserve> set=<sorted labels of the final queue>    labels: k<raw> | q<canonical idx>
//
// kind "prefetch": e2e on the REAL router in-process (memory cache on) with a scripted fake upstream, real clock.
//   case:   <id> mode=<ok|fail|neg|silent|early> up=<u|t> ttl=<s> n=<hits> delay=<ms> ls=<mixed|udp|tcp|...>
//                name=<hex raw name> stagger=<ms>
//   result: see the per-mode fields below; "timing=bad ..." when the harness could not keep its own schedule
//           (machine overloaded) — such a case is skipped and counted, never an alarm.

import (
	"encoding/binary"
	"fmt"
	"net/netip"
	"sort"
	"strconv"
	"strings"
	"sync"
	"time"

	"github.com/IrineSistiana/mosproxy/app/router"
	"github.com/IrineSistiana/mosproxy/verifharness/hx"
)

func init() {
	register("needprefetch", 1, runNeedPrefetch)
	register("prefetchctl", 1, runPrefetchCtl)
	register("prefetch", 16, runPrefetchE2E)
}

// ------------------------------------------------------------------ needprefetch

func runNeedPrefetch(id string, parts []string) string {
	f := hx.Fields(parts)
	so, e1 := strconv.ParseInt(f["so"], 10, 64)
	eo, e2 := strconv.ParseInt(f["eo"], 10, 64)
	if e1 != nil || e2 != nil {
		return "HARNESS-ERROR bad int"
	}
	return guard(id, 10*time.Second, func() string {
		var need bool
		var lo, hi time.Duration
		for try := 0; try < 4; try++ {
			need, lo, hi = router.VerifNeedPrefetch(time.Duration(so), time.Duration(eo))
			if hi-lo < 20*time.Microsecond {
				break
			}
		}
		r := 0
		if need {
			r = 1
		}
		return fmt.Sprintf("r=%d lo=%d hi=%d", r, int64(lo), int64(hi))
	})
}

// ------------------------------------------------------------------ prefetchctl

const c19Marker = "10.0.0.0,10.255.255.255,a\n192.168.0.0,192.168.255.255,b\n2001:db8::,2001:db8::ffff,a\n"

var (
	c19KeyerOnce sync.Once
	c19Keyer     *router.VerifPrefetchKeyer
	c19KeyerErr  error
)

func c19GroupAddr(g string) netip.Addr {
	switch g {
	case "a":
		return netip.MustParseAddr("10.1.2.3")
	case "a2":
		return netip.MustParseAddr("2001:db8::7")
	case "b":
		return netip.MustParseAddr("192.168.1.1")
	case "b2":
		return netip.MustParseAddr("192.168.200.9")
	case "-2":
		return netip.MustParseAddr("9.9.9.9")
	default:
		return netip.MustParseAddr("8.8.8.8")
	}
}

func runPrefetchCtl(id string, parts []string) string {
	f := hx.Fields(parts)
	c19KeyerOnce.Do(func() { c19Keyer, c19KeyerErr = router.VerifNewPrefetchKeyer(c19Marker) })
	if c19KeyerErr != nil {
		return "HARNESS-ERROR keyer"
	}
	type qd struct {
		name       []byte
		typ, class uint16
		group      string
		canon      int
	}
	var qs []qd
	canon := map[string]int{}
	if f["qs"] != "" && f["qs"] != "-" {
		for i, s := range strings.Split(f["qs"], ",") {
			p := strings.Split(s, ":")
			if len(p) != 4 {
				return "HARNESS-ERROR bad question"
			}
			name, err := hx.UnHex(p[0])
			if err != nil {
				return "HARNESS-ERROR bad hex"
			}
			ident := p[0] + ":" + p[1] + ":" + p[2] + ":" + p[3][:1]
			c, ok := canon[ident]
			if !ok {
				c = i
				canon[ident] = i
			}
			qs = append(qs, qd{name, uint16(hx.MustAtoi(p[1])), uint16(hx.MustAtoi(p[2])), p[3], c})
		}
	}
	return guard(id, 20*time.Second, func() string {
		ctl := router.VerifNewPrefetchCtl()
		labels := map[uint64]string{}
		var res strings.Builder
		keyOf := func(op string) (uint64, string, bool) {
			arg := op[1:]
			if op[0] == 'r' || op[0] == 'd' {
				k, err := strconv.ParseUint(arg, 10, 64)
				if err != nil {
					return 0, "", false
				}
				return k, "k" + arg, true
			}
			i, err := strconv.Atoi(arg)
			if err != nil || i < 0 || i >= len(qs) {
				return 0, "", false
			}
			q := qs[i]
			return c19Keyer.Key(q.name, q.typ, q.class, c19GroupAddr(q.group)), fmt.Sprintf("q%d", q.canon), true
		}
		if f["ops"] != "" && f["ops"] != "-" {
			for _, op := range strings.Split(f["ops"], ",") {
				if len(op) < 2 {
					return "HARNESS-ERROR bad op"
				}
				k, lab, ok := keyOf(op)
				if !ok {
					return "HARNESS-ERROR bad op"
				}
				if _, seen := labels[k]; !seen {
					labels[k] = lab
				}
				switch op[0] {
				case 'r', 'R':
					if ctl.Reserve(k) {
						res.WriteByte('1')
					} else {
						res.WriteByte('0')
					}
				case 'd', 'D':
					ctl.Done(k)
				default:
					return "HARNESS-ERROR bad op"
				}
			}
		}
		var set []string
		for _, k := range ctl.Keys() {
			set = append(set, labels[k])
		}
		sort.Strings(set)
		r := res.String()
		if r == "" {
			r = "-"
		}
		return fmt.Sprintf("res=%s set=%s", r, strings.Join(orDash(set), ","))
	})
}

// ------------------------------------------------------------------ prefetch (e2e)

var c19Quiet sync.Once
var c19EnvMu sync.Mutex

// c19NewEnv starts a private router; creation is serialised and retried, because two listeners may race for a
// "free" port (and on the pinned tree a failing startServer makes run() panic in close: D13, not this property).
func c19NewEnv(spec string) (env *hx.RouterEnv, err error) {
	c19EnvMu.Lock()
	defer c19EnvMu.Unlock()
	for try := 0; try < 6; try++ {
		func() {
			defer func() {
				if r := recover(); r != nil {
					env, err = nil, fmt.Errorf("router start panicked: %v", r)
				}
			}()
			env, err = hx.NewRouterEnv(spec)
		}()
		if err == nil {
			return env, nil
		}
		time.Sleep(20 * time.Millisecond)
	}
	return nil, err
}

var c19Listeners = []string{"udp", "tcp", "gnet", "http-get", "http-post", "fasthttp-get", "fasthttp-post"}

type c19Hit struct {
	status  string
	mark    byte // last octet of the A record (7 = first answer, 8 = refreshed answer), 0 = none
	rcode   byte
	ttl     uint32
	sent    time.Time
	latency time.Duration
}

func c19Parse(resps [][]byte, st string) (h c19Hit) {
	h.status = st
	if st != "ok" || len(resps) == 0 {
		return
	}
	b := resps[0]
	if len(b) < 12 {
		h.status = "short"
		return
	}
	h.rcode = b[3] & 0x0f
	an := binary.BigEndian.Uint16(b[6:])
	if an >= 1 && binary.BigEndian.Uint16(b[8:]) == 0 && binary.BigEndian.Uint16(b[10:]) == 0 && len(b) >= 12+10 {
		// single-section answer, the last record is an A record: ... ttl(4) rdlen(2)=4 rdata(4)
		n := len(b)
		if binary.BigEndian.Uint16(b[n-6:]) == 4 {
			h.ttl = binary.BigEndian.Uint32(b[n-10:])
			h.mark = b[n-1]
		}
	}
	return
}

func c19One(env *hx.RouterEnv, l string, q []byte) c19Hit {
	t := time.Now()
	resps, st := env.Query(l, q, "-", 5*time.Second, 5*time.Millisecond)
	h := c19Parse(resps, st)
	h.sent = t
	h.latency = time.Since(t)
	return h
}

func c19Burst(env *hx.RouterEnv, ls []string, q []byte, n int) []c19Hit {
	out := make([]c19Hit, n)
	var wg sync.WaitGroup
	for i := 0; i < n; i++ {
		wg.Add(1)
		go func(i int) {
			defer wg.Done()
			qq := append([]byte(nil), q...)
			binary.BigEndian.PutUint16(qq, uint16(0x4000+i))
			out[i] = c19One(env, ls[i%len(ls)], qq)
		}(i)
	}
	wg.Wait()
	return out
}

// summary of a burst: how many were answered from the cache with mark m; how many were slow; latest send; max latency
func c19Sum(hits []c19Hit, m byte, slow time.Duration) (good, nslow int, lastSent time.Time, maxLat time.Duration) {
	for _, h := range hits {
		if h.status == "ok" && h.rcode == 0 && h.mark == m {
			good++
		}
		if h.latency >= slow {
			nslow++
		}
		if h.sent.After(lastSent) {
			lastSent = h.sent
		}
		if h.latency > maxLat {
			maxLat = h.latency
		}
	}
	return
}

func c19Mark(h c19Hit) string {
	if h.status != "ok" {
		return "E:" + h.status
	}
	if h.rcode != 0 {
		return fmt.Sprintf("R%d", h.rcode)
	}
	switch h.mark {
	case 7:
		return "A"
	case 8:
		return "B"
	}
	return fmt.Sprintf("?%d", h.mark)
}

func c19WaitIdle(env *hx.RouterEnv, limit time.Duration) int {
	dl := time.Now().Add(limit)
	for {
		n := env.R.VerifPrefetchInflight()
		if n == 0 || time.Now().After(dl) {
			return n
		}
		time.Sleep(10 * time.Millisecond)
	}
}

func c19SleepUntil(t time.Time) {
	if d := time.Until(t); d > 0 {
		time.Sleep(d)
	}
}

func runPrefetchE2E(id string, parts []string) string {
	f := hx.Fields(parts)
	mode := f["mode"]
	ttl := hx.MustAtoi(f["ttl"])
	n := hx.MustAtoi(f["n"])
	delay := time.Duration(hx.MustAtoi(f["delay"])) * time.Millisecond
	name, err := hx.UnHex(f["name"])
	if err != nil {
		return "HARNESS-ERROR bad hex"
	}
	spec := "U=" + f["up"] + ";E=0;R=-:0:0:0;C=8388608"
	// one private router per scenario: the in-flight set observed through the hook is then this scenario's own
	c19Quiet.Do(router.VerifQuiet)
	env, err := c19NewEnv(spec)
	if err != nil {
		return "HARNESS-ERROR env: " + strings.ReplaceAll(err.Error(), " ", "_")
	}
	defer env.Close()
	ls := c19Listeners
	if f["ls"] != "mixed" && f["ls"] != "" {
		ls = strings.Split(f["ls"], "+")
	}
	if st := hx.MustAtoi(f["stagger"]); st > 0 {
		time.Sleep(time.Duration(st) * time.Millisecond)
	}
	q := hx.BuildQuery(0x1234, name, 1, 1, true)
	key := hx.QuestionKey(q)
	T := time.Duration(ttl) * time.Second
	slowLimit := 600 * time.Millisecond
	replyA := hx.BuildReply(q, false, 0, [4]byte{10, 0, 0, 7}, uint32(ttl))
	replyB := hx.BuildReply(q, false, 0, [4]byte{10, 0, 0, 8}, uint32(ttl))
	negRcode := byte(3)
	if v := f["rc"]; v != "" {
		negRcode = byte(hx.MustAtoi(v))
	}
	replyNX := hx.BuildReply(q, false, negRcode, [4]byte{10, 0, 0, 9}, 30)

	// ---- warm: one query, a miss, stored at some instant in [w0, w1]
	env.SetBehaviour(key, hx.Behaviour{Kind: "reply", Reply: replyA})
	w0 := time.Now()
	warm := c19One(env, "udp", q)
	w1 := time.Now()
	warmUp := len(env.PeekQueries(key))
	if c19Mark(warm) != "A" || warmUp != 1 {
		env.TakeQueries(key)
		return fmt.Sprintf("timing=ok warm=%s/%d", c19Mark(warm), warmUp)
	}
	bad := func(why string) string {
		env.TakeQueries(key)
		return "timing=bad why=" + why
	}
	if w1.Sub(w0) > 150*time.Millisecond {
		return bad("warm-slow")
	}
	out := "timing=ok warm=A/1"

	// ---- early burst (control): more than a quarter of the lifetime is left, no refresh may start
	c19SleepUntil(w1.Add(T / 4))
	early := c19Burst(env, ls, q, n)
	eGood, _, eLast, eMax := c19Sum(early, 7, slowLimit)
	if eLast.Sub(w0)+eMax > T*3/4-100*time.Millisecond {
		return bad("early-late")
	}
	if eMax > 250*time.Millisecond {
		return bad("control-slow")
	}
	time.Sleep(50 * time.Millisecond)
	earlyUp := len(env.PeekQueries(key)) - 1
	out += fmt.Sprintf(" early=%d/%d early_up=%d early_infl=%d", eGood, n, earlyUp, env.R.VerifPrefetchInflight())
	if mode == "early" {
		env.TakeQueries(key)
		return out
	}

	// ---- inside the last quarter: stored <= w1, so from w1 + 3T/4 + 150 ms on the window test holds.
	// The backend (otter) counts whole seconds on a clock that ticks once a second: an entry stored with
	// lifetime T is dropped between T-1 s and T after the store, so "before the entry could expire" = T - 1 s.
	fire := w1.Add(T*3/4 + 150*time.Millisecond)
	inWindow := func(hits []c19Hit) bool { // every hit that was not slow was answered before the entry could expire
		for _, h := range hits {
			if h.latency < slowLimit && h.sent.Add(h.latency).Sub(w0) > T-time.Second-50*time.Millisecond {
				return false
			}
		}
		return true
	}
	switch mode {
	case "ok", "silent":
		c19SleepUntil(fire)
		if mode == "ok" {
			env.SetBehaviour(key, hx.Behaviour{Kind: "reply", Reply: replyB, Delay: delay})
		} else {
			env.SetBehaviour(key, hx.Behaviour{Kind: "silent"})
		}
		hits := c19Burst(env, ls, q, n)
		good, nslow, _, _ := c19Sum(hits, 7, slowLimit)
		if !inWindow(hits) {
			return bad("burst-late")
		}
		// the refresh is still in flight (slow upstream): look at the log now
		time.Sleep(150 * time.Millisecond)
		upBurst := len(env.PeekQueries(key))
		inflMid := env.R.VerifPrefetchInflight()
		out += fmt.Sprintf(" ans=%d/%d slow=%d up_burst=%d infl_mid=%d", good, n, nslow, upBurst, inflMid)
		if mode == "silent" {
			env.TakeQueries(key)
			return out
		}
		// wait for the refresh to finish, then a later hit must see the renewed entry
		c19SleepUntil(fire.Add(delay + 100*time.Millisecond))
		inflEnd := c19WaitIdle(env, 3*time.Second)
		late := c19One(env, "udp", q)
		upAfter := len(env.PeekQueries(key))
		out += fmt.Sprintf(" after=%s renewed=%d up_after=%d infl_end=%d", c19Mark(late), b2i(int(late.ttl) >= ttl-1), upAfter, inflEnd)
	case "fail":
		// refresh #1 fails fast (the TCP upstream closes the connection on the query)
		c19SleepUntil(fire)
		env.SetBehaviour(key, hx.Behaviour{Kind: "close"})
		h1 := c19One(env, "udp", q)
		time.Sleep(100 * time.Millisecond)
		infl1 := c19WaitIdle(env, 400*time.Millisecond)
		up1 := len(env.PeekQueries(key))
		// refresh #2 succeeds; the old entry must still be served meanwhile
		env.SetBehaviour(key, hx.Behaviour{Kind: "reply", Reply: replyB, Delay: delay})
		h2 := c19One(env, "udp", q)
		if !inWindow([]c19Hit{h1, h2}) {
			return bad("fail-late")
		}
		time.Sleep(delay)
		infl2 := c19WaitIdle(env, 3*time.Second)
		up2 := len(env.PeekQueries(key))
		h3 := c19One(env, "udp", q)
		up3 := len(env.PeekQueries(key))
		out += fmt.Sprintf(" h1=%s up1=%d infl1=%d h2=%s aged=%d up2=%d infl2=%d h3=%s renewed=%d up3=%d",
			c19Mark(h1), up1, infl1, c19Mark(h2), b2i(int(h2.ttl) <= ttl/4+1), up2, infl2, c19Mark(h3), b2i(int(h3.ttl) >= ttl-1), up3)
	case "neg":
		// a negative refresh is set-if-absent: the present positive entry stays
		c19SleepUntil(fire)
		env.SetBehaviour(key, hx.Behaviour{Kind: "reply", Reply: replyNX, Delay: delay})
		h1 := c19One(env, "udp", q)
		time.Sleep(delay + 50*time.Millisecond)
		infl1 := c19WaitIdle(env, 3*time.Second)
		up1 := len(env.PeekQueries(key))
		h2 := c19One(env, "udp", q)
		if !inWindow([]c19Hit{h1, h2}) {
			return bad("neg-late")
		}
		time.Sleep(delay + 50*time.Millisecond)
		infl2 := c19WaitIdle(env, 3*time.Second)
		up2 := len(env.PeekQueries(key))
		out += fmt.Sprintf(" h1=%s up1=%d infl1=%d h2=%s aged=%d up2=%d infl2=%d",
			c19Mark(h1), up1, infl1, c19Mark(h2), b2i(int(h2.ttl) <= ttl/4+1), up2, infl2)
	default:
		return "HARNESS-ERROR bad mode"
	}
	env.TakeQueries(key)
	return out
}
