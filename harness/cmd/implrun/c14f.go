package main

// C14, round 6: kind "idlimit" - a pipelined connection reaches the end of its wire ids between two exchanges.
//   case:   <id> tr=<udp|tcpp> q0=<first wire id of every connection> n=<exchanges>
//     a PipelineTransport whose connections start at nextQid = q0 (C05's add-only hook
//     VerifNewPipelineTransportPreset) against a healthy loopback server; n exchanges one after the other (deadline
//     1.5 s).  A connection carries the ids q0..65535 and is then retired; the exchange that finds it exhausted must be
//     carried by ANOTHER connection.
//   result: res=<R|E|H per exchange> late=<0|1> acc=<connections / client sockets the server saw>

import (
	"context"
	"fmt"
	"net"
	"strings"
	"time"

	"github.com/IrineSistiana/mosproxy/internal/upstream/transport"
	"github.com/IrineSistiana/mosproxy/verifharness/hx"
)

func init() { register("idlimit", 12, runIDLimit) }

func runIDLimit(id string, parts []string) string {
	return guard(id, 60*time.Second, func() string { return idLimitCase(hx.Fields(parts)) })
}

func idLimitCase(f map[string]string) string {
	tr := f["tr"]
	q0 := hx.MustAtoi(f["q0"])
	n := hx.MustAtoi(f["n"])
	if tr != "udp" && tr != "tcpp" {
		return "HARNESS-ERROR unsupported transport " + tr
	}
	srv, err := ogNewServer(tr)
	if err != nil {
		return "HARNESS-ERROR " + err.Error()
	}
	defer srv.release()
	if err := srv.up("ok"); err != nil {
		return "HARNESS-ERROR " + err.Error()
	}
	network := "udp"
	if tr == "tcpp" {
		network = "tcp"
	}
	var d net.Dialer
	u := transport.VerifNewPipelineTransportPreset(transport.PipelineOpts{
		DialContext:        func(ctx context.Context) (net.Conn, error) { return d.DialContext(ctx, network, srv.addr) },
		IsTCP:              tr == "tcpp",
		MaxConcurrentQuery: 64,
	}, q0)
	defer ogCloseLater(u)
	var res strings.Builder
	late := 0
	for i := 0; i < n; i++ {
		c, _ := ogOne(u, uint16(0x100+i), 1500*time.Millisecond)
		res.WriteByte(c)
		if c == 'H' || c == 'L' {
			late = 1
			break
		}
	}
	time.Sleep(20 * time.Millisecond)
	return fmt.Sprintf("res=%s late=%d acc=%d", res.String(), late, srv.acc.Load())
}
