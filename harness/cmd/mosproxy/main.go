// Real mosproxy binary, built from /repo's working tree without making /repo the main module.
package main

import (
	"github.com/IrineSistiana/mosproxy/app"
	_ "github.com/IrineSistiana/mosproxy/app/router"
)

func main() {
	rootCmd := app.RootCmd()
	rootCmd.Version = "verif"
	rootCmd.Execute()
}
