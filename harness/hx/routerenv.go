package hx

// RouterEnv: the REAL router started in-process (router.VerifRun) with loopback listeners, in front of
// scripted fake upstream servers (UDP+TCP on one port each) run by the harness.
//
// cfgspec (one token, no spaces):  U=<kinds>;E=<0|1>;S=<set>,<set>..;R=<rule>,<rule>..[;C=<mem_size>][;L=<limit>:<burst>][;M=<maxconc>]
//   [;I=<idle_timeout s of tcp/gnet/tls>][;K=<hex of the ip-marker file text>][;T=1 tls/https/quic listeners][;W=1 wildcard multi-routes udp listener]
//   [;Q=1 log.queries][;H=1 http.path][;D=<udp threads>]
//   kinds : one letter per upstream: u = udp://, t = tcp://, p = tcp+pipeline://
//   set   : entries joined by '+': f.<hex raw name> (full:) | d.<hex raw name> (domain:) | '-' for the empty set
//   rule  : <set idx|->:<reverse 0|1>:<reject>:<upstream idx|->
//   K     : hex of the text of an ip marker file (cache.ip_marker: lines "start,end,label"); absent = no marker

import (
	"bytes"
	"context"
	"crypto/sha256"
	"crypto/tls"
	"encoding/base64"
	"encoding/binary"
	"errors"
	"fmt"
	"io"
	"net"
	"net/http"
	"os"
	"path/filepath"
	"strconv"
	"strings"
	"sync"
	"sync/atomic"
	"time"

	"github.com/IrineSistiana/mosproxy/app/router"
	"github.com/quic-go/quic-go"
)

// Behaviour of a fake upstream for one question key.
type Behaviour struct {
	Kind  string // reply | silent | close | garbage
	Reply []byte // for reply: the wire message (ID is patched to the query's)
	Delay time.Duration
}

type UpQuery struct {
	Upstream int
	Proto    string
	Wire     []byte
}

type FakeUpstream struct {
	Idx  int
	Port int
	udp  *net.UDPConn
	tcp  net.Listener
	env  *RouterEnv
}

type RouterEnv struct {
	Spec       string
	R          *router.VerifRouter
	Ups        []*FakeUpstream
	Ports      map[string]int // listener kind -> port
	Unix       map[string]string // listener kind -> abstract unix socket name ("@..."), kinds tcpunix gnetunix httpunix fasthttpunix
	dir        string
	mu         sync.Mutex
	behaviour  map[string]Behaviour
	queries    map[string][]UpQuery
	kinds      string // upstream kinds of the cfgspec (U=...)
	keyed      bool
	keyedTTL   uint32
	keyedDelay time.Duration
	KeyedCount atomic.Int64 // upstream exchanges served by the keyed behaviour
	// KeyedAllowed, when set, is the set of question keys the clients may ask: an upstream query for any other
	// question (a torn or recycled question) is counted in KeyedForeign and remembered in KeyedForeignSample
	KeyedAllowed       map[string]bool
	KeyedForeign       atomic.Int64
	KeyedForeignSample atomic.Value
}

func FreePort() int {
	for i := 0; i < 50; i++ {
		l, err := net.Listen("tcp", "127.0.0.1:0")
		if err != nil {
			continue
		}
		p := l.Addr().(*net.TCPAddr).Port
		u, err2 := net.ListenUDP("udp", &net.UDPAddr{IP: net.IPv4(127, 0, 0, 1), Port: p})
		l.Close()
		if err2 != nil {
			continue
		}
		u.Close()
		return p
	}
	panic("no free port")
}

// QuestionKey returns the canonical key of the first question of a wire message without compression
// (lower-cased raw name + type + class), or "".
func QuestionKey(q []byte) string {
	qe := QuestionEnd(q)
	if qe < 0 {
		return ""
	}
	// lower-case label-wise (length octets must not be touched)
	k := append([]byte(nil), q[12:qe]...)
	off := 0
	for off < len(k)-4 {
		l := int(k[off])
		if l == 0 {
			break
		}
		for i := off + 1; i <= off+l && i < len(k); i++ {
			if k[i] >= 'A' && k[i] <= 'Z' {
				k[i] += 32
			}
		}
		off += 1 + l
	}
	return string(k)
}

func B64(b []byte) string { return base64.RawURLEncoding.EncodeToString(b) }

func (e *RouterEnv) SetBehaviour(key string, b Behaviour) {
	e.mu.Lock()
	e.behaviour[key] = b
	delete(e.queries, key)
	e.mu.Unlock()
}

func (e *RouterEnv) TakeQueries(key string) []UpQuery {
	e.mu.Lock()
	defer e.mu.Unlock()
	q := e.queries[key]
	delete(e.queries, key)
	delete(e.behaviour, key)
	return q
}

func (e *RouterEnv) PeekQueries(key string) []UpQuery {
	e.mu.Lock()
	defer e.mu.Unlock()
	return append([]UpQuery(nil), e.queries[key]...)
}

func (e *RouterEnv) lookup(idx int, proto string, wire []byte) (Behaviour, bool) {
	key := QuestionKey(wire)
	e.mu.Lock()
	defer e.mu.Unlock()
	e.queries[key] = append(e.queries[key], UpQuery{Upstream: idx, Proto: proto, Wire: append([]byte(nil), wire...)})
	b, ok := e.behaviour[key]
	if !ok && e.keyed {
		// keyed mode does not keep a per-question log (it would grow without bound under load)
		delete(e.queries, key)
		e.KeyedCount.Add(1)
		if e.KeyedAllowed != nil && !e.KeyedAllowed[key] {
			e.KeyedForeign.Add(1)
			e.KeyedForeignSample.CompareAndSwap(nil, Hex(wire))
		}
		var d time.Duration
		if e.keyedDelay > 0 && len(wire) >= 2 {
			h := sha256.Sum256(wire)
			d = time.Duration(uint64(binary.BigEndian.Uint32(h[:4])) % uint64(e.keyedDelay))
		}
		switch KeyedClass(key) {
		case "fail":
			// udp:// upstream: truncated reply, then the TCP repeat (a one-query-at-a-time connection) is closed;
			// tcp upstreams: an upstream SERVFAIL (closing a pipelined connection would fail every exchange on it)
			if idx < len(e.kinds) && e.kinds[idx] == 'u' {
				if proto == "udp" {
					return Behaviour{Kind: "reply", Reply: keyedTruncated(wire), Delay: d}, true
				}
				return Behaviour{Kind: "close"}, true
			}
			sf := keyedTruncated(wire)
			if sf != nil {
				sf[2] = 0x81
				sf[3] = 0x82
			}
			return Behaviour{Kind: "reply", Reply: sf, Delay: d}, true
		case "tc": // UDP: truncated reply; the TCP repeat is answered normally
			if proto == "udp" {
				return Behaviour{Kind: "reply", Reply: keyedTruncated(wire), Delay: d}, true
			}
		}
		return Behaviour{Kind: "reply", Reply: KeyedReply(wire, e.keyedTTL), Delay: d}, true
	}
	return b, ok
}

func patchID(reply, query []byte) []byte {
	r := append([]byte(nil), reply...)
	if len(r) >= 2 && len(query) >= 2 {
		r[0], r[1] = query[0], query[1]
	}
	return r
}

func (u *FakeUpstream) serveUDP() {
	buf := make([]byte, 65536)
	for {
		n, addr, err := u.udp.ReadFromUDP(buf)
		if err != nil {
			return
		}
		q := append([]byte(nil), buf[:n]...)
		b, ok := u.env.lookup(u.Idx, "udp", q)
		if !ok {
			continue
		}
		go func() {
			if b.Delay > 0 {
				time.Sleep(b.Delay)
			}
			switch b.Kind {
			case "reply":
				r := patchID(b.Reply, q)
				if len(r) > 1200 {
					// behave like a real server: the proxy advertised 1200 octets, so truncate and set TC
					// (the proxy then repeats the query over TCP, where the full reply is served)
					if qe := QuestionEnd(q); qe > 0 {
						t := append([]byte(nil), q[:qe]...)
						t[2] = 0x82 | (q[2] & 0x79)
						t[3] = r[3]
						for i := 6; i < 12; i++ {
							t[i] = 0
						}
						r = t
					}
				}
				u.udp.WriteToUDP(r, addr)
			case "garbage":
				g := append([]byte(nil), q[:2]...)
				g = append(g, 0x81, 0x80, 0xff, 0xff, 0xff)
				u.udp.WriteToUDP(g, addr)
			}
		}()
	}
}

func (u *FakeUpstream) serveTCP() {
	for {
		c, err := u.tcp.Accept()
		if err != nil {
			return
		}
		go func() {
			defer c.Close()
			var wm sync.Mutex
			for {
				hdr := make([]byte, 2)
				if _, err := io.ReadFull(c, hdr); err != nil {
					return
				}
				q := make([]byte, binary.BigEndian.Uint16(hdr))
				if _, err := io.ReadFull(c, q); err != nil {
					return
				}
				b, ok := u.env.lookup(u.Idx, "tcp", q)
				if !ok {
					continue
				}
				if b.Kind == "close" {
					return
				}
				go func() {
					if b.Delay > 0 {
						time.Sleep(b.Delay)
					}
					var out []byte
					switch b.Kind {
					case "reply":
						out = patchID(b.Reply, q)
					case "garbage":
						out = append(append([]byte(nil), q[:2]...), 0x81, 0x80, 0xff, 0xff, 0xff)
					default:
						return
					}
					f := binary.BigEndian.AppendUint16(nil, uint16(len(out)))
					f = append(f, out...)
					wm.Lock()
					c.Write(f)
					wm.Unlock()
				}()
			}
		}()
	}
}

func newFakeUpstream(env *RouterEnv, idx int) (*FakeUpstream, error) {
	for try := 0; try < 20; try++ {
		p := FreePort()
		t, err := net.Listen("tcp", fmt.Sprintf("127.0.0.1:%d", p))
		if err != nil {
			continue
		}
		u, err := net.ListenUDP("udp", &net.UDPAddr{IP: net.IPv4(127, 0, 0, 1), Port: p})
		if err != nil {
			t.Close()
			continue
		}
		f := &FakeUpstream{Idx: idx, Port: p, udp: u, tcp: t, env: env}
		go f.serveUDP()
		go f.serveTCP()
		return f, nil
	}
	return nil, errors.New("cannot start fake upstream")
}

// ReadableName renders a raw wire name (labels of plain characters only) as dotted text.
func ReadableName(raw []byte) string {
	var parts []string
	for off := 0; off < len(raw); {
		l := int(raw[off])
		parts = append(parts, string(raw[off+1:off+1+l]))
		off += 1 + l
	}
	if len(parts) == 0 {
		return "."
	}
	return strings.Join(parts, ".")
}

var ListenerKinds = []string{"udp", "tcp", "gnet", "http", "fasthttp"}

// TLS-based listeners (temporary self-signed certificate), started only when the cfgspec has T=1
var TlsListenerKinds = []string{"tls", "https", "quic"}

// NewRouterEnv builds everything for a cfgspec. extra listeners (tls/https/quic) are not started here.
// BeforeRun, when set, is called with the environment (ports chosen, fake upstreams up, configuration files written)
// immediately before the router is started (kind startrace: clients that are already sending while run() executes).
var BeforeRun func(env *RouterEnv)

var unixSeq atomic.Int64

func NewRouterEnv(spec string) (*RouterEnv, error) {
	env := &RouterEnv{Spec: spec, Ports: map[string]int{}, Unix: map[string]string{}, behaviour: map[string]Behaviour{}, queries: map[string][]UpQuery{}}
	parts := map[string]string{}
	for _, p := range strings.Split(spec, ";") {
		k, v, _ := strings.Cut(p, "=")
		parts[k] = v
	}
	dir, err := os.MkdirTemp("", "verifrouter")
	if err != nil {
		return nil, err
	}
	env.dir = dir
	cfg := &router.Config{}
	env.kinds = parts["U"]
	for i, k := range parts["U"] {
		fu, err := newFakeUpstream(env, i)
		if err != nil {
			return nil, err
		}
		env.Ups = append(env.Ups, fu)
		scheme := map[rune]string{'u': "udp", 't': "tcp", 'p': "tcp+pipeline"}[k]
		cfg.Upstreams = append(cfg.Upstreams, router.UpstreamConfig{
			Tag: fmt.Sprintf("up%d", i), Addr: fmt.Sprintf("%s://127.0.0.1:%d", scheme, fu.Port)})
	}
	if s := parts["S"]; s != "" {
		// An entry that occurs in more than one set is written ONCE, into a file of its own that every such set lists next
		// to its own file (domain sets may share files; the result depends only on the set of entries). Each set's own
		// entries are additionally split over two files.
		sets := strings.Split(s, ",")
		occ := map[string]int{}
		for _, set := range sets {
			seen := map[string]bool{}
			if set != "-" {
				for _, ent := range strings.Split(set, "+") {
					if !seen[ent] {
						seen[ent] = true
						occ[ent]++
					}
				}
			}
		}
		line := func(ent string) (string, error) {
			kind, hexname, _ := strings.Cut(ent, ".")
			raw, err := UnHex(hexname)
			if err != nil {
				return "", err
			}
			pre := map[string]string{"f": "full:", "d": "domain:", "b": ""}[kind]
			return pre + ReadableName(raw) + "\n", nil
		}
		sharedFile := map[string]string{}
		for i, set := range sets {
			var own [2]strings.Builder
			own[0].WriteString("# generated\n\n")
			own[1].WriteString("# generated (second file)\n")
			var files []string
			if set != "-" {
				for j, ent := range strings.Split(set, "+") {
					l, err := line(ent)
					if err != nil {
						return nil, err
					}
					if occ[ent] > 1 {
						fp, ok := sharedFile[ent]
						if !ok {
							fp = filepath.Join(dir, fmt.Sprintf("shared%d.txt", len(sharedFile)))
							if err := os.WriteFile(fp, []byte("# shared by several sets\n"+l), 0644); err != nil {
								return nil, err
							}
							sharedFile[ent] = fp
						}
						dup := false
						for _, f := range files {
							dup = dup || f == fp
						}
						if !dup {
							files = append(files, fp)
						}
						continue
					}
					own[j%2].WriteString(l)
				}
			}
			if n, _ := strconv.Atoi(parts["B"]); n > 0 {
				// B=<n>: every set additionally lists a bulk file of n entries under a name space no query uses
				// (a domain set that takes a while to load: start-up ordering, kind startrace)
				var sb strings.Builder
				for j := 0; j < n; j++ {
					fmt.Fprintf(&sb, "domain:bulk%d.s%d.bulk-entries.invalid\n", j, i)
				}
				fp := filepath.Join(dir, fmt.Sprintf("bulk%d.txt", i))
				if err := os.WriteFile(fp, []byte(sb.String()), 0644); err != nil {
					return nil, err
				}
				files = append(files, fp)
			}
			for k := 0; k < 2; k++ {
				fp := filepath.Join(dir, fmt.Sprintf("set%d_%d.txt", i, k))
				if err := os.WriteFile(fp, []byte(own[k].String()), 0644); err != nil {
					return nil, err
				}
				files = append(files, fp)
			}
			cfg.DomainSets = append(cfg.DomainSets, router.DomainSetConfig{Tag: fmt.Sprintf("set%d", i), Files: files})
		}
	}
	if s := parts["R"]; s != "" {
		for _, ru := range strings.Split(s, ",") {
			f := strings.Split(ru, ":")
			if len(f) != 4 {
				return nil, fmt.Errorf("bad rule %q", ru)
			}
			rc := router.RuleConfig{}
			if f[0] != "-" {
				rc.Domain = "set" + f[0]
				rc.Reverse = f[1] == "1"
			}
			n, _ := strconv.Atoi(f[2])
			rc.Reject = uint16(n)
			if f[3] != "-" {
				rc.Forward = "up" + f[3]
			}
			cfg.Rules = append(cfg.Rules, rc)
		}
	}
	cfg.ECS.Enabled = parts["E"] == "1"
	if c := parts["C"]; c != "" {
		cfg.Cache.MemSize, _ = strconv.Atoi(c)
	}
	if k := parts["K"]; k != "" {
		text, err := UnHex(k)
		if err != nil {
			return nil, err
		}
		fp := filepath.Join(dir, "ipmarker.txt")
		if err := os.WriteFile(fp, text, 0644); err != nil {
			return nil, err
		}
		cfg.Cache.IpMarker = fp
	}
	if l := parts["L"]; l != "" {
		a, b, _ := strings.Cut(l, ":")
		cfg.Limiter.Client.Limit, _ = strconv.Atoi(a)
		cfg.Limiter.Client.Burst, _ = strconv.Atoi(b)
	}
	maxc := 0
	if m := parts["M"]; m != "" {
		maxc, _ = strconv.Atoi(m)
	}
	idleSec := 0
	if v := parts["I"]; v != "" {
		idleSec, _ = strconv.Atoi(v)
	}
	kinds := append([]string(nil), ListenerKinds...)
	if parts["T"] == "1" {
		kinds = append(kinds, TlsListenerKinds...)
	}
	if parts["Q"] == "1" {
		cfg.Log.Queries = true // every query is logged: the readable form of every query name is built
	}
	if parts["W"] == "1" {
		// "udpmr": a UDP listener on the wildcard address with udp.multi_routes (replies must leave from the address the
		// query was sent to: IP_PKTINFO); queried at 127.0.0.2 / 127.0.0.3 with connected sockets
		kinds = append(kinds, "udpmr")
		// listeners on abstract UNIX sockets (listen: "@name"): the peer has no IP address (no ECS, no limiter subnet, the
		// "no address" cache group) unless a DoH client-address header names one
		kinds = append(kinds, "tcpunix", "gnetunix", "httpunix", "fasthttpunix")
		// "udpds": a DUAL-STACK UDP listener ("[::]:port"): IPv4 clients appear as v4-mapped IPv6 addresses
		kinds = append(kinds, "udpds")
	}
	for _, k := range kinds {
		p := FreePort()
		env.Ports[k] = p
		sc := router.ServerConfig{Tag: k, Protocol: k, Listen: fmt.Sprintf("127.0.0.1:%d", p)}
		if strings.HasSuffix(k, "unix") {
			sc.Protocol = strings.TrimSuffix(k, "unix")
			unixSeq.Add(1)
			env.Unix[k] = fmt.Sprintf("@verif-%d-%d-%s", os.Getpid(), unixSeq.Load(), k)
			sc.Listen = env.Unix[k]
		}
		if k == "udpds" {
			sc.Protocol = "udp"
			sc.Listen = fmt.Sprintf("[::]:%d", p)
		}
		if k == "udpmr" {
			sc.Protocol = "udp"
			sc.Listen = fmt.Sprintf("0.0.0.0:%d", p)
			sc.Udp.MultiRoutes = true
		}
		sc.Tcp.MaxConcurrentQueries = int32(maxc)
		if k == "tcp" || k == "gnet" || k == "tls" {
			if n, _ := strconv.Atoi(parts["N"]); n > 0 {
				sc.Socket.SO_SNDBUF = n // N=<octets>: socket.so_sndbuf of the stream listeners (back-pressure with little data)
			}
			sc.IdleTimeout = idleSec // I=<seconds>: idle_timeout of the stream listeners (absent/0 = the default)
		}
		if k == "http" || k == "fasthttp" || k == "https" || k == "httpunix" || k == "fasthttpunix" {
			// configured in a NON-canonical spelling (as "X-Real-IP" would be): header names are case-insensitive, the
			// clients send "X-Verif-Client"
			sc.Http.ClientAddrHeader = "x-verif-CLIENT"
			if parts["H"] == "1" {
				sc.Http.Path = "/dns-query" // requests for any other path: 404
			}
		}
		if (k == "udp" || k == "udpmr") && parts["D"] != "" {
			sc.Udp.Threads, _ = strconv.Atoi(parts["D"])
		}
		if k == "tls" || k == "https" || k == "quic" {
			sc.Tls.DebugUseTempCert = true
		}
		cfg.Servers = append(cfg.Servers, sc)
	}
	if BeforeRun != nil {
		BeforeRun(env)
	}
	r, err := router.VerifRun(cfg)
	if err != nil {
		return nil, err
	}
	env.R = r
	// wait until the stream listeners accept
	waitFor := []string{"tcp", "gnet", "http", "fasthttp"}
	if parts["T"] == "1" {
		waitFor = append(waitFor, "tls", "https")
	}
	for _, k := range waitFor {
		ok := false
		for i := 0; i < 200; i++ {
			c, err := net.DialTimeout("tcp", fmt.Sprintf("127.0.0.1:%d", env.Ports[k]), 200*time.Millisecond)
			if err == nil {
				c.Close()
				ok = true
				break
			}
			time.Sleep(10 * time.Millisecond)
		}
		if !ok {
			return nil, fmt.Errorf("listener %s did not come up", k)
		}
	}
	return env, nil
}

func (e *RouterEnv) Close() {
	e.CloseKA()
	if e.R != nil {
		e.R.Close()
	}
	for _, u := range e.Ups {
		u.udp.Close()
		u.tcp.Close()
	}
	os.RemoveAll(e.dir)
}

// Query sends one wire query through listener kind l and returns the responses received
// (waiting `grace` after the first one for duplicates), or an error class.
// client: textual client address for the DoH header (ignored elsewhere; "-" = none).
// srcOf: on the socket listeners (udp, tcp, gnet, tls, quic) a client "127.x.y.z" is the loopback SOURCE address the
// harness client binds (every address of 127/8 is local); "-" or anything else: the default source 127.0.0.1.
func srcOf(client string) net.IP {
	if ip := net.ParseIP(client); ip != nil && ip.To4() != nil && ip.To4()[0] == 127 {
		return ip.To4()
	}
	return nil
}

func (e *RouterEnv) Query(l string, wire []byte, client string, timeout, grace time.Duration) (resps [][]byte, status string) {
	// "<listener>@<path>": a DoH request for another URL path than /dns-query
	urlPath := "/dns-query"
	if i := strings.IndexByte(l, '@'); i >= 0 {
		urlPath, l = l[i+1:], l[:i]
	}
	// "<path>?<prefix>#<suffix>": a GET asks <path>?<prefix>dns=<b64><suffix> (other pairs, empty pairs around the dns pair)
	urlPath, qpre, qsuf := SplitQueryDecor(urlPath)
	port := e.Ports[strings.TrimSuffix(strings.TrimSuffix(l, "-get"), "-post")]
	switch {
	case l == "udp" || l == "udpmr" || l == "udpds":
		dst := net.IPv4(127, 0, 0, 1)
		if l == "udpmr" {
			// a non-primary local address; the connected socket only accepts a reply coming from exactly this address
			dst = net.IPv4(127, 0, 0, byte(2+len(wire)%2))
		}
		var laddr *net.UDPAddr
		if ip := srcOf(client); ip != nil {
			laddr = &net.UDPAddr{IP: ip}
		}
		c, err := net.DialUDP("udp", laddr, &net.UDPAddr{IP: dst, Port: port})
		if err != nil {
			return nil, "dial-error"
		}
		defer c.Close()
		c.Write(wire)
		buf := make([]byte, 65536)
		c.SetReadDeadline(time.Now().Add(timeout))
		for {
			n, err := c.Read(buf)
			if err != nil {
				break
			}
			resps = append(resps, append([]byte(nil), buf[:n]...))
			c.SetReadDeadline(time.Now().Add(grace))
		}
		if len(resps) == 0 {
			return nil, "no-response"
		}
		return resps, "ok"
	case l == "quic":
		return e.queryQuic(port, wire, srcOf(client), timeout, grace)
	case l == "tcp" || l == "gnet" || l == "tls" || l == "tcpunix" || l == "gnetunix":
		var c net.Conn
		var err error
		d := &net.Dialer{Timeout: time.Second}
		if ip := srcOf(client); ip != nil && !strings.HasSuffix(l, "unix") {
			d.LocalAddr = &net.TCPAddr{IP: ip}
		}
		if strings.HasSuffix(l, "unix") {
			c, err = d.Dial("unix", e.Unix[l])
		} else if l == "tls" {
			c, err = tls.DialWithDialer(d, "tcp", fmt.Sprintf("127.0.0.1:%d", port), &tls.Config{InsecureSkipVerify: true})
		} else {
			c, err = d.Dial("tcp", fmt.Sprintf("127.0.0.1:%d", port))
		}
		if err != nil {
			return nil, "dial-error"
		}
		defer c.Close()
		f := binary.BigEndian.AppendUint16(nil, uint16(len(wire)))
		c.Write(append(f, wire...))
		c.SetReadDeadline(time.Now().Add(timeout))
		for {
			hdr := make([]byte, 2)
			if _, err := io.ReadFull(c, hdr); err != nil {
				break
			}
			body := make([]byte, binary.BigEndian.Uint16(hdr))
			if _, err := io.ReadFull(c, body); err != nil {
				return resps, "short-frame"
			}
			resps = append(resps, body)
			c.SetReadDeadline(time.Now().Add(grace))
		}
		if len(resps) == 0 {
			return nil, "no-response"
		}
		return resps, "ok"
	default: // http-get http-post fasthttp-get fasthttp-post
		base := fmt.Sprintf("http://127.0.0.1:%d%s", port, urlPath)
		tr := &http.Transport{DisableKeepAlives: true}
		if name := e.Unix[strings.TrimSuffix(strings.TrimSuffix(l, "-get"), "-post")]; name != "" {
			base = "http://unix.invalid" + urlPath
			tr.DialContext = func(ctx context.Context, _, _ string) (net.Conn, error) {
				var d net.Dialer
				return d.DialContext(ctx, "unix", name)
			}
		}
		if strings.HasPrefix(l, "https") {
			base = fmt.Sprintf("https://127.0.0.1:%d%s", port, urlPath)
			tr = &http.Transport{DisableKeepAlives: true, ForceAttemptHTTP2: true, TLSClientConfig: &tls.Config{InsecureSkipVerify: true}}
		}
		var req *http.Request
		if strings.HasSuffix(l, "-get") {
			req, _ = http.NewRequest("GET", base+"?"+qpre+"dns="+B64(wire)+qsuf, nil)
			req.Header.Set("Accept", "application/dns-message")
		} else {
			req, _ = http.NewRequest("POST", base, bytes.NewReader(wire))
			req.Header.Set("Content-Type", "application/dns-message")
		}
		if client != "" && client != "-" {
			req.Header.Set("X-Verif-Client", client)
		}
		cl := &http.Client{Timeout: timeout, Transport: tr}
		defer tr.CloseIdleConnections()
		resp, err := cl.Do(req)
		if err != nil {
			return nil, "no-response"
		}
		defer resp.Body.Close()
		body, _ := io.ReadAll(resp.Body)
		if resp.StatusCode != 200 {
			return nil, fmt.Sprintf("http-%d", resp.StatusCode)
		}
		return [][]byte{body}, "ok"
	}
}

// SendRawUDP sends one datagram of arbitrary bytes to the udp listener (no response expected).
func (e *RouterEnv) SendRawUDP(b []byte) {
	c, err := net.DialUDP("udp", nil, &net.UDPAddr{IP: net.IPv4(127, 0, 0, 1), Port: e.Ports["udp"]})
	if err != nil {
		return
	}
	defer c.Close()
	c.Write(b)
	c.SetReadDeadline(time.Now().Add(20 * time.Millisecond))
	buf := make([]byte, 4096)
	c.Read(buf)
}

// SendRawTCP writes arbitrary bytes (optionally as one length-prefixed frame) to a stream listener and
// reports what the server did within a short time: "closed", "reply" or "open".
func (e *RouterEnv) SendRawTCP(l string, b []byte, frame bool) string {
	return e.SendRawTCPWait(l, b, frame, 150*time.Millisecond)
}

// SendRawTCPWait: as SendRawTCP, waiting up to wait for the first octet of a reply.
func (e *RouterEnv) SendRawTCPWait(l string, b []byte, frame bool, wait time.Duration) string {
	c, err := net.DialTimeout("tcp", fmt.Sprintf("127.0.0.1:%d", e.Ports[l]), time.Second)
	if err != nil {
		return "dial-error"
	}
	defer c.Close()
	if frame {
		b = append(binary.BigEndian.AppendUint16(nil, uint16(len(b))), b...)
	}
	c.Write(b)
	c.SetReadDeadline(time.Now().Add(wait))
	buf := make([]byte, 4096)
	n, err := c.Read(buf)
	if n > 0 {
		return "reply"
	}
	if err != nil && !errors.Is(err, os.ErrDeadlineExceeded) {
		return "closed"
	}
	return "open"
}

// ---- keyed upstream behaviour (C04): the answer is a pure function of the question ----

// KeyedAnswer returns the A-record addresses the keyed upstream gives for a question key (lower-cased
// raw name + type + class as returned by QuestionKey).
func KeyedAnswer(key string) [][4]byte {
	h := sha256.Sum256([]byte(key))
	n := 1 + int(h[0])%3
	out := make([][4]byte, n)
	for i := 0; i < n; i++ {
		copy(out[i][:], h[1+4*i:5+4*i])
	}
	return out
}

// KeyedClass partitions the questions of the keyed upstream: "fail" (every exchange for it fails: TC on UDP and a
// closed TCP leg), "tc" (TC on UDP, answered over TCP), "plain".
func KeyedClass(key string) string {
	h := sha256.Sum256([]byte(key))
	if h[31]%8 != 0 {
		return "plain"
	}
	if h[30]%2 == 0 {
		return "fail"
	}
	return "tc"
}

func keyedTruncated(q []byte) []byte {
	qe := QuestionEnd(q)
	if qe < 0 {
		return nil
	}
	r := append([]byte(nil), q[:qe]...)
	r[2] = 0x83 // QR, TC, RD
	r[3] = 0x80
	for i := 6; i < 12; i++ {
		r[i] = 0
	}
	return r
}

// KeyedReply builds the reply of the keyed upstream for query q (nil if q has no parsable question).
func KeyedReply(q []byte, ttl uint32) []byte {
	qe := QuestionEnd(q)
	if qe < 0 {
		return nil
	}
	key := QuestionKey(q)
	ans := KeyedAnswer(key)
	r := append([]byte(nil), q[:qe]...)
	r[2] = 0x81
	r[3] = 0x80
	binary.BigEndian.PutUint16(r[4:], 1)
	binary.BigEndian.PutUint16(r[6:], uint16(len(ans)))
	binary.BigEndian.PutUint16(r[8:], 0)
	binary.BigEndian.PutUint16(r[10:], 0)
	for _, a := range ans {
		r = append(r, 0xC0, 0x0C)
		r = binary.BigEndian.AppendUint16(r, 1)
		r = binary.BigEndian.AppendUint16(r, binary.BigEndian.Uint16(q[qe-2:qe]))
		r = binary.BigEndian.AppendUint32(r, ttl)
		r = binary.BigEndian.AppendUint16(r, 4)
		r = append(r, a[:]...)
	}
	return r
}

// EnableKeyed makes every fake upstream answer unscripted questions with KeyedReply after a
// pseudo-random delay up to maxDelay (derived from the query bytes, so replies are reordered).
// SetKeyedAllowed installs the set of question keys the clients may ask (under the environment's lock: the fake
// upstreams' goroutines read it on every query, also on queries that are still arriving from an earlier case).
func (e *RouterEnv) SetKeyedAllowed(m map[string]bool) {
	e.mu.Lock()
	e.KeyedAllowed = m
	e.mu.Unlock()
}

func (e *RouterEnv) EnableKeyed(ttl uint32, maxDelay time.Duration) {
	e.mu.Lock()
	e.keyedTTL = ttl
	e.keyedDelay = maxDelay
	e.keyed = true
	e.mu.Unlock()
}

// queryQuic sends one DoQ query (one stream, 2-octet length prefix) and reads the response frames on that stream.
func (e *RouterEnv) queryQuic(port int, wire []byte, src net.IP, timeout, grace time.Duration) ([][]byte, string) {
	ctx, cancel := context.WithTimeout(context.Background(), timeout)
	defer cancel()
	var c quic.Connection
	var err error
	tc := &tls.Config{InsecureSkipVerify: true, NextProtos: []string{"doq"}}
	if src != nil {
		pc, err2 := net.ListenUDP("udp", &net.UDPAddr{IP: src})
		if err2 != nil {
			return nil, "dial-error"
		}
		defer pc.Close()
		c, err = quic.Dial(ctx, pc, &net.UDPAddr{IP: net.IPv4(127, 0, 0, 1), Port: port}, tc, nil)
	} else {
		c, err = quic.DialAddr(ctx, fmt.Sprintf("127.0.0.1:%d", port), tc, nil)
	}
	if err != nil {
		return nil, "dial-error"
	}
	defer c.CloseWithError(0, "")
	st, err := c.OpenStreamSync(ctx)
	if err != nil {
		return nil, "dial-error"
	}
	f := binary.BigEndian.AppendUint16(nil, uint16(len(wire)))
	st.Write(append(f, wire...))
	st.Close() // DoQ: the client closes its side after the query
	st.SetReadDeadline(time.Now().Add(timeout))
	var resps [][]byte
	for {
		hdr := make([]byte, 2)
		if _, err := io.ReadFull(st, hdr); err != nil {
			break
		}
		body := make([]byte, binary.BigEndian.Uint16(hdr))
		if _, err := io.ReadFull(st, body); err != nil {
			return resps, "short-frame"
		}
		resps = append(resps, body)
		st.SetReadDeadline(time.Now().Add(grace + 20*time.Millisecond))
	}
	if len(resps) == 0 {
		return nil, "no-response"
	}
	return resps, "ok"
}

// SplitQueryDecor splits "<path>?<prefix>#<suffix>" (see Query).
func SplitQueryDecor(p string) (path, pre, suf string) {
	path = p
	if j := strings.IndexByte(path, '?'); j >= 0 {
		pre, path = path[j+1:], path[:j]
		if k := strings.IndexByte(pre, '#'); k >= 0 {
			suf, pre = pre[k+1:], pre[:k]
		}
	}
	return
}

// QueryRawGet sends a DoH GET whose query string (everything behind '?') is the given RAW text (no encoding applied by
// the harness).
func (e *RouterEnv) QueryRawGet(l string, raw []byte, client string, timeout time.Duration) (resps [][]byte, status string) {
	base := strings.TrimSuffix(l, "-get")
	port := e.Ports[base]
	u := fmt.Sprintf("http://127.0.0.1:%d/dns-query", port)
	tr := &http.Transport{DisableKeepAlives: true}
	if strings.HasPrefix(base, "https") {
		u = fmt.Sprintf("https://127.0.0.1:%d/dns-query", port)
		tr = &http.Transport{DisableKeepAlives: true, ForceAttemptHTTP2: true, TLSClientConfig: &tls.Config{InsecureSkipVerify: true}}
	}
	defer tr.CloseIdleConnections()
	req, err := http.NewRequest("GET", u, nil)
	if err != nil {
		return nil, "bad-request"
	}
	req.URL.RawQuery = string(raw)
	req.Header.Set("Accept", "application/dns-message")
	if client != "" && client != "-" {
		req.Header.Set("X-Verif-Client", client)
	}
	cl := &http.Client{Timeout: timeout, Transport: tr}
	resp, err := cl.Do(req)
	if err != nil {
		return nil, "no-response"
	}
	defer resp.Body.Close()
	body, _ := io.ReadAll(resp.Body)
	if resp.StatusCode != 200 {
		return nil, fmt.Sprintf("http-%d", resp.StatusCode)
	}
	return [][]byte{body}, "ok"
}

// SendRawUDPFromPort0 sends one UDP datagram with SOURCE PORT 0 to the udp listener through a raw socket (needs
// CAP_NET_RAW): the listener cannot send a reply to port 0 (sendmsg fails with EINVAL) - whatever it does with that
// error, it must go on serving.  Returns false when the raw socket is not available.
func (e *RouterEnv) SendRawUDPFromPort0(payload []byte) bool {
	c, err := net.ListenIP("ip4:udp", &net.IPAddr{IP: net.IPv4(127, 0, 0, 1)})
	if err != nil {
		return false
	}
	defer c.Close()
	h := make([]byte, 8, 8+len(payload))
	binary.BigEndian.PutUint16(h[0:], 0)                       // source port 0
	binary.BigEndian.PutUint16(h[2:], uint16(e.Ports["udp"])) // destination port
	binary.BigEndian.PutUint16(h[4:], uint16(8+len(payload)))
	binary.BigEndian.PutUint16(h[6:], 0) // no checksum (IPv4)
	_, err = c.WriteToIP(append(h, payload...), &net.IPAddr{IP: net.IPv4(127, 0, 0, 1)})
	return err == nil
}
