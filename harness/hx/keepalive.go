package hx

// Persistent client connections to the listeners of a RouterEnv ("ka=1" cases): the SECOND and later query on a
// connection / HTTP keep-alive connection / HTTP/2 session / QUIC connection.  The model is per request, so the
// responses must be exactly those of one-connection-per-query clients.
//   tcp, gnet, tls : one connection per (listener, source address); one query at a time on it; when the listener has
//                    closed it (idle time-out, a query it would not decode) the client redials once and asks again
//   http, fasthttp : one http.Client per listener with keep-alive connections
//   https          : one http.Client (HTTP/2, requests multiplexed on one session)
//   quic           : one QUIC connection per source address, a stream per query
// udp / udpmr are not connection oriented: they go through Query.

import (
	"bytes"
	"context"
	"crypto/tls"
	"encoding/binary"
	"fmt"
	"io"
	"net"
	"net/http"
	"strings"
	"sync"
	"time"

	"github.com/quic-go/quic-go"
)

type kaStream struct {
	mu sync.Mutex
	c  net.Conn
}

type kaQuic struct {
	mu sync.Mutex
	c  quic.Connection
	pc *net.UDPConn
}

type kaState struct {
	mu      sync.Mutex
	streams map[string]*kaStream
	clients map[string]*http.Client
	quics   map[string]*kaQuic
}

var (
	kaMu  sync.Mutex
	kaAll = map[*RouterEnv]*kaState{}
)

func (e *RouterEnv) ka() *kaState {
	kaMu.Lock()
	defer kaMu.Unlock()
	s := kaAll[e]
	if s == nil {
		s = &kaState{streams: map[string]*kaStream{}, clients: map[string]*http.Client{}, quics: map[string]*kaQuic{}}
		kaAll[e] = s
	}
	return s
}

// CloseKA closes the persistent client connections of e (called by Close).
func (e *RouterEnv) CloseKA() {
	kaMu.Lock()
	s := kaAll[e]
	delete(kaAll, e)
	kaMu.Unlock()
	if s == nil {
		return
	}
	s.mu.Lock()
	defer s.mu.Unlock()
	for _, st := range s.streams {
		st.mu.Lock()
		if st.c != nil {
			st.c.Close()
		}
		st.mu.Unlock()
	}
	for _, cl := range s.clients {
		cl.CloseIdleConnections()
	}
	for _, q := range s.quics {
		q.mu.Lock()
		if q.c != nil {
			q.c.CloseWithError(0, "")
		}
		if q.pc != nil {
			q.pc.Close()
		}
		q.mu.Unlock()
	}
}

// QueryKA is Query over a persistent connection (see above). Listener kinds without a persistent form fall back to Query.
func (e *RouterEnv) QueryKA(l string, wire []byte, client string, timeout, grace time.Duration) (resps [][]byte, status string) {
	urlPath := "/dns-query"
	l0 := l
	if i := strings.IndexByte(l0, '@'); i >= 0 {
		urlPath, l0 = l0[i+1:], l0[:i]
	}
	urlPath, qpre, qsuf := SplitQueryDecor(urlPath)
	base := strings.TrimSuffix(strings.TrimSuffix(l0, "-get"), "-post")
	port := e.Ports[base]
	s := e.ka()
	switch base {
	case "tcp", "gnet", "tls":
		key := base + "/" + client
		s.mu.Lock()
		st := s.streams[key]
		if st == nil {
			st = &kaStream{}
			s.streams[key] = st
		}
		s.mu.Unlock()
		st.mu.Lock()
		defer st.mu.Unlock()
		for attempt := 0; attempt < 2; attempt++ {
			if st.c == nil {
				d := &net.Dialer{Timeout: time.Second}
				if ip := srcOf(client); ip != nil {
					d.LocalAddr = &net.TCPAddr{IP: ip}
				}
				var c net.Conn
				var err error
				if base == "tls" {
					c, err = tls.DialWithDialer(d, "tcp", fmt.Sprintf("127.0.0.1:%d", port), &tls.Config{InsecureSkipVerify: true})
				} else {
					c, err = d.Dial("tcp", fmt.Sprintf("127.0.0.1:%d", port))
				}
				if err != nil {
					return nil, "dial-error"
				}
				st.c = c
			}
			f := binary.BigEndian.AppendUint16(nil, uint16(len(wire)))
			st.c.SetDeadline(time.Now().Add(timeout))
			_, werr := st.c.Write(append(f, wire...))
			var hdr [2]byte
			var body []byte
			var rerr error
			if werr == nil {
				if _, rerr = io.ReadFull(st.c, hdr[:]); rerr == nil {
					body = make([]byte, binary.BigEndian.Uint16(hdr[:]))
					_, rerr = io.ReadFull(st.c, body)
					if rerr != nil {
						st.c.Close()
						st.c = nil
						return nil, "short-frame"
					}
				}
			}
			if werr != nil || rerr != nil {
				// closed by the listener (idle time-out / a query it would not decode) or timed out
				st.c.Close()
				st.c = nil
				if ne, ok := rerr.(net.Error); ok && ne.Timeout() {
					return nil, "no-response"
				}
				continue
			}
			// anything more on the connection within the grace period would be a second response
			st.c.SetReadDeadline(time.Now().Add(grace))
			var extra [1]byte
			if n, _ := st.c.Read(extra[:]); n > 0 {
				st.c.Close()
				st.c = nil
				return [][]byte{body, extra[:]}, "ok"
			}
			return [][]byte{body}, "ok"
		}
		return nil, "no-response"
	case "http", "fasthttp", "https":
		s.mu.Lock()
		cl := s.clients[base]
		if cl == nil {
			tr := &http.Transport{MaxIdleConnsPerHost: 2, IdleConnTimeout: 30 * time.Second}
			if base == "https" {
				tr = &http.Transport{ForceAttemptHTTP2: true, TLSClientConfig: &tls.Config{InsecureSkipVerify: true}, IdleConnTimeout: 30 * time.Second}
			}
			cl = &http.Client{Transport: tr}
			s.clients[base] = cl
		}
		s.mu.Unlock()
		scheme := "http"
		if base == "https" {
			scheme = "https"
		}
		u := fmt.Sprintf("%s://127.0.0.1:%d%s", scheme, port, urlPath)
		var req *http.Request
		if strings.HasSuffix(l0, "-get") {
			req, _ = http.NewRequest("GET", u+"?"+qpre+"dns="+B64(wire)+qsuf, nil)
			req.Header.Set("Accept", "application/dns-message")
		} else {
			req, _ = http.NewRequest("POST", u, bytes.NewReader(wire))
			req.Header.Set("Content-Type", "application/dns-message")
		}
		if client != "" && client != "-" {
			req.Header.Set("X-Verif-Client", client)
		}
		ctx, cancel := context.WithTimeout(context.Background(), timeout)
		defer cancel()
		resp, err := cl.Do(req.WithContext(ctx))
		if err != nil {
			return nil, "no-response"
		}
		defer resp.Body.Close()
		body, _ := io.ReadAll(resp.Body)
		if resp.StatusCode != 200 {
			return nil, fmt.Sprintf("http-%d", resp.StatusCode)
		}
		return [][]byte{body}, "ok"
	case "quic":
		key := "quic/" + client
		s.mu.Lock()
		q := s.quics[key]
		if q == nil {
			q = &kaQuic{}
			s.quics[key] = q
		}
		s.mu.Unlock()
		for attempt := 0; attempt < 2; attempt++ {
			q.mu.Lock()
			if q.c == nil {
				ctx, cancel := context.WithTimeout(context.Background(), 2*time.Second)
				tc := &tls.Config{InsecureSkipVerify: true, NextProtos: []string{"doq"}}
				var laddr *net.UDPAddr
				if ip := srcOf(client); ip != nil {
					laddr = &net.UDPAddr{IP: ip}
				} else {
					laddr = &net.UDPAddr{IP: net.IPv4(127, 0, 0, 1)}
				}
				pc, err := net.ListenUDP("udp", laddr)
				if err != nil {
					cancel()
					q.mu.Unlock()
					return nil, "dial-error"
				}
				c, err := quic.Dial(ctx, pc, &net.UDPAddr{IP: net.IPv4(127, 0, 0, 1), Port: port}, tc, &quic.Config{KeepAlivePeriod: 2 * time.Second})
				cancel()
				if err != nil {
					pc.Close()
					q.mu.Unlock()
					return nil, "dial-error"
				}
				q.c, q.pc = c, pc
			}
			c := q.c
			q.mu.Unlock()
			ctx, cancel := context.WithTimeout(context.Background(), timeout)
			st, err := c.OpenStreamSync(ctx)
			if err != nil {
				cancel()
				q.mu.Lock()
				if q.c == c {
					c.CloseWithError(0, "")
					q.pc.Close()
					q.c, q.pc = nil, nil
				}
				q.mu.Unlock()
				continue
			}
			f := binary.BigEndian.AppendUint16(nil, uint16(len(wire)))
			st.Write(append(f, wire...))
			st.Close()
			st.SetReadDeadline(time.Now().Add(timeout))
			var out [][]byte
			status := "ok"
			for {
				hdr := make([]byte, 2)
				if _, err := io.ReadFull(st, hdr); err != nil {
					break
				}
				body := make([]byte, binary.BigEndian.Uint16(hdr))
				if _, err := io.ReadFull(st, body); err != nil {
					status = "short-frame"
					break
				}
				out = append(out, body)
				st.SetReadDeadline(time.Now().Add(grace + 20*time.Millisecond))
			}
			st.CancelRead(0)
			cancel()
			if status != "ok" {
				return out, status
			}
			if len(out) == 0 {
				if c.Context().Err() != nil && attempt == 0 {
					// the connection went away under us (idle time-out of the listener): once more on a new one
					q.mu.Lock()
					if q.c == c {
						q.pc.Close()
						q.c, q.pc = nil, nil
					}
					q.mu.Unlock()
					continue
				}
				return nil, "no-response"
			}
			return out, "ok"
		}
		return nil, "no-response"
	default:
		return e.Query(l, wire, client, timeout, grace)
	}
}
