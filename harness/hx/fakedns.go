// Package hx: helpers shared by the harness drivers (fake DNS peers, wire helpers).
package hx

import (
	"encoding/binary"
	"encoding/hex"
	"fmt"
	"strings"
)

// BuildQuery builds a plain one-question query.
func BuildQuery(id uint16, name []byte, typ, class uint16, rd bool) []byte {
	b := make([]byte, 12, 12+len(name)+5)
	binary.BigEndian.PutUint16(b[0:], id)
	if rd {
		b[2] = 1
	}
	binary.BigEndian.PutUint16(b[4:], 1)
	b = append(b, name...)
	b = append(b, 0)
	b = binary.BigEndian.AppendUint16(b, typ)
	b = binary.BigEndian.AppendUint16(b, class)
	return b
}

// QuestionEnd returns the offset just after the first question of q (no pointers expected), or -1.
func QuestionEnd(q []byte) int {
	if len(q) < 12 {
		return -1
	}
	off := 12
	for {
		if off >= len(q) {
			return -1
		}
		l := int(q[off])
		off++
		if l == 0 {
			break
		}
		if l&0xC0 != 0 {
			return -1
		}
		off += l
	}
	if off+4 > len(q) {
		return -1
	}
	return off + 4
}

// BuildReply echoes the header id + first question of q, sets QR, optional TC, rcode, and appends
// one A record (owner = pointer to the question name) whose address is mark.
func BuildReply(q []byte, tc bool, rcode byte, mark [4]byte, ttl uint32) []byte {
	qe := QuestionEnd(q)
	if qe < 0 {
		return nil
	}
	r := make([]byte, 0, qe+16)
	r = append(r, q[:qe]...)
	r[2] = 0x80 | (q[2] & 0x79) // QR, keep opcode+RD
	if tc {
		r[2] |= 0x02
	}
	r[3] = 0x80 | (rcode & 0x0F)
	binary.BigEndian.PutUint16(r[4:], 1)
	binary.BigEndian.PutUint16(r[6:], 1)
	binary.BigEndian.PutUint16(r[8:], 0)
	binary.BigEndian.PutUint16(r[10:], 0)
	r = append(r, 0xC0, 0x0C)
	r = binary.BigEndian.AppendUint16(r, 1)
	r = binary.BigEndian.AppendUint16(r, 1)
	r = binary.BigEndian.AppendUint32(r, ttl)
	r = binary.BigEndian.AppendUint16(r, 4)
	r = append(r, mark[:]...)
	return r
}

func Hex(b []byte) string {
	if len(b) == 0 {
		return "-"
	}
	return hex.EncodeToString(b)
}

func UnHex(s string) ([]byte, error) {
	if s == "-" || s == "" {
		return []byte{}, nil
	}
	return hex.DecodeString(s)
}

// Fields parses "k=v k=v" into a map.
func Fields(parts []string) map[string]string {
	m := make(map[string]string, len(parts))
	for _, p := range parts {
		k, v, ok := strings.Cut(p, "=")
		if ok {
			m[k] = v
		}
	}
	return m
}

func MustAtoi(s string) int {
	var n int
	_, err := fmt.Sscanf(s, "%d", &n)
	if err != nil {
		panic("bad int " + s)
	}
	return n
}
