#!/usr/bin/env python3
# Regenerates the hand-picked boundary catalogue of C11 (run from this directory). Hex only encodes the
# byte strings written below; nothing is random.
import binascii

def hx(b): return binascii.hexlify(b).decode() if b else "-"
def hl(bs): return ",".join(hx(b) for b in bs) if bs else "none"
def raw(*labels): return b"".join(bytes([len(l)]) + l for l in labels)
def name(s): return raw(*[l for l in s.split(b".") if l])

def add(i, rules, probes, lower=1): return "%s mode=add rules=%s probes=%s lower=%d" % (i, hl(rules), hl(probes), lower)
def load(i, text, probes, lower=1): return "%s mode=load text=%s probes=%s lower=%d" % (i, hx(text), hl(probes), lower)

def w(fn, head, kind, lines):
    with open(fn, "w") as f:
        f.write("# %s\n#kind=%s\n" % (head, kind))
        f.write("\n".join(lines) + "\n")

N = name
w("d4-order.case", "D4: a broader entry must keep matching when a narrower one is added later (and in every order)", "matcher", [
    add("d4_parent_then_child", [b"com", b"a.com"], [N(b"com"), N(b"b.com"), N(b"a.com"), N(b"x.a.com"), N(b"org")]),
    add("d4_child_then_parent", [b"a.com", b"com"], [N(b"com"), N(b"b.com"), N(b"a.com"), N(b"x.a.com"), N(b"org")]),
    add("d4_deep", [b"b.c", b"a.b.c", b"x.y.a.b.c", b"c"], [N(b"c"), N(b"b.c"), N(b"z.b.c"), N(b"q.c"), N(b"a.b.c"), N(b"b")]),
    add("d4_dups", [b"a.com", b"a.com", b"com", b"com", b"a.com"], [N(b"com"), N(b"b.com"), N(b"a.com")]),
    add("d4_sibling", [b"a.com", b"b.com", b"c.a.com"], [N(b"com"), N(b"a.com"), N(b"b.com"), N(b"c.com"), N(b"x.a.com"), N(b"c.a.com")]),
    add("d4_root_first", [b".", b"a.com"], [N(b"com"), b"", N(b"zzz"), b"\x05ab"]),
    add("d4_root_last", [b"a.com", b"."], [N(b"com"), b"", N(b"zzz"), b"\x05ab"]),
    load("d4_file", b"com\nwww.example.com\nexample.com\n", [N(b"com"), N(b"example.com"), N(b"x.com"), N(b"www.example.com")]),
])
w("d5-key.case", "D5: labels differing only in trailing NUL octets (and 24/25-octet labels) are different labels", "matcher", [
    add("d5_nul_probe", [b"example"], [raw(b"example\0"), raw(b"example"), raw(b"example\0\0"), raw(b"a", b"example\0")]),
    add("d5_nul_entry", [b"example\0"], [raw(b"example\0"), raw(b"example"), raw(b"example\0\0")]),
    add("d5_nul_both", [b"example\0.com", b"example.com"], [raw(b"example\0", b"com"), raw(b"example", b"com"), raw(b"example\0\0", b"com")]),
    add("d5_23_24_25", [b"a" * 23, b"b" * 24, b"c" * 25], [raw(b"a" * 23), raw(b"a" * 23 + b"\0"), raw(b"a" * 24), raw(b"b" * 24), raw(b"b" * 24 + b"\0"),
                                                        raw(b"b" * 23), raw(b"c" * 25), raw(b"c" * 24), raw(b"c" * 25 + b"\0")]),
    add("d5_long", [b"d" * 63, b"e" * 62 + b"\0"], [raw(b"d" * 63), raw(b"d" * 62), raw(b"e" * 62), raw(b"e" * 62 + b"\0")]),
    add("d5_nul_only", [b"\0"], [raw(b"\0"), raw(b"\0\0"), raw(b"a")]),
    add("d5_subtree", [b"x.example", b"y.example\0"], [raw(b"x", b"example"), raw(b"x", b"example\0"), raw(b"y", b"example"), raw(b"y", b"example\0")]),
])
w("d6-text.case", "D6: regexp rules see the escaped text form (\\DDD for other octets, \\. and \\\\)", "matcher", [
    add("d6_dmarc", [b"regexp:^\\\\095dmarc\\.example$"], [raw(b"_dmarc", b"example"), raw(b"95dmarc", b"example"), raw(b"\\095dmarc", b"example")]),
    add("d6_bare_decimal", [b"regexp:^95dmarc$"], [raw(b"_dmarc"), raw(b"95dmarc")]),
    add("d6_nul", [b"regexp:^a\\\\000$"], [raw(b"a\0"), raw(b"a0"), raw(b"a000")]),
    add("d6_dot_backslash", [b"regexp:^a\\\\\\.b\\.c\\\\\\\\d$"], [raw(b"a.b", b"c\\d"), raw(b"a", b"b", b"c\\d")]),
    add("d6_root_text", [b"regexp:^\\.$"], [b"", raw(b"."), raw(b"a")]),
    add("d6_contains", [b"regexp:le\\.co", b"regexp:^www", b"regexp:org$"], [N(b"example.com"), N(b"www.x"), N(b"x.org"), N(b"lexco"), N(b"xwww.y"), N(b"org.x")]),
    add("d6_high", [b"regexp:^\\\\255\\\\128$"], [raw(b"\xff\x80"), raw(b"255128")]),
])
w("d7-empty.case", "D7: an empty expression means the root (domain: / full: / a lone dot)", "matcher", [
    add("d7_domain_empty", [b"domain:"], [N(b"com"), b"", N(b"a.b")]),
    add("d7_full_empty", [b"full:"], [N(b"com"), b""]),
    add("d7_colon_only", [b":"], [N(b"com"), b""]),
    add("d7_dot", [b"full:.", b"x"], [N(b"com"), b"", N(b"x")]),
    load("d7_file", b"com\ndomain: # everything\n", [N(b"com"), N(b"org"), b""]),
])
w("loader.case", "loader: comments, blank lines, CRLF, padding, case folding, rejected rules, prefixes", "matcher", [
    load("ld_comments", b"# head\n\n  \t\nCOM # tld\n#org\n full:WWW.Example.ORG.\r\nDomain.Suffix\r\n", [N(b"com"), N(b"x.com"), N(b"org"), N(b"www.example.org"), N(b"a.www.example.org"), N(b"domain.suffix")]),
    load("ld_no_final_newline", b"a.b\nc.d", [N(b"a.b"), N(b"c.d"), N(b"d")]),
    load("ld_stop_at_error", b"a.b\nbogus:x\nc.d\n", [N(b"a.b"), N(b"c.d")]),
    load("ld_hash_in_rule", b"full:a#b.com\n", [N(b"a"), N(b"a#b.com")]),
    load("ld_empty", b"", [N(b"a"), b""]),
    load("ld_only_cr", b"\r\n\r\ncom\r\n", [N(b"com")]),
    add("case_fold", [b"CAP.SUFFIX", b"full:Full.FULL", b"regexp:^UP"], [N(b"cap.suffix"), N(b"x.cap.suffix"), N(b"full.full"), N(b"up.x"), N(b"CAP.SUFFIX"), N(b"Full.FULL")], lower=0),
    add("case_fold_probe", [b"cap.suffix"], [N(b"X.CAP.SUFFIX"), N(b"Cap.Suffix")], lower=1),
    add("case_nonletters", [b"@[`{.com"], [raw(b"@[`{", b"com"), raw(b"\x60\x7b\x40\x5b", b"com")], lower=1),
    add("rejects", [b"bogus:a", b"regexp:(", b"a" * 64, b".".join([b"c" * 63] * 4), b"Domain:x", b"full", b"regexp:"], [N(b"a"), N(b"full"), N(b"x")]),
    add("len_253", [b".".join([b"c" * 63] * 3 + [b"d" * 61]), b".".join([b"c" * 63] * 3 + [b"d" * 62])], [raw(b"c" * 63, b"c" * 63, b"c" * 63, b"d" * 61), raw(b"c" * 63, b"c" * 63, b"c" * 63, b"d" * 62)]),
    add("empty_labels", [b"a..com", b".org", b"full:x..", b"domain:.."], [N(b"a.com"), raw(b"a", b".com"), N(b"org"), raw(b".org"), raw(b"x", b"."), raw(b"."), b""]),
    add("full_vs_domain", [b"full:a.b", b"domain:c.d"], [N(b"a.b"), N(b"x.a.b"), N(b"b"), N(b"c.d"), N(b"x.c.d")]),
    add("bad_probes", [b"com", b"full:com"], [b"\x03com\x00", b"\x05ab", b"\x00", b"\x40" + b"a" * 64, raw(*([b"a" * 63] * 4)), N(b"com")]),
    add("regexp_dup", [b"regexp:^a$", b"regexp:^a$", b"regexp:b"], [N(b"a"), N(b"b"), N(b"c")]),
    add("regexp_only_bad_name", [b"regexp:a"], [b"\x05ab", N(b"a")]),
    add("colon_in_label", [b"domain:a:b", b"full:c:d.e"], [raw(b"a:b"), raw(b"c:d", b"e")]),
])
rd = []
for i, n in enumerate([b"", raw(b"_dmarc"), raw(b"a\0"), raw(b"a.b", b"c\\d"), raw(b"\xff"), raw(b"AZaz09-"), raw(b"\x2f\x3a\x40\x5b\x60\x7b"),
                       raw(b"a" * 63, b"b"), b"\x05ab", b"\x00", b"\x40" + b"a" * 64, raw(*([b"a" * 63] * 4)), raw(*([b"a" * 62] * 4)) + b"\x01b",
                       raw(b"\xff" * 63, b"\xff" * 63, b"\xff" * 63, b"\xff" * 61), raw(b"Z", b"z", b"A", b"[", b"@")]):
    rd.append("rd%d op=readable name=%s" % (i, hx(n)))
    rd.append("lw%d op=lower name=%s" % (i, hx(n)))
for i, s in enumerate([b"", b".", b"..", b"a", b"a.", b"a..", b".a", b"a..b", b"a.b.c.", b"\\.", b"\\095", b"a" * 63, b"a" * 64,
                       b".".join([b"c" * 63] * 3 + [b"d" * 61]), b".".join([b"c" * 63] * 3 + [b"d" * 62]), b".".join([b"c" * 63] * 3 + [b"d" * 61]) + b".",
                       b"A.b", b"\0.\0"]):
    rd.append("pr%d op=parse s=%s" % (i, hx(s)))
w("readable.case", "text form / parser / lower-casing boundaries (D6, D7 direct)", "readable", rd)
